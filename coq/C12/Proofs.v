(* C12 — secrecy: what the attacker (the underlying provider) can derive from the call log. *)
From Coq Require Import List NArith Bool Lia.
Import ListNotations.
From VF Require Import C11.Model C12.Model.
Local Open Scope N_scope.

(* ---------- attacker derivability (Dolev-Yao closure over the term algebra) ---------- *)
Inductive derivable (K : list term) : term -> Prop :=
| d_known t : In t K -> derivable K t
| d_lit n : derivable K (Lit n)
| d_nil : derivable K Nil
| d_rnd n : derivable K (Rnd n)
| d_pair a b : derivable K a -> derivable K b -> derivable K (Pair a b)
| d_fst a b : derivable K (Pair a b) -> derivable K a
| d_snd a b : derivable K (Pair a b) -> derivable K b
| d_enc e t : derivable K t -> derivable K (Enc e t)
| d_dec e t : derivable K (Enc e t) -> derivable K t                  (* every encoding is reversible *)
| d_mac k m : derivable K k -> derivable K m -> derivable K (Mac k m)
| d_trunc t : derivable K t -> derivable K (Trunc t)
| d_aenc k m : derivable K k -> derivable K m -> derivable K (AEnc k m)
| d_adec k m : derivable K (AEnc k m) -> derivable K k -> derivable K m
| d_pkenc r m : derivable K m -> derivable K (PkEnc r m)             (* public keys are public *)
| d_pkdec r m : derivable K (PkEnc r m) -> derivable K (Priv r) -> derivable K m.

(* [ok c t]: t may be handed to the provider — no application string, no configured key and no content key occurs
   in it outside a MAC under the configured MAC key or a ciphertext under a content key that is itself wrapped for
   the configured recipient.  Keys of OTHER parties are allowed (the attacker may own them). *)
Fixpoint ok (c : fcfg) (t : term) : bool :=
  match t with
  | App _ _ | Cek _ => false
  | MacKey i => negb (N.eqb i (f_mac c))
  | Priv r => negb (N.eqb r (f_rcp c))
  | Lit _ | Rnd _ | Nil => true
  | Mac k m | AEnc k m => negb (ok c k) || ok c m
  | Trunc t | Enc _ t => ok c t
  | PkEnc r m => N.eqb r (f_rcp c) || ok c m
  | Pair a b => ok c a && ok c b
  end.

Lemma ok_derivable c K : (forall t, In t K -> ok c t = true) -> forall t, derivable K t -> ok c t = true.
Proof.
  intros HK t H. induction H; cbn in *; auto.
  - rewrite IHderivable1, IHderivable2; reflexivity.
  - apply andb_true_iff in IHderivable; tauto.
  - apply andb_true_iff in IHderivable; tauto.
  - rewrite IHderivable2. apply orb_true_r.
  - rewrite IHderivable2. apply orb_true_r.
  - rewrite IHderivable2 in IHderivable1. exact IHderivable1.
  - rewrite IHderivable. apply orb_true_r.
  - apply negb_true_iff in IHderivable2. rewrite IHderivable2 in IHderivable1. exact IHderivable1.
Qed.

(* ---------- the invariant ---------- *)
Definition tag_ok (c : fcfg) (t : ttag) : bool := ok c (fst t) && ok c (snd t).
Definition tags_ok (c : fcfg) (l : list ttag) : bool := forallb (tag_ok c) l.
Definition oopt_ok (c : fcfg) (o : option term) : bool := match o with Some t => ok c t | None => true end.
Definition call_ok (c : fcfg) (x : call) : bool := forallb (ok c) (call_terms x).
Definition calls_ok (c : fcfg) (l : list call) : bool := forallb (call_ok c) l.
Definition entry_ok (c : fcfg) (ke : term * uentry) : bool :=
  ok c (fst ke) && ok c (fst (snd ke)) && tags_ok c (snd (snd ke)).
Definition store_ok (c : fcfg) (s : ustore) : bool := forallb (entry_ok c) s.
Definition uop_ok (c : fcfg) (o : uop) : bool := ok c (fst (fst o)) && oopt_ok c (snd (fst o)) && tags_ok c (snd o).

Lemma calls_ok_app c a b : calls_ok c (a ++ b) = calls_ok c a && calls_ok c b.
Proof. apply forallb_app. Qed.

Lemma calls_ok_one c x : calls_ok c [x] = call_ok c x.
Proof. unfold calls_ok. cbn [forallb]. apply andb_true_r. Qed.

Lemma tag_terms_ok c l : forallb (ok c) (tag_terms l) = tags_ok c l.
Proof. unfold tag_terms. induction l as [|t r IH]; cbn; [reflexivity|]. rewrite IH. unfold tag_ok. rewrite andb_assoc. reflexivity. Qed.

Lemma uop_terms_ok c o : forallb (ok c) (uop_terms o) = uop_ok c o.
Proof.
  destruct o as [[k v] tags]. unfold uop_terms, uop_ok; cbn. rewrite forallb_app, tag_terms_ok.
  destruct v; cbn; rewrite ?andb_true_r, ?andb_assoc; reflexivity.
Qed.

Lemma batch_ok c i ops : call_ok c (CBatch i ops) = forallb (uop_ok c) ops.
Proof.
  unfold call_ok. cbn [call_terms]. induction ops as [|o r IH]; [reflexivity|].
  cbn [flat_map forallb]. rewrite forallb_app, uop_terms_ok, IH. reflexivity.
Qed.

Lemma put_ok c i k v tags : call_ok c (CPut i k v tags) = ok c k && ok c v && tags_ok c tags.
Proof. unfold call_ok; cbn. rewrite tag_terms_ok, andb_assoc. reflexivity. Qed.

(* --- the formatter only produces hidden things --- *)
Lemma mac64_ok c m : ok c (mac64 c m) = true.
Proof. cbn. rewrite N.eqb_refl. reflexivity. Qed.
Lemma det_id_ok c k : ok c (det_id c k) = true.
Proof. cbn. rewrite N.eqb_refl. reflexivity. Qed.
Lemma fmt_tag_ok c t : tag_ok c (fmt_tag c t) = true.
Proof. unfold tag_ok, fmt_tag. cbn [fst snd]. rewrite mac64_ok. destruct (is_empty (snd t)); [reflexivity|apply mac64_ok]. Qed.
Lemma fmt_tags_ok c l : tags_ok c (map (fmt_tag c) l) = true.
Proof. induction l; cbn; [reflexivity|]. rewrite fmt_tag_ok; assumption. Qed.
Lemma tlist_tags_ok c l : tags_ok c l = true -> ok c (tlist (map tpair l)) = true.
Proof. unfold tlist. induction l as [|t r IH]; cbn; [reflexivity|]. intro H. apply andb_true_iff in H as [H1 H2]. rewrite IH by assumption. unfold tag_ok in H1. rewrite H1. reflexivity. Qed.
Lemma jwe_ok c n m : ok c (jwe c n m) = true.
Proof. cbn. rewrite N.eqb_refl. reflexivity. Qed.
Lemma mkdoc_ok c id idx j : ok c id = true -> tags_ok c idx = true -> ok c j = true -> ok c (mkdoc id idx j) = true.
Proof. intros H1 H2 H3. unfold mkdoc. cbn [ok]. rewrite H1, H3, tlist_tags_ok by assumption. reflexivity. Qed.

Lemma format_ok c nx k v tags nx' id doc ft :
  format c nx k v tags = (nx', (id, doc, ft)) -> oopt_ok c id = true /\ oopt_ok c doc = true /\ tags_ok c ft = true.
Proof.
  unfold format. intro H.
  destruct (f_det c); destruct k, v; inversion H; subst; cbn [oopt_ok];
    repeat split; try apply fmt_tags_ok; try reflexivity; try apply det_id_ok;
    try (apply mkdoc_ok; [try apply det_id_ok; reflexivity|apply fmt_tags_ok|apply jwe_ok]).
Qed.

(* --- the underlying store only ever holds what it was given --- *)
Lemma u_remove_ok c s k : store_ok c s = true -> store_ok c (u_remove s k) = true.
Proof.
  induction s as [|[k' e] r IH]; cbn; [auto|]. intro H. apply andb_true_iff in H as [H1 H2].
  destruct (term_eqb k k'); [auto|]. cbn. rewrite H1. auto.
Qed.
Lemma u_put_ok c s k v tags : store_ok c s = true -> ok c k = true -> ok c v = true -> tags_ok c tags = true ->
  store_ok c (u_put s k (v, tags)) = true.
Proof.
  intros Hs Hk Hv Ht. unfold u_put, store_ok. cbn [forallb]. fold (store_ok c (u_remove s k)).
  rewrite u_remove_ok by assumption. unfold entry_ok. cbn [fst snd]. rewrite Hk, Hv, Ht. reflexivity.
Qed.
Lemma u_query_ok c s n v : store_ok c s = true -> store_ok c (u_query s n v) = true.
Proof.
  unfold u_query, store_ok. intro H. apply forallb_forall. intros x Hx. apply filter_In in Hx as [Hx _].
  rewrite forallb_forall in H. auto.
Qed.
Lemma u_lookup_ok c s k e : store_ok c s = true -> u_lookup s k = Some e -> ok c (fst e) = true /\ tags_ok c (snd e) = true.
Proof.
  induction s as [|[k' e'] r IH]; cbn; [discriminate|]. intros H HL. apply andb_true_iff in H as [H1 H2].
  destruct (term_eqb k k').
  - inversion HL; subst. unfold entry_ok in H1. cbn in H1. apply andb_true_iff in H1 as [H1 H3].
    apply andb_true_iff in H1 as [_ H1]. auto.
  - auto.
Qed.
Lemma u_apply_ok c s o : store_ok c s = true -> uop_ok c o = true -> store_ok c (u_apply s o) = true.
Proof.
  destruct o as [[k v] tags]. unfold u_apply, uop_ok. cbn. intros Hs H.
  apply andb_true_iff in H as [H H3]. apply andb_true_iff in H as [H1 H2].
  destruct v; [apply u_put_ok; assumption|apply u_remove_ok; assumption].
Qed.
Lemma u_apply_all_ok c ops : forall s, store_ok c s = true -> forallb (uop_ok c) ops = true ->
  store_ok c (fold_left u_apply ops s) = true.
Proof.
  induction ops as [|o r IH]; cbn; [auto|]. intros s Hs H. apply andb_true_iff in H as [H1 H2].
  apply IH; [apply u_apply_ok; assumption|assumption].
Qed.

Lemma found_one_ok c fk e : store_ok c [(fk, e)] = true -> ok c fk = true.
Proof. cbn. unfold entry_ok. cbn. intro H. rewrite andb_true_r in H. apply andb_true_iff in H as [H _]. apply andb_true_iff in H as [H _]. exact H. Qed.

(* --- formatStore operations --- *)
Section StoreOps.
  Variable c : fcfg.
  Variable i : sid.

  Lemma key_query_ok s nx kt nx' found l :
    store_ok c s = true -> key_query c i s nx kt = (nx', found, l) ->
    store_ok c found = true /\ calls_ok c l = true.
  Proof.
    intros Hs H. unfold key_query in H.
    destruct (format c nx None None [key_tag kt]) as [nx1 [[id doc] ft]] eqn:HF.
    apply format_ok in HF as (_ & _ & Hft).
    destruct ft as [|f [|f2 r]]; inversion H; subst; cbn; auto.
    cbn in Hft. rewrite andb_true_r in Hft. unfold tag_ok in Hft. apply andb_true_iff in Hft as [H1 H2].
    split; [apply u_query_ok; assumption|]. unfold call_ok; cbn. rewrite H1, H2. reflexivity.
  Qed.

  Lemma fs_put_ok s nx kt vt tags s' nx' x l :
    store_ok c s = true -> fs_put c i s nx kt vt tags = (s', nx', x, l) ->
    store_ok c s' = true /\ calls_ok c l = true.
  Proof.
    intros Hs H. unfold fs_put in H. destruct (f_det c).
    - destruct (format c nx (Some kt) (Some vt) tags) as [nx1 [[id doc] ft]] eqn:HF.
      apply format_ok in HF as (Hid & Hdoc & Hft).
      destruct id, doc; inversion H; subst; auto. cbn in Hid, Hdoc.
      split; [apply u_put_ok; assumption|]. rewrite calls_ok_one, put_ok, Hid, Hdoc, Hft. reflexivity.
    - destruct (key_query c i s nx kt) as [[nx1 found] l1] eqn:HQ.
      apply key_query_ok in HQ as [Hfound Hl1]; [|assumption].
      destruct (format c nx1 (Some kt) (Some vt) (tags ++ [key_tag kt])) as [nx2 [[id doc] ft]] eqn:HF.
      apply format_ok in HF as (Hid & Hdoc & Hft).
      destruct found as [|[fk e] [|e2 r]].
      + destruct id, doc; inversion H; subst; auto. cbn in Hid, Hdoc.
        split; [apply u_put_ok; assumption|]. rewrite calls_ok_app, Hl1, calls_ok_one, put_ok, Hid, Hdoc, Hft. reflexivity.
      + apply found_one_ok in Hfound. destruct doc; inversion H; subst; auto. cbn in Hdoc.
        split; [apply u_put_ok; assumption|]. rewrite calls_ok_app, Hl1, calls_ok_one, put_ok, Hfound, Hdoc, Hft. reflexivity.
      + inversion H; subst; auto.
  Qed.

  Lemma fs_find_ok s nx kt nx' found l :
    store_ok c s = true -> fs_find c i s nx kt = (nx', found, l) -> calls_ok c l = true.
  Proof.
    intros Hs H. unfold fs_find in H. destruct (f_det c).
    - inversion H; subst. reflexivity.
    - apply key_query_ok in H as [_ H]; assumption.
  Qed.

  Lemma get_call_ok kt : calls_ok c [CGet i (det_id c kt)] = true.
  Proof. unfold calls_ok, call_ok; cbn. rewrite N.eqb_refl. reflexivity. Qed.

  Lemma fs_get_ok s nx kt nx' x l :
    store_ok c s = true -> fs_get c i s nx kt = (nx', x, l) -> calls_ok c l = true.
  Proof.
    intros Hs H. unfold fs_get in H.
    destruct (fs_find c i s nx kt) as [[nx1 found] l1] eqn:HQ. apply fs_find_ok in HQ; [|assumption].
    assert (HL : calls_ok c (if f_det c then [CGet i (det_id c kt)] else l1) = true)
      by (destruct (f_det c); [apply get_call_ok|assumption]).
    destruct found as [|[fk [doc tg]] [|e2 r]]; inversion H; subst; assumption.
  Qed.

  Lemma fs_gettags_ok s nx kt nx' x l :
    store_ok c s = true -> fs_gettags c i s nx kt = (nx', x, l) -> calls_ok c l = true.
  Proof.
    intros Hs H. unfold fs_gettags in H.
    destruct (fs_find c i s nx kt) as [[nx1 found] l1] eqn:HQ. apply fs_find_ok in HQ; [|assumption].
    destruct found as [|[fk [doc tg]] [|e2 r]]; inversion H; subst; try assumption;
      destruct (f_det c); try assumption; unfold calls_ok, call_ok; cbn; rewrite N.eqb_refl; reflexivity.
  Qed.

  Lemma fs_bulk_rand_ok s : store_ok c s = true -> forall ks nx nx' vs l,
    fs_bulk_rand c i s nx ks = (nx', vs, l) -> calls_ok c l = true.
  Proof.
    intro Hs. induction ks as [|kt r IH]; cbn; intros nx nx' vs l H; [inversion H; reflexivity|].
    destruct (key_query c i s nx kt) as [[nx1 found] l1] eqn:HQ. apply key_query_ok in HQ as [_ Hl1]; [|assumption].
    destruct (value_of_found c found); [|inversion H; subst; assumption].
    destruct (fs_bulk_rand c i s nx1 r) as [[nx2 vs2] l2] eqn:HR. apply IH in HR.
    inversion H; subst. rewrite calls_ok_app, Hl1, HR. reflexivity.
  Qed.

  Lemma det_ids_ok ks : forallb (ok c) (map (det_id c) ks) = true.
  Proof. induction ks; cbn; [reflexivity|]. rewrite N.eqb_refl. assumption. Qed.

  Lemma fs_bulk_ok s nx ks nx' x l :
    store_ok c s = true -> fs_bulk c i s nx ks = (nx', x, l) -> calls_ok c l = true.
  Proof.
    intros Hs H. unfold fs_bulk in H. destruct (f_det c).
    - inversion H; subst. unfold calls_ok, call_ok. cbn [forallb call_terms]. rewrite det_ids_ok. reflexivity.
    - destruct (fs_bulk_rand c i s nx ks) as [[nx1 vs] l1] eqn:HR. apply fs_bulk_rand_ok in HR; [|assumption].
      inversion H; subst; assumption.
  Qed.

  Lemma fs_query_ok s nx parts nx' x l :
    fs_query c i s nx parts = (nx', x, l) -> calls_ok c l = true.
  Proof.
    intro H. unfold fs_query in H.
    destruct parts as [|n [|v [|w r]]]; try (inversion H; subst; reflexivity).
    - destruct (format c nx None None [(n, lit_empty)]) as [nx1 [[id doc] ft]] eqn:HF.
      apply format_ok in HF as (_ & _ & Hft).
      destruct ft as [|f [|f2 r]]; inversion H; subst; try reflexivity.
      cbn in Hft. rewrite andb_true_r in Hft. apply andb_true_iff in Hft as [H1 _].
      unfold calls_ok, call_ok; cbn. rewrite H1. reflexivity.
    - destruct (format c nx None None [(n, v)]) as [nx1 [[id doc] ft]] eqn:HF.
      apply format_ok in HF as (_ & _ & Hft).
      destruct ft as [|f [|f2 r]]; inversion H; subst; try reflexivity.
      cbn in Hft. rewrite andb_true_r in Hft. apply andb_true_iff in Hft as [H1 H2].
      unfold calls_ok, call_ok; cbn. rewrite H1, H2. reflexivity.
  Qed.

  Lemma fs_delete_ok s nx kt s' nx' x l :
    store_ok c s = true -> fs_delete c i s nx kt = (s', nx', x, l) -> store_ok c s' = true /\ calls_ok c l = true.
  Proof.
    intros Hs H. unfold fs_delete in H. destruct (f_det c).
    - inversion H; subst. split; [apply u_remove_ok; assumption|].
      unfold calls_ok, call_ok; cbn. rewrite N.eqb_refl. reflexivity.
    - destruct (key_query c i s nx kt) as [[nx1 found] l1] eqn:HQ. apply key_query_ok in HQ as [Hf Hl1]; [|assumption].
      destruct found as [|[fk e] [|e2 r]]; inversion H; subst; auto.
      apply found_one_ok in Hf. split; [apply u_remove_ok; assumption|].
      rewrite calls_ok_app, Hl1. unfold calls_ok, call_ok; cbn. rewrite Hf. reflexivity.
  Qed.

  Lemma fs_batch_det_ok : forall b nx nx' ops, fs_batch_det c nx b = (nx', ops) -> forallb (uop_ok c) ops = true.
  Proof.
    induction b as [|[[kt v] tags] r IH]; cbn; intros nx nx' ops H; [inversion H; reflexivity|].
    destruct (format c nx (Some kt) v tags) as [nx1 [[id doc] ft]] eqn:HF. apply format_ok in HF as (Hid & Hdoc & Hft).
    destruct (fs_batch_det c nx1 r) as [nx2 rest] eqn:HR. apply IH in HR.
    inversion H; subst. cbn [forallb]. rewrite HR. unfold uop_ok. cbn [fst snd]. rewrite Hdoc, Hft.
    destruct id; cbn [oopt_ok] in Hid; [rewrite Hid|]; reflexivity.
  Qed.

  Definition resolved_ok (m : resolved) : bool := forallb (fun p => oopt_ok c (snd p)) m.
  Lemma r_lookup_ok m kt x : resolved_ok m = true -> r_lookup m kt = Some x -> oopt_ok c x = true.
  Proof.
    induction m as [|[k' y] r IH]; cbn; [discriminate|]. intros H HL. apply andb_true_iff in H as [H1 H2].
    destruct (term_eqb kt k'); [inversion HL; subst; assumption|auto].
  Qed.

  Lemma fs_determine_ok s nx m kt nx' fk l :
    store_ok c s = true -> resolved_ok m = true -> fs_determine c i s nx m kt = (nx', Some fk, l) ->
    oopt_ok c fk = true /\ calls_ok c l = true.
  Proof.
    intros Hs Hm H. unfold fs_determine in H. destruct (r_lookup m kt) as [x|] eqn:HL.
    - inversion H; subst. split; [eapply r_lookup_ok; eassumption|reflexivity].
    - destruct (key_query c i s nx kt) as [[nx1 found] l1] eqn:HQ. apply key_query_ok in HQ as [Hf Hl1]; [|assumption].
      destruct found as [|[k e] [|e2 r]]; inversion H; subst; split; try assumption; try reflexivity.
      cbn. eapply found_one_ok; eassumption.
  Qed.
  Lemma fs_determine_calls_ok s nx m kt nx' fk l :
    store_ok c s = true -> fs_determine c i s nx m kt = (nx', fk, l) -> calls_ok c l = true.
  Proof.
    intros Hs H. unfold fs_determine in H. destruct (r_lookup m kt) as [x|].
    - inversion H; subst. reflexivity.
    - destruct (key_query c i s nx kt) as [[nx1 found] l1] eqn:HQ. apply key_query_ok in HQ as [Hf Hl1]; [|assumption].
      inversion H; subst; assumption.
  Qed.

  Lemma fs_batch_rand_ok s : store_ok c s = true -> forall b nx m nx' ops l,
    resolved_ok m = true -> fs_batch_rand c i s nx m b = (nx', ops, l) ->
    calls_ok c l = true /\ match ops with Some o => forallb (uop_ok c) o = true | None => True end.
  Proof.
    intro Hs. induction b as [|[[kt v] tags] r IH]; cbn; intros nx m nx' ops l Hm H; [inversion H; subst; auto|].
    destruct (fs_determine c i s nx m kt) as [[nx1 fk] l1] eqn:HD.
    pose proof (fs_determine_calls_ok _ _ _ _ _ _ _ Hs HD) as Hl1.
    destruct fk as [fk|]; [|inversion H; subst; auto].
    apply fs_determine_ok in HD as [Hfk _]; try assumption.
    destruct v as [vt|].
    - destruct (format c nx1 (Some kt) (Some vt) (tags ++ [key_tag kt])) as [nx2 [[id doc] ft]] eqn:HF.
      apply format_ok in HF as (Hid & Hdoc & Hft).
      set (used := match fk with Some x => x | None => match id with Some x => x | None => lit_empty end end) in *.
      assert (Hused : ok c used = true) by (subst used; destruct fk; [exact Hfk|destruct id; [exact Hid|reflexivity]]).
      destruct (fs_batch_rand c i s nx2 (r_set m kt (Some used)) r) as [[nx3 rest] l2] eqn:HR.
      apply IH in HR as [Hl2 Hrest]; [|cbn; rewrite Hused; assumption].
      inversion H; subst. rewrite calls_ok_app, Hl1, Hl2. split; [reflexivity|].
      destruct rest; [|exact I]. cbn [forallb]. rewrite Hrest. unfold uop_ok. cbn [fst snd]. rewrite Hused, Hdoc, Hft. reflexivity.
    - destruct fk as [x|].
      + destruct (fs_batch_rand c i s nx1 (r_set m kt None) r) as [[nx2 rest] l2] eqn:HR.
        apply IH in HR as [Hl2 Hrest]; [|cbn; assumption].
        inversion H; subst. rewrite calls_ok_app, Hl1, Hl2. split; [reflexivity|].
        destruct rest; [|exact I]. cbn [app forallb]. rewrite Hrest. unfold uop_ok. cbn [fst snd oopt_ok tags_ok forallb]. cbn [oopt_ok] in Hfk. rewrite Hfk. reflexivity.
      + destruct (fs_batch_rand c i s nx1 m r) as [[nx2 rest] l2] eqn:HR.
        apply IH in HR as [Hl2 Hrest]; [|assumption].
        inversion H; subst. rewrite calls_ok_app, Hl1, Hl2. split; [reflexivity|].
        destruct rest; [|exact I]. cbn. exact Hrest.
  Qed.

  Lemma fs_batch_ok s nx b s' nx' x l :
    store_ok c s = true -> fs_batch c i s nx b = (s', nx', x, l) -> store_ok c s' = true /\ calls_ok c l = true.
  Proof.
    intros Hs H. unfold fs_batch in H. destruct (f_det c).
    - destruct (fs_batch_det c nx b) as [nx1 ops] eqn:HB. apply fs_batch_det_ok in HB.
      assert (HC : calls_ok c [CBatch i ops] = true) by (rewrite calls_ok_one, batch_ok, HB; reflexivity).
      destruct (is_nil ops); inversion H; subst; split; try assumption. apply u_apply_all_ok; assumption.
    - destruct (fs_batch_rand c i s nx [] b) as [[nx1 ops] l1] eqn:HB.
      apply fs_batch_rand_ok in HB as [Hl1 Hops]; [|assumption|reflexivity].
      destruct ops as [ops|]; [|inversion H; subst; auto].
      assert (HC : calls_ok c (l1 ++ [CBatch i ops]) = true) by (rewrite calls_ok_app, Hl1, calls_ok_one, batch_ok, Hops; reflexivity).
      destruct (negb (is_nil b) && is_nil ops); [inversion H; subst; auto|].
      destruct (is_nil ops); inversion H; subst; split; try assumption. apply u_apply_all_ok; assumption.
  Qed.
End StoreOps.

(* ---------- the provider as a whole ---------- *)
Definition inv (c : fcfg) (s : st) : Prop := store_ok c (s_main s) = true /\ store_ok c (s_cfg s) = true.

Lemma open_cfg_ok c s : calls_ok c (open_cfg s) = true.
Proof. unfold open_cfg. destruct (s_cfgopen s); reflexivity. Qed.

Lemma setcfg_ok c i ft : tags_ok c ft = true -> call_ok c (CSetCfg i (map fst ft)) = true.
Proof.
  unfold call_ok. cbn [call_terms]. induction ft as [|f r IH]; cbn [map forallb tags_ok]; [reflexivity|].
  intro H. apply andb_true_iff in H as [Ha Hb]. unfold tag_ok in Ha. apply andb_true_iff in Ha as [Ha _].
  rewrite Ha. auto.
Qed.

Lemma add_sort_ok c t l : ok c t = true -> calls_ok c l = true -> calls_ok c (map (add_sort t) l) = true.
Proof.
  intros Ht. induction l as [|x r IH]; cbn [map calls_ok forallb]; [reflexivity|].
  intro H. apply andb_true_iff in H as [H1 H2]. fold (calls_ok c (map (add_sort t) r)). rewrite IH by assumption.
  rewrite andb_true_r. destruct x; cbn [add_sort]; try assumption.
  unfold call_ok in *. cbn [call_terms forallb] in *. apply andb_true_iff in H1 as [Ha Hb].
  rewrite Ha, forallb_app, Hb. cbn [forallb]. rewrite Ht. reflexivity.
Qed.

Lemma xstep_ok c s o s' x l : inv c s -> xstep Fixed c s o = (s', x, l) -> inv c s' /\ calls_ok c l = true.
Proof.
  intros [Hm Hc] H. unfold xstep in H.
  destruct o as [o|q opts|names|].
  - destruct o.
    + destruct (valid_put k v t); [|inversion H; subst; split; [split; assumption|reflexivity]].
      destruct (fs_put c 0 (s_main s) (s_nx s) (tkey k) (tval v) (map app_tag t)) as [[[m nx] y] l1] eqn:HP.
      apply fs_put_ok in HP as [H1 H2]; [|assumption]. inversion H; subst. split; [split; assumption|assumption].
    + destruct (N.eqb k 0); [inversion H; subst; split; [split; assumption|reflexivity]|].
      destruct (fs_get c 0 (s_main s) (s_nx s) (tkey k)) as [[nx y] l1] eqn:HP.
      apply fs_get_ok in HP; [|assumption]. inversion H; subst. split; [split; assumption|assumption].
    + destruct (N.eqb k 0); [inversion H; subst; split; [split; assumption|reflexivity]|].
      destruct (fs_gettags c 0 (s_main s) (s_nx s) (tkey k)) as [[nx y] l1] eqn:HP.
      apply fs_gettags_ok in HP; [|assumption]. inversion H; subst. split; [split; assumption|assumption].
    + destruct (is_nil ks || has_empty_key ks); [inversion H; subst; split; [split; assumption|reflexivity]|].
      destruct (fs_bulk c 0 (s_main s) (s_nx s) (map tkey ks)) as [[nx y] l1] eqn:HP.
      apply fs_bulk_ok in HP; [|assumption]. inversion H; subst. split; [split; assumption|assumption].
    + destruct (is_nil q); [inversion H; subst; split; [split; assumption|reflexivity]|].
      destruct (fs_query c 0 (s_main s) (s_nx s) (split_colon (expr_toks q) [])) as [[nx y] l1] eqn:HP.
      apply fs_query_ok in HP. inversion H; subst. split; [split; assumption|assumption].
    + destruct (N.eqb k 0); [inversion H; subst; split; [split; assumption|reflexivity]|].
      destruct (fs_delete c 0 (s_main s) (s_nx s) (tkey k)) as [[[m nx] y] l1] eqn:HP.
      apply fs_delete_ok in HP as [H1 H2]; [|assumption]. inversion H; subst. split; [split; assumption|assumption].
    + destruct (has_empty_key (map bop_key b)); [inversion H; subst; split; [split; assumption|reflexivity]|].
      destruct (fs_batch c 0 (s_main s) (s_nx s) (map bop_term b)) as [[[m nx] y] l1] eqn:HP.
      apply fs_batch_ok in HP as [H1 H2]; [|assumption]. inversion H; subst. split; [split; assumption|assumption].
    + inversion H; subst. split; [split; assumption|reflexivity].
    + inversion H; subst. split; [split; [reflexivity|assumption]|reflexivity].
  - destruct (is_nil q); [inversion H; subst; split; [split; assumption|reflexivity]|].
    destruct (fs_query c 0 (s_main s) (s_nx s) (split_colon (expr_toks q) [])) as [[nx y] l1] eqn:HP.
    apply fs_query_ok in HP. inversion H; subst. split; [split; assumption|].
    destruct (last_sort opts None) as [n|]; [|assumption]. destruct (N.eqb n 0); [assumption|].
    apply add_sort_ok; [apply mac64_ok|assumption].
  - destruct (existsb colon_name names); [inversion H; subst; split; [split; assumption|reflexivity]|].
    destruct (format c (s_nx s) None None
                (map (fun n => (tname n, lit_empty)) names ++ (if f_det c then [] else [(lit_keytag, lit_empty)])))
      as [nx1 [[id doc] ft]] eqn:HF.
    apply format_ok in HF as (_ & _ & Hft).
    destruct (fs_put c 1 (s_cfg s) nx1 lit_cfgkey (cfg_value names) []) as [[[m nx2] y] l1] eqn:HP.
    apply fs_put_ok in HP as [H1 H2]; [|assumption]. inversion H; subst. split; [split; assumption|].
    cbn [app]. unfold calls_ok. cbn [forallb]. rewrite forallb_app.
    fold (calls_ok c (open_cfg s)). fold (calls_ok c l1). rewrite open_cfg_ok, H2, setcfg_ok by assumption. reflexivity.
  - unfold fs_get_cfg in H.
    destruct (fs_find c 1 (s_cfg s) (s_nx s) lit_cfgkey) as [[nx1 found] l1] eqn:HQ. apply fs_find_ok in HQ; [|assumption].
    assert (HL : calls_ok c (if f_det c then [CGet 1 (det_id c lit_cfgkey)] else l1) = true)
      by (destruct (f_det c); [apply get_call_ok|assumption]).
    destruct found as [|[fk [doc tg]] [|e2 r]]; inversion H; subst; (split; [split; assumption|]);
      rewrite calls_ok_app, open_cfg_ok, HL; reflexivity.
Qed.

Lemma xrun_ok c : forall ops s s' outs, inv c s -> xrun Fixed c s ops = (s', outs) ->
  inv c s' /\ calls_ok c (flat_map snd outs) = true.
Proof.
  induction ops as [|o r IH]; cbn; intros s s' outs Hi H; [inversion H; subst; auto|].
  destruct (xstep Fixed c s o) as [[s1 x] l] eqn:HS. apply xstep_ok in HS as [Hi1 Hl]; [|assumption].
  destruct (xrun Fixed c s1 r) as [s2 rest] eqn:HR. apply IH in HR as [Hi2 Hrest]; [|assumption].
  inversion H; subst. cbn [flat_map snd]. rewrite calls_ok_app, Hl, Hrest. auto.
Qed.

Lemma calls_ok_terms c l : calls_ok c l = true -> forall t, In t (log_terms l) -> ok c t = true.
Proof.
  intros H t Ht. unfold log_terms in Ht. apply in_flat_map in Ht as (x & Hx & Ht).
  unfold calls_ok in H. rewrite forallb_forall in H. apply H in Hx. unfold call_ok in Hx.
  rewrite forallb_forall in Hx. auto.
Qed.

Lemma inv0 c : inv c st0.
Proof. split; reflexivity. Qed.

Lemma xlog_ok c ops : calls_ok c (xlog Fixed c ops) = true.
Proof.
  unfold xlog. destruct (xrun Fixed c st0 ops) as [s outs] eqn:HR. apply xrun_ok in HR as [_ H]; [|apply inv0].
  cbn. exact H.
Qed.

(* what the attacker may additionally own: MAC keys and private keys of anybody else *)
Definition foreign_keys (c : fcfg) (ks : list term) : Prop :=
  forall t, In t ks -> (exists i, t = MacKey i /\ i <> f_mac c) \/ (exists r, t = Priv r /\ r <> f_rcp c).

Lemma foreign_ok c ks : foreign_keys c ks -> forall t, In t ks -> ok c t = true.
Proof.
  intros H t Ht. destruct (H t Ht) as [(i & -> & Hi)|(r & -> & Hr)]; cbn; apply negb_true_iff, N.eqb_neq; assumption.
Qed.

Lemma secrecy_from c s ops ks t :
  inv c s -> foreign_keys c ks ->
  derivable (ks ++ log_terms (flat_map snd (snd (xrun Fixed c s ops)))) t -> ok c t = true.
Proof.
  intros Hi Hk HD. destruct (xrun Fixed c s ops) as [s' outs] eqn:HR. apply xrun_ok in HR as [_ H]; [|assumption].
  eapply ok_derivable; [|exact HD]. intros u Hu. apply in_app_iff in Hu as [Hu|Hu].
  - eapply foreign_ok; eassumption.
  - eapply calls_ok_terms; eassumption.
Qed.

Lemma secrecy c ops ks t :
  foreign_keys c ks -> derivable (ks ++ log_terms (xlog Fixed c ops)) t -> ok c t = true.
Proof.
  intros Hk HD. eapply ok_derivable; [|exact HD]. intros u Hu. apply in_app_iff in Hu as [Hu|Hu].
  - eapply foreign_ok; eassumption.
  - eapply calls_ok_terms; [apply xlog_ok|eassumption].
Qed.
