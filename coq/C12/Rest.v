(* C12 — the EDV REST provider (component/storage/edv/restprovider.go + restclient.go): the application talks to
   edv.RESTProvider, which formats with the same EncryptedFormatter (prefix = the lower-cased store name) and sends
   HTTP requests to a remote vault server.  What the server is sent — method, path and body of every request — is the
   "underlying provider's view" of this configuration.  Executable model that LOGS every request with every
   argument as a symbolic term; the vault server itself (documents by id, indexed attributes, query, batch) is part
   of the model and is the very server the harness runs behind httptest.  No proofs here.

   Options modelled: WithDeterministicDocumentIDs (f_det), WithFullDocumentsReturnedFromQueries (full),
   WithBatchEndpointExtension (batch).  WithEDVBatchCrypto is ignored by restprovider.go (it calls format, not Format). *)
From Coq Require Import List NArith Bool.
Import ListNotations.
From VF Require Import C11.Model C12.Model.
Local Open Scope N_scope.

(* ---------- the formatter as restStore uses it: keyAndTagPrefix = store name ---------- *)
Definition lit_store : term := Lit 4.                          (* the store name, a public string *)
Definition pre (t : term) : term := Pair lit_store t.          (* prefix ++ t *)
Definition rdet_id (c : fcfg) (k : term) : term := det_id c (pre k).      (* generateDeterministicDocumentID(r.name, key) *)
(* formatTag(r.name, tag): the NAME is prefixed, the value is not *)
Definition rfmt_tag (c : fcfg) (t : ttag) : ttag :=
  (mac64 c (pre (fst t)), if is_empty (snd t) then lit_empty else mac64 c (snd t)).
(* the key tag of the REST provider: spi.Tag{Value: key} (empty name, the key itself as value) *)
Definition rkey_tag (kt : term) : ttag := (lit_empty, kt).
(* formatValue(key, documentID, value, tags, formatTags(tags)) with the n-th content key *)
Definition rdoc (c : fcfg) (n : N) (id kt vt : term) (tags : list ttag) : term :=
  mkdoc id (map (rfmt_tag c) tags) (jwe c n (content kt vt tags)).

(* ---------- the requests the vault server receives ---------- *)
Definition vop := (bool * option term * option term)%type.    (* vaultOperation: upsert?, "id", "document" *)
Inductive rcall :=
| HCreate (doc : term)                                         (* POST /{vault}/documents *)
| HUpdate (id doc : term)                                      (* POST /{vault}/documents/{id} *)
| HRead (id : term)                                            (* GET /{vault}/documents/{id} *)
| HDelete (id : term)                                          (* DELETE /{vault}/documents/{id} *)
| HQuery (eqs : list (list ttag)) (has : option term) (full : bool)   (* POST /{vault}/query {equals, has, returnFullDocuments} *)
| HBatch (ops : list vop).                                     (* POST /{vault}/batch *)

Definition vop_terms (o : vop) : list term := opt_terms (snd (fst o)) ++ opt_terms (snd o).
Definition rcall_terms (x : rcall) : list term :=
  match x with
  | HCreate d => [d]
  | HUpdate i d => [i; d]
  | HRead i | HDelete i => [i]
  | HQuery eqs has _ => flat_map tag_terms eqs ++ opt_terms has
  | HBatch ops => flat_map vop_terms ops
  end.
Definition rlog_terms (l : list rcall) : list term := flat_map rcall_terms l.

(* ---------- the vault server: documents by id, indexed attributes taken from the document ---------- *)
Definition doc_id (d : term) : term := match d with Pair i _ => i | _ => Nil end.
Definition doc_idx (d : term) : list ttag :=
  match d with Pair _ (Pair tl _) => map untpair (untlist tl) | _ => [] end.
Definition sv_put (s : ustore) (id d : term) : ustore := u_put s id (d, doc_idx d).
(* an "equals" pair: attribute name, and value unless the value is blank (TrustBloc: blank = any value) *)
Definition sv_attr (nv : ttag) (idx : list ttag) : bool :=
  existsb (fun t => term_eqb (fst t) (fst nv) && (is_empty (snd nv) || term_eqb (snd t) (snd nv))) idx.
Definition sv_match (eqs : list (list ttag)) (has : option term) (idx : list ttag) : bool :=
  match has with
  | Some h => sv_attr (h, lit_empty) idx
  | None => existsb (fun sub => forallb (fun nv => sv_attr nv idx) sub) eqs
  end.
Definition sv_query (s : ustore) (eqs : list (list ttag)) (has : option term) : ustore :=
  filter (fun ke => sv_match eqs has (snd (snd ke))) s.
Definition sv_apply (s : ustore) (o : vop) : ustore :=
  match o with
  | (true, _, Some d) => sv_put s (doc_id d) d
  | (false, Some i, _) => u_remove s i
  | _ => s
  end.

Inductive fres := FNone | FErr | FDoc (id doc : term).

Section RestStore.
  Variable c : fcfg.
  Variable full : bool.          (* WithFullDocumentsReturnedFromQueries *)
  Variable batch : bool.         (* WithBatchEndpointExtension *)

  (* getDocumentIDViaKeyTagQuery / getFullDocumentViaKeyTagQuery *)
  Definition r_keyq (s : ustore) (kt : term) (fl : bool) : ustore * list rcall :=
    let f := rfmt_tag c (rkey_tag kt) in (sv_query s [[f]] None, [HQuery [[f]] None fl]).

  (* getEncryptedDocumentStoredUnderRandomID: the id used afterwards is the "id" member of the document *)
  Definition r_find_rand (s : ustore) (kt : term) : fres * list rcall :=
    let '(m, l) := r_keyq s kt full in
    match m with
    | [] => (FNone, l)
    | [(id, (d, _))] => (FDoc (doc_id d) d, if full then l else l ++ [HRead id])
    | _ => (FErr, l)
    end.

  Definition r_find (s : ustore) (kt : term) : fres * list rcall :=
    if f_det c then
      (match u_lookup s (rdet_id c kt) with Some (d, _) => FDoc (rdet_id c kt) d | None => FNone end,
       [HRead (rdet_id c kt)])
    else r_find_rand s kt.

  Definition r_get (s : ustore) (kt : term) : out * list rcall :=
    let '(f, l) := r_find s kt in
    (match f with
     | FNone => ONotFound
     | FErr => OErr
     | FDoc _ d => match deformat (f_rcp c) d with Some (_, v, _) => OVal (atomN v) | None => OErr end
     end, l).

  (* filterOutKeyTag(tags, key): drops tags with an empty name whose value is the key *)
  Definition r_drop_key_tag (kt : term) (tags : list ttag) : list ttag :=
    filter (fun t => negb (tag_is t (rkey_tag kt))) tags.

  Definition r_gettags (s : ustore) (kt : term) : out * list rcall :=
    let '(f, l) := r_find s kt in
    (match f with
     | FNone => ONotFound
     | FErr => OErr
     | FDoc _ d => match deformat (f_rcp c) d with
                   | Some (_, _, tags) => OTags (map tagN (if f_det c then tags else r_drop_key_tag kt tags))
                   | None => OErr end
     end, l).

  (* GetBulk = Get per key, in order; the first failure other than "not found" ends it (also an empty key) *)
  Fixpoint r_bulk (s : ustore) (ks : list N) : option (list N) * list rcall :=
    match ks with
    | [] => (Some [], [])
    | k :: r =>
        if N.eqb k 0 then (None, []) else
        let '(f, l1) := r_find s (tkey k) in
        let cont (v : N) := let '(vs, l2) := r_bulk s r in
                            (match vs with Some vs' => Some (v :: vs') | None => None end, l1 ++ l2) in
        match f with
        | FErr => (None, l1)
        | FNone => cont 0
        | FDoc _ d => match deformat (f_rcp c) d with Some (_, v, _) => cont (atomN v) | None => (None, l1) end
        end
    end.

  (* Put after validation; also one put operation of a Batch over the standard endpoints (no validation there) *)
  Definition r_put_core (s : ustore) (nx : N) (kt vt : term) (tags : list ttag) : ustore * N * out * list rcall :=
    if f_det c then
      let id := rdet_id c kt in
      if batch then
        (* storeUsingDeterministicDocumentIDAndBatchEndpoint *)
        let d := rdoc c nx id kt vt tags in
        (sv_put s (doc_id d) d, nx + 1, ODone, [HBatch [(true, Some id, Some d)]])
      else
        (* createOrUpdateDocumentBasedOnDeterministicDocumentID: a new document is created AND then updated *)
        match u_lookup s id with
        | None => let d1 := rdoc c nx id kt vt tags in
                  let d2 := rdoc c (nx + 1) id kt vt tags in
                  (sv_put (sv_put s (doc_id d1) d1) id d2, nx + 2, ODone, [HRead id; HCreate d1; HUpdate id d2])
        | Some _ => let d := rdoc c nx id kt vt tags in (sv_put s id d, nx + 1, ODone, [HRead id; HUpdate id d])
        end
    else
      (* putUsingRandomDocumentID with the key tag appended *)
      let tags' := tags ++ [rkey_tag kt] in
      let '(f, l) := r_find_rand s kt in
      match f with
      | FErr => (s, nx, OErr, l)
      | FNone => let id := Enc 0 (Rnd nx) in
                 let d := rdoc c (nx + 1) id kt vt tags' in
                 (sv_put s (doc_id d) d, nx + 2, ODone, l ++ [HCreate d])
      | FDoc id _ => let d := rdoc c nx id kt vt tags' in (sv_put s id d, nx + 1, ODone, l ++ [HUpdate id d])
      end.

  Definition r_delete_core (s : ustore) (kt : term) : ustore * out * list rcall :=
    if f_det c then (u_remove s (rdet_id c kt), ODone, [HDelete (rdet_id c kt)])
    else
      let '(m, l) := r_keyq s kt false in
      match m with
      | [] => (s, ODone, l)
      | [(id, _)] => (u_remove s id, ODone, l ++ [HDelete id])
      | _ => (s, OErr, l)
      end.

  (* slowBatchUsingStandardEndpoints *)
  Fixpoint r_batch_slow (s : ustore) (nx : N) (b : list (term * option term * list ttag)) : ustore * N * out * list rcall :=
    match b with
    | [] => (s, nx, ODone, [])
    | (kt, v, tags) :: r =>
        let '(s1, nx1, x, l1) :=
          match v with
          | None => let '(s1, x, l) := r_delete_core s kt in (s1, nx, x, l)
          | Some vt => r_put_core s nx kt vt tags
          end in
        match x with
        | ODone => let '(s2, nx2, y, l2) := r_batch_slow s1 nx1 r in (s2, nx2, y, l1 ++ l2)
        | _ => (s1, nx1, OErr, l1)
        end
    end.

  (* generateVaultOperationsUsingDeterministicIDs: the id member is set on upserts too *)
  Fixpoint r_vops_det (nx : N) (b : list (term * option term * list ttag)) : N * list vop :=
    match b with
    | [] => (nx, [])
    | (kt, v, tags) :: r =>
        match v with
        | None => let '(nx1, rest) := r_vops_det nx r in (nx1, (false, Some (rdet_id c kt), None) :: rest)
        | Some vt => let '(nx1, rest) := r_vops_det (nx + 1) r in
                     (nx1, (true, Some (rdet_id c kt), Some (rdoc c nx (rdet_id c kt) kt vt tags)) :: rest)
        end
    end.

  (* determineDocumentIDToUseForOperation: None = failure; Some None = "" *)
  Definition r_determine (s : ustore) (m : resolved) (kt : term) : option (option term) * list rcall :=
    match r_lookup m kt with
    | Some x => (Some x, [])
    | None => let '(found, l) := r_keyq s kt false in
              (match found with [] => Some None | [(id, _)] => Some (Some id) | _ => None end, l)
    end.

  (* createVaultOperationsUsingNonDeterministicIDs.  A NEW document is formatted with key "" (format(r.name, "", ...)):
     its embedded unformatted key is empty. *)
  Fixpoint r_vops_rand (s : ustore) (nx : N) (m : resolved) (b : list (term * option term * list ttag))
    : N * option (list vop) * list rcall :=
    match b with
    | [] => (nx, Some [], [])
    | (kt, v, tags) :: r =>
        let '(fk, l1) := r_determine s m kt in
        match fk with
        | None => (nx, None, l1)
        | Some fk =>
            match v with
            | None =>
                let '(m1, emit) := match fk with
                                   | Some x => (r_set m kt None, [(false, Some x, None)])
                                   | None => (m, []) end in
                let '(nx2, rest, l2) := r_vops_rand s nx m1 r in
                (nx2, match rest with Some ops => Some (emit ++ ops) | None => None end, l1 ++ l2)
            | Some vt =>
                let tags' := tags ++ [rkey_tag kt] in
                match fk with
                | None =>
                    let id := Enc 0 (Rnd nx) in
                    let d := rdoc c (nx + 1) id lit_empty vt tags' in
                    let '(nx2, rest, l2) := r_vops_rand s (nx + 2) (r_set m kt (Some id)) r in
                    (nx2, match rest with Some ops => Some ((true, None, Some d) :: ops) | None => None end, l1 ++ l2)
                | Some id =>
                    let d := rdoc c nx id kt vt tags' in
                    let '(nx2, rest, l2) := r_vops_rand s (nx + 1) (r_set m kt (Some id)) r in
                    (nx2, match rest with Some ops => Some ((true, None, Some d) :: ops) | None => None end, l1 ++ l2)
                end
            end
        end
    end.

  Definition r_batch_op (s : ustore) (nx : N) (b : list (term * option term * list ttag)) : ustore * N * out * list rcall :=
    if batch then
      if f_det c then
        let '(nx1, ops) := r_vops_det nx b in (fold_left sv_apply ops s, nx1, ODone, [HBatch ops])
      else
        let '(nx1, ops, l) := r_vops_rand s nx [] b in
        match ops with
        | None => (s, nx1, OErr, l)
        | Some ops => (fold_left sv_apply ops s, nx1, ODone, l ++ [HBatch ops])
        end
    else r_batch_slow s nx b.

  (* ----- Query: the expression is split at "||", each part at "&&", each criterion at ":" ----- *)
  (* the strings between ':' of one criterion.  An application string that itself contains one ':' (class 9) falls
     into two fragments (atoms 91 and 92 of its class), which are application data like the whole *)
  Definition rcrit_parts (q : crit) : list term :=
    (if N.eqb (fst q) colon then [App CName 91; App CName 92] else [tname (fst q)]) ++
    (if N.eqb (snd q) 0 then []
     else if N.eqb (snd q) colon then [App CTVal 91; App CTVal 92] else [App CTVal (snd q)]).
  (* subfilter[formattedName] = formattedValue: a Go map, a later criterion on the same name replaces the earlier *)
  Fixpoint sf_set (m : list ttag) (t : ttag) : list ttag :=
    match m with
    | [] => [t]
    | x :: r => if term_eqb (fst x) (fst t) then t :: r else x :: sf_set r t
    end.
  Fixpoint r_subfilter (q : list crit) (acc : list ttag) : option (list ttag) :=
    match q with
    | [] => Some acc
    | x :: r => match rcrit_parts x with
                | [n] => r_subfilter r (sf_set acc (rfmt_tag c (n, lit_empty)))
                | [n; v] => r_subfilter r (sf_set acc (rfmt_tag c (n, v)))
                | _ => None
                end
    end.
  (* an empty conjunct is the string "": one criterion whose tag name is empty *)
  Definition r_sub (q : list crit) : option (list ttag) :=
    match q with [] => Some [rfmt_tag c (lit_empty, lit_empty)] | _ => r_subfilter q [] end.
  Fixpoint r_equals (qs : list (list crit)) : option (list (list ttag)) :=
    match qs with
    | [] => Some []
    | q :: r => match r_sub q, r_equals r with Some a, Some b => Some (a :: b) | _, _ => None end
    end.
  (* generateEDVQuery: a single name-only criterion becomes a "has" query *)
  Definition r_edv_query (qs : list (list crit)) : option (list (list ttag) * option term) :=
    match qs with
    | [] | [[]] => None                                        (* expression "" *)
    | _ => match r_equals qs with
           | None => None
           | Some [[f]] => if is_empty (snd f) then Some ([], Some (fst f)) else Some ([[f]], None)
           | Some eqs => Some (eqs, None)
           end
    end.

  (* restIterator: Key/Value/Tags from the deformatted document; the key tag is filtered with the EMBEDDED key *)
  Definition r_unfmt (d : term) : option (key * entry) :=
    match deformat (f_rcp c) d with
    | Some (k, v, tags) => Some (atomN k, (atomN v, map tagN (if f_det c then tags else r_drop_key_tag k tags)))
    | None => None
    end.

  Definition r_query (s : ustore) (qs : list (list crit)) (opts : list qopt) : out * list rcall :=
    match last_sort opts None with
    | Some _ => (OErr, [])                                     (* checkForUnsupportedQueryOptions *)
    | None =>
        if negb (N.eqb (last_init opts 0) 0) then (OErr, []) else
        match r_edv_query qs with
        | None => (OErr, [])
        | Some (eqs, has) =>
            let m := sv_query s eqs has in
            (match all_some (map (fun ke => r_unfmt (fst (snd ke))) m) with Some r => OQuery r | None => OErr end,
             HQuery eqs has full :: (if full then [] else map (fun ke => HRead (fst ke)) m))
        end
    end.
End RestStore.

(* ---------- RESTProvider with one open store ---------- *)
Record rcfg := { r_f : fcfg; r_full : bool; r_batch : bool }.
Record rst := { v_docs : ustore; v_nx : N; v_cfg : list N }.
Definition rst0 : rst := {| v_docs := []; v_nx := 0; v_cfg := [] |}.

Inductive rop :=
| RS (o : op)                                                  (* a call on the store handle (Query q = one conjunction) *)
| RQuery (qs : list (list crit)) (opts : list qopt)            (* Query("c && c || c && c ...", options...) *)
| RSetCfg (names : list N)                                     (* kept in memory only: nothing is sent *)
| RGetCfg.

Definition rstep (rc : rcfg) (s : rst) (o : rop) : rst * out * list rcall :=
  let c := r_f rc in
  let same (r : out * list rcall) : rst * out * list rcall := (s, fst r, snd r) in
  let upd (r : ustore * N * out * list rcall) : rst * out * list rcall :=
      let '(m, nx, x, l) := r in ({| v_docs := m; v_nx := nx; v_cfg := v_cfg s |}, x, l) in
  match o with
  | RS (Put k v t) =>
      if valid_put k v t then upd (r_put_core c (r_full rc) (r_batch rc) (v_docs s) (v_nx s) (tkey k) (tval v) (map app_tag t))
      else (s, OErr, [])
  | RS (Get k) => if N.eqb k 0 then (s, OErr, []) else same (r_get c (r_full rc) (v_docs s) (tkey k))
  | RS (GetTags k) => if N.eqb k 0 then (s, OErr, []) else same (r_gettags c (r_full rc) (v_docs s) (tkey k))
  | RS (GetBulk ks) =>
      if is_nil ks then (s, OErr, []) else
      let '(vs, l) := r_bulk c (r_full rc) (v_docs s) ks in
      (s, match vs with Some vs' => OBulk vs' | None => OErr end, l)
  | RS (Query q) => same (r_query c (r_full rc) (v_docs s) [q] [])
  | RS (Delete k) =>
      if N.eqb k 0 then (s, OErr, []) else
      let '(m, x, l) := r_delete_core c (v_docs s) (tkey k) in
      ({| v_docs := m; v_nx := v_nx s; v_cfg := v_cfg s |}, x, l)
  | RS (Batch b) =>
      if is_nil b || has_empty_key (map bop_key b) then (s, OErr, [])
      else upd (r_batch_op c (r_full rc) (r_batch rc) (v_docs s) (v_nx s) (map bop_term b))
  | RS Flush => (s, ODone, [])
  | RS Reopen => ({| v_docs := v_docs s; v_nx := v_nx s; v_cfg := [] |}, ODone, [])   (* the new restStore has no configuration *)
  | RQuery qs opts => same (r_query c (r_full rc) (v_docs s) qs opts)
  | RSetCfg names =>
      if existsb colon_name names then (s, OErr, [])
      else ({| v_docs := v_docs s; v_nx := v_nx s; v_cfg := names |}, ODone, [])
  | RGetCfg => (s, OTags (map (fun n => (n, 0)) (v_cfg s)), [])
  end.

Fixpoint rrun (rc : rcfg) (s : rst) (ops : list rop) : rst * list (out * list rcall) :=
  match ops with
  | [] => (s, [])
  | o :: r => let '(s1, x, l) := rstep rc s o in let '(s2, rest) := rrun rc s1 r in (s2, (x, l) :: rest)
  end.
(* everything the vault server is sent over a whole history *)
Definition rlog (rc : rcfg) (ops : list rop) : list rcall := flat_map snd (snd (rrun rc rst0 ops)).
