(* C12 — encrypted storage: component/storageutil/formattedstore (deterministic AND non-deterministic key paths)
   instantiated with component/storage/edv EncryptedFormatter, over an in-memory provider, as an executable model
   that LOGS every call made on the underlying provider, with every argument as a symbolic term.
   No proofs here (this file must keep running when a proof breaks).

   Reused from C11: the operation alphabet [op] (one op = one call on spi/storage.Store), the result type [out],
   [valid_put], [bad_tag], [has_empty_key], [bop_key], [is_nil] (application strings are numbers: key 0 = "",
   value 0 = nil, tag value 0 = "", 9 = a string containing ':').  C11's own formattedstore model maps numbers to
   numbers (deterministic keys only); here the formatter output is a TERM so that attacker derivability can be stated. *)
From Coq Require Import List NArith Bool.
Import ListNotations.
From VF Require Import C11.Model.
Local Open Scope N_scope.

(* ---------- symbolic terms ---------- *)
Inductive cls := CKey | CVal | CName | CTVal.        (* application key / value / tag name / tag value *)

Inductive term :=
| App (c : cls) (n : N)        (* an application string: what must stay hidden *)
| Lit (n : N)                  (* public constant: 0 "", 1 "Key", 2 "&&", 3 "formattedstore_storeconfig", >= 1000 unknown bytes *)
| Rnd (n : N)                  (* 16 random bytes (crypto/rand) of a document id *)
| MacKey (i : N)               (* HMAC key handle i *)
| Priv (r : N)                 (* private key of JWE recipient r *)
| Cek (n : N)                  (* content encryption key + nonce + ephemeral key of the n-th JWE *)
| Mac (k m : term)
| Trunc (t : term)             (* first 16 bytes *)
| Enc (e : N) (t : term)       (* reversible encodings: 0 base58, 1 base64url, 2 base64std, 3 hex, 4.. other base64 variants *)
| PkEnc (r : N) (m : term)     (* ECDH-ES key wrap of m for recipient r: opened by Priv r only *)
| AEnc (k m : term)            (* AEAD under content key k *)
| Pair (a b : term)            (* concatenation / JSON structure: both parts readable *)
| Nil.

Definition cls_eqb (a b : cls) : bool :=
  match a, b with CKey, CKey | CVal, CVal | CName, CName | CTVal, CTVal => true | _, _ => false end.

Fixpoint term_eqb (x y : term) : bool :=
  match x, y with
  | App c n, App c' n' => cls_eqb c c' && N.eqb n n'
  | Lit n, Lit n' | Rnd n, Rnd n' | MacKey n, MacKey n' | Priv n, Priv n' | Cek n, Cek n' => N.eqb n n'
  | Mac k m, Mac k' m' | AEnc k m, AEnc k' m' | Pair k m, Pair k' m' => term_eqb k k' && term_eqb m m'
  | Trunc t, Trunc t' => term_eqb t t'
  | Enc e t, Enc e' t' | PkEnc e t, PkEnc e' t' => N.eqb e e' && term_eqb t t'
  | Nil, Nil => true
  | _, _ => false
  end.

Definition ttag := (term * term)%type.               (* tag as terms: (name, value); value Lit 0 = "" *)
Definition tlist (l : list term) : term := fold_right Pair Nil l.
Definition tpair (t : ttag) : term := Pair (fst t) (snd t).
Fixpoint untlist (t : term) : list term :=
  match t with Pair a r => a :: untlist r | _ => [] end.
Definition untpair (t : term) : ttag := match t with Pair a b => (a, b) | _ => (Nil, Nil) end.

Definition lit_empty : term := Lit 0.
Definition lit_keytag : term := Lit 1.
Definition lit_and : term := Lit 2.
Definition lit_cfgkey : term := Lit 3.
Definition is_empty (t : term) : bool := match t with Lit 0 => true | _ => false end.

(* application strings as terms *)
Definition tkey (k : N) : term := App CKey k.
Definition tval (v : N) : term := App CVal v.
Definition tname (n : N) : term := App CName n.
Definition ttv (v : N) : term := if N.eqb v 0 then lit_empty else App CTVal v.
Definition app_tag (t : tag) : ttag := (tname (fst t), ttv (snd t)).
(* formattedstore.generateKeyTag: {"Key", base64.StdEncoding(key)} *)
Definition key_tag (kt : term) : ttag := (lit_keytag, Enc 2 kt).

(* ---------- component/storage/edv EncryptedFormatter ---------- *)
Record fcfg := { f_det : bool;      (* WithDeterministicDocumentIDs *)
                 f_mac : N;         (* the MAC key handle of MACCrypto *)
                 f_rcp : N }.       (* the recipient key of the JWE encrypter / the key of the decrypter *)

Definition mac64 (c : fcfg) (m : term) : term := Enc 1 (Mac (MacKey (f_mac c)) m).    (* formatTag *)
Definition det_id (c : fcfg) (k : term) : term := Enc 0 (Trunc (Mac (MacKey (f_mac c)) k)).   (* generateDeterministicDocumentID *)
Definition fmt_tag (c : fcfg) (t : ttag) : ttag :=
  (mac64 c (fst t), if is_empty (snd t) then lit_empty else mac64 c (snd t)).

(* structuredDocument.content and the JWE around it *)
Definition content (k v : term) (tags : list ttag) : term := Pair k (Pair v (tlist (map tpair tags))).
Definition jwe (c : fcfg) (i : N) (m : term) : term := Pair (PkEnc (f_rcp c) (Cek i)) (AEnc (Cek i) m).
(* encryptedDocument {id, indexed attributes, jwe} *)
Definition mkdoc (id : term) (idx : list ttag) (j : term) : term := Pair id (Pair (tlist (map tpair idx)) j).

(* Format(key, value, tags): [k = None] is key "", [v = None] is value nil.  The counter numbers the random draws. *)
Definition format (c : fcfg) (nx : N) (k : option term) (v : option term) (tags : list ttag)
  : N * (option term * option term * list ttag) :=
  let ft := map (fmt_tag c) tags in
  let '(nx1, id) := if f_det c then (nx, match k with Some kt => Some (det_id c kt) | None => None end)
                    else (nx + 1, Some (Enc 0 (Rnd nx))) in
  match id, v with
  | Some i, Some vt =>
      let kt := match k with Some kt => kt | None => lit_empty end in
      (nx1 + 1, (id, Some (mkdoc i ft (jwe c nx1 (content kt vt tags))), ft))
  | _, _ => (nx1, (id, None, ft))
  end.

(* Deformat with the decrypter of recipient r: (key, value, tags) of the embedded structured document *)
Definition deformat (r : N) (doc : term) : option (term * term * list ttag) :=
  match doc with
  | Pair _ (Pair _ (Pair (PkEnc r' (Cek i)) (AEnc (Cek j) (Pair k (Pair v tl))))) =>
      if N.eqb r r' && N.eqb i j then Some (k, v, map untpair (untlist tl)) else None
  | _ => None
  end.

(* ---------- the calls the underlying provider receives ---------- *)
Definition sid := N.                                 (* 0 = the application's store, 1 = "<name>_formattedstore_storeconfig" *)
Definition uop := (term * option term * list ttag)%type.   (* one spi.Operation: key, value (None = nil), tags *)

Inductive call :=
| COpen (s : sid)
| CSetCfg (s : sid) (names : list term)
| CPut (s : sid) (k v : term) (tags : list ttag)
| CGet (s : sid) (k : term)
| CGetTags (s : sid) (k : term)
| CGetBulk (s : sid) (ks : list term)
| CQuery (s : sid) (name : term) (value : option term)      (* expression "name" or "name:value" *)
| CQuerySort (s : sid) (name : term) (value : option term) (sort : term)   (* ... with a sort option naming a tag *)
| CDelete (s : sid) (k : term)
| CBatch (s : sid) (ops : list uop)
| CFlush (s : sid)
| CClose (s : sid).

Definition opt_terms (o : option term) : list term := match o with Some t => [t] | None => [] end.
Definition tag_terms (l : list ttag) : list term := flat_map (fun t => [fst t; snd t]) l.
Definition uop_terms (o : uop) : list term := fst (fst o) :: opt_terms (snd (fst o)) ++ tag_terms (snd o).
(* everything the provider (a vault server, whoever reads the database) is given by one call *)
Definition call_terms (c : call) : list term :=
  match c with
  | COpen _ | CFlush _ | CClose _ => []
  | CSetCfg _ names => names
  | CPut _ k v tags => k :: v :: tag_terms tags
  | CGet _ k | CGetTags _ k | CDelete _ k => [k]
  | CGetBulk _ ks => ks
  | CQuery _ n v => n :: opt_terms v
  | CQuerySort _ n v t => n :: opt_terms v ++ [t]
  | CBatch _ ops => flat_map uop_terms ops
  end.
Definition log_terms (l : list call) : list term := flat_map call_terms l.

(* ---------- the underlying store (in-memory provider): formatted key -> (formatted value, formatted tags) ---------- *)
Definition uentry := (term * list ttag)%type.
Definition ustore := list (term * uentry).
Fixpoint u_lookup (s : ustore) (k : term) : option uentry :=
  match s with [] => None | (k', e) :: r => if term_eqb k k' then Some e else u_lookup r k end.
Fixpoint u_remove (s : ustore) (k : term) : ustore :=
  match s with [] => [] | (k', e) :: r => if term_eqb k k' then u_remove r k else (k', e) :: u_remove r k end.
Definition u_put (s : ustore) (k : term) (e : uentry) : ustore := (k, e) :: u_remove s k.
Definition u_tag_matches (n : term) (v : option term) (t : ttag) : bool :=
  term_eqb (fst t) n && match v with None => true | Some x => term_eqb (snd t) x end.
Definition u_query (s : ustore) (n : term) (v : option term) : ustore :=
  filter (fun ke => existsb (u_tag_matches n v) (snd (snd ke))) s.
Definition u_apply (s : ustore) (o : uop) : ustore :=
  match snd (fst o) with None => u_remove s (fst (fst o)) | Some v => u_put s (fst (fst o)) (v, snd o) end.

(* ---------- formattedstore.formatStore over one underlying store ---------- *)
(* every function returns (underlying store, counter, result, calls made) *)
Section Store.
  Variable c : fcfg.
  Variable i : sid.

  (* application-side projections of deformatted data back into the number alphabet (77 = not an application string) *)
  Definition atomN (t : term) : N := match t with App _ n => n | Lit 0 => 0 | _ => 77 end.
  Definition tagN (t : ttag) : tag := (atomN (fst t), atomN (snd t)).
  Definition tag_is (a b : ttag) : bool := term_eqb (fst a) (fst b) && term_eqb (snd a) (snd b).
  (* filterOutKeyTag *)
  Definition drop_key_tag (kt : term) (tags : list ttag) : list ttag := filter (fun t => negb (tag_is t (key_tag kt))) tags.

  (* queryUsingKeyTag / f.Query("Key:"+b64(key)): Format("", nil, keyTag) then underlying Query "name:value" *)
  Definition key_query (s : ustore) (nx : N) (kt : term) : N * ustore * list call :=
    let '(nx1, (_, _, ft)) := format c nx None None [key_tag kt] in
    match ft with
    | [f] => (nx1, u_query s (fst f) (Some (snd f)), [CQuery i (fst f) (Some (snd f))])
    | _ => (nx1, [], [])
    end.

  Definition fs_put (s : ustore) (nx : N) (kt vt : term) (tags : list ttag) : ustore * N * out * list call :=
    if f_det c then
      match format c nx (Some kt) (Some vt) tags with
      | (nx1, (Some id, Some doc, ft)) => (u_put s id (doc, ft), nx1, ODone, [CPut i id doc ft])
      | (nx1, _) => (s, nx1, OErr, [])
      end
    else
      let '(nx1, found, l1) := key_query s nx kt in
      let tags' := tags ++ [key_tag kt] in
      match found with
      | [] =>
          match format c nx1 (Some kt) (Some vt) tags' with
          | (nx2, (Some id, Some doc, ft)) => (u_put s id (doc, ft), nx2, ODone, l1 ++ [CPut i id doc ft])
          | (nx2, _) => (s, nx2, OErr, l1)
          end
      | [(fk, _)] =>
          (* overwrite: the formatter gets the unformatted key, the data goes under the key found *)
          match format c nx1 (Some kt) (Some vt) tags' with
          | (nx2, (_, Some doc, ft)) => (u_put s fk (doc, ft), nx2, ODone, l1 ++ [CPut i fk doc ft])
          | (nx2, _) => (s, nx2, OErr, l1)
          end
      | _ => (s, nx1, OErr, l1)
      end.

  (* the stored entry of a key: deterministic = Get(formatted key); otherwise the Key-tag query *)
  Definition fs_find (s : ustore) (nx : N) (kt : term) : N * list (term * uentry) * list call :=
    if f_det c then
      (nx, match u_lookup s (det_id c kt) with Some e => [(det_id c kt, e)] | None => [] end, [])
    else key_query s nx kt.

  Definition fs_get (s : ustore) (nx : N) (kt : term) : N * out * list call :=
    let '(nx1, found, l1) := fs_find s nx kt in
    let l := if f_det c then [CGet i (det_id c kt)] else l1 in
    match found with
    | [] => (nx1, ONotFound, l)
    | [(_, (doc, _))] =>
        (nx1, match deformat (f_rcp c) doc with Some (_, v, _) => OVal (atomN v) | None => OErr end, l)
    | _ => (nx1, OErr, l)
    end.

  Definition fs_gettags (s : ustore) (nx : N) (kt : term) : N * out * list call :=
    let '(nx1, found, l1) := fs_find s nx kt in
    match found with
    | [] => (nx1, ONotFound, if f_det c then [CGetTags i (det_id c kt)] else l1)
    | [(_, (doc, _))] =>
        let l := if f_det c then [CGetTags i (det_id c kt); CGet i (det_id c kt)] else l1 in
        (nx1, match deformat (f_rcp c) doc with
              | Some (_, _, tags) => OTags (map tagN (if f_det c then tags else drop_key_tag kt tags))
              | None => OErr end, l)
    | _ => (nx1, OErr, l1)
    end.

  Definition value_of_found (found : list (term * uentry)) : option N :=
    match found with
    | [] => Some 0
    | [(_, (doc, _))] => match deformat (f_rcp c) doc with Some (_, v, _) => Some (atomN v) | None => None end
    | _ => None
    end.

  Fixpoint fs_bulk_rand (s : ustore) (nx : N) (ks : list term) : N * option (list N) * list call :=
    match ks with
    | [] => (nx, Some [], [])
    | kt :: r =>
        let '(nx1, found, l1) := key_query s nx kt in
        match value_of_found found with
        | None => (nx1, None, l1)
        | Some v => let '(nx2, vs, l2) := fs_bulk_rand s nx1 r in
                    (nx2, match vs with Some vs' => Some (v :: vs') | None => None end, l1 ++ l2)
        end
    end.

  Definition fs_bulk (s : ustore) (nx : N) (ks : list term) : N * out * list call :=
    if f_det c then
      let ids := map (det_id c) ks in
      let vs := map (fun id => match u_lookup s id with
                               | None => Some 0
                               | Some (doc, _) => match deformat (f_rcp c) doc with Some (_, v, _) => Some (atomN v) | None => None end
                               end) ids in
      (nx, (if forallb (fun o => match o with Some _ => true | None => false end) vs
            then OBulk (map (fun o => match o with Some v => v | None => 0 end) vs) else OErr), [CGetBulk i ids])
    else
      let '(nx1, vs, l) := fs_bulk_rand s nx ks in
      (nx1, match vs with Some vs' => OBulk vs' | None => OErr end, l).

  (* the iterator over the underlying result: Key() / Value() / Tags() deformat the stored value *)
  Definition unfmt_result (ke : term * uentry) : option (key * entry) :=
    match deformat (f_rcp c) (fst (snd ke)) with
    | Some (k, v, tags) => Some (atomN k, (atomN v, map tagN (if f_det c then tags else drop_key_tag k tags)))
    | None => None
    end.
  Fixpoint all_some {A} (l : list (option A)) : option (list A) :=
    match l with
    | [] => Some []
    | Some x :: r => match all_some r with Some r' => Some (x :: r') | None => None end
    | None :: _ => None
    end.

  (* Query(expression): the string is split at ':' ONLY; one part = tag name, two parts = name and value *)
  Definition fs_query (s : ustore) (nx : N) (parts : list term) : N * out * list call :=
    match parts with
    | [n] =>
        let '(nx1, (_, _, ft)) := format c nx None None [(n, lit_empty)] in
        match ft with
        | [f] => (nx1, match all_some (map unfmt_result (u_query s (fst f) None)) with Some r => OQuery r | None => OErr end,
                  [CQuery i (fst f) None])
        | _ => (nx1, OErr, [])
        end
    | [n; v] =>
        let '(nx1, (_, _, ft)) := format c nx None None [(n, v)] in
        match ft with
        | [f] =>
            (* fmt.Sprintf("%s:%s", name, value): an empty formatted value gives "name:", which matches any value *)
            let fv := if is_empty (snd f) then None else Some (snd f) in
            (nx1, match all_some (map unfmt_result (u_query s (fst f) fv)) with Some r => OQuery r | None => OErr end,
             [CQuery i (fst f) (Some (snd f))])
        | _ => (nx1, OErr, [])
        end
    | _ => (nx, OErr, [])
    end.

  Definition fs_delete (s : ustore) (nx : N) (kt : term) : ustore * N * out * list call :=
    if f_det c then (u_remove s (det_id c kt), nx, ODone, [CDelete i (det_id c kt)])
    else
      let '(nx1, found, l1) := key_query s nx kt in
      match found with
      | [] => (s, nx1, ODone, l1)
      | [(fk, _)] => (u_remove s fk, nx1, ODone, l1 ++ [CDelete i fk])
      | _ => (s, nx1, OErr, l1)
      end.

  (* Batch, deterministic keys: every operation is formatted; a nil value stays nil (delete), its tags are kept *)
  Fixpoint fs_batch_det (nx : N) (b : list (term * option term * list ttag)) : N * list uop :=
    match b with
    | [] => (nx, [])
    | (kt, v, tags) :: r =>
        let '(nx1, (id, doc, ft)) := format c nx (Some kt) v tags in
        let '(nx2, rest) := fs_batch_det nx1 r in
        (nx2, (match id with Some x => x | None => lit_empty end, doc, ft) :: rest)
    end.

  (* Batch, non-deterministic keys: resolvedKeys maps an unformatted key to the formatted key used earlier in this
     batch (Some) or to "" = marked for deletion (None) *)
  Definition resolved := list (term * option term).
  Fixpoint r_lookup (m : resolved) (k : term) : option (option term) :=
    match m with [] => None | (k', x) :: r => if term_eqb k k' then Some x else r_lookup r k end.
  Definition r_set (m : resolved) (k : term) (x : option term) : resolved := (k, x) :: m.

  (* determineFormattedKeyToUse: None = failure (several matches); Some None = "" *)
  Definition fs_determine (s : ustore) (nx : N) (m : resolved) (kt : term) : N * option (option term) * list call :=
    match r_lookup m kt with
    | Some x => (nx, Some x, [])
    | None =>
        let '(nx1, found, l1) := key_query s nx kt in
        (nx1, match found with [] => Some None | [(fk, _)] => Some (Some fk) | _ => None end, l1)
    end.

  Fixpoint fs_batch_rand (s : ustore) (nx : N) (m : resolved) (b : list (term * option term * list ttag))
    : N * option (list uop) * list call :=
    match b with
    | [] => (nx, Some [], [])
    | (kt, v, tags) :: r =>
        let '(nx1, fk, l1) := fs_determine s nx m kt in
        match fk with
        | None => (nx1, None, l1)
        | Some fk =>
            match v with
            | None =>
                let '(m1, emit) := match fk with Some x => (r_set m kt None, [(x, None, [])]) | None => (m, []) end in
                let '(nx2, rest, l2) := fs_batch_rand s nx1 m1 r in
                (nx2, match rest with Some ops => Some (emit ++ ops) | None => None end, l1 ++ l2)
            | Some vt =>
                let '(nx2, (id, doc, ft)) := format c nx1 (Some kt) (Some vt) (tags ++ [key_tag kt]) in
                let used := match fk with Some x => x | None => match id with Some x => x | None => lit_empty end end in
                let '(nx3, rest, l2) := fs_batch_rand s nx2 (r_set m kt (Some used)) r in
                (nx3, match rest with Some ops => Some ((used, doc, ft) :: ops) | None => None end, l1 ++ l2)
            end
        end
    end.

  Definition fs_batch (s : ustore) (nx : N) (b : list (term * option term * list ttag)) : ustore * N * out * list call :=
    if f_det c then
      let '(nx1, ops) := fs_batch_det nx b in
      (* the in-memory provider refuses an empty batch *)
      if is_nil ops then (s, nx1, OErr, [CBatch i ops]) else (fold_left u_apply ops s, nx1, ODone, [CBatch i ops])
    else
      let '(nx1, ops, l) := fs_batch_rand s nx [] b in
      match ops with
      | None => (s, nx1, OErr, l)
      | Some ops =>
          if negb (is_nil b) && is_nil ops then (s, nx1, ODone, l)       (* only deletes of keys that are not stored *)
          else if is_nil ops then (s, nx1, OErr, l ++ [CBatch i ops])
          else (fold_left u_apply ops s, nx1, ODone, l ++ [CBatch i ops])
      end.
End Store.

(* ---------- FormattedProvider: the application's store, the store-config side store ---------- *)
Record st := { s_main : ustore; s_cfg : ustore; s_cfgopen : bool; s_nx : N }.
Definition st0 : st := {| s_main := []; s_cfg := []; s_cfgopen := false; s_nx := 0 |}.

(* spi.QueryOption values, in the order the caller passes them: WithSortOrder({order, TagName n}) (n = 0: empty name),
   WithPageSize p, WithInitialPageNum p.  A later option overrides an earlier one of its kind. *)
Inductive qopt := QSort (n : N) | QPage (p : N) | QInit (p : N).
Fixpoint last_sort (l : list qopt) (acc : option N) : option N :=
  match l with [] => acc | QSort n :: r => last_sort r (Some n) | _ :: r => last_sort r acc end.
Fixpoint last_init (l : list qopt) (acc : N) : N :=
  match l with [] => acc | QInit p :: r => last_init r p | _ :: r => last_init r acc end.

Inductive xop :=
| XS (o : op)                      (* a call on the store handle *)
| XQueryOpts (q : list crit) (opts : list qopt)   (* Query(expression, options...) *)
| XSetCfg (names : list N)         (* Provider.SetStoreConfig(name, {TagNames}) *)
| XGetCfg.                         (* Provider.GetStoreConfig(name); result as OTags [(name, 0); ...] *)

(* expression string of a conjunction of criteria, as tokens; then split at ':' *)
Inductive tok := TT (t : term) | TColon.
Definition crit_toks (q : crit) : list tok :=
  if N.eqb (snd q) 0 then [TT (tname (fst q))] else [TT (tname (fst q)); TColon; TT (App CTVal (snd q))].
Fixpoint expr_toks (q : list crit) : list tok :=
  match q with
  | [] => []
  | [x] => crit_toks x
  | x :: r => crit_toks x ++ [TT lit_and] ++ expr_toks r
  end.
(* strings.Split(expression, ":"): the parts, each the concatenation of its tokens *)
Definition join (l : list term) : term := match l with [t] => t | _ => tlist l end.
Fixpoint split_colon (l : list tok) (cur : list term) : list term :=
  match l with
  | [] => [join (rev cur)]
  | TT t :: r => split_colon r (t :: cur)
  | TColon :: r => join (rev cur) :: split_colon r []
  end.

Definition bop_term (b : bop) : term * option term * list ttag :=
  let '(k, v, t) := b in (tkey k, (if N.eqb v 0 then None else Some (tval v)), map app_tag t).
Definition cfg_value (names : list N) : term := tlist (map tname names).     (* json.Marshal(config) *)
Definition colon_name (n : N) : bool := N.eqb n colon.

Definition open_cfg (s : st) : list call := if s_cfgopen s then [] else [COpen 1].

(* GetStoreConfig: Get("formattedstore_storeconfig") in the side store, the value is the marshalled configuration *)
Definition fs_get_cfg (c : fcfg) (s : st) : N * out * list call :=
  let '(nx1, found, l1) := fs_find c 1 (s_cfg s) (s_nx s) lit_cfgkey in
  let l := if f_det c then [CGet 1 (det_id c lit_cfgkey)] else l1 in
  match found with
  | [] => (nx1, ONotFound, l)
  | [(_, (doc, _))] =>
      (nx1, match deformat (f_rcp c) doc with
            | Some (_, v, _) => OTags (map (fun t => (atomN t, 0)) (untlist v))
            | None => OErr end, l)
  | _ => (nx1, OErr, l)
  end.

(* the code as found handed the caller's query options to the underlying store unchanged (AsIs); the fix: commit
   formats the tag name of the sort option (Fixed) *)
Inductive variant := AsIs | Fixed.
Definition add_sort (t : term) (x : call) : call := match x with CQuery i n v => CQuerySort i n v t | _ => x end.
Definition sort_term (v : variant) (c : fcfg) (n : N) : term :=
  match v with AsIs => tname n | Fixed => mac64 c (tname n) end.

Definition xstep (v : variant) (c : fcfg) (s : st) (o : xop) : st * out * list call :=
  let on_main (r : ustore * N * out * list call) : st * out * list call :=
      let '(m, nx, x, l) := r in
      ({| s_main := m; s_cfg := s_cfg s; s_cfgopen := s_cfgopen s; s_nx := nx |}, x, l) in
  let read_main (r : N * out * list call) : st * out * list call :=
      let '(nx, x, l) := r in
      ({| s_main := s_main s; s_cfg := s_cfg s; s_cfgopen := s_cfgopen s; s_nx := nx |}, x, l) in
  match o with
  | XS (Put k v t) =>
      if valid_put k v t then on_main (fs_put c 0 (s_main s) (s_nx s) (tkey k) (tval v) (map app_tag t)) else (s, OErr, [])
  | XS (Get k) => if N.eqb k 0 then (s, OErr, []) else read_main (fs_get c 0 (s_main s) (s_nx s) (tkey k))
  | XS (GetTags k) => if N.eqb k 0 then (s, OErr, []) else read_main (fs_gettags c 0 (s_main s) (s_nx s) (tkey k))
  | XS (GetBulk ks) =>
      if is_nil ks || has_empty_key ks then (s, OErr, []) else read_main (fs_bulk c 0 (s_main s) (s_nx s) (map tkey ks))
  | XS (Query q) =>
      if is_nil q then (s, OErr, []) else read_main (fs_query c 0 (s_main s) (s_nx s) (split_colon (expr_toks q) []))
  | XS (Delete k) => if N.eqb k 0 then (s, OErr, []) else on_main (fs_delete c 0 (s_main s) (s_nx s) (tkey k))
  | XS (Batch b) =>
      if has_empty_key (map bop_key b) then (s, OErr, []) else on_main (fs_batch c 0 (s_main s) (s_nx s) (map bop_term b))
  | XS Flush => (s, ODone, [CFlush 0])
  | XS Reopen =>
      (* formatStore.Close closes the underlying store (the in-memory provider drops it), OpenStore opens it again *)
      ({| s_main := []; s_cfg := s_cfg s; s_cfgopen := s_cfgopen s; s_nx := s_nx s |}, ODone, [CClose 0; COpen 0])
  | XQueryOpts q opts =>
      (* what the underlying store resolves the options to: the tag name of the sort option in force.  The in-memory
         provider refuses sort options and a non-zero initial page: the call is made, the result is an error *)
      if is_nil q then (s, OErr, []) else
      let '(nx, x, l) := fs_query c 0 (s_main s) (s_nx s) (split_colon (expr_toks q) []) in
      let srt := last_sort opts None in
      ({| s_main := s_main s; s_cfg := s_cfg s; s_cfgopen := s_cfgopen s; s_nx := nx |},
       (match srt with Some _ => OErr | None => if N.eqb (last_init opts 0) 0 then x else OErr end),
       match srt with
       | Some n => if N.eqb n 0 then l else map (add_sort (sort_term v c n)) l
       | None => l
       end)
  | XSetCfg names =>
      if existsb colon_name names then (s, OErr, []) else
      let tags := map (fun n => (tname n, lit_empty)) names ++ (if f_det c then [] else [(lit_keytag, lit_empty)]) in
      let '(nx1, (_, _, ft)) := format c (s_nx s) None None tags in
      let l0 := [CSetCfg 0 (map fst ft)] ++ open_cfg s in
      let '(m, nx2, x, l) := fs_put c 1 (s_cfg s) nx1 lit_cfgkey (cfg_value names) [] in
      ({| s_main := s_main s; s_cfg := m; s_cfgopen := true; s_nx := nx2 |}, x, l0 ++ l)
  | XGetCfg =>
      let '(nx1, x, l) := fs_get_cfg c s in
      ({| s_main := s_main s; s_cfg := s_cfg s; s_cfgopen := true; s_nx := nx1 |}, x, open_cfg s ++ l)
  end.

Fixpoint xrun (v : variant) (c : fcfg) (s : st) (ops : list xop) : st * list (out * list call) :=
  match ops with
  | [] => (s, [])
  | o :: r => let '(s1, x, l) := xstep v c s o in let '(s2, rest) := xrun v c s1 r in (s2, (x, l) :: rest)
  end.
(* the provider's view of a whole history (the harness opens the application's store first) *)
Definition xlog (v : variant) (c : fcfg) (ops : list xop) : list call :=
  COpen 0 :: flat_map snd (snd (xrun v c st0 ops)).
