(* C12 — what a stored document decrypts to is what the caller of Put handed in. *)
From Coq Require Import List NArith Bool Lia.
Import ListNotations.
From VF Require Import C11.Model C12.Model C12.ProofsB.
Local Open Scope N_scope.

Lemma format_content c nx kt vt tags nx' id d ft :
  format c nx (Some kt) (Some vt) tags = (nx', (id, Some d, ft)) -> deformat (f_rcp c) d = Some (kt, vt, tags).
Proof.
  unfold format. destruct (f_det c); intro H; inversion H; subst; cbn; rewrite !N.eqb_refl; cbn;
    fold (tlist (map tpair tags)); rewrite untlist_tlist, untpair_tpair; reflexivity.
Qed.

Lemma fs_put_content c i s nx kt vt tags s' nx' x l d :
  fs_put c i s nx kt vt tags = (s', nx', x, l) -> In d (stored l) ->
  deformat (f_rcp c) d = Some (kt, vt, tags ++ (if f_det c then [] else [key_tag kt])).
Proof.
  unfold fs_put. destruct (f_det c) eqn:HD.
  - destruct (format c nx (Some kt) (Some vt) tags) as [nx1 [[id doc] ft]] eqn:HF.
    destruct id, doc; intro H; inversion H; subst; cbn; try contradiction.
    intros [<-|[]]. rewrite app_nil_r. eapply format_content; eassumption.
  - destruct (key_query c i s nx kt) as [[nx1 found] l1] eqn:HQ. apply key_query_q in HQ as [_ Hs].
    destruct (format c nx1 (Some kt) (Some vt) (tags ++ [key_tag kt])) as [nx2 [[id doc] ft]] eqn:HF.
    destruct found as [|[fk e] [|e2 r]]; intro H.
    + destruct id, doc; inversion H; subst; rewrite ?stored_app, Hs; cbn; try contradiction.
      intros [<-|[]]. eapply format_content; eassumption.
    + destruct doc; inversion H; subst; rewrite ?stored_app, Hs; cbn; try contradiction.
      intros [<-|[]]. eapply format_content; eassumption.
    + inversion H; subst. rewrite Hs. contradiction.
Qed.

Lemma put_content vr c s k v t s' x l d :
  xstep vr c s (XS (Put k v t)) = (s', x, l) -> In d (stored l) ->
  deformat (f_rcp c) d = Some (tkey k, tval v, map app_tag t ++ (if f_det c then [] else [key_tag (tkey k)])).
Proof.
  unfold xstep. destruct (valid_put k v t); [|intro H; inversion H; subst; contradiction].
  destruct (fs_put c 0 (s_main s) (s_nx s) (tkey k) (tval v) (map app_tag t)) as [[[m nx] y] l1] eqn:HP.
  intro H; inversion H; subst. eapply fs_put_content; eassumption.
Qed.
