(* C12 — property theorems only.  The model ([xstep]/[xlog], coq/C12/Model.v) is formattedstore over the EDV
   encrypted formatter, deterministic and random document ids, logging every call the underlying provider receives;
   the same [xstep] is what the correspondence (Corr.check_case) runs against the recorded calls of the real code. *)
From Coq Require Import List NArith Bool.
Import ListNotations.
From VF Require Import C11.Model C12.Model C12.Proofs C12.ProofsB C12.ProofsC.
Local Open Scope N_scope.

Definition c_det0 : fcfg := {| f_det := true; f_mac := 0; f_rcp := 0 |}.

(* FULL STATEMENT (secrecy, repaired code).  For every formatter configuration (deterministic or random ids, any MAC key, any
   recipient key), every history of Put / Get / GetTags / GetBulk / Query (name, name:value, && strings) / Delete /
   Query with any list of sort / page-size / initial-page options / Batch / Flush / Close+Open / SetStoreConfig / GetStoreConfig of any length, and an attacker who sees EVERY argument
   of EVERY call on the underlying provider and additionally owns any MAC keys and private keys other than the
   configured ones: no application key, value, tag name or tag value is derivable — where derivation may undo every
   encoding (base58, base64 of any flavour, hex), take structures apart, decrypt with any key it can derive, and
   build anything from what it has.  (Store names, and whether a tag value is empty, are not application strings of
   the model: the code passes them through by design.) *)
Theorem no_plaintext_leak : forall (c : fcfg) (ops : list xop) (others : list term) (cl : cls) (n : N),
  foreign_keys c others -> ~ derivable (others ++ log_terms (xlog Fixed c ops)) (App cl n).
Proof. intros c ops others cl n Hk HD. apply (secrecy c ops others _ Hk) in HD. discriminate. Qed.
Print Assumptions no_plaintext_leak.

(* neither are the configured MAC key, the recipient's private key or any content encryption key *)
Theorem no_key_leak : forall (c : fcfg) (ops : list xop) (others : list term),
  foreign_keys c others ->
  ~ derivable (others ++ log_terms (xlog Fixed c ops)) (MacKey (f_mac c)) /\
  ~ derivable (others ++ log_terms (xlog Fixed c ops)) (Priv (f_rcp c)) /\
  forall n, ~ derivable (others ++ log_terms (xlog Fixed c ops)) (Cek n).
Proof.
  intros c ops others Hk. split; [|split; [|intro n]]; intro HD; apply (secrecy c ops others _ Hk) in HD;
    cbn in HD; rewrite ?N.eqb_refl in HD; discriminate.
Qed.
Print Assumptions no_key_leak.

(* the same from ANY provider content that earlier histories (under the same keys) may have left behind *)
Theorem no_plaintext_leak_from_any_state : forall (c : fcfg) (s : st) (ops : list xop) (others : list term) (cl : cls) (n : N),
  inv c s -> foreign_keys c others ->
  ~ derivable (others ++ log_terms (flat_map snd (snd (xrun Fixed c s ops)))) (App cl n).
Proof. intros c s ops others cl n Hi Hk HD. apply (secrecy_from c s ops others _ Hi Hk) in HD. discriminate. Qed.
Print Assumptions no_plaintext_leak_from_any_state.

(* structural form: every argument of every call is an output of the formatter — application strings, the configured
   keys and content keys occur only under the configured MAC key or inside a ciphertext whose content key is wrapped
   for the configured recipient ([ok], coq/C12/Proofs.v) *)
Theorem all_calls_formatted : forall (c : fcfg) (ops : list xop) (t : term),
  In t (log_terms (xlog Fixed c ops)) -> ok c t = true.
Proof. intros c ops t. apply calls_ok_terms, xlog_ok. Qed.
Print Assumptions all_calls_formatted.

(* every document handed to the provider for storage (Put values, Batch values, the store-config document) opens with
   the configured key, to the key/value/tags the formatter was given, and with NO other recipient key *)
Theorem decrypts_only_with_key : forall (c : fcfg) (ops : list xop) (d : term),
  In d (stored (xlog Fixed c ops)) ->
  (exists id idx n k v tags, d = mkdoc id idx (jwe c n (content k v tags)) /\ deformat (f_rcp c) d = Some (k, v, tags)) /\
  (forall r, r <> f_rcp c -> deformat r d = None).
Proof.
  intros c ops d Hd. destruct (xlog_q Fixed c ops) as [hi [_ HF]]. rewrite Forall_forall in HF.
  apply doc_deformat. auto.
Qed.
Print Assumptions decrypts_only_with_key.

(* ... and what a Put hands to the provider decrypts, with the configured key, to exactly the caller's key, value and
   tags (plus the internal Key tag when document ids are random) — in every state, in both id modes *)
Theorem put_stores_callers_data : forall (c : fcfg) (s s' : st) (k v : N) (t : list tag) (x : out) (l : list call) (d : term),
  xstep Fixed c s (XS (Put k v t)) = (s', x, l) -> In d (stored l) ->
  deformat (f_rcp c) d = Some (tkey k, tval v, map app_tag t ++ (if f_det c then [] else [key_tag (tkey k)])).
Proof. intros c s s' k v t x l d. apply put_content. Qed.
Print Assumptions put_stores_callers_data.

(* equal plaintexts never give equal ciphertexts: the stored documents of a history are pairwise different, each
   under its own content key (content keys strictly increase along the log) — whatever was put, also the same
   key/value/tags again *)
Theorem ciphertexts_differ : forall (c : fcfg) (ops : list xop),
  NoDup (map cek_of (stored (xlog Fixed c ops))) /\ NoDup (stored (xlog Fixed c ops)).
Proof.
  intros c ops. destruct (xlog_q Fixed c ops) as [hi [HI _]]. apply incr_nodup in HI.
  split; [assumption|eapply nodup_map_inv; eassumption].
Qed.
Print Assumptions ciphertexts_differ.

(* HISTORICAL REFUTATION.  The code as found handed the caller's query options to the underlying store unchanged: the
   tag name of a sort option reached the provider in plaintext (confirmed on the real code; repaired by the fix:
   commit 73249c6 in /repo; witness corpus/C12/sort-option-tag-name.json, replayed on every run). *)
Theorem no_plaintext_leak_asis_refuted :
  let ops := [XS (Put 1 1 [(1, 1); (2, 2)]); XQueryOpts [(1, 1)] [QPage 10; QSort 1; QSort 2]] in
  derivable (log_terms (xlog AsIs c_det0 ops)) (App CName 2) /\
  ~ derivable (log_terms (xlog Fixed c_det0 ops)) (App CName 2).
Proof.
  split.
  - apply d_known. vm_compute. tauto.
  - intro HD. apply (secrecy c_det0 _ [] (App CName 2)) in HD; [discriminate|intros t []].
Qed.
Print Assumptions no_plaintext_leak_asis_refuted.

(* ---------- non-vacuity ---------- *)
Definition demo : list xop :=
  [XSetCfg [1; 2]; XS (Put 1 1 [(1, 1)]); XS (Put 1 1 [(1, 1)]); XS (Query [(1, 1)]);
   XS (Batch [(1, 0, []); (1, 2, [(2, 0)]); (2, 1, [])]); XS (Delete 2); XGetCfg; XQueryOpts [(1, 0)] [QSort 1; QPage 5; QInit 0; QSort 2]].
Definition c_rand : fcfg := {| f_det := false; f_mac := 0; f_rcp := 0 |}.
Definition c_det : fcfg := {| f_det := true; f_mac := 0; f_rcp := 0 |}.

(* the history reaches the provider (calls, stored documents, the same plaintext stored twice) *)
Example demo_reaches_provider :
  length (xlog Fixed c_rand demo) = 17%nat /\ length (stored (xlog Fixed c_rand demo)) = 5%nat /\
  length (xlog Fixed c_det demo) = 11%nat /\ length (stored (xlog Fixed c_det demo)) = 5%nat.
Proof. vm_compute. repeat split. Qed.

(* derivability is not trivially empty: the attacker reads the indexed attributes out of a stored document ... *)
Example attacker_reads_index : derivable (log_terms (xlog Fixed c_det demo)) (Mac (MacKey 0) (App CName 1)).
Proof.
  apply (d_dec _ 1). apply (d_known _ (mac64 c_det (App CName 1))). vm_compute. tauto.
Qed.

(* ... and the secrecy rests on the key: whoever holds the recipient's private key reads the value *)
Example key_holder_reads_value : derivable (Priv 0 :: log_terms (xlog Fixed c_det demo)) (App CVal 1).
Proof.
  set (K := Priv 0 :: log_terms (xlog Fixed c_det demo)).
  set (d := mkdoc (det_id c_det (tkey 1)) [fmt_tag c_det (app_tag (1, 1))]
              (jwe c_det 1 (content (tkey 1) (tval 1) [app_tag (1, 1)]))).
  assert (Hd : derivable K d) by (apply d_known; vm_compute; tauto).
  assert (Hj : derivable K (jwe c_det 1 (content (tkey 1) (tval 1) [app_tag (1, 1)])))
    by (eapply d_snd, d_snd; exact Hd).
  assert (Hc : derivable K (Cek 1)).
  { apply (d_pkdec _ 0); [eapply d_fst; exact Hj|apply d_known; left; reflexivity]. }
  assert (Hm : derivable K (content (tkey 1) (tval 1) [app_tag (1, 1)])).
  { apply (d_adec _ (Cek 1)); [eapply d_snd; exact Hj|exact Hc]. }
  eapply d_fst, d_snd. exact Hm.
Qed.

(* a provider call that carried a tag name in base64 would be caught by the statement: the invariant is falsifiable *)
Example encoded_name_is_not_formatted : ok c_det (Enc 1 (App CName 1)) = false /\
  derivable [Enc 1 (App CName 1)] (App CName 1).
Proof. split; [reflexivity|]. apply (d_dec _ 1), d_known. left; reflexivity. Qed.
