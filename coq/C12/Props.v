(* C12 — property theorems (being built). *)
From Coq Require Import List NArith Bool.
Import ListNotations.
From VF Require Import C11.Model C12.Model.
Local Open Scope N_scope.

Theorem deformat_roundtrip : forall c nx k v tags id doc ft nx',
  format c nx (Some k) (Some v) tags = (nx', (Some id, Some doc, ft)) ->
  deformat (f_rcp c) doc = Some (k, v, map untpair (untlist (tlist (map tpair tags)))).
Proof.
  intros c nx k v tags id doc ft nx' H. unfold format in H.
  destruct (f_det c); inversion H; subst; cbn; rewrite !N.eqb_refl; reflexivity.
Qed.
Print Assumptions deformat_roundtrip.
