(* C12 — the stored documents: each is a JWE for the configured recipient under its own fresh content key. *)
From Coq Require Import List NArith Bool Lia.
Import ListNotations.
From VF Require Import C11.Model C12.Model.
Local Open Scope N_scope.

(* the documents handed to the provider for storage (Put values, values of Batch operations), in call order *)
Definition ostored (ops : list uop) : list term := flat_map (fun o => opt_terms (snd (fst o))) ops.
Definition stored1 (x : call) : list term :=
  match x with CPut _ _ v _ => [v] | CBatch _ ops => ostored ops | _ => [] end.
Definition stored (l : list call) : list term := flat_map stored1 l.

Definition cek_of (d : term) : N :=
  match d with Pair _ (Pair _ (Pair (PkEnc _ (Cek n)) _)) => n | _ => 0 end.
Definition is_doc (c : fcfg) (d : term) : Prop :=
  exists id idx n k v tags, d = mkdoc id idx (jwe c n (content k v tags)).

(* content-key numbers strictly increasing within [lo, hi) *)
Fixpoint incr (lo hi : N) (ns : list N) : Prop :=
  match ns with [] => lo <= hi | n :: r => lo <= n /\ incr (n + 1) hi r end.
Definition goodl (c : fcfg) (lo hi : N) (ds : list term) : Prop := incr lo hi (map cek_of ds) /\ Forall (is_doc c) ds.

Lemma incr_le : forall ns lo hi, incr lo hi ns -> lo <= hi.
Proof. induction ns as [|n r IH]; cbn; intros lo hi H; [assumption|]. destruct H as [H1 H2]. apply IH in H2. lia. Qed.
Lemma incr_weak : forall ns lo lo' hi hi', lo' <= lo -> hi <= hi' -> incr lo hi ns -> incr lo' hi' ns.
Proof.
  induction ns as [|n r IH]; cbn; intros lo lo' hi hi' H1 H2 H; [lia|].
  destruct H as [Ha Hb]. split; [lia|]. eapply IH; [| |exact Hb]; lia.
Qed.
Lemma incr_app : forall a mid b c d, incr a mid b -> incr mid d c -> incr a d (b ++ c).
Proof.
  intros a mid b. revert a. induction b as [|n r IH]; cbn; intros a c d H1 H2.
  - eapply incr_weak; [| |exact H2]; lia.
  - destruct H1 as [Ha Hb]. split; [assumption|]. eapply IH; eassumption.
Qed.
Lemma incr_bound : forall ns lo hi n, incr lo hi ns -> In n ns -> lo <= n < hi.
Proof.
  induction ns as [|m r IH]; cbn; intros lo hi n H Hn; [contradiction|]. destruct H as [Ha Hb]. destruct Hn as [->|Hn].
  - apply incr_le in Hb. lia.
  - apply (IH _ _ _ Hb) in Hn. lia.
Qed.
Lemma incr_nodup : forall ns lo hi, incr lo hi ns -> NoDup ns.
Proof.
  induction ns as [|m r IH]; cbn; intros lo hi H; [constructor|]. destruct H as [Ha Hb]. constructor; [|eapply IH; eassumption].
  intro Hn. apply (incr_bound _ _ _ _ Hb) in Hn. lia.
Qed.

Lemma goodl_nil c lo hi : lo <= hi -> goodl c lo hi [].
Proof. intro H. split; [exact H|constructor]. Qed.
Lemma goodl_app c a mid d l1 l2 : goodl c a mid l1 -> goodl c mid d l2 -> goodl c a d (l1 ++ l2).
Proof.
  intros [H1 H2] [H3 H4]. split; [rewrite map_app; eapply incr_app; eassumption|apply Forall_app; auto].
Qed.
Lemma goodl_weak c lo lo' hi hi' l : lo' <= lo -> hi <= hi' -> goodl c lo hi l -> goodl c lo' hi' l.
Proof. intros H1 H2 [H3 H4]. split; [eapply incr_weak; eassumption|assumption]. Qed.
Lemma goodl_le c lo hi l : goodl c lo hi l -> lo <= hi.
Proof. intros [H _]. eapply incr_le; eassumption. Qed.

Lemma stored_app a b : stored (a ++ b) = stored a ++ stored b.
Proof. apply flat_map_app. Qed.

(* --- the formatter --- *)
Lemma format_mono c nx k v tags nx' r : format c nx k v tags = (nx', r) -> nx <= nx'.
Proof. unfold format. destruct (f_det c), k, v; intro H; inversion H; lia. Qed.

Lemma format_doc c nx k v tags nx' id d ft :
  format c nx k v tags = (nx', (id, Some d, ft)) -> goodl c nx nx' [d].
Proof.
  unfold format. destruct (f_det c), k, v; intro H; inversion H; subst;
    (split; [cbn; lia|constructor; [|constructor]]); repeat eexists.
Qed.

Lemma opt_doc c nx k v tags nx' id d ft :
  format c nx k v tags = (nx', (id, d, ft)) -> goodl c nx nx' (opt_terms d).
Proof.
  intro H. destruct d; [eapply format_doc; eassumption|]. apply goodl_nil. eapply format_mono; eassumption.
Qed.

Section StoreOps.
  Variable c : fcfg.
  Variable i : sid.

  Lemma key_query_q s nx kt nx' found l : key_query c i s nx kt = (nx', found, l) -> nx <= nx' /\ stored l = [].
  Proof.
    unfold key_query. destruct (format c nx None None [key_tag kt]) as [nx1 [[id doc] ft]] eqn:HF.
    apply format_mono in HF. destruct ft as [|f [|f2 r]]; intro H; inversion H; subst; auto.
  Qed.

  Lemma fs_put_q s nx kt vt tags s' nx' x l : fs_put c i s nx kt vt tags = (s', nx', x, l) -> goodl c nx nx' (stored l).
  Proof.
    unfold fs_put. destruct (f_det c).
    - destruct (format c nx (Some kt) (Some vt) tags) as [nx1 [[id doc] ft]] eqn:HF. pose proof (format_mono _ _ _ _ _ _ _ HF) as Hm.
      destruct id, doc; intro H; inversion H; subst; try (apply goodl_nil; assumption).
      cbn. eapply format_doc; eassumption.
    - destruct (key_query c i s nx kt) as [[nx1 found] l1] eqn:HQ. apply key_query_q in HQ as [Hq Hs].
      destruct (format c nx1 (Some kt) (Some vt) (tags ++ [key_tag kt])) as [nx2 [[id doc] ft]] eqn:HF.
      pose proof (format_mono _ _ _ _ _ _ _ HF) as Hm.
      destruct found as [|[fk e] [|e2 r]]; intro H.
      + destruct id, doc; inversion H; subst; rewrite ?stored_app, Hs; try (apply goodl_nil; lia).
        cbn. apply format_doc in HF. eapply goodl_weak; [| |exact HF]; lia.
      + destruct doc; inversion H; subst; rewrite ?stored_app, Hs; try (apply goodl_nil; lia).
        cbn. apply format_doc in HF. eapply goodl_weak; [| |exact HF]; lia.
      + inversion H; subst. rewrite Hs. apply goodl_nil; lia.
  Qed.

  Lemma fs_find_q s nx kt nx' found l : fs_find c i s nx kt = (nx', found, l) -> nx <= nx' /\ stored l = [].
  Proof. unfold fs_find. destruct (f_det c); [intro H; inversion H; subst; split; [lia|reflexivity]|apply key_query_q]. Qed.

  Lemma fs_get_q s nx kt nx' x l : fs_get c i s nx kt = (nx', x, l) -> nx <= nx' /\ stored l = [].
  Proof.
    unfold fs_get. destruct (fs_find c i s nx kt) as [[nx1 found] l1] eqn:HQ. apply fs_find_q in HQ as [Hq Hs].
    destruct found as [|[fk [doc tg]] [|e2 r]]; intro H; inversion H; subst; (split; [assumption|]);
      destruct (f_det c); auto.
  Qed.

  Lemma fs_gettags_q s nx kt nx' x l : fs_gettags c i s nx kt = (nx', x, l) -> nx <= nx' /\ stored l = [].
  Proof.
    unfold fs_gettags. destruct (fs_find c i s nx kt) as [[nx1 found] l1] eqn:HQ. apply fs_find_q in HQ as [Hq Hs].
    destruct found as [|[fk [doc tg]] [|e2 r]]; intro H; inversion H; subst; (split; [assumption|]);
      destruct (f_det c); auto.
  Qed.

  Lemma fs_bulk_rand_q s : forall ks nx nx' vs l, fs_bulk_rand c i s nx ks = (nx', vs, l) -> nx <= nx' /\ stored l = [].
  Proof.
    induction ks as [|kt r IH]; cbn; intros nx nx' vs l H; [inversion H; subst; split; [lia|reflexivity]|].
    destruct (key_query c i s nx kt) as [[nx1 found] l1] eqn:HQ. apply key_query_q in HQ as [Hq Hs].
    destruct (value_of_found c found); [|inversion H; subst; auto].
    destruct (fs_bulk_rand c i s nx1 r) as [[nx2 vs2] l2] eqn:HR. apply IH in HR as [Hr Hs2].
    inversion H; subst. rewrite stored_app, Hs, Hs2. split; [lia|reflexivity].
  Qed.

  Lemma fs_bulk_q s nx ks nx' x l : fs_bulk c i s nx ks = (nx', x, l) -> nx <= nx' /\ stored l = [].
  Proof.
    unfold fs_bulk. destruct (f_det c).
    - intro H; inversion H; subst. split; [lia|reflexivity].
    - destruct (fs_bulk_rand c i s nx ks) as [[nx1 vs] l1] eqn:HR. apply fs_bulk_rand_q in HR. intro H; inversion H; subst; assumption.
  Qed.

  Lemma fs_query_q s nx parts nx' x l : fs_query c i s nx parts = (nx', x, l) -> nx <= nx' /\ stored l = [].
  Proof.
    unfold fs_query. destruct parts as [|n [|v [|w r]]]; try (intro H; inversion H; subst; split; [lia|reflexivity]).
    - destruct (format c nx None None [(n, lit_empty)]) as [nx1 [[id doc] ft]] eqn:HF. apply format_mono in HF.
      destruct ft as [|f [|f2 r]]; intro H; inversion H; subst; auto.
    - destruct (format c nx None None [(n, v)]) as [nx1 [[id doc] ft]] eqn:HF. apply format_mono in HF.
      destruct ft as [|f [|f2 r]]; intro H; inversion H; subst; auto.
  Qed.

  Lemma fs_delete_q s nx kt s' nx' x l : fs_delete c i s nx kt = (s', nx', x, l) -> nx <= nx' /\ stored l = [].
  Proof.
    unfold fs_delete. destruct (f_det c).
    - intro H; inversion H; subst. split; [lia|reflexivity].
    - destruct (key_query c i s nx kt) as [[nx1 found] l1] eqn:HQ. apply key_query_q in HQ as [Hq Hs].
      destruct found as [|[fk e] [|e2 r]]; intro H; inversion H; subst; rewrite ?stored_app, ?Hs; auto.
  Qed.

  Lemma fs_batch_det_q : forall b nx nx' ops, fs_batch_det c nx b = (nx', ops) -> goodl c nx nx' (ostored ops).
  Proof.
    induction b as [|[[kt v] tags] r IH]; cbn; intros nx nx' ops H; [inversion H; subst; apply goodl_nil; lia|].
    destruct (format c nx (Some kt) v tags) as [nx1 [[id doc] ft]] eqn:HF. apply opt_doc in HF.
    destruct (fs_batch_det c nx1 r) as [nx2 rest] eqn:HR. apply IH in HR.
    inversion H; subst. unfold ostored. cbn [flat_map fst snd]. eapply goodl_app; eassumption.
  Qed.

  Lemma fs_determine_q s nx m kt nx' fk l : fs_determine c i s nx m kt = (nx', fk, l) -> nx <= nx' /\ stored l = [].
  Proof.
    unfold fs_determine. destruct (r_lookup m kt).
    - intro H; inversion H; subst. split; [lia|reflexivity].
    - destruct (key_query c i s nx kt) as [[nx1 found] l1] eqn:HQ. apply key_query_q in HQ.
      intro H; inversion H; subst; assumption.
  Qed.

  Lemma fs_batch_rand_q s : forall b nx m nx' ops l, fs_batch_rand c i s nx m b = (nx', ops, l) ->
    nx <= nx' /\ stored l = [] /\ match ops with Some o => goodl c nx nx' (ostored o) | None => True end.
  Proof.
    induction b as [|[[kt v] tags] r IH]; cbn; intros nx m nx' ops l H.
    - inversion H; subst. split; [lia|split; [reflexivity|apply goodl_nil; lia]].
    - destruct (fs_determine c i s nx m kt) as [[nx1 fk] l1] eqn:HD. apply fs_determine_q in HD as [Hd Hs].
      destruct fk as [fk|]; [|inversion H; subst; auto].
      destruct v as [vt|].
      + destruct (format c nx1 (Some kt) (Some vt) (tags ++ [key_tag kt])) as [nx2 [[id doc] ft]] eqn:HF. apply opt_doc in HF.
        pose proof (goodl_le _ _ _ _ HF) as Hle.
        match type of H with context [fs_batch_rand c i s nx2 ?M r] => destruct (fs_batch_rand c i s nx2 M r) as [[nx3 rest] l2] eqn:HR end.
        apply IH in HR as (Hr & Hs2 & Hrest). inversion H; subst. rewrite stored_app, Hs, Hs2.
        split; [lia|split; [reflexivity|]]. destruct rest; [|exact I]. unfold ostored. cbn [flat_map fst snd].
        eapply goodl_app with (mid := nx2); [eapply goodl_weak; [| |exact HF]; lia|exact Hrest].
      + destruct fk as [y|].
        * destruct (fs_batch_rand c i s nx1 (r_set m kt None) r) as [[nx2 rest] l2] eqn:HR.
          apply IH in HR as (Hr & Hs2 & Hrest). inversion H; subst. rewrite stored_app, Hs, Hs2.
          split; [lia|split; [reflexivity|]]. destruct rest; [|exact I]. unfold ostored. cbn [app flat_map fst snd opt_terms].
          eapply goodl_weak; [| |exact Hrest]; lia.
        * destruct (fs_batch_rand c i s nx1 m r) as [[nx2 rest] l2] eqn:HR.
          apply IH in HR as (Hr & Hs2 & Hrest). inversion H; subst. rewrite stored_app, Hs, Hs2.
          split; [lia|split; [reflexivity|]]. destruct rest; [|exact I]. cbn [app].
          eapply goodl_weak; [| |exact Hrest]; lia.
  Qed.

  Lemma stored_batch ops : stored [CBatch i ops] = ostored ops.
  Proof. unfold stored. cbn. apply app_nil_r. Qed.

  Lemma fs_batch_q s nx b s' nx' x l : fs_batch c i s nx b = (s', nx', x, l) -> goodl c nx nx' (stored l).
  Proof.
    unfold fs_batch. destruct (f_det c).
    - destruct (fs_batch_det c nx b) as [nx1 ops] eqn:HB. apply fs_batch_det_q in HB.
      destruct (is_nil ops); intro H; inversion H; subst; rewrite stored_batch; assumption.
    - destruct (fs_batch_rand c i s nx [] b) as [[nx1 ops] l1] eqn:HB. apply fs_batch_rand_q in HB as (Hle & Hs & Hops).
      destruct ops as [ops|]; [|intro H; inversion H; subst; rewrite Hs; apply goodl_nil; assumption].
      destruct (negb (is_nil b) && is_nil ops); [intro H; inversion H; subst; rewrite Hs; apply goodl_nil; assumption|].
      destruct (is_nil ops); intro H; inversion H; subst; rewrite stored_app, Hs, stored_batch; assumption.
  Qed.
End StoreOps.

Lemma add_sort_stored t l : stored (map (add_sort t) l) = stored l.
Proof. induction l as [|x r IH]; [reflexivity|]. cbn [map]. change (x :: r) with ([x] ++ r).
  change (add_sort t x :: map (add_sort t) r) with ([add_sort t x] ++ map (add_sort t) r).
  rewrite !stored_app, IH. f_equal. destruct x; reflexivity. Qed.

Lemma xstep_q vr c s o s' x l : xstep vr c s o = (s', x, l) -> goodl c (s_nx s) (s_nx s') (stored l).
Proof.
  unfold xstep. destruct o as [o|q opts|names|].
  - destruct o.
    + destruct (valid_put k v t); [|intro H; inversion H; subst; apply goodl_nil; lia].
      destruct (fs_put c 0 (s_main s) (s_nx s) (tkey k) (tval v) (map app_tag t)) as [[[m nx] y] l1] eqn:HP.
      apply fs_put_q in HP. intro H; inversion H; subst. assumption.
    + destruct (N.eqb k 0); [intro H; inversion H; subst; apply goodl_nil; lia|].
      destruct (fs_get c 0 (s_main s) (s_nx s) (tkey k)) as [[nx y] l1] eqn:HP. apply fs_get_q in HP as [H1 H2].
      intro H; inversion H; subst. rewrite H2. apply goodl_nil. assumption.
    + destruct (N.eqb k 0); [intro H; inversion H; subst; apply goodl_nil; lia|].
      destruct (fs_gettags c 0 (s_main s) (s_nx s) (tkey k)) as [[nx y] l1] eqn:HP. apply fs_gettags_q in HP as [H1 H2].
      intro H; inversion H; subst. rewrite H2. apply goodl_nil. assumption.
    + destruct (is_nil ks || has_empty_key ks); [intro H; inversion H; subst; apply goodl_nil; lia|].
      destruct (fs_bulk c 0 (s_main s) (s_nx s) (map tkey ks)) as [[nx y] l1] eqn:HP. apply fs_bulk_q in HP as [H1 H2].
      intro H; inversion H; subst. rewrite H2. apply goodl_nil. assumption.
    + destruct (is_nil q); [intro H; inversion H; subst; apply goodl_nil; lia|].
      destruct (fs_query c 0 (s_main s) (s_nx s) (split_colon (expr_toks q) [])) as [[nx y] l1] eqn:HP. apply fs_query_q in HP as [H1 H2].
      intro H; inversion H; subst. rewrite H2. apply goodl_nil. assumption.
    + destruct (N.eqb k 0); [intro H; inversion H; subst; apply goodl_nil; lia|].
      destruct (fs_delete c 0 (s_main s) (s_nx s) (tkey k)) as [[[m nx] y] l1] eqn:HP. apply fs_delete_q in HP as [H1 H2].
      intro H; inversion H; subst. rewrite H2. apply goodl_nil. assumption.
    + destruct (has_empty_key (map bop_key b)); [intro H; inversion H; subst; apply goodl_nil; lia|].
      destruct (fs_batch c 0 (s_main s) (s_nx s) (map bop_term b)) as [[[m nx] y] l1] eqn:HP.
      apply fs_batch_q in HP. intro H; inversion H; subst. assumption.
    + intro H; inversion H; subst. apply goodl_nil; lia.
    + intro H; inversion H; subst. apply goodl_nil; cbn; lia.
  - destruct (is_nil q); [intro H; inversion H; subst; apply goodl_nil; lia|].
    destruct (fs_query c 0 (s_main s) (s_nx s) (split_colon (expr_toks q) [])) as [[nx y] l1] eqn:HP. apply fs_query_q in HP as [H1 H2].
    intro H; inversion H; subst. cbn [s_nx].
    assert (HS : stored (match last_sort opts None with
                         | Some n => if N.eqb n 0 then l1 else map (add_sort (sort_term vr c n)) l1
                         | None => l1 end) = []).
    { destruct (last_sort opts None) as [n|]; [destruct (N.eqb n 0)|]; rewrite ?add_sort_stored; assumption. }
    rewrite HS. apply goodl_nil. assumption.
  - destruct (existsb colon_name names); [intro H; inversion H; subst; apply goodl_nil; lia|].
    destruct (format c (s_nx s) None None
                (map (fun n => (tname n, lit_empty)) names ++ (if f_det c then [] else [(lit_keytag, lit_empty)])))
      as [nx1 [[id doc] ft]] eqn:HF. apply format_mono in HF.
    destruct (fs_put c 1 (s_cfg s) nx1 lit_cfgkey (cfg_value names) []) as [[[m nx2] y] l1] eqn:HP.
    apply fs_put_q in HP. intro H; inversion H; subst. cbn [s_nx].
    replace (stored (CSetCfg 0 (map fst ft) :: open_cfg s ++ l1)) with (stored l1).
    + eapply goodl_weak; [| |exact HP]; lia.
    + change (CSetCfg 0 (map fst ft) :: open_cfg s ++ l1) with ([CSetCfg 0 (map fst ft)] ++ open_cfg s ++ l1).
      rewrite !stored_app. unfold open_cfg. destruct (s_cfgopen s); reflexivity.
  - unfold fs_get_cfg.
    destruct (fs_find c 1 (s_cfg s) (s_nx s) lit_cfgkey) as [[nx1 found] l1] eqn:HQ. apply fs_find_q in HQ as [Hq Hs].
    assert (HL : stored (open_cfg s ++ (if f_det c then [CGet 1 (det_id c lit_cfgkey)] else l1)) = []).
    { rewrite stored_app. unfold open_cfg. destruct (s_cfgopen s), (f_det c); cbn; auto. }
    destruct found as [|[fk [doc tg]] [|e2 r]]; intro H; inversion H; subst; cbn [s_nx]; rewrite HL; apply goodl_nil; assumption.
Qed.

Lemma xrun_q v c : forall ops s s' outs, xrun v c s ops = (s', outs) -> goodl c (s_nx s) (s_nx s') (stored (flat_map snd outs)).
Proof.
  induction ops as [|o r IH]; cbn; intros s s' outs H; [inversion H; subst; apply goodl_nil; lia|].
  destruct (xstep v c s o) as [[s1 x] l] eqn:HS. apply xstep_q in HS.
  destruct (xrun v c s1 r) as [s2 rest] eqn:HR. apply IH in HR.
  inversion H; subst. cbn [flat_map snd]. rewrite stored_app. eapply goodl_app; eassumption.
Qed.

Lemma xlog_q v c ops : exists hi, goodl c 0 hi (stored (xlog v c ops)).
Proof.
  unfold xlog. destruct (xrun v c st0 ops) as [s outs] eqn:HR. apply xrun_q in HR. exists (s_nx s). exact HR.
Qed.

(* --- consequences --- *)
Lemma untlist_tlist l : untlist (tlist l) = l.
Proof. induction l; cbn; [reflexivity|]. f_equal. assumption. Qed.
Lemma untpair_tpair l : map untpair (map tpair l) = l.
Proof. induction l as [|[a b] r IH]; cbn; [reflexivity|]. f_equal. assumption. Qed.

Lemma doc_deformat c d : is_doc c d ->
  (exists id idx n k v tags, d = mkdoc id idx (jwe c n (content k v tags)) /\ deformat (f_rcp c) d = Some (k, v, tags)) /\
  (forall r, r <> f_rcp c -> deformat r d = None).
Proof.
  intros (id & idx & n & k & v & tags & ->). split.
  - exists id, idx, n, k, v, tags. split; [reflexivity|]. cbn. rewrite !N.eqb_refl. cbn.
    fold (tlist (map tpair tags)). rewrite untlist_tlist, untpair_tpair. reflexivity.
  - intros r Hr. cbn. apply N.eqb_neq in Hr. rewrite Hr. reflexivity.
Qed.

Lemma cek_inj c d1 d2 : is_doc c d1 -> is_doc c d2 -> d1 = d2 -> cek_of d1 = cek_of d2.
Proof. intros _ _ ->. reflexivity. Qed.

Lemma nodup_map_inv {A B} (f : A -> B) (l : list A) : NoDup (map f l) -> NoDup l.
Proof.
  induction l as [|a r IH]; cbn; intro H; [constructor|]. inversion H; subst. constructor; [|auto].
  intro Hin. apply H2. apply in_map. assumption.
Qed.
