(* C12 — secrecy of the REST configuration: every term of every request the vault server receives satisfies [ok]
   (coq/C12/Proofs.v), hence nothing the application stored, no configured key and no content key is derivable. *)
From Coq Require Import List NArith Bool Lia.
Import ListNotations.
From VF Require Import C11.Model C12.Model C12.Proofs C12.Rest.
Local Open Scope N_scope.

Definition rcall_ok (c : fcfg) (x : rcall) : bool := forallb (ok c) (rcall_terms x).
Definition rcalls_ok (c : fcfg) (l : list rcall) : bool := forallb (rcall_ok c) l.
Definition vop_ok (c : fcfg) (o : vop) : bool := oopt_ok c (snd (fst o)) && oopt_ok c (snd o).

Lemma rcalls_ok_app c a b : rcalls_ok c (a ++ b) = rcalls_ok c a && rcalls_ok c b.
Proof. apply forallb_app. Qed.
Lemma rcalls_ok_one c x : rcalls_ok c [x] = rcall_ok c x.
Proof. unfold rcalls_ok. cbn [forallb]. apply andb_true_r. Qed.
Lemma rcalls_ok_cons c x l : rcalls_ok c (x :: l) = rcall_ok c x && rcalls_ok c l.
Proof. reflexivity. Qed.

Lemma opt_terms_ok c o : forallb (ok c) (opt_terms o) = oopt_ok c o.
Proof. destruct o; cbn; [apply andb_true_r|reflexivity]. Qed.

Lemma hquery_ok c eqs has fl : rcall_ok c (HQuery eqs has fl) = forallb (tags_ok c) eqs && oopt_ok c has.
Proof.
  unfold rcall_ok. cbn [rcall_terms]. rewrite forallb_app, opt_terms_ok. f_equal.
  induction eqs as [|e r IH]; [reflexivity|]. cbn [flat_map forallb]. rewrite forallb_app, tag_terms_ok, IH. reflexivity.
Qed.
Lemma hbatch_ok c ops : rcall_ok c (HBatch ops) = forallb (vop_ok c) ops.
Proof.
  unfold rcall_ok. cbn [rcall_terms]. induction ops as [|o r IH]; [reflexivity|].
  cbn [flat_map forallb]. rewrite forallb_app, IH. unfold vop_terms, vop_ok. rewrite forallb_app, !opt_terms_ok. reflexivity.
Qed.
Lemma hid_ok c i : ok c i = true -> rcall_ok c (HRead i) = true /\ rcall_ok c (HDelete i) = true.
Proof. intro H. unfold rcall_ok; cbn. rewrite H. auto. Qed.
Lemma hcreate_ok c d : ok c d = true -> rcall_ok c (HCreate d) = true.
Proof. intro H. unfold rcall_ok; cbn. rewrite H. reflexivity. Qed.
Lemma hupdate_ok c i d : ok c i = true -> ok c d = true -> rcall_ok c (HUpdate i d) = true.
Proof. intros H1 H2. unfold rcall_ok; cbn. rewrite H1, H2. reflexivity. Qed.

(* --- the formatter with a prefix only produces hidden things --- *)
Lemma rdet_id_ok c k : ok c (rdet_id c k) = true.
Proof. apply det_id_ok. Qed.
Lemma rfmt_tag_ok c t : tag_ok c (rfmt_tag c t) = true.
Proof. unfold tag_ok, rfmt_tag. cbn [fst snd]. rewrite mac64_ok. destruct (is_empty (snd t)); [reflexivity|apply mac64_ok]. Qed.
Lemma rfmt_tags_ok c l : tags_ok c (map (rfmt_tag c) l) = true.
Proof. induction l; cbn; [reflexivity|]. rewrite rfmt_tag_ok; assumption. Qed.
Lemma rdoc_ok c n id kt vt tags : ok c id = true -> ok c (rdoc c n id kt vt tags) = true.
Proof. intro H. apply mkdoc_ok; [assumption|apply rfmt_tags_ok|apply jwe_ok]. Qed.

(* --- the vault server only ever holds what it was sent --- *)
Lemma doc_id_ok c d : ok c d = true -> ok c (doc_id d) = true.
Proof. destruct d; cbn; auto. intro H. apply andb_true_iff in H. tauto. Qed.
Lemma untl_ok c : forall t, ok c t = true -> tags_ok c (map untpair (untlist t)) = true.
Proof.
  induction t; try (intros; reflexivity). cbn [ok untlist map]. intro H. apply andb_true_iff in H as [H1 H2].
  change (tag_ok c (untpair t1) && tags_ok c (map untpair (untlist t2)) = true).
  rewrite IHt2 by assumption. rewrite andb_true_r. unfold tag_ok. destruct t1; cbn in *; auto.
Qed.
Lemma doc_idx_ok c d : ok c d = true -> tags_ok c (doc_idx d) = true.
Proof.
  destruct d; cbn; auto. intro H. apply andb_true_iff in H as [_ H]. destruct d2; cbn; auto.
  cbn in H. apply andb_true_iff in H as [H _]. apply untl_ok. assumption.
Qed.
Lemma sv_put_ok c s id d : store_ok c s = true -> ok c id = true -> ok c d = true -> store_ok c (sv_put s id d) = true.
Proof. intros Hs Hi Hd. apply u_put_ok; try assumption. apply doc_idx_ok. assumption. Qed.
Lemma sv_query_ok c s eqs has : store_ok c s = true -> store_ok c (sv_query s eqs has) = true.
Proof.
  unfold sv_query, store_ok. intro H. apply forallb_forall. intros x Hx. apply filter_In in Hx as [Hx _].
  rewrite forallb_forall in H. auto.
Qed.
Lemma sv_apply_ok c s o : store_ok c s = true -> vop_ok c o = true -> store_ok c (sv_apply s o) = true.
Proof.
  destruct o as [[u i] d]. unfold vop_ok. cbn [fst snd]. intros Hs H. apply andb_true_iff in H as [H1 H2].
  destruct u, i, d; cbn [sv_apply]; try assumption; cbn in H1, H2;
    try (apply sv_put_ok; [assumption|apply doc_id_ok; assumption|assumption]); apply u_remove_ok; assumption.
Qed.
Lemma sv_apply_all_ok c ops : forall s, store_ok c s = true -> forallb (vop_ok c) ops = true ->
  store_ok c (fold_left sv_apply ops s) = true.
Proof.
  induction ops as [|o r IH]; cbn; [auto|]. intros s Hs H. apply andb_true_iff in H as [H1 H2].
  apply IH; [apply sv_apply_ok; assumption|assumption].
Qed.
Lemma entry_parts c id d idx r : store_ok c ((id, (d, idx)) :: r) = true -> ok c id = true /\ ok c d = true.
Proof.
  cbn. unfold entry_ok. cbn. intro H. apply andb_true_iff in H as [H _]. apply andb_true_iff in H as [H _].
  apply andb_true_iff in H. exact H.
Qed.

Definition fres_ok (c : fcfg) (f : fres) : Prop :=
  match f with FDoc id d => ok c id = true /\ ok c d = true | _ => True end.

Section RestOps.
  Variable c : fcfg.
  Variable full batch : bool.

  Lemma keyq_ok s kt fl m l : store_ok c s = true -> r_keyq c s kt fl = (m, l) -> store_ok c m = true /\ rcalls_ok c l = true.
  Proof.
    intros Hs H. unfold r_keyq in H. inversion H; subst. split; [apply sv_query_ok; assumption|].
    rewrite rcalls_ok_one, hquery_ok. cbn. rewrite rfmt_tag_ok. reflexivity.
  Qed.

  Lemma find_rand_ok s kt f l : store_ok c s = true -> r_find_rand c full s kt = (f, l) -> fres_ok c f /\ rcalls_ok c l = true.
  Proof.
    intros Hs H. unfold r_find_rand in H. destruct (r_keyq c s kt full) as [m l0] eqn:HQ.
    apply keyq_ok in HQ as [Hm Hl]; [|assumption].
    destruct m as [|[id [d idx]] [|e2 r]]; inversion H; subst; cbn [fres_ok]; auto.
    apply entry_parts in Hm as [Hi Hd]. split; [split; [apply doc_id_ok|]; assumption|].
    destruct full; [assumption|]. rewrite rcalls_ok_app, Hl, rcalls_ok_one. apply hid_ok. assumption.
  Qed.

  Lemma find_ok s kt f l : store_ok c s = true -> r_find c full s kt = (f, l) -> fres_ok c f /\ rcalls_ok c l = true.
  Proof.
    intros Hs H. unfold r_find in H. destruct (f_det c); [|eapply find_rand_ok; eassumption].
    inversion H; subst. split; [|rewrite rcalls_ok_one; apply hid_ok, rdet_id_ok].
    destruct (u_lookup s (rdet_id c kt)) as [[d idx]|] eqn:HL; cbn [fres_ok]; [|exact I].
    apply (u_lookup_ok c) in HL as [HL _]; [|assumption]. split; [apply rdet_id_ok|exact HL].
  Qed.

  Lemma get_ok s kt x l : store_ok c s = true -> r_get c full s kt = (x, l) -> rcalls_ok c l = true.
  Proof.
    intros Hs H. unfold r_get in H. destruct (r_find c full s kt) as [f l0] eqn:HF.
    apply find_ok in HF as [_ Hl]; [|assumption]. inversion H; subst. assumption.
  Qed.
  Lemma gettags_ok s kt x l : store_ok c s = true -> r_gettags c full s kt = (x, l) -> rcalls_ok c l = true.
  Proof.
    intros Hs H. unfold r_gettags in H. destruct (r_find c full s kt) as [f l0] eqn:HF.
    apply find_ok in HF as [_ Hl]; [|assumption]. inversion H; subst. assumption.
  Qed.

  Lemma bulk_ok s : store_ok c s = true -> forall ks vs l, r_bulk c full s ks = (vs, l) -> rcalls_ok c l = true.
  Proof.
    intro Hs. induction ks as [|k r IH]; cbn [r_bulk]; intros vs l H; [inversion H; reflexivity|].
    destruct (N.eqb k 0); [inversion H; reflexivity|].
    destruct (r_find c full s (tkey k)) as [f l1] eqn:HF. apply find_ok in HF as [_ Hl1]; [|assumption].
    destruct (r_bulk c full s r) as [vs2 l2] eqn:HR. specialize (IH _ _ eq_refl).
    assert (HA : rcalls_ok c (l1 ++ l2) = true) by (rewrite rcalls_ok_app, Hl1, IH; reflexivity).
    destruct f as [| |id d]; try (inversion H; subst; assumption).
    destruct (deformat (f_rcp c) d) as [[[k0 v0] t0]|]; inversion H; subst; assumption.
  Qed.

  Lemma put_core_ok s nx kt vt tags s' nx' x l :
    store_ok c s = true -> r_put_core c full batch s nx kt vt tags = (s', nx', x, l) ->
    store_ok c s' = true /\ rcalls_ok c l = true.
  Proof.
    intros Hs H. unfold r_put_core in H. pose proof (rdet_id_ok c kt) as Hid. destruct (f_det c).
    - destruct batch.
      + inversion H; subst. cbn [doc_id rdoc mkdoc].
        split; [apply sv_put_ok; [assumption|exact Hid|apply rdoc_ok; exact Hid]|].
        rewrite rcalls_ok_one, hbatch_ok. cbn [forallb]. unfold vop_ok. cbn [fst snd oopt_ok].
        rewrite Hid, rdoc_ok by exact Hid. reflexivity.
      + destruct (u_lookup s (rdet_id c kt)); inversion H; subst; cbn [doc_id rdoc mkdoc].
        * split; [apply sv_put_ok; [assumption|exact Hid|apply rdoc_ok; exact Hid]|].
          rewrite !rcalls_ok_cons. destruct (hid_ok c _ Hid) as [Hr _]. rewrite Hr, hupdate_ok by (try apply rdoc_ok; exact Hid).
          reflexivity.
        * split; [apply sv_put_ok; [apply sv_put_ok; [assumption|exact Hid|apply rdoc_ok; exact Hid]|exact Hid|apply rdoc_ok; exact Hid]|].
          rewrite !rcalls_ok_cons. destruct (hid_ok c _ Hid) as [Hr _].
          rewrite Hr, hcreate_ok, hupdate_ok by (try apply rdoc_ok; exact Hid). reflexivity.
    - destruct (r_find_rand c full s kt) as [f l0] eqn:HF. apply find_rand_ok in HF as [Hf Hl]; [|assumption].
      destruct f as [| |id d]; inversion H; subst; auto; cbn [doc_id rdoc mkdoc].
      + split; [apply sv_put_ok; [assumption|reflexivity|apply rdoc_ok; reflexivity]|].
        rewrite rcalls_ok_app, Hl, rcalls_ok_one, hcreate_ok by (apply rdoc_ok; reflexivity). reflexivity.
      + cbn [fres_ok] in Hf. destruct Hf as [Hi _].
        split; [apply sv_put_ok; [assumption|exact Hi|apply rdoc_ok; exact Hi]|].
        rewrite rcalls_ok_app, Hl, rcalls_ok_one, hupdate_ok by (try apply rdoc_ok; exact Hi). reflexivity.
  Qed.

  Lemma delete_core_ok s kt s' x l :
    store_ok c s = true -> r_delete_core c s kt = (s', x, l) -> store_ok c s' = true /\ rcalls_ok c l = true.
  Proof.
    intros Hs H. unfold r_delete_core in H. destruct (f_det c).
    - inversion H; subst. split; [apply u_remove_ok; assumption|]. rewrite rcalls_ok_one. apply hid_ok, rdet_id_ok.
    - destruct (r_keyq c s kt false) as [m l0] eqn:HQ. apply keyq_ok in HQ as [Hm Hl]; [|assumption].
      destruct m as [|[id [d idx]] [|e2 r]]; inversion H; subst; auto.
      apply entry_parts in Hm as [Hi _]. split; [apply u_remove_ok; assumption|].
      rewrite rcalls_ok_app, Hl, rcalls_ok_one. apply hid_ok. assumption.
  Qed.

  Lemma batch_slow_ok : forall b s nx s' nx' x l,
    store_ok c s = true -> r_batch_slow c full batch s nx b = (s', nx', x, l) -> store_ok c s' = true /\ rcalls_ok c l = true.
  Proof.
    induction b as [|[[kt v] tags] r IH]; cbn [r_batch_slow]; intros s nx s' nx' x l Hs H; [inversion H; subst; auto|].
    assert (HA : forall s1 nx1 y l1,
               match v with
               | None => let '(s1, x, l) := r_delete_core c s kt in (s1, nx, x, l)
               | Some vt => r_put_core c full batch s nx kt vt tags
               end = (s1, nx1, y, l1) -> store_ok c s1 = true /\ rcalls_ok c l1 = true).
    { intros s1 nx1 y l1 HE. destruct v as [vt|].
      - eapply put_core_ok; eassumption.
      - destruct (r_delete_core c s kt) as [[s0 y0] l0] eqn:HD. inversion HE; subst. eapply delete_core_ok; eassumption. }
    destruct (match v with
              | None => let '(s1, x, l) := r_delete_core c s kt in (s1, nx, x, l)
              | Some vt => r_put_core c full batch s nx kt vt tags
              end) as [[[s1 nx1] y] l1] eqn:HE.
    destruct (HA _ _ _ _ eq_refl) as [Hs1 Hl1].
    destruct y; try (inversion H; subst; auto; fail).
    destruct (r_batch_slow c full batch s1 nx1 r) as [[[s2 nx2] y2] l2] eqn:HR.
    apply IH in HR as [Hs2 Hl2]; [|assumption]. inversion H; subst. rewrite rcalls_ok_app, Hl1, Hl2. auto.
  Qed.

  Lemma vops_det_ok : forall b nx nx' ops, r_vops_det c nx b = (nx', ops) -> forallb (vop_ok c) ops = true.
  Proof.
    induction b as [|[[kt v] tags] r IH]; cbn [r_vops_det]; intros nx nx' ops H; [inversion H; reflexivity|].
    destruct v as [vt|].
    - destruct (r_vops_det c (nx + 1) r) as [nx1 rest] eqn:HR. apply IH in HR. inversion H; subst.
      cbn [forallb]. rewrite HR. unfold vop_ok. cbn [fst snd oopt_ok]. rewrite rdet_id_ok, rdoc_ok by apply rdet_id_ok. reflexivity.
    - destruct (r_vops_det c nx r) as [nx1 rest] eqn:HR. apply IH in HR. inversion H; subst.
      cbn [forallb]. rewrite HR. unfold vop_ok. cbn [fst snd oopt_ok]. rewrite rdet_id_ok. reflexivity.
  Qed.

  Lemma determine_ok s m kt fk l :
    store_ok c s = true -> resolved_ok c m = true -> r_determine c s m kt = (fk, l) ->
    rcalls_ok c l = true /\ match fk with Some x => oopt_ok c x = true | None => True end.
  Proof.
    intros Hs Hm H. unfold r_determine in H. destruct (r_lookup m kt) as [x|] eqn:HL.
    - inversion H; subst. split; [reflexivity|eapply r_lookup_ok; eassumption].
    - destruct (r_keyq c s kt false) as [found l0] eqn:HQ. apply keyq_ok in HQ as [Hf Hl]; [|assumption].
      inversion H; subst. split; [assumption|].
      destruct found as [|[id [d idx]] [|e2 r]]; cbn [oopt_ok]; auto. apply entry_parts in Hf. tauto.
  Qed.

  Lemma vops_rand_ok s : store_ok c s = true -> forall b nx m nx' ops l,
    resolved_ok c m = true -> r_vops_rand c s nx m b = (nx', ops, l) ->
    rcalls_ok c l = true /\ match ops with Some o => forallb (vop_ok c) o = true | None => True end.
  Proof.
    intro Hs. induction b as [|[[kt v] tags] r IH]; cbn [r_vops_rand]; intros nx m nx' ops l Hm H; [inversion H; subst; auto|].
    destruct (r_determine c s m kt) as [fk l1] eqn:HD. apply determine_ok in HD as [Hl1 Hfk]; try assumption.
    destruct fk as [fk|]; [|inversion H; subst; auto].
    destruct v as [vt|].
    - destruct fk as [id|].
      + cbn [oopt_ok] in Hfk.
        destruct (r_vops_rand c s (nx + 1) (r_set m kt (Some id)) r) as [[nx2 rest] l2] eqn:HR.
        apply IH in HR as [Hl2 Hrest]; [|cbn; rewrite Hfk; assumption].
        inversion H; subst. rewrite rcalls_ok_app, Hl1, Hl2. split; [reflexivity|].
        destruct rest; [|exact I]. cbn [forallb]. rewrite Hrest. unfold vop_ok. cbn [fst snd oopt_ok].
        rewrite rdoc_ok by assumption. reflexivity.
      + destruct (r_vops_rand c s (nx + 2) (r_set m kt (Some (Enc 0 (Rnd nx)))) r) as [[nx2 rest] l2] eqn:HR.
        apply IH in HR as [Hl2 Hrest]; [|cbn; assumption].
        inversion H; subst. rewrite rcalls_ok_app, Hl1, Hl2. split; [reflexivity|].
        destruct rest; [|exact I]. cbn [forallb]. rewrite Hrest. unfold vop_ok. cbn [fst snd oopt_ok].
        rewrite rdoc_ok by reflexivity. reflexivity.
    - destruct fk as [x|].
      + destruct (r_vops_rand c s nx (r_set m kt None) r) as [[nx2 rest] l2] eqn:HR.
        apply IH in HR as [Hl2 Hrest]; [|cbn; assumption].
        inversion H; subst. rewrite rcalls_ok_app, Hl1, Hl2. split; [reflexivity|].
        destruct rest; [|exact I]. cbn [app forallb]. rewrite Hrest. unfold vop_ok. cbn [fst snd oopt_ok].
        cbn [oopt_ok] in Hfk. rewrite Hfk. reflexivity.
      + destruct (r_vops_rand c s nx m r) as [[nx2 rest] l2] eqn:HR.
        apply IH in HR as [Hl2 Hrest]; [|assumption].
        inversion H; subst. rewrite rcalls_ok_app, Hl1, Hl2. split; [reflexivity|].
        destruct rest; [|exact I]. cbn. exact Hrest.
  Qed.

  (* --- queries --- *)
  Lemma sf_set_ok m t : tags_ok c m = true -> tag_ok c t = true -> tags_ok c (sf_set m t) = true.
  Proof.
    unfold tags_ok. induction m as [|x r IH]; intros Hm Ht.
    - cbn [sf_set forallb]. rewrite Ht. reflexivity.
    - cbn [forallb] in Hm. apply andb_true_iff in Hm as [H1 H2]. cbn [sf_set].
      destruct (term_eqb (fst x) (fst t)); cbn [forallb]; [rewrite Ht; exact H2|rewrite H1; apply IH; assumption].
  Qed.
  Lemma subfilter_ok : forall q acc m, tags_ok c acc = true -> r_subfilter c q acc = Some m -> tags_ok c m = true.
  Proof.
    induction q as [|x r IH]; cbn [r_subfilter]; intros acc m Ha H; [inversion H; subst; assumption|].
    destruct (rcrit_parts x) as [|n [|v [|w z]]]; try discriminate;
      (eapply IH; [|exact H]); apply sf_set_ok; try assumption; apply rfmt_tag_ok.
  Qed.
  Lemma sub_ok q m : r_sub c q = Some m -> tags_ok c m = true.
  Proof.
    unfold r_sub. destruct q as [|x r].
    - intro H. inversion H; subst. cbn [tags_ok forallb]. rewrite rfmt_tag_ok. reflexivity.
    - apply subfilter_ok. reflexivity.
  Qed.
  Lemma equals_ok : forall qs eqs, r_equals c qs = Some eqs -> forallb (tags_ok c) eqs = true.
  Proof.
    induction qs as [|q r IH]; cbn [r_equals]; intros eqs H; [inversion H; reflexivity|].
    destruct (r_sub c q) as [a|] eqn:HS; [|discriminate]. destruct (r_equals c r) as [b|]; [|discriminate].
    inversion H; subst. cbn [forallb]. rewrite (sub_ok _ _ HS), IH; reflexivity.
  Qed.
  Lemma edv_query_ok qs eqs has : r_edv_query c qs = Some (eqs, has) -> rcall_ok c (HQuery eqs has full) = true.
  Proof.
    intro H. rewrite hquery_ok.
    assert (HG : forall e h, match r_equals c qs with
                        | None => None
                        | Some [[f]] => if is_empty (snd f) then Some ([], Some (fst f)) else Some ([[f]], None)
                        | Some eqs => Some (eqs, None)
                        end = Some (e, h) -> forallb (tags_ok c) e && oopt_ok c h = true).
    { intros e h HE. destruct (r_equals c qs) as [es|] eqn:HQ; [|discriminate]. apply equals_ok in HQ.
      destruct es as [|[|f [|f2 fr]] [|e2 er]]; try (inversion HE; subst; rewrite HQ; reflexivity).
      destruct (is_empty (snd f)); inversion HE; subst; [|rewrite HQ; reflexivity].
      cbn in HQ. rewrite !andb_true_r in HQ. unfold tag_ok in HQ. apply andb_true_iff in HQ as [HQ _]. cbn. exact HQ. }
    unfold r_edv_query in H. destruct qs as [|[|x q] [|q2 r]]; try discriminate; apply HG; exact H.
  Qed.

  Lemma reads_ok (m : ustore) : store_ok c m = true -> rcalls_ok c (map (fun ke => HRead (fst ke)) m) = true.
  Proof.
    induction m as [|[id [d idx]] r IH]; [reflexivity|]. intro H. pose proof (entry_parts _ _ _ _ _ H) as [Hi _].
    cbn in H. apply andb_true_iff in H as [_ H]. cbn [map fst]. rewrite rcalls_ok_cons, IH by assumption.
    destruct (hid_ok c _ Hi) as [Hr _]. rewrite Hr. reflexivity.
  Qed.

  Lemma query_ok s qs opts x l : store_ok c s = true -> r_query c full s qs opts = (x, l) -> rcalls_ok c l = true.
  Proof.
    intros Hs H. unfold r_query in H. destruct (last_sort opts None); [inversion H; reflexivity|].
    destruct (negb (N.eqb (last_init opts 0) 0)); [inversion H; reflexivity|].
    destruct (r_edv_query c qs) as [[eqs has]|] eqn:HQ; [|inversion H; reflexivity].
    apply edv_query_ok in HQ. inversion H; subst. rewrite rcalls_ok_cons, HQ.
    destruct full; [reflexivity|]. apply reads_ok, sv_query_ok. assumption.
  Qed.
End RestOps.

Lemma batch_op_ok c full batch s nx b s' nx' x l :
  store_ok c s = true -> r_batch_op c full batch s nx b = (s', nx', x, l) -> store_ok c s' = true /\ rcalls_ok c l = true.
Proof.
  intros Hs H. unfold r_batch_op in H. destruct batch; [|eapply batch_slow_ok; eassumption].
  destruct (f_det c).
  - destruct (r_vops_det c nx b) as [nx1 ops] eqn:HV. apply vops_det_ok in HV. inversion H; subst.
    split; [apply sv_apply_all_ok; assumption|]. rewrite rcalls_ok_one, hbatch_ok. assumption.
  - destruct (r_vops_rand c s nx [] b) as [[nx1 ops] l1] eqn:HV.
    apply vops_rand_ok in HV as [Hl1 Hops]; [|assumption|reflexivity].
    destruct ops as [ops|]; inversion H; subst; auto.
    split; [apply sv_apply_all_ok; assumption|]. rewrite rcalls_ok_app, Hl1, rcalls_ok_one, hbatch_ok. assumption.
Qed.


(* ---------- the provider as a whole ---------- *)
Definition rinv (c : fcfg) (s : rst) : Prop := store_ok c (v_docs s) = true.

Lemma rstep_ok rc s o s' x l : rinv (r_f rc) s -> rstep rc s o = (s', x, l) -> rinv (r_f rc) s' /\ rcalls_ok (r_f rc) l = true.
Proof.
  unfold rinv. intros Hs H. unfold rstep in H. destruct o as [o|qs opts|names|].
  - destruct o.
    + destruct (valid_put k v t); [|inversion H; subst; auto].
      destruct (r_put_core (r_f rc) (r_full rc) (r_batch rc) (v_docs s) (v_nx s) (tkey k) (tval v) (map app_tag t))
        as [[[m nx] y] l1] eqn:HP.
      apply put_core_ok in HP as [H1 H2]; [|assumption]. inversion H; subst. auto.
    + destruct (N.eqb k 0); [inversion H; subst; auto|].
      destruct (r_get (r_f rc) (r_full rc) (v_docs s) (tkey k)) as [y l1] eqn:HP.
      apply get_ok in HP; [|assumption]. inversion H; subst. auto.
    + destruct (N.eqb k 0); [inversion H; subst; auto|].
      destruct (r_gettags (r_f rc) (r_full rc) (v_docs s) (tkey k)) as [y l1] eqn:HP.
      apply gettags_ok in HP; [|assumption]. inversion H; subst. auto.
    + destruct (is_nil ks); [inversion H; subst; auto|].
      destruct (r_bulk (r_f rc) (r_full rc) (v_docs s) ks) as [vs l1] eqn:HP.
      apply bulk_ok in HP; [|assumption]. inversion H; subst. auto.
    + destruct (r_query (r_f rc) (r_full rc) (v_docs s) [q] []) as [y l1] eqn:HP.
      apply query_ok in HP; [|assumption]. inversion H; subst. auto.
    + destruct (N.eqb k 0); [inversion H; subst; auto|].
      destruct (r_delete_core (r_f rc) (v_docs s) (tkey k)) as [[m y] l1] eqn:HP.
      apply delete_core_ok in HP as [H1 H2]; [|assumption]. inversion H; subst. auto.
    + destruct (is_nil b || has_empty_key (map bop_key b)); [inversion H; subst; auto|].
      destruct (r_batch_op (r_f rc) (r_full rc) (r_batch rc) (v_docs s) (v_nx s) (map bop_term b)) as [[[m nx] y] l1] eqn:HP.
      apply batch_op_ok in HP as [H1 H2]; [|assumption]. inversion H; subst. auto.
    + inversion H; subst; auto.
    + inversion H; subst; auto.
  - destruct (r_query (r_f rc) (r_full rc) (v_docs s) qs opts) as [y l1] eqn:HP.
    apply query_ok in HP; [|assumption]. inversion H; subst. auto.
  - destruct (existsb colon_name names); inversion H; subst; auto.
  - inversion H; subst; auto.
Qed.

Lemma rrun_ok rc : forall ops s s' outs, rinv (r_f rc) s -> rrun rc s ops = (s', outs) ->
  rinv (r_f rc) s' /\ rcalls_ok (r_f rc) (flat_map snd outs) = true.
Proof.
  induction ops as [|o r IH]; cbn; intros s s' outs Hi H; [inversion H; subst; auto|].
  destruct (rstep rc s o) as [[s1 x] l] eqn:HS. apply rstep_ok in HS as [Hi1 Hl]; [|assumption].
  destruct (rrun rc s1 r) as [s2 rest] eqn:HR. apply IH in HR as [Hi2 Hrest]; [|assumption].
  inversion H; subst. cbn [flat_map snd]. rewrite rcalls_ok_app, Hl, Hrest. auto.
Qed.

Lemma rcalls_ok_terms c l : rcalls_ok c l = true -> forall t, In t (rlog_terms l) -> ok c t = true.
Proof.
  intros H t Ht. unfold rlog_terms in Ht. apply in_flat_map in Ht as (x & Hx & Ht).
  unfold rcalls_ok in H. rewrite forallb_forall in H. apply H in Hx. unfold rcall_ok in Hx.
  rewrite forallb_forall in Hx. auto.
Qed.

Lemma rinv0 c : rinv c rst0.
Proof. reflexivity. Qed.

Lemma rsecrecy_from rc s ops ks t :
  rinv (r_f rc) s -> foreign_keys (r_f rc) ks ->
  derivable (ks ++ rlog_terms (flat_map snd (snd (rrun rc s ops)))) t -> ok (r_f rc) t = true.
Proof.
  intros Hi Hk HD. destruct (rrun rc s ops) as [s' outs] eqn:HR. apply rrun_ok in HR as [_ H]; [|assumption].
  eapply ok_derivable; [|exact HD]. intros u Hu. apply in_app_iff in Hu as [Hu|Hu].
  - eapply foreign_ok; eassumption.
  - eapply rcalls_ok_terms; eassumption.
Qed.

Lemma rsecrecy rc ops ks t :
  foreign_keys (r_f rc) ks -> derivable (ks ++ rlog_terms (rlog rc ops)) t -> ok (r_f rc) t = true.
Proof. intros Hk HD. eapply (rsecrecy_from rc rst0); [apply rinv0|eassumption|exact HD]. Qed.

Lemma rlog_ok rc ops t : In t (rlog_terms (rlog rc ops)) -> ok (r_f rc) t = true.
Proof.
  intro H. unfold rlog in H. destruct (rrun rc rst0 ops) as [s' outs] eqn:HR.
  apply rrun_ok in HR as [_ HO]; [|apply rinv0]. eapply rcalls_ok_terms; eassumption.
Qed.
