(* C12 — correspondence.  The harness drives the REAL formattedstore.FormattedProvider with the REAL
   edv.EncryptedFormatter (own KMS, real JWE encrypter/decrypter, real HMAC) over a recording provider and, per
   operation, writes down (a) the result and (b) every call the underlying provider received, each argument
   abstracted to a term: MAC outputs are recognised by recomputing them with the MAC key, stored documents are parsed
   and their JWE opened with the configured decrypter, unknown 16-byte base58 ids become [Rnd n] and each distinct
   JWE ciphertext a [Cek n] (numbered by first appearance), anything else readable stays readable ([App], [Enc e (App ..)]).
   Here the same operations are run through [xstep] — the function the theorems are about — and the two call logs must
   be equal up to a one-to-one renaming of the random draws (Rnd, Cek). *)
From Coq Require Import List NArith Bool.
Import ListNotations.
From VF Require Export C11.Model C12.Model.
From VF Require C11.Corr.
Local Open Scope N_scope.

(* ---------- short names the harness prints ---------- *)
Definition cfg0 (det : bool) : fcfg := {| f_det := det; f_mac := 0; f_rcp := 0 |}.
Definition aK := App CKey.
Definition aV := App CVal.
Definition aN := App CName.
Definition aT := App CTVal.
Definition L := Lit.
Definition dI (t : term) : term := det_id (cfg0 true) t.          (* base58(HMAC(t)[0:16]) *)
Definition rI (n : N) : term := Enc 0 (Rnd n).                    (* base58 of 16 unknown bytes *)
Definition mM (t : term) : term := mac64 (cfg0 true) t.           (* base64url(HMAC(t)) *)
Definition b6 (t : term) : term := Enc 2 t.                       (* base64std(t) *)
Definition cV (names : list N) : term := cfg_value names.
Definition jN (l : list term) : term := join l.                   (* concatenation of several strings *)
(* a stored document: id, indexed attributes, n-th distinct ciphertext, and what the configured key decrypts it to *)
Definition eD (id : term) (idx : list ttag) (n : N) (k v : term) (tags : list ttag) : term :=
  mkdoc id idx (jwe (cfg0 true) n (content k v tags)).

(* ---------- equality of terms up to a one-to-one renaming of Rnd and Cek ---------- *)
Record env := { e_rnd : list (N * N); e_cek : list (N * N) }.
Definition env0 : env := {| e_rnd := []; e_cek := [] |}.
Definition bind (l : list (N * N)) (a b : N) : option (list (N * N)) :=
  match find (fun p => N.eqb (fst p) a) l with
  | Some p => if N.eqb (snd p) b then Some l else None
  | None => if existsb (fun p => N.eqb (snd p) b) l then None else Some ((a, b) :: l)
  end.
Definition andthen (o : option env) (f : env -> option env) : option env := match o with Some e => f e | None => None end.

Fixpoint tmatch (x y : term) (e : env) : option env :=
  match x, y with
  | App c n, App c' n' => if cls_eqb c c' && N.eqb n n' then Some e else None
  | Lit n, Lit n' | MacKey n, MacKey n' | Priv n, Priv n' => if N.eqb n n' then Some e else None
  | Rnd a, Rnd b => match bind (e_rnd e) a b with Some l => Some {| e_rnd := l; e_cek := e_cek e |} | None => None end
  | Cek a, Cek b => match bind (e_cek e) a b with Some l => Some {| e_rnd := e_rnd e; e_cek := l |} | None => None end
  | Mac k m, Mac k' m' | AEnc k m, AEnc k' m' | Pair k m, Pair k' m' => andthen (tmatch k k' e) (tmatch m m')
  | Trunc t, Trunc t' => tmatch t t' e
  | Enc a t, Enc a' t' | PkEnc a t, PkEnc a' t' => if N.eqb a a' then tmatch t t' e else None
  | Nil, Nil => Some e
  | _, _ => None
  end.
Fixpoint lmatch (x y : list term) (e : env) : option env :=
  match x, y with
  | [], [] => Some e
  | a :: r, b :: t => andthen (tmatch a b e) (lmatch r t)
  | _, _ => None
  end.

(* the shape of a call: constructor, store, arities *)
Definition obit {A} (o : option A) : N := match o with Some _ => 1 | None => 0 end.
Definition len {A} (l : list A) : N := N.of_nat (length l).
Definition call_sig (c : call) : list N :=
  match c with
  | COpen s => [0; s]
  | CSetCfg s names => [1; s; len names]
  | CPut s _ _ tags => [2; s; len tags]
  | CGet s _ => [3; s]
  | CGetTags s _ => [4; s]
  | CGetBulk s ks => [5; s; len ks]
  | CQuery s _ v => [6; s; obit v]
  | CQuerySort s _ v _ => [11; s; obit v]
  | CDelete s _ => [7; s]
  | CBatch s ops => 8 :: s :: flat_map (fun o => [obit (snd (fst o)); len (snd o)]) ops
  | CFlush s => [9; s]
  | CClose s => [10; s]
  end.
Definition cmatch (x y : call) (e : env) : option env :=
  if C11.Corr.list_eqb N.eqb (call_sig x) (call_sig y) then lmatch (call_terms x) (call_terms y) e else None.
Fixpoint csmatch (x y : list call) (e : env) : option env :=
  match x, y with
  | [], [] => Some e
  | a :: r, b :: t => andthen (cmatch a b e) (csmatch r t)
  | _, _ => None
  end.

(* ---------- a case: configuration, and per operation the observed result and the observed provider calls ---------- *)
Record case := { c_det : bool; c_steps : list (xop * out * list call) }.

Fixpoint check_from (c : fcfg) (s : st) (e : env) (steps : list (xop * out * list call)) : bool :=
  match steps with
  | [] => true
  | (o, x, l) :: r =>
      let '(s1, y, m) := xstep Fixed c s o in
      C11.Corr.out_eqb x y &&
      match csmatch m l e with Some e1 => check_from c s1 e1 r | None => false end
  end.

Definition check_case (k : case) : bool := check_from (cfg0 (c_det k)) st0 env0 (c_steps k).

Fixpoint mismatches_from (i : nat) (cs : list case) : list nat :=
  match cs with
  | [] => []
  | c :: r => if check_case c then mismatches_from (S i) r else i :: mismatches_from (S i) r
  end.
Definition mismatches := mismatches_from 0.
