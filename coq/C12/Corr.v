(* C12 — correspondence.  The harness drives the REAL formattedstore.FormattedProvider with the REAL
   edv.EncryptedFormatter (own KMS, real JWE encrypter/decrypter, real HMAC) over a recording provider and, per
   operation, writes down (a) the result and (b) every call the underlying provider received, each argument
   abstracted to a term: MAC outputs are recognised by recomputing them with the MAC key, stored documents are parsed
   and their JWE opened with the configured decrypter, unknown 16-byte base58 ids become [Rnd n] and each distinct
   JWE ciphertext a [Cek n] (numbered by first appearance), anything else readable stays readable ([App], [Enc e (App ..)]).
   Here the same operations are run through [xstep] — the function the theorems are about — and the two call logs must
   be equal up to a one-to-one renaming of the random draws (Rnd, Cek). *)
From Coq Require Import List NArith Bool.
Import ListNotations.
From VF Require Export C11.Model C12.Model C12.Rest.
From VF Require C11.Corr.
Local Open Scope N_scope.

(* ---------- short names the harness prints ---------- *)
Definition cfg0 (det : bool) : fcfg := {| f_det := det; f_mac := 0; f_rcp := 0 |}.
Definition aK := App CKey.
Definition aV := App CVal.
Definition aN := App CName.
Definition aT := App CTVal.
Definition L := Lit.
Definition dI (t : term) : term := det_id (cfg0 true) t.          (* base58(HMAC(t)[0:16]) *)
Definition rI (n : N) : term := Enc 0 (Rnd n).                    (* base58 of 16 unknown bytes *)
Definition mM (t : term) : term := mac64 (cfg0 true) t.           (* base64url(HMAC(t)) *)
Definition b6 (t : term) : term := Enc 2 t.                       (* base64std(t) *)
Definition cV (names : list N) : term := cfg_value names.
Definition jN (l : list term) : term := join l.                   (* concatenation of several strings *)
(* a stored document: id, indexed attributes, n-th distinct ciphertext, and what the configured key decrypts it to *)
Definition eD (id : term) (idx : list ttag) (n : N) (k v : term) (tags : list ttag) : term :=
  mkdoc id idx (jwe (cfg0 true) n (content k v tags)).

(* REST configuration: the prefix is the store name *)
Definition dP (t : term) : term := rdet_id (cfg0 true) t.         (* base58(HMAC(store ++ t)[0:16]) *)
Definition mP (t : term) : term := mac64 (cfg0 true) (pre t).      (* base64url(HMAC(store ++ t)) *)

(* ---------- equality of terms up to a one-to-one renaming of Rnd and Cek ---------- *)
Record env := { e_rnd : list (N * N); e_cek : list (N * N) }.
Definition env0 : env := {| e_rnd := []; e_cek := [] |}.
Definition bind (l : list (N * N)) (a b : N) : option (list (N * N)) :=
  match find (fun p => N.eqb (fst p) a) l with
  | Some p => if N.eqb (snd p) b then Some l else None
  | None => if existsb (fun p => N.eqb (snd p) b) l then None else Some ((a, b) :: l)
  end.
Definition andthen (o : option env) (f : env -> option env) : option env := match o with Some e => f e | None => None end.

Fixpoint tmatch (x y : term) (e : env) : option env :=
  match x, y with
  | App c n, App c' n' => if cls_eqb c c' && N.eqb n n' then Some e else None
  | Lit n, Lit n' | MacKey n, MacKey n' | Priv n, Priv n' => if N.eqb n n' then Some e else None
  | Rnd a, Rnd b => match bind (e_rnd e) a b with Some l => Some {| e_rnd := l; e_cek := e_cek e |} | None => None end
  | Cek a, Cek b => match bind (e_cek e) a b with Some l => Some {| e_rnd := e_rnd e; e_cek := l |} | None => None end
  | Mac k m, Mac k' m' | AEnc k m, AEnc k' m' | Pair k m, Pair k' m' => andthen (tmatch k k' e) (tmatch m m')
  | Trunc t, Trunc t' => tmatch t t' e
  | Enc a t, Enc a' t' | PkEnc a t, PkEnc a' t' => if N.eqb a a' then tmatch t t' e else None
  | Nil, Nil => Some e
  | _, _ => None
  end.
Fixpoint lmatch (x y : list term) (e : env) : option env :=
  match x, y with
  | [], [] => Some e
  | a :: r, b :: t => andthen (tmatch a b e) (lmatch r t)
  | _, _ => None
  end.

(* the shape of a call: constructor, store, arities *)
Definition obit {A} (o : option A) : N := match o with Some _ => 1 | None => 0 end.
Definition len {A} (l : list A) : N := N.of_nat (length l).
Definition call_sig (c : call) : list N :=
  match c with
  | COpen s => [0; s]
  | CSetCfg s names => [1; s; len names]
  | CPut s _ _ tags => [2; s; len tags]
  | CGet s _ => [3; s]
  | CGetTags s _ => [4; s]
  | CGetBulk s ks => [5; s; len ks]
  | CQuery s _ v => [6; s; obit v]
  | CQuerySort s _ v _ => [11; s; obit v]
  | CDelete s _ => [7; s]
  | CBatch s ops => 8 :: s :: flat_map (fun o => [obit (snd (fst o)); len (snd o)]) ops
  | CFlush s => [9; s]
  | CClose s => [10; s]
  end.
Definition cmatch (x y : call) (e : env) : option env :=
  if C11.Corr.list_eqb N.eqb (call_sig x) (call_sig y) then lmatch (call_terms x) (call_terms y) e else None.
Fixpoint csmatch (x y : list call) (e : env) : option env :=
  match x, y with
  | [], [] => Some e
  | a :: r, b :: t => andthen (cmatch a b e) (csmatch r t)
  | _, _ => None
  end.

(* ---------- requests received by the vault server (REST configuration) ---------- *)
Definition bbit (b : bool) : N := if b then 1 else 0.
Definition rcall_sig (x : rcall) : list N :=
  match x with
  | HCreate _ => [20]
  | HUpdate _ _ => [21]
  | HRead _ => [22]
  | HDelete _ => [23]
  | HQuery eqs has fl => 24 :: obit has :: bbit fl :: map (fun sub => len sub) eqs
  | HBatch ops => 25 :: flat_map (fun o => [bbit (fst (fst o)); obit (snd (fst o)); obit (snd o)]) ops
  end.
(* a sub-filter of a query is a JSON object (a Go map): its members are compared as a multiset.  Formatted tag names
   and values contain no random draws, so plain equality is the right comparison. *)
Definition ttag_eqb (a b : ttag) : bool := term_eqb (fst a) (fst b) && term_eqb (snd a) (snd b).
Fixpoint remove_tag (t : ttag) (l : list ttag) : option (list ttag) :=
  match l with
  | [] => None
  | x :: r => if ttag_eqb t x then Some r else match remove_tag t r with Some r' => Some (x :: r') | None => None end
  end.
Fixpoint sub_perm (a b : list ttag) : bool :=
  match a with
  | [] => match b with [] => true | _ => false end
  | t :: r => match remove_tag t b with Some b' => sub_perm r b' | None => false end
  end.
Fixpoint subs_match (a b : list (list ttag)) : bool :=
  match a, b with
  | [], [] => true
  | x :: r, y :: t => sub_perm x y && subs_match r t
  | _, _ => false
  end.
Definition rcmatch (x y : rcall) (e : env) : option env :=
  if C11.Corr.list_eqb N.eqb (rcall_sig x) (rcall_sig y) then
    match x, y with
    | HQuery eqs has _, HQuery eqs' has' _ =>
        if subs_match eqs eqs' then lmatch (opt_terms has) (opt_terms has') e else None
    | _, _ => lmatch (rcall_terms x) (rcall_terms y) e
    end
  else None.
Fixpoint rcsmatch (x y : list rcall) (e : env) : option env :=
  match x, y with
  | [], [] => Some e
  | a :: r, b :: t => andthen (rcmatch a b e) (rcsmatch r t)
  | _, _ => None
  end.

(* ---------- a case: configuration, and per operation the observed result and the observed provider calls ---------- *)
Inductive case :=
| FsCase (det : bool) (steps : list (xop * out * list call))                    (* formattedstore over a recording provider *)
| RestCase (det full batch : bool) (steps : list (rop * out * list rcall)).     (* RESTProvider against the recording vault server *)

Fixpoint check_from (c : fcfg) (s : st) (e : env) (steps : list (xop * out * list call)) : bool :=
  match steps with
  | [] => true
  | (o, x, l) :: r =>
      let '(s1, y, m) := xstep Fixed c s o in
      C11.Corr.out_eqb x y &&
      match csmatch m l e with Some e1 => check_from c s1 e1 r | None => false end
  end.

Fixpoint rcheck_from (rc : rcfg) (s : rst) (e : env) (steps : list (rop * out * list rcall)) : bool :=
  match steps with
  | [] => true
  | (o, x, l) :: r =>
      let '(s1, y, m) := rstep rc s o in
      C11.Corr.out_eqb x y &&
      match rcsmatch m l e with Some e1 => rcheck_from rc s1 e1 r | None => false end
  end.

Definition check_case (k : case) : bool :=
  match k with
  | FsCase det steps => check_from (cfg0 det) st0 env0 steps
  | RestCase det full batch steps =>
      rcheck_from {| r_f := cfg0 det; r_full := full; r_batch := batch |} rst0 env0 steps
  end.

Fixpoint mismatches_from (i : nat) (cs : list case) : list nat :=
  match cs with
  | [] => []
  | c :: r => if check_case c then mismatches_from (S i) r else i :: mismatches_from (S i) r
  end.
Definition mismatches := mismatches_from 0.
