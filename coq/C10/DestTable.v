(* C10 — the generated table of service.CreateDestination (coq/gen/Gen_C10.v, regenerated from /repo on every run by
   harness/c10gen) read as documents of the model. *)
From Coq Require Import List NArith Bool.
Import ListNotations.
From VF Require Import C10.Model.
From VF Require gen.Gen_C10.
Local Open Scope N_scope.

Definition svct_of (n : N) : svct := match n with 0 => TV2 | 1 => TV1 | 2 => TIndy | _ => TOther end.

Definition row := (list (N * list N * bool * N) * list N * option (N * list N))%type.

Definition row_doc (r : row) : doc :=
  let '(blocks, ka, _) := r in
  Doc 1 (map (fun b => let '(t, ks, pl, e) := b in Svc (svct_of t) ks pl e) blocks) ka 0.

Definition row_ok (r : row) : bool :=
  let '(_, _, obs) := r in
  match dest (row_doc r), obs with
  | None, None => true
  | Some (e, ks), Some (e', ks') => N.eqb e e' && keys_eqb ks ks'
  | _, _ => false
  end.

Definition table_ok : bool := forallb row_ok Gen_C10.dest_table.
Definition table_rows : nat := length Gen_C10.dest_table.
Definition table_answers : nat :=
  length (filter (fun r : row => match snd r with Some _ => true | None => false end) Gen_C10.dest_table).

(* the second generated table: what the two services do with the type of a request document's first block *)
Definition proto_of (n : N) : proto := match n with 0 => DX | _ => LC end.
Definition good_my : doc := doc1 1 [2] 3 4.
Definition reply_row_ok (r : N * N * bool * bool) : bool :=
  let '(p, t, created, reply) := r in
  Bool.eqb (my_type_ok (proto_of p) (Some (svct_of t))) created &&
  Bool.eqb (my_type_ok (proto_of p) (Some (svct_of t)) && reply_key_ok (proto_of p) (Some (svct_of t)) good_my) reply.
Definition reply_table_ok : bool :=
  forallb reply_row_ok Gen_C10.reply_table && Nat.eqb (length Gen_C10.reply_table) 8.
