(* C10 — property theorems about destinations (the keys and the endpoint a DID's document makes messages go to), which the
   model computes from the document's service blocks exactly as service.CreateDestination does (the correspondence
   compares Model.dest with the real function on every document of every trace: Corr.dests_ok). *)
From Coq Require Import List NArith Bool.
Import ListNotations.
From VF Require Import C10.Model C10.Proofs C10.DestProofs C10.DestTable.
Local Open Scope N_scope.

(* NO RE-POINTING, said of what the property names: for every agent state, every identifier d that resolves there, and
   EVERY later input history, messages for d are packed for the same recipient keys and posted to the same endpoint
   (whatever service blocks, key agreement keys, priorities the documents in those inputs carry). *)
Theorem no_repoint_destination : forall (a : agent) (is : list input) (d : did) (dc : doc),
  resolve a d = Some dc -> option_map dest (resolve (final Fixed a is) d) = Some (dest dc).
Proof. exact no_repoint_dest. Qed.
Print Assumptions no_repoint_destination.

(* a destination always names at least one recipient key and an endpoint: nothing is ever packed for nobody *)
Theorem destination_has_keys_and_endpoint : forall (dc : doc) (e : ep) (ks : list key),
  dest dc = Some (e, ks) -> ks <> [] /\ e <> 0.
Proof. exact dest_sound. Qed.
Print Assumptions destination_has_keys_and_endpoint.

(* service blocks appended to a document whose types already occur in it never change where its messages go: an
   additional did-communication / IndyAgent / DIDCommMessaging block cannot divert a destination (any priorities) *)
Theorem later_blocks_of_a_present_type_are_ignored : forall (i : did) (l x : list svc) (ka : list key) (h : N),
  (forall s, In s x -> exists s', In s' l /\ s_type s' = s_type s) ->
  dest (Doc i (l ++ x) ka h) = dest (Doc i l ka h).
Proof. exact dest_later_blocks. Qed.
Print Assumptions later_blocks_of_a_present_type_are_ignored.

(* the inviter builds its own document for the type of the request document's FIRST service block: when it cannot (a type
   getMyDIDDoc does not know; IndyAgent under DID Exchange, whose reply key recipientKeyAsDIDKey does not find), nothing
   is sent and the record, if one was opened, is abandoned (DID Exchange) or stays in state requested (the legacy service
   drops the error) — it never reaches responded, such a request cannot become a connection *)
Theorem unanswerable_request_is_abandoned : forall v a p t rid pt d dc c my,
  my_type_ok p (first_type dc) = false \/ reply_key_ok p (first_type dc) my = false ->
  let '(a', outs) := step v a (IRecv (MRequest p t rid pt d (Some dc)) c my) in
  (outs = [] \/ outs = [OReject]) /\
  (a' = a \/ exists r, cget (a_conns a') c = Some r /\ (c_state r = SAbandoned \/ c_state r = SRequested)).
Proof. exact unanswerable_request. Qed.
Print Assumptions unanswerable_request_is_abandoned.

(* THE TIE OF `dest`: on every document of the grid that harness/c10gen regenerates from /repo on every run by executing
   service.CreateDestination (all sequences of up to two service blocks over type x recipient-key forms x endpoint
   present/absent, all sequences of three well-formed blocks, with and without a key agreement key, priorities as
   parsed), the model's `dest` gives exactly the endpoint and recipient keys (or the error) the code gives.  An edit of
   CreateDestination / LookupService that changes any of these answers breaks this computation. *)
Theorem dest_is_create_destination_on_the_generated_grid : table_ok = true.
Proof. vm_compute. reflexivity. Qed.
Print Assumptions dest_is_create_destination_on_the_generated_grid.
Example generated_grid_is_not_trivial : Nat.leb 2000 table_rows = true /\ Nat.leb 500 table_answers = true.
Proof. vm_compute. split; reflexivity. Qed.

(* THE TIE OF my_type_ok / reply_key_ok: for both services of a real framework instance and each of the four type classes,
   harness/c10gen calls (through the add-only hooks VerifReplyForType) getMyDIDDoc(type) and the function that finds the
   key the reply is sent from; the model's two tables say the same on all eight rows *)
Theorem first_block_rules_are_the_generated_table : reply_table_ok = true.
Proof. vm_compute. reflexivity. Qed.
Print Assumptions first_block_rules_are_the_generated_table.

(* non-vacuity: a two-block document, the IndyAgent-first request of the thorough-tier case that the earlier model missed *)
Example dest_examples :
  dest (Doc 7 [Svc TIndy [8] true 9; Svc TV1 [8] false 9] [10] 11) = Some (9, [8]) /\
  dest (Doc 7 [Svc TV1 [8] false 9; Svc TV2 [8] false 12] [10] 11) = Some (12, [10]) /\
  dest (Doc 7 [Svc TV1 [8] true 9; Svc TIndy [8] true 13] [10] 11) = None /\
  dest (Doc 7 [Svc TV1 [8] false 9; Svc TV1 [20] false 21] [] 11) = Some (9, [8]).
Proof. vm_compute. repeat split. Qed.
Example indy_first_request_is_abandoned :
  let a := final Fixed agent0 [ICreateInv 2 3] in
  let dc := Doc 7 [Svc TIndy [8] true 9] [] 10 in
  let my := Doc 14 [Svc TIndy [15] false 11] [] 16 in
  snd (step Fixed a (IRecv (MRequest DX 6 6 2 7 (Some dc)) 17 my)) = [] /\
  record (fst (step Fixed a (IRecv (MRequest DX 6 6 2 7 (Some dc)) 17 my))) 17 = Some (Conn Their 6 SAbandoned 0 7 0) /\
  resolve (fst (step Fixed a (IRecv (MRequest DX 6 6 2 7 (Some dc)) 17 my))) 14 = Some my /\
  snd (step Fixed a (IRecv (MRequest LC 6 6 2 7 (Some dc)) 17 my)) = [OSend 9 [8] (MResponse LC 6 6 14 (Some my) 3)].
Proof. vm_compute. repeat split. Qed.
