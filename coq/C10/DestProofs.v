(* C10 — lemmas about the destination a document yields (Model.dest = service.CreateDestination) and about what the
   first service block of a request's document makes the inviter do. *)
From Coq Require Import List NArith Bool Lia.
Import ListNotations.
From VF Require Import C10.Model C10.Proofs.
Local Open Scope N_scope.

Lemma dest_sound : forall dc e ks, dest dc = Some (e, ks) -> ks <> [] /\ e <> 0.
Proof.
  intros dc e ks. unfold dest.
  destruct (find_svc TV2 (d_svcs dc)) as [s|].
  - destruct (d_ka dc) as [|k r] eqn:KA; cbn [is_nil orb]; [discriminate|].
    destruct (N.eqb (s_ep s) 0) eqn:E; [discriminate|]. intros H. inversion H. subst.
    split; [discriminate|]. apply N.eqb_neq. exact E.
  - destruct (find_svc TV1 (d_svcs dc)) as [s|].
    + destruct (N.eqb (s_ep s) 0) eqn:E; cbn [orb]; [discriminate|].
      destruct (s_keys s) as [|k r] eqn:K; cbn [is_nil orb]; [discriminate|].
      destruct (s_plain s); [discriminate|]. intros H. inversion H. subst.
      split; [discriminate|]. apply N.eqb_neq. exact E.
    + destruct (find_svc TIndy (d_svcs dc)) as [s|]; [|discriminate].
      destruct (N.eqb (s_ep s) 0) eqn:E; cbn [orb]; [discriminate|].
      destruct (s_keys s) as [|k r] eqn:K; cbn [is_nil]; [discriminate|].
      intros H. inversion H. subst. split; [discriminate|]. apply N.eqb_neq. exact E.
Qed.

Lemma d_keys_nil_iff : forall dc, d_keys dc = [] <-> dest dc = None.
Proof.
  intros dc. unfold d_keys. destruct (dest dc) as [[e ks]|] eqn:D; split; intros H; try discriminate; auto.
  apply dest_sound in D. destruct D as [D _]. contradiction.
Qed.

Lemma find_svc_app_some : forall t l x s, find_svc t l = Some s -> find_svc t (l ++ x) = Some s.
Proof.
  induction l as [|y l IH]; cbn [find_svc app]; intros x s H; [discriminate|].
  destruct (svct_eqb (s_type y) t); auto.
Qed.

Lemma svct_eqb_eq : forall a b, svct_eqb a b = true <-> a = b.
Proof. destruct a, b; cbn; split; intros; auto; discriminate. Qed.

Lemma find_svc_none : forall t l, find_svc t l = None <-> (forall s, In s l -> s_type s <> t).
Proof.
  induction l as [|y l IH]; cbn [find_svc In]; split; intros H.
  - intros s [].
  - reflexivity.
  - destruct (svct_eqb (s_type y) t) eqn:E; [discriminate|]. intros s [Q|Q].
    + subst. intros C. apply svct_eqb_eq in C. congruence.
    + apply IH; auto.
  - destruct (svct_eqb (s_type y) t) eqn:E.
    + apply svct_eqb_eq in E. exfalso. apply (H y); auto.
    + apply IH. intros s Q. apply H. auto.
Qed.

(* blocks of a type that already occurs earlier in the document are never looked at *)
Lemma find_svc_app_present : forall t l x,
  (forall s, In s x -> exists s', In s' l /\ s_type s' = s_type s) -> find_svc t (l ++ x) = find_svc t l.
Proof.
  intros t l x H. destruct (find_svc t l) as [s|] eqn:F.
  - apply find_svc_app_some. exact F.
  - apply find_svc_none. intros s Q. apply in_app_or in Q. destruct Q as [Q|Q].
    + apply (proj1 (find_svc_none t l) F). exact Q.
    + destruct (H s Q) as (s' & I & E). rewrite <- E. apply (proj1 (find_svc_none t l) F). exact I.
Qed.

Lemma dest_later_blocks : forall i l x ka h,
  (forall s, In s x -> exists s', In s' l /\ s_type s' = s_type s) ->
  dest (Doc i (l ++ x) ka h) = dest (Doc i l ka h).
Proof.
  intros i l x ka h H. unfold dest. cbn [d_svcs d_ka].
  rewrite !(find_svc_app_present _ l x H). reflexivity.
Qed.

(* a request whose document's first block has a type the inviter cannot answer for: nothing is sent, and the record
   the request opened (if it opened one) is not in a state from which the exchange goes on *)
Lemma unanswerable_request : forall v a p t rid pt d dc c my,
  my_type_ok p (first_type dc) = false \/ reply_key_ok p (first_type dc) my = false ->
  let '(a', outs) := step v a (IRecv (MRequest p t rid pt d (Some dc)) c my) in
  (outs = [] \/ outs = [OReject]) /\
  (a' = a \/ exists r, cget (a_conns a') c = Some r /\ (c_state r = SAbandoned \/ c_state r = SRequested)).
Proof.
  intros v a p t rid pt d dc c my H. unfold step.
  destruct (negb (can (cur_state a Their t) SRequested)); [split; auto|].
  destruct (N.eqb pt 0); [split; auto|].
  destruct (match v with Fixed => negb (N.eqb t rid) | AsIs => false end); [split; auto|].
  cbv zeta.
  assert (AB : forall x, let '(a', outs) := (set_conn x c (with_state (Conn Their rid SRequested 0 d 0) (match p with DX => SAbandoned | LC => SRequested end)), @nil out) in
             (outs = [] \/ outs = [OReject]) /\
             (a' = a \/ exists r, cget (a_conns a') c = Some r /\ (c_state r = SAbandoned \/ c_state r = SRequested))).
  { intros x. split; [auto|]. right. eexists. split; [cbn [set_conn a_conns cget]; rewrite N.eqb_refl; reflexivity|destruct p; cbn; auto]. }
  destruct (vput v _ dc) as [s|]; [|apply AB].
  destruct (d_keys dc); [apply AB|].
  destruct (my_type_ok p (first_type dc)) eqn:MT; cbn [negb]; [|apply AB].
  destruct (new_my v _ my) as [a3|]; [|apply AB].
  destruct (reply_key_ok p (first_type dc) my) eqn:RK; cbn [negb]; [|apply AB].
  destruct H; congruence.
Qed.

Lemma no_repoint_dest : forall (a : agent) (is : list input) (d : did) (dc : doc),
  resolve a d = Some dc -> option_map dest (resolve (final Fixed a is) d) = Some (dest dc).
Proof.
  intros a is d dc H. unfold resolve in *. rewrite (final_mono_vdr is a d dc H). reflexivity.
Qed.
