(* C10 — lemmas. *)
From Coq Require Import List NArith Bool Lia.
Import ListNotations.
From VF Require Import C10.Model.
Local Open Scope N_scope.

(* ---------- equality tests ---------- *)
Lemma keys_eqb_eq : forall a b, keys_eqb a b = true -> a = b.
Proof.
  induction a as [|x a IH]; destruct b as [|y b]; cbn [keys_eqb]; intros H; try discriminate; auto.
  apply andb_true_iff in H. destruct H as [H1 H2]. apply N.eqb_eq in H1. subst. f_equal. auto.
Qed.

Lemma svc_eqb_eq : forall a b, svc_eqb a b = true -> a = b.
Proof.
  intros [t1 k1 p1 e1] [t2 k2 p2 e2]. unfold svc_eqb. cbn [s_type s_keys s_plain s_ep]. intros H.
  repeat (apply andb_true_iff in H; destruct H as [H ?]).
  apply keys_eqb_eq in H2. apply Bool.eqb_prop in H1. apply N.eqb_eq in H0. subst.
  destruct t1, t2; cbn in H; try discriminate; reflexivity.
Qed.

Lemma svcs_eqb_eq : forall a b, svcs_eqb a b = true -> a = b.
Proof.
  induction a as [|x a IH]; destruct b as [|y b]; cbn [svcs_eqb]; intros H; try discriminate; auto.
  apply andb_true_iff in H. destruct H as [H1 H2]. apply svc_eqb_eq in H1. subst. f_equal. auto.
Qed.

Lemma doc_eqb_eq : forall a b, doc_eqb a b = true -> a = b.
Proof.
  intros [i1 k1 e1 h1] [i2 k2 e2 h2]. unfold doc_eqb. cbn [d_id d_svcs d_ka d_h]. intros H.
  repeat (apply andb_true_iff in H; destruct H as [H ?]).
  apply N.eqb_eq in H. apply svcs_eqb_eq in H2. apply keys_eqb_eq in H1. apply N.eqb_eq in H0. subst. reflexivity.
Qed.

Lemma ns_eqb_eq : forall a b, ns_eqb a b = true <-> a = b.
Proof. destruct a, b; cbn; split; intros; auto; discriminate. Qed.

(* ---------- the peer DID store ---------- *)
Lemma vput_get : forall v s x s', vput v s x = Some s' -> vget s' (d_id x) = Some x.
Proof.
  intros v s x s' H. destruct v; cbn [vput] in H.
  - inversion H. cbn [vget]. rewrite N.eqb_refl. reflexivity.
  - destruct (vget s (d_id x)) as [old|] eqn:E.
    + destruct (doc_eqb old x) eqn:Q; [|discriminate]. inversion H. subst. apply doc_eqb_eq in Q. subst. exact E.
    + inversion H. cbn [vget]. rewrite N.eqb_refl. reflexivity.
Qed.

Lemma vput_mono : forall s x s' d dc, vput Fixed s x = Some s' -> vget s d = Some dc -> vget s' d = Some dc.
Proof.
  intros s x s' d dc H G. cbn [vput] in H. destruct (vget s (d_id x)) as [old|] eqn:E.
  - destruct (doc_eqb old x); [|discriminate]. inversion H. subst. exact G.
  - inversion H. cbn [vget]. destruct (N.eqb d (d_id x)) eqn:Q; auto.
    apply N.eqb_eq in Q. subst. rewrite E in G. discriminate.
Qed.

(* ---------- the key index ---------- *)
Lemma kput_mono : forall ks s d s' ok k x, kput Fixed s d ks = (s', ok) -> kget s k = Some x -> kget s' k = Some x.
Proof.
  induction ks as [|k0 r IH]; intros s d s' ok k x H G; cbn [kput] in H.
  - inversion H. subst. exact G.
  - assert (STEP : forall s1, s1 = (k0, d) :: s -> (kget s k0 = None \/ kget s k0 = Some d) -> kget s1 k = Some x).
    { intros s1 -> Hk. cbn [kget]. destruct (N.eqb k k0) eqn:Q; auto. apply N.eqb_eq in Q. subst.
      destruct Hk as [Hk|Hk]; rewrite Hk in G; [discriminate|exact G]. }
    destruct (kget s k0) as [d'|] eqn:E.
    + destruct (N.eqb d' d) eqn:Q.
      * apply N.eqb_eq in Q. subst. eapply IH; [exact H|]. apply STEP; auto.
      * inversion H. subst. exact G.
    + eapply IH; [exact H|]. apply STEP; auto.
Qed.

Lemma kput_ok_all : forall ks s d s', kput Fixed s d ks = (s', true) -> forall k, In k ks -> kget s' k = Some d.
Proof.
  induction ks as [|k0 r IH]; intros s d s' H k Hin; [destruct Hin|].
  cbn [kput] in H.
  assert (NEXT : kput Fixed ((k0, d) :: s) d r = (s', true) -> kget s' k = Some d).
  { intros H'. destruct Hin as [->|Hin].
    - eapply kput_mono; [exact H'|]. cbn [kget]. rewrite N.eqb_refl. reflexivity.
    - eapply IH; eauto. }
  destruct (kget s k0) as [d'|] eqn:E.
  - destruct (N.eqb d' d) eqn:Q; [auto|discriminate].
  - auto.
Qed.

Lemma kput_fresh_ok : forall ks s d, (forall k, In k ks -> kget s k = None \/ kget s k = Some d) ->
  exists s', kput Fixed s d ks = (s', true).
Proof.
  induction ks as [|k0 r IH]; intros s d H; cbn [kput]; [eauto|].
  assert (NEXT : exists s', kput Fixed ((k0, d) :: s) d r = (s', true)).
  { apply IH. intros k Hin. cbn [kget]. destruct (N.eqb k k0); [right; reflexivity|]. apply H. right. exact Hin. }
  destruct (H k0 (or_introl eq_refl)) as [E|E]; rewrite E; [exact NEXT|]. rewrite N.eqb_refl. exact NEXT.
Qed.

(* ---------- projections through the state updates ---------- *)
Lemma set_keys_proj : forall v a d ks a' ok, set_keys v a d ks = (a', ok) ->
  a_vdr a' = a_vdr a /\ a_conns a' = a_conns a /\ a_thmap a' = a_thmap a /\ a_invs a' = a_invs a /\
  kput v (a_keyidx a) d ks = (a_keyidx a', ok).
Proof.
  intros v a d ks a' ok H. unfold set_keys in H. destruct (kput v (a_keyidx a) d ks) as [s o] eqn:E.
  inversion H. subst. cbn. auto.
Qed.

Lemma sbr_proj : forall v a d f a' ok, save_by_resolving v a d f = (a', ok) ->
  a_vdr a' = a_vdr a /\ a_conns a' = a_conns a /\ a_thmap a' = a_thmap a /\ a_invs a' = a_invs a /\
  exists d' ks, kput v (a_keyidx a) d' ks = (a_keyidx a', ok) /\
     (forall dc, vget (a_vdr a) d = Some dc -> d' = d_id dc /\ ks = d_keys dc).
Proof.
  intros v a d f a' ok H. unfold save_by_resolving in H. destruct (vget (a_vdr a) d) as [dc|] eqn:E;
    apply set_keys_proj in H; destruct H as (H1 & H2 & H3 & H4 & H5); repeat split; auto.
  - exists (d_id dc), (d_keys dc). split; auto. intros dc' Q. inversion Q. subst. auto.
  - exists d, f. split; auto. intros dc' Q. discriminate.
Qed.

Lemma new_my_proj : forall v a my a', new_my v a my = Some a' ->
  a_conns a' = a_conns a /\ a_thmap a' = a_thmap a /\ a_invs a' = a_invs a /\
  exists s, vput v (a_vdr a) my = Some s /\ a_vdr a' = s /\ kput v (a_keyidx a) (d_id my) (d_keys my) = (a_keyidx a', true).
Proof.
  intros v a my a' H. unfold new_my in H. destruct (vput v (a_vdr a) my) as [s|] eqn:E; [|discriminate].
  destruct (set_keys v (set_vdr a s) (d_id my) (d_keys my)) as [a1 ok] eqn:K. destruct ok; [|discriminate].
  inversion H. subst. apply set_keys_proj in K. cbn [set_vdr a_vdr a_conns a_thmap a_keyidx a_invs] in K.
  destruct K as (K1 & K2 & K3 & K4 & K5). repeat split; auto. exists s. auto.
Qed.

(* ---------- nothing stored is ever replaced (Fixed) ---------- *)
Definition mono (a b : agent) : Prop :=
  (forall d dc, vget (a_vdr a) d = Some dc -> vget (a_vdr b) d = Some dc) /\
  (forall k x, kget (a_keyidx a) k = Some x -> kget (a_keyidx b) k = Some x).

Lemma mono_refl : forall a, mono a a.
Proof. split; auto. Qed.

Lemma mono_set_conn : forall a b c r, mono a b -> mono a (set_conn b c r).
Proof. intros a b c r [H1 H2]. split; cbn; auto. Qed.

Lemma mono_set_th : forall a b n t c, mono a b -> mono a (set_th b n t c).
Proof. intros a b n t c [H1 H2]. split; cbn; auto. Qed.

Lemma mono_set_conns : forall a b s, mono a b -> mono a (set_conns b s).
Proof. intros a b s [H1 H2]. split; cbn; auto. Qed.

Lemma mono_inv : forall a b i k, mono a b ->
  mono a (Agent (a_vdr b) (a_conns b) (a_thmap b) (a_keyidx b) ((i, k) :: a_invs b)).
Proof. intros a b i k [H1 H2]. split; cbn; auto. Qed.

Lemma mono_set_vdr : forall a b x s, vput Fixed (a_vdr b) x = Some s -> mono a b -> mono a (set_vdr b s).
Proof. intros a b x s H [H1 H2]. split; cbn; auto. intros d dc G. eapply vput_mono; eauto. Qed.

Lemma mono_set_keys : forall a b d ks b' ok, set_keys Fixed b d ks = (b', ok) -> mono a b -> mono a b'.
Proof.
  intros a b d ks b' ok H [H1 H2]. apply set_keys_proj in H. destruct H as (E1 & _ & _ & _ & E5). split.
  - rewrite E1. auto.
  - intros k x G. eapply kput_mono; eauto.
Qed.

Lemma mono_sbr : forall a b d f b' ok, save_by_resolving Fixed b d f = (b', ok) -> mono a b -> mono a b'.
Proof.
  intros a b d f b' ok H M. unfold save_by_resolving in H. destruct (vget (a_vdr b) d); eapply mono_set_keys; eauto.
Qed.

Lemma mono_new_my : forall a b my b', new_my Fixed b my = Some b' -> mono a b -> mono a b'.
Proof.
  intros a b my b' H [H1 H2]. apply new_my_proj in H. destruct H as (_ & _ & _ & s & V & E & K). split.
  - rewrite E. intros d dc G. eapply vput_mono; eauto.
  - intros k x G. eapply kput_mono; eauto.
Qed.

Ltac brk := repeat (match goal with
  | |- context [match ?x with _ => _ end] => destruct x eqn:?
  end; cbn [fst snd]).

#[local] Hint Resolve mono_refl mono_set_conns mono_set_conn mono_set_th mono_inv mono_set_vdr mono_set_keys mono_sbr mono_new_my : c10.

Lemma step_mono : forall a i, mono a (fst (step Fixed a i)).
Proof.
  intros a i. unfold step. brk; eauto 12 with c10.
Qed.

Lemma run_mono : forall is a, mono a (final Fixed a is).
Proof.
  induction is as [|i r IH]; intros a; unfold final; cbn [run fst].
  - apply mono_refl.
  - destruct (step Fixed a i) as [a1 o] eqn:E. destruct (run Fixed a1 r) as [a2 os] eqn:R. cbn [fst].
    pose proof (step_mono a i) as M1. rewrite E in M1. cbn [fst] in M1.
    pose proof (IH a1) as M2. unfold final in M2. rewrite R in M2. cbn [fst] in M2.
    destruct M1 as [A1 A2], M2 as [B1 B2]. split; auto.
Qed.

(* ---------- connection records ---------- *)
Definition same_rec (a b : agent) (n : ns) (t : th) (c : cid) (r : conn) : Prop :=
  owns b n t c /\ cget (a_conns b) c = Some r.

Lemma cget_set_other : forall a c c' r, c <> c' -> cget (a_conns (set_conn a c' r)) c = cget (a_conns a) c.
Proof. intros a c c' r H. cbn. destruct (N.eqb c c') eqn:Q; auto. apply N.eqb_eq in Q. contradiction. Qed.

Lemma tget_cons : forall s n t c n' t', tget (((n, t), c) :: s) n' t' = if ns_eqb n' n && N.eqb t' t then Some c else tget s n' t'.
Proof. reflexivity. Qed.

Lemma owns_set_th : forall a n t c n1 t1 c1, owns a n t c -> c1 <> c -> (ns_eqb n n1 && N.eqb t t1 = false) ->
  owns (set_th a n1 t1 c1) n t c.
Proof.
  intros a n t c n1 t1 c1 [O1 O2] NE NT. unfold owns, set_th. cbn [a_thmap]. rewrite !tget_cons. split.
  - rewrite NT. exact O1.
  - intros n' t'. rewrite tget_cons. destruct (ns_eqb n' n1 && N.eqb t' t1); intros H; [inversion H; congruence|auto].
Qed.

Lemma cget_rot : forall my iss sub s c,
  cget (rot_conns my iss sub s) c = option_map (rot_rec my iss sub) (cget s c).
Proof.
  induction s as [|[c' r] s IH]; intros c; cbn; [reflexivity|].
  destruct (N.eqb c c'); [reflexivity|apply IH].
Qed.

Lemma rot_rec_id : forall my iss sub signer their d r,
  (c_their r = d \/ c_their r = 0) -> ~ (signer = iss /\ iss = d) ->
  N.eqb their sub && negb (N.eqb iss 0) && N.eqb signer iss = true -> rot_rec my iss sub r = r.
Proof.
  intros my iss sub signer their d r HD NR C.
  apply andb_true_iff in C. destruct C as [C C3]. apply andb_true_iff in C. destruct C as [_ C2].
  apply N.eqb_eq in C3. apply negb_true_iff in C2. apply N.eqb_neq in C2.
  unfold rot_rec. replace (N.eqb (c_their r) iss) with false; [rewrite andb_false_r; reflexivity|].
  symmetry. apply N.eqb_neq. intros E. destruct HD as [HD|HD].
  - apply NR. split; congruence.
  - congruence.
Qed.

(* what one step can do to the record of somebody else's thread: nothing *)
Lemma step_frame : forall v a i n t c r d, (v = Fixed \/ ids_agree i) ->
  (c_their r = d \/ c_their r = 0) -> not_rotating d i ->
  foreign n t c i -> owns a n t c -> cget (a_conns a) c = Some r ->
  owns (fst (step v a i)) n t c /\ cget (a_conns (fst (step v a i))) c = Some r.
Proof.
  intros v a i n t c r d AG HD NR [FT FC] OW CG.
  assert (LOOK : forall n' t' c', tget (a_thmap a) n' t' = Some c' -> (ns_eqb n n' && N.eqb t t' = false) -> c' <> c).
  { intros n' t' c' H NT E. subst. destruct OW as [_ O2]. destruct (O2 _ _ H) as [-> ->].
    rewrite N.eqb_refl in NT. destruct n; discriminate. }
  destruct i as [i0 k0 | p i0 k0 e0 c0 t0 my | m c0 my | ].
  - cbn. auto.
  - (* IAcceptInv *)
    cbn [touches input_cid] in FT, FC. assert (NC : c0 <> c) by congruence.
    assert (NC' : c <> c0) by congruence.
    unfold step.
    assert (B1 : owns (set_th (set_conn a c0 (Conn My t0 SInvited 0 0 k0)) My t0 c0) n t c).
    { apply owns_set_th; auto. }
    destruct (new_my v _ my) as [a2|] eqn:NM; cbn [fst].
    + apply new_my_proj in NM. destruct NM as (E1 & E2 & _). split.
      * destruct B1 as [B1 B2]. split; cbn [set_conn a_thmap]; rewrite E2; auto.
      * rewrite cget_set_other by auto. rewrite E1. cbn [set_th a_conns]. rewrite cget_set_other by auto. exact CG.
    + split; [exact B1|]. rewrite cget_set_other by auto. cbn [set_th a_conns]. rewrite cget_set_other by auto. exact CG.
  - destruct m as [p t0 rid pt d0 dco | p t1 dt d0 dco sg | p t1 dt | fk tk | fd td | dc fk tk | iss sub signer fk tk].
    + (* request *)
      cbn [touches input_cid] in FT, FC. assert (NC : c0 <> c) by congruence. assert (NC' : c <> c0) by congruence.
      unfold step.
      destruct (negb (can (cur_state a Their t0) SRequested)); [cbn; auto|].
      destruct (N.eqb pt 0); [cbn; auto|].
      assert (RID : rid = t0 \/ (match v with Fixed => negb (N.eqb t0 rid) | AsIs => false end) = true).
      { destruct v.
        - left. destruct AG as [AG|AG]; [discriminate|exact AG].
        - destruct (N.eqb t0 rid) eqn:Q; [left; apply N.eqb_eq in Q; auto|right; reflexivity]. }
      destruct RID as [->|RID]; [|rewrite RID; cbn; auto].
      replace (match v with Fixed => negb (N.eqb t0 t0) | AsIs => false end) with false
        by (destruct v; [reflexivity|rewrite N.eqb_refl; reflexivity]).
      cbv zeta.
      set (r0 := Conn Their t0 SRequested 0 d0 0).
      assert (B1 : owns (set_th (set_conn a c0 r0) Their t0 c0) n t c) by (apply owns_set_th; auto).
      assert (C1 : cget (a_conns (set_th (set_conn a c0 r0) Their t0 c0)) c = Some r).
      { cbn [set_th a_conns]. rewrite cget_set_other by auto. exact CG. }
      assert (AB : forall x, owns x n t c -> cget (a_conns x) c = Some r ->
                owns (fst (set_conn x c0 (with_state r0 (match p with DX => SAbandoned | LC => SRequested end)), @nil out)) n t c /\
                cget (a_conns (fst (set_conn x c0 (with_state r0 (match p with DX => SAbandoned | LC => SRequested end)), @nil out))) c = Some r).
      { intros x OX CX. cbn [fst]. split; [exact OX|]. rewrite cget_set_other by auto. exact CX. }
      destruct dco as [dc|]; [|apply AB; auto].
      destruct (vput v _ dc) as [s|] eqn:VP; [|apply AB; auto].
      assert (B2 : owns (set_vdr (set_th (set_conn a c0 r0) Their t0 c0) s) n t c) by exact B1.
      assert (C2 : cget (a_conns (set_vdr (set_th (set_conn a c0 r0) Their t0 c0) s)) c = Some r) by exact C1.
      destruct (d_keys dc); [apply AB; auto|].
      destruct (negb (my_type_ok p (first_type dc))); [apply AB; auto|].
      destruct (new_my v _ my) as [a3|] eqn:NM; [|apply AB; auto].
      apply new_my_proj in NM. destruct NM as (E1 & E2 & _).
      assert (B3 : owns a3 n t c). { destruct B2 as [X Y]. split; rewrite E2; auto. }
      assert (C3 : cget (a_conns a3) c = Some r). { rewrite E1. exact C2. }
      destruct (negb (reply_key_ok p (first_type dc) my)); [apply AB; auto|].
      destruct (iget (a_invs a3) pt); [|apply AB; auto].
      cbn [fst]. split; [exact B3|]. rewrite cget_set_other by auto. exact C3.
    + (* response *)
      cbn [touches input_cid] in FT. unfold step.
      destruct (negb (can (cur_state a My t1) SResponded)); [cbn; auto|].
      assert (RID : dt = t1 \/ (match v with Fixed => negb (N.eqb dt t1) | AsIs => false end) = true).
      { destruct v.
        - left. destruct AG as [AG|AG]; [discriminate|exact AG].
        - destruct (N.eqb dt t1) eqn:Q; [left; apply N.eqb_eq in Q; auto|right; reflexivity]. }
      destruct RID as [->|RID]; [|rewrite RID; cbn; auto].
      replace (match v with Fixed => negb (N.eqb t1 t1) | AsIs => false end) with false
        by (destruct v; [reflexivity|rewrite N.eqb_refl; reflexivity]).
      cbv zeta. rename t1 into t0.
      destruct (tget (a_thmap a) My t0) as [c1|] eqn:TG; [|cbn; auto].
      assert (NC : c1 <> c) by (eapply LOOK; eauto).
      assert (NC' : c <> c1) by congruence.
      destruct (cget (a_conns a) c1) as [r1|]; [|cbn; auto].
      assert (K1 : forall x, owns x n t c -> cget (a_conns x) c = Some r ->
                owns (fst (x, @nil out)) n t c /\ cget (a_conns (fst (x, @nil out))) c = Some r) by (cbn; auto).
      assert (B1 : owns (set_conn a c1 (with_state r1 SResponded)) n t c) by exact OW.
      assert (C1 : cget (a_conns (set_conn a c1 (with_state r1 SResponded))) c = Some r).
      { rewrite cget_set_other by auto. exact CG. }
      destruct (negb _); [apply K1; auto|].
      destruct dco as [dc|]; [|apply K1; auto].
      destruct (vput v _ dc) as [s|]; [|apply K1; auto].
      destruct (d_keys dc); [apply K1; exact B1 || exact C1|].
      destruct (save_by_resolving v _ d0 _) as [a4 ok] eqn:SB.
      apply sbr_proj in SB. destruct SB as (E1 & E2 & E3 & _).
      cbn [fst]. split.
      * destruct B1 as [X Y]. split; rewrite E3; cbn; auto.
      * rewrite E2. rewrite cget_set_other by auto. cbn [set_vdr a_conns]. exact C1.
    + (* complete *)
      cbn [touches input_cid] in FT. unfold step.
      destruct (negb (can (cur_state a Their t1) SCompleted)); [cbn; auto|].
      assert (RID : dt = t1 \/ (match v with Fixed => negb (N.eqb dt t1) | AsIs => false end) = true).
      { destruct v.
        - left. destruct AG as [AG|AG]; [discriminate|exact AG].
        - destruct (N.eqb dt t1) eqn:Q; [left; apply N.eqb_eq in Q; auto|right; reflexivity]. }
      destruct RID as [->|RID]; [|rewrite RID; cbn; auto].
      replace (match v with Fixed => negb (N.eqb t1 t1) | AsIs => false end) with false
        by (destruct v; [reflexivity|rewrite N.eqb_refl; reflexivity]).
      cbv zeta. rename t1 into t0.
      destruct (tget (a_thmap a) Their t0) as [c1|] eqn:TG; [|cbn; auto].
      assert (NC : c1 <> c) by (eapply LOOK; eauto).
      assert (NC' : c <> c1) by congruence.
      destruct (cget (a_conns a) c1) as [r1|]; [|cbn; auto].
      destruct (save_by_resolving v _ _ _) as [a2 ok] eqn:SB.
      apply sbr_proj in SB. destruct SB as (E1 & E2 & E3 & _).
      cbn [fst]. split.
      * destruct OW as [X Y]. split; rewrite E3; cbn; auto.
      * rewrite E2. rewrite cget_set_other by auto. exact CG.
    + cbn. auto.
    + cbn. auto.
    + unfold step. destruct (vput v (a_vdr a) dc) as [s|]; [|cbn; auto].
      destruct (set_keys v (set_vdr a s) (d_id dc) (d_keys dc)) as [a1 ok] eqn:SK.
      apply set_keys_proj in SK. destruct SK as (_ & E2 & E3 & _). cbn [fst].
      split; [destruct OW as [X Y]; split; rewrite E3; cbn; auto | rewrite E2; exact CG].
    + unfold step. destruct (kget (a_keyidx a) tk) as [my1|]; [|cbn; auto].
      destruct (kget (a_keyidx a) fk) as [their|]; [|cbn; auto].
      destruct (N.eqb their sub && negb (N.eqb iss 0) && N.eqb signer iss) eqn:C; [|cbn; auto].
      cbn [fst]. split; [exact OW|]. cbn [set_conns a_conns]. rewrite cget_rot, CG. cbn [option_map].
      f_equal. eapply rot_rec_id; eauto.
  - cbn. auto.
Qed.

Lemma run_frame : forall v is a n t c r d, (v = Fixed \/ Forall ids_agree is) ->
  (c_their r = d \/ c_their r = 0) -> Forall (not_rotating d) is ->
  Forall (foreign n t c) is -> owns a n t c -> cget (a_conns a) c = Some r ->
  owns (final v a is) n t c /\ cget (a_conns (final v a is)) c = Some r.
Proof.
  induction is as [|i rest IH]; intros a n t c r d AG HD NR F OW CG; unfold final; cbn [run fst]; [auto|].
  inversion F as [|? ? F1 F2]; subst. inversion NR as [|? ? N1 N2]; subst.
  assert (AG1 : v = Fixed \/ ids_agree i) by (destruct AG as [AG|AG]; [auto|inversion AG; auto]).
  assert (AG2 : v = Fixed \/ Forall ids_agree rest) by (destruct AG as [AG|AG]; [auto|inversion AG; auto]).
  destruct (step v a i) as [a1 o] eqn:E. destruct (run v a1 rest) as [a2 os] eqn:R. cbn [fst].
  pose proof (step_frame v a i n t c r d AG1 HD N1 F1 OW CG) as [O1 C1]. rewrite E in O1, C1. cbn [fst] in O1, C1.
  pose proof (IH a1 n t c r d AG2 HD N2 F2 O1 C1) as [O2 C2]. unfold final in O2, C2. rewrite R in O2, C2. auto.
Qed.

(* a completed record is terminal: no input changes it (only a re-used connection id could shadow it) *)
Lemma step_completed_stable : forall v a i c r, (v = Fixed \/ ids_agree i) ->
  cget (a_conns a) c = Some r -> c_state r = SCompleted ->
  (forall c', input_cid i = Some c' -> cget (a_conns a) c' = None) -> not_rotating (c_their r) i ->
  cget (a_conns (fst (step v a i))) c = Some r.
Proof.
  intros v a i c r AG CG ST FR NR.
  assert (NEWC : forall c0, input_cid i = Some c0 -> c <> c0).
  { intros c0 H E. subst. rewrite (FR _ H) in CG. discriminate. }
  destruct i as [i0 k0 | p i0 k0 e0 c0 t0 my | m c0 my | ].
  - cbn. auto.
  - assert (NC : c <> c0) by (apply NEWC; reflexivity). unfold step.
    destruct (new_my v _ my) as [a2|] eqn:NM; cbn [fst].
    + apply new_my_proj in NM. destruct NM as (E1 & _). rewrite cget_set_other by auto. rewrite E1.
      cbn [set_th a_conns]. rewrite cget_set_other by auto. exact CG.
    + rewrite cget_set_other by auto. cbn [set_th a_conns]. rewrite cget_set_other by auto. exact CG.
  - destruct m as [p t0 rid pt d0 dco | p t1 dt d0 dco sg | p t1 dt | fk tk | fd td | dc fk tk | iss sub signer fk tk].
    + assert (NC : c <> c0) by (apply NEWC; reflexivity). unfold step.
      destruct (negb (can (cur_state a Their t0) SRequested)); [cbn; auto|].
      destruct (N.eqb pt 0); [cbn; auto|].
      destruct (match v with Fixed => negb (N.eqb t0 rid) | AsIs => false end); [cbn; auto|].
      cbv zeta.
      set (r0 := Conn Their rid SRequested 0 d0 0).
      assert (C1 : cget (a_conns (set_th (set_conn a c0 r0) Their rid c0)) c = Some r).
      { cbn [set_th a_conns]. rewrite cget_set_other by auto. exact CG. }
      assert (AB : forall x, cget (a_conns x) c = Some r ->
                cget (a_conns (fst (set_conn x c0 (with_state r0 (match p with DX => SAbandoned | LC => SRequested end)), @nil out))) c = Some r).
      { intros x CX. cbn [fst]. rewrite cget_set_other by auto. exact CX. }
      destruct dco as [dc|]; [|apply AB; auto].
      destruct (vput v _ dc) as [s|] eqn:VP; [|apply AB; auto].
      destruct (d_keys dc); [apply AB; exact C1|].
      destruct (negb (my_type_ok p (first_type dc))); [apply AB; exact C1|].
      destruct (new_my v _ my) as [a3|] eqn:NM; [|apply AB; exact C1].
      apply new_my_proj in NM. destruct NM as (E1 & _).
      assert (C3 : cget (a_conns a3) c = Some r). { rewrite E1. exact C1. }
      destruct (negb (reply_key_ok p (first_type dc) my)); [apply AB; auto|].
      destruct (iget (a_invs a3) pt); [|apply AB; auto].
      cbn [fst]. rewrite cget_set_other by auto. exact C3.
    + unfold step.
      destruct (negb (can (cur_state a My t1) SResponded)) eqn:CAN; [cbn; auto|].
      assert (RID : dt = t1 \/ (match v with Fixed => negb (N.eqb dt t1) | AsIs => false end) = true).
      { destruct v.
        - left. destruct AG as [AG|AG]; [discriminate|exact AG].
        - destruct (N.eqb dt t1) eqn:Q; [left; apply N.eqb_eq in Q; auto|right; reflexivity]. }
      destruct RID as [->|RID]; [|rewrite RID; cbn; auto].
      replace (match v with Fixed => negb (N.eqb t1 t1) | AsIs => false end) with false
        by (destruct v; [reflexivity|rewrite N.eqb_refl; reflexivity]).
      cbv zeta. rename t1 into t0.
      destruct (tget (a_thmap a) My t0) as [c1|] eqn:TG; [|cbn; auto].
      assert (NC : c <> c1).
      { intros E. subst c1. unfold cur_state in CAN. rewrite TG, CG, ST in CAN. discriminate. }
      clear CAN.
      destruct (cget (a_conns a) c1) as [r1|]; [|cbn; auto].
      assert (C1 : cget (a_conns (set_conn a c1 (with_state r1 SResponded))) c = Some r).
      { rewrite cget_set_other by auto. exact CG. }
      destruct (negb _); [exact C1|].
      destruct dco as [dc|]; [|exact C1].
      destruct (vput v _ dc) as [s|]; [|exact C1].
      destruct (d_keys dc); [exact C1|].
      destruct (save_by_resolving v _ d0 _) as [a4 ok] eqn:SB.
      apply sbr_proj in SB. destruct SB as (_ & E2 & _).
      cbn [fst]. rewrite E2. rewrite cget_set_other by auto. exact C1.
    + unfold step.
      destruct (negb (can (cur_state a Their t1) SCompleted)) eqn:CAN; [cbn; auto|].
      assert (RID : dt = t1 \/ (match v with Fixed => negb (N.eqb dt t1) | AsIs => false end) = true).
      { destruct v.
        - left. destruct AG as [AG|AG]; [discriminate|exact AG].
        - destruct (N.eqb dt t1) eqn:Q; [left; apply N.eqb_eq in Q; auto|right; reflexivity]. }
      destruct RID as [->|RID]; [|rewrite RID; cbn; auto].
      replace (match v with Fixed => negb (N.eqb t1 t1) | AsIs => false end) with false
        by (destruct v; [reflexivity|rewrite N.eqb_refl; reflexivity]).
      cbv zeta. rename t1 into t0.
      destruct (tget (a_thmap a) Their t0) as [c1|] eqn:TG; [|cbn; auto].
      assert (NC : c <> c1).
      { intros E. subst c1. unfold cur_state in CAN. rewrite TG, CG, ST in CAN. discriminate. }
      destruct (cget (a_conns a) c1) as [r1|]; [|cbn; auto].
      destruct (save_by_resolving v _ _ _) as [a2 ok] eqn:SB.
      apply sbr_proj in SB. destruct SB as (_ & E2 & _).
      cbn [fst]. rewrite E2. rewrite cget_set_other by auto. exact CG.
    + cbn. auto.
    + cbn. auto.
    + unfold step. destruct (vput v (a_vdr a) dc) as [s|]; [|cbn; auto].
      destruct (set_keys v (set_vdr a s) (d_id dc) (d_keys dc)) as [a1 ok] eqn:SK.
      apply set_keys_proj in SK. destruct SK as (_ & E2 & _). cbn [fst]. rewrite E2. exact CG.
    + unfold step. destruct (kget (a_keyidx a) tk) as [my1|]; [|cbn; auto].
      destruct (kget (a_keyidx a) fk) as [their|]; [|cbn; auto].
      destruct (N.eqb their sub && negb (N.eqb iss 0) && N.eqb signer iss) eqn:C; [|cbn; auto].
      cbn [fst set_conns a_conns]. rewrite cget_rot, CG. cbn [option_map].
      f_equal. eapply rot_rec_id; [left; reflexivity|exact NR|exact C].
  - cbn. auto.
Qed.

Lemma run_completed_stable : forall v is a c r, (v = Fixed \/ Forall ids_agree is) ->
  fresh_ids v a is -> Forall (not_rotating (c_their r)) is ->
  cget (a_conns a) c = Some r -> c_state r = SCompleted ->
  cget (a_conns (final v a is)) c = Some r.
Proof.
  induction is as [|i rest IH]; intros a c r AG F NR CG ST; unfold final; cbn [run fst]; [auto|].
  cbn [fresh_ids] in F. destruct F as [F1 F2]. inversion NR as [|? ? N1 N2]; subst.
  assert (AG1 : v = Fixed \/ ids_agree i) by (destruct AG as [AG|AG]; [auto|inversion AG; auto]).
  assert (AG2 : v = Fixed \/ Forall ids_agree rest) by (destruct AG as [AG|AG]; [auto|inversion AG; auto]).
  pose proof (step_completed_stable v a i c r AG1 CG ST F1 N1) as C1.
  destruct (step v a i) as [a1 o] eqn:E. destruct (run v a1 rest) as [a2 os] eqn:R. cbn [fst] in *.
  pose proof (IH a1 c r AG2 F2 N2 C1 ST) as C2. unfold final in C2. rewrite R in C2. exact C2.
Qed.

(* ---------- the four protocol steps ---------- *)
Lemma owns_new : forall s n t c, (forall n' t', tget s n' t' <> Some c) ->
  tget (((n, t), c) :: s) n t = Some c /\
  forall n' t', tget (((n, t), c) :: s) n' t' = Some c -> n' = n /\ t' = t.
Proof.
  intros s n t c UN. split.
  - rewrite tget_cons, N.eqb_refl. destruct n; reflexivity.
  - intros n' t'. rewrite tget_cons. destruct (ns_eqb n' n && N.eqb t' t) eqn:Q.
    + intros _. apply andb_true_iff in Q. destruct Q as [Q1 Q2]. apply ns_eqb_eq in Q1. apply N.eqb_eq in Q2. auto.
    + intros H. exfalso. exact (UN _ _ H).
Qed.

Lemma accept_ok : forall v B p i k e c t my e' ks m,
  unused B c ->
  snd (step v B (IAcceptInv p i k e c t my)) = [OSend e' ks m] ->
  m = MRequest p t t i (d_id my) (Some my) /\
  cget (a_conns (fst (step v B (IAcceptInv p i k e c t my)))) c = Some (Conn My t SRequested (d_id my) 0 k) /\
  owns (fst (step v B (IAcceptInv p i k e c t my))) My t c.
Proof.
  intros v B p i k e c t my e' ks m [U1 U2] H. unfold step in *.
  destruct (new_my v _ my) as [a2|] eqn:NM; cbn [fst snd] in *; [|discriminate].
  inversion H. subst. split; [reflexivity|]. split.
  - cbn. rewrite N.eqb_refl. reflexivity.
  - apply new_my_proj in NM. destruct NM as (_ & E2 & _). unfold owns. cbn [set_conn a_thmap]. rewrite E2.
    cbn [set_th a_thmap]. apply owns_new. exact U2.
Qed.

Lemma request_ok : forall A p t pt d dc c my e ks m,
  unused A c ->
  snd (step Fixed A (IRecv (MRequest p t t pt d (Some dc)) c my)) = [OSend e ks m] ->
  exists ik rk, m = MResponse p t t (d_id my) (Some my) ik /\ e = d_ep dc /\ ks = d_keys dc /\
  cget (a_conns (fst (step Fixed A (IRecv (MRequest p t t pt d (Some dc)) c my)))) c
    = Some (Conn Their t SResponded (d_id my) d rk) /\
  owns (fst (step Fixed A (IRecv (MRequest p t t pt d (Some dc)) c my))) Their t c /\
  vget (a_vdr (fst (step Fixed A (IRecv (MRequest p t t pt d (Some dc)) c my)))) (d_id dc) = Some dc /\
  (forall k, In k (d_keys my) ->
     kget (a_keyidx (fst (step Fixed A (IRecv (MRequest p t t pt d (Some dc)) c my)))) k = Some (d_id my)).
Proof.
  intros A p t pt d dc c my e ks m [U1 U2] H. unfold step in *.
  destruct (negb (can (cur_state A Their t) SRequested)); [cbn in H; discriminate|].
  destruct (N.eqb pt 0); [cbn in H; discriminate|].
  rewrite N.eqb_refl in *. cbn [negb] in *. cbv zeta in *.
  destruct (vput Fixed _ dc) as [s|] eqn:VP; [|cbn in H; discriminate].
  destruct (d_keys dc) as [|k0 kr] eqn:DK; [cbn in H; discriminate|].
  destruct (negb (my_type_ok p (first_type dc))) eqn:MT; [cbn in H; discriminate|].
  destruct (new_my Fixed _ my) as [a3|] eqn:NM; [|cbn in H; discriminate].
  destruct (negb (reply_key_ok p (first_type dc) my)) eqn:RK; [cbn in H; discriminate|].
  destruct (iget (a_invs a3) pt) as [ik|]; [|cbn in H; discriminate].
  cbn [fst snd] in *. inversion H. subst.
  apply new_my_proj in NM. destruct NM as (E1 & E2 & _ & s' & VP' & E4 & KP).
  exists ik, (match p with DX => 0 | LC => hd 0 (d_keys my) end).
  split; [reflexivity|]. split; [reflexivity|]. split; [reflexivity|]. split; [|split; [|split]].
  - cbn. rewrite N.eqb_refl. reflexivity.
  - unfold owns. cbn [set_conn a_thmap]. rewrite E2. cbn [set_vdr set_th set_conn a_thmap].
    apply (owns_new (a_thmap A) Their t c U2).
  - cbn [set_conn a_vdr]. rewrite E4. eapply vput_mono; [exact VP'|]. cbn [set_vdr a_vdr]. eapply vput_get. exact VP.
  - intros k Hin. cbn [set_conn a_keyidx]. eapply kput_ok_all; eauto.
Qed.

Lemma response_ok : forall v B p t d dc sg x y c r e ks m,
  owns B My t c -> cget (a_conns B) c = Some r ->
  snd (step v B (IRecv (MResponse p t t d (Some dc) sg) x y)) = [OSend e ks m] ->
  m = MComplete p t t /\ e = d_ep dc /\ ks = d_keys dc /\
  cget (a_conns (fst (step v B (IRecv (MResponse p t t d (Some dc) sg) x y)))) c
    = Some (Conn My (c_th r) SCompleted (c_my r) d (c_rk r)) /\
  owns (fst (step v B (IRecv (MResponse p t t d (Some dc) sg) x y))) My t c /\
  vget (a_vdr (fst (step v B (IRecv (MResponse p t t d (Some dc) sg) x y)))) (d_id dc) = Some dc.
Proof.
  intros v B p t d dc sg x y c r e ks m OW CG H. pose proof OW as [O1 O2]. unfold step in *.
  destruct (negb (can (cur_state B My t) SResponded)); [cbn in H; discriminate|].
  replace (match v with Fixed => negb (N.eqb t t) | AsIs => false end) with false in *
    by (destruct v; [reflexivity|rewrite N.eqb_refl; reflexivity]).
  cbv zeta in *.
  rewrite O1 in *. rewrite CG in *.
  destruct (negb match p with DX => true | LC => _ end); [cbn in H; discriminate|].
  destruct (vput v _ dc) as [s|] eqn:VP; [|cbn in H; discriminate].
  destruct (d_keys dc) as [|k0 kr] eqn:DK; [cbn in H; discriminate|].
  destruct (save_by_resolving v _ d _) as [a4 ok] eqn:SB.
  destruct ok; cbn [fst snd] in *; [|discriminate].
  inversion H. subst. apply sbr_proj in SB. destruct SB as (E1 & E2 & E3 & _).
  split; [reflexivity|]. split; [reflexivity|]. split; [reflexivity|]. split; [|split].
  - rewrite E2. cbn. rewrite N.eqb_refl. reflexivity.
  - unfold owns. rewrite E3. cbn. split; [exact O1|exact O2].
  - rewrite E1. cbn [set_conn set_vdr a_vdr]. eapply vput_get. exact VP.
Qed.

Lemma complete_ok : forall v A p t x y c r,
  owns A Their t c -> cget (a_conns A) c = Some r -> c_state r = SResponded ->
  cget (a_conns (fst (step v A (IRecv (MComplete p t t) x y)))) c = Some (with_state r SCompleted) /\
  owns (fst (step v A (IRecv (MComplete p t t) x y))) Their t c /\
  a_vdr (fst (step v A (IRecv (MComplete p t t) x y))) = a_vdr A /\
  exists ok, save_by_resolving v (set_conn A c (with_state r SCompleted)) (c_their r) (fallback (c_rk r))
             = (fst (step v A (IRecv (MComplete p t t) x y)), ok).
Proof.
  intros v A p t x y c r OW CG ST. pose proof OW as [O1 O2]. unfold step.
  unfold cur_state. rewrite O1, CG, ST. cbn [can negb].
  replace (match v with Fixed => negb (N.eqb t t) | AsIs => false end) with false
    by (destruct v; [reflexivity|rewrite N.eqb_refl; reflexivity]).
  cbv zeta. rewrite ?O1, ?CG.
  destruct (save_by_resolving v _ _ _) as [a2 ok] eqn:SB. cbn [fst].
  pose proof SB as SB'. apply sbr_proj in SB. destruct SB as (E1 & E2 & E3 & _).
  split; [|split; [|split]].
  - rewrite E2. cbn. rewrite N.eqb_refl. reflexivity.
  - unfold owns. rewrite E3. split; [exact O1|exact O2].
  - rewrite E1. reflexivity.
  - exists ok. reflexivity.
Qed.

(* the invitee's side of the key index *)
Lemma accept_keys : forall B p i k e c t my e' ks m,
  snd (step Fixed B (IAcceptInv p i k e c t my)) = [OSend e' ks m] ->
  forall x, In x (d_keys my) -> kget (a_keyidx (fst (step Fixed B (IAcceptInv p i k e c t my)))) x = Some (d_id my).
Proof.
  intros B p i k e c t my e' ks m H x Hin. unfold step in *.
  destruct (new_my Fixed _ my) as [a2|] eqn:NM; cbn [fst snd] in *; [|discriminate].
  apply new_my_proj in NM. destruct NM as (_ & _ & _ & s & _ & _ & KP). cbn [set_conn a_keyidx].
  eapply kput_ok_all; eauto.
Qed.

Lemma response_keys : forall B p t d dc sg x y c r e ks m,
  owns B My t c -> cget (a_conns B) c = Some r -> d = d_id dc ->
  snd (step Fixed B (IRecv (MResponse p t t d (Some dc) sg) x y)) = [OSend e ks m] ->
  forall z, In z (d_keys dc) -> kget (a_keyidx (fst (step Fixed B (IRecv (MResponse p t t d (Some dc) sg) x y)))) z = Some (d_id dc).
Proof.
  intros B p t d dc sg x y c r e ks m OW CG ED H z Hin. pose proof OW as [O1 O2]. unfold step in *.
  destruct (negb (can (cur_state B My t) SResponded)); [cbn in H; discriminate|].
  rewrite N.eqb_refl in *. cbn [negb] in *. cbv zeta in *.
  rewrite O1 in *. rewrite CG in *.
  destruct (negb match p with DX => true | LC => _ end); [cbn in H; discriminate|].
  destruct (vput Fixed _ dc) as [s|] eqn:VP; [|cbn in H; discriminate].
  destruct (d_keys dc) as [|k0 kr] eqn:DK; [cbn in H; discriminate|].
  destruct (save_by_resolving Fixed _ d _) as [a4 ok] eqn:SB.
  destruct ok; cbn [fst snd] in *; [|discriminate].
  unfold save_by_resolving in SB. cbn [set_conn set_vdr a_vdr] in SB. subst d.
  rewrite (vput_get _ _ _ _ VP) in SB. apply set_keys_proj in SB. destruct SB as (_ & _ & _ & _ & KP).
  rewrite DK in KP. eapply kput_ok_all; eauto.
Qed.

(* ---------- the exchange as a whole ---------- *)
Lemma final_mono_vdr : forall is a d dc, vget (a_vdr a) d = Some dc -> vget (a_vdr (final Fixed a is)) d = Some dc.
Proof. intros is a d dc H. destruct (run_mono is a) as [M _]. auto. Qed.

Lemma final_mono_keys : forall is a k x, kget (a_keyidx a) k = Some x -> kget (a_keyidx (final Fixed a is)) k = Some x.
Proof. intros is a k x H. destruct (run_mono is a) as [_ M]. auto. Qed.

Lemma mutual_run : forall p t i k eA cA cB docB myA A1 B1 midA postA midB postB req resp cmpl e1 k1 e2 k2 e3 k3 xa ya xb yb,
  unused A1 cA -> unused B1 cB ->
  Forall (foreign Their t cA) midA -> Forall (foreign Their t cA) postA ->
  Forall (foreign My t cB) midB -> Forall (foreign My t cB) postB ->
  Forall (not_rotating (d_id docB)) (midA ++ postA) -> Forall (not_rotating (d_id myA)) (midB ++ postB) ->
  let B2 := fst (step Fixed B1 (IAcceptInv p i k eA cB t docB)) in
  snd (step Fixed B1 (IAcceptInv p i k eA cB t docB)) = [OSend e1 k1 req] ->
  let A2 := fst (step Fixed A1 (IRecv req cA myA)) in
  snd (step Fixed A1 (IRecv req cA myA)) = [OSend e2 k2 resp] ->
  let B3 := final Fixed B2 midB in
  let B4 := fst (step Fixed B3 (IRecv resp xb yb)) in
  snd (step Fixed B3 (IRecv resp xb yb)) = [OSend e3 k3 cmpl] ->
  let A3 := final Fixed A2 midA in
  let A4 := fst (step Fixed A3 (IRecv cmpl xa ya)) in
  let A' := final Fixed A4 postA in
  let B' := final Fixed B4 postB in
  (exists rk, record A' cA = Some (Conn Their t SCompleted (d_id myA) (d_id docB) rk)) /\
  record B' cB = Some (Conn My t SCompleted (d_id docB) (d_id myA) k) /\
  resolve A' (d_id docB) = Some docB /\ resolve B' (d_id myA) = Some myA /\
  e2 = d_ep docB /\ k2 = d_keys docB /\ e3 = d_ep myA /\ k3 = d_keys myA /\
  (forall tk, In tk (d_keys myA) -> kget (a_keyidx A') tk = Some (d_id myA)) /\
  ((forall fk, In fk (d_keys docB) -> kget (a_keyidx A3) fk = None \/ kget (a_keyidx A3) fk = Some (d_id docB)) ->
   forall fk, In fk (d_keys docB) -> kget (a_keyidx A') fk = Some (d_id docB)) /\
  (forall z, In z (d_keys docB) -> kget (a_keyidx B') z = Some (d_id docB)) /\
  (forall z, In z (d_keys myA) -> kget (a_keyidx B') z = Some (d_id myA)).
Proof.
  intros p t i k eA cA cB docB myA A1 B1 midA postA midB postB req resp cmpl e1 k1 e2 k2 e3 k3 xa ya xb yb
         UA UB FmA FpA FmB FpB NRA NRB B2 H1 A2 H2 B3 B4 H3 A3 A4 A' B'.
  apply Forall_app in NRA. destruct NRA as [NRmA NRpA]. apply Forall_app in NRB. destruct NRB as [NRmB NRpB].
  (* bob handles the invitation *)
  destruct (accept_ok Fixed B1 p i k eA cB t docB e1 k1 req UB H1) as (Ereq & RB2 & OB2). fold B2 in RB2, OB2.
  subst req.
  (* alice receives the request *)
  destruct (request_ok A1 p t i (d_id docB) docB cA myA e2 k2 resp UA H2) as (ik & rk & Eresp & Ee2 & Ek2 & RA2 & OA2 & VA2 & KA2).
  fold A2 in RA2, OA2, VA2, KA2. subst resp.
  (* other traffic at bob, then the response *)
  destruct (run_frame Fixed midB B2 My t cB (Conn My t SRequested (d_id docB) 0 k) (d_id myA) (or_introl eq_refl) (or_intror eq_refl) NRmB FmB OB2 RB2) as [OB3 RB3]. fold B3 in OB3, RB3.
  destruct (response_ok Fixed B3 p t (d_id myA) myA ik xb yb cB _ e3 k3 cmpl OB3 RB3 H3) as (Ecmpl & Ee3 & Ek3 & RB4 & OB4 & VB4).
  fold B4 in RB4, OB4, VB4. subst cmpl. cbn [c_my c_rk c_th] in RB4.
  destruct (run_frame Fixed postB B4 My t cB (Conn My t SCompleted (d_id docB) (d_id myA) k) (d_id myA) (or_introl eq_refl) (or_introl eq_refl) NRpB FpB OB4 RB4) as [_ RB']. fold B' in RB'.
  (* other traffic at alice, then the complete *)
  destruct (run_frame Fixed midA A2 Their t cA (Conn Their t SResponded (d_id myA) (d_id docB) rk) (d_id docB) (or_introl eq_refl) (or_introl eq_refl) NRmA FmA OA2 RA2) as [OA3 RA3]. fold A3 in OA3, RA3.
  destruct (complete_ok Fixed A3 p t xa ya cA _ OA3 RA3 eq_refl) as (RA4 & OA4 & VA4 & ok & SB). fold A4 in RA4, OA4, VA4, SB.
  cbn [with_state c_ns c_th c_my c_their c_rk] in RA4.
  destruct (run_frame Fixed postA A4 Their t cA (Conn Their t SCompleted (d_id myA) (d_id docB) rk) (d_id docB) (or_introl eq_refl) (or_introl eq_refl) NRpA FpA OA4 RA4) as [_ RA']. fold A' in RA'.
  assert (VA3 : vget (a_vdr A3) (d_id docB) = Some docB) by (apply final_mono_vdr; exact VA2).
  split; [exists rk; exact RA'|]. split; [exact RB'|].
  split. { unfold resolve, A'. apply final_mono_vdr. rewrite VA4. exact VA3. }
  split. { unfold resolve, B'. apply final_mono_vdr. exact VB4. }
  assert (KB2 := accept_keys B1 p i k eA cB t docB e1 k1 _ H1). fold B2 in KB2.
  assert (KB4 := response_keys B3 p t (d_id myA) myA ik xb yb cB _ e3 k3 _ OB3 RB3 eq_refl H3). fold B4 in KB4.
  split; [exact Ee2|]. split; [exact Ek2|]. split; [exact Ee3|]. split; [exact Ek3|]. split; [|split; [|split]].
  - intros tk Hin. unfold A'. apply final_mono_keys.
    destruct (step_mono A3 (IRecv (MComplete p t t) xa ya)) as [_ M]. apply M. unfold A3. apply final_mono_keys. auto.
  - intros FRESH fk Hin. unfold A'. apply final_mono_keys.
    unfold save_by_resolving in SB. cbn [set_conn a_vdr with_state c_their c_rk] in SB. rewrite VA3 in SB.
    apply set_keys_proj in SB. destruct SB as (_ & _ & _ & _ & KP). cbn [set_conn a_keyidx] in KP.
    destruct (kput_fresh_ok (d_keys docB) (a_keyidx A3) (d_id docB) FRESH) as [s' KP'].
    rewrite KP' in KP. inversion KP. subst. eapply kput_ok_all; eauto.
  - intros z Hin. unfold B'. apply final_mono_keys.
    destruct (step_mono B3 (IRecv (MResponse p t t (d_id myA) (Some myA) ik) xb yb)) as [_ M]. apply M.
    unfold B3. apply final_mono_keys. auto.
  - intros z Hin. unfold B'. apply final_mono_keys. auto.
Qed.


Lemma ping_step : forall v a kb ka x y, snd (step v a (IRecv (MPing kb ka) x y)) = [dispatch a kb ka].
Proof. reflexivity. Qed.

(* a legacy connection response that is accepted (the invitee answers with its ack) verifies under the invitation key *)
Lemma lc_response_signed : forall v B t dt d dco sg x y c r e ks m,
  tget (a_thmap B) My dt = Some c -> cget (a_conns B) c = Some r ->
  snd (step v B (IRecv (MResponse LC t dt d dco sg) x y)) = [OSend e ks m] ->
  sg = c_rk r /\ sg <> 0.
Proof.
  intros v B t dt d dco sg x y c r e ks m TG CG H. unfold step in H.
  destruct (negb (can (cur_state B My t) SResponded)); [cbn in H; discriminate|].
  destruct (match v with Fixed => negb (N.eqb dt t) | AsIs => false end); [cbn in H; discriminate|].
  cbv zeta in H. rewrite TG, CG in H.
  destruct (negb (N.eqb sg 0) && N.eqb sg (c_rk r)) eqn:S; cbn [negb] in H; [|cbn in H; discriminate].
  apply andb_true_iff in S. destruct S as [S1 S2]. apply N.eqb_eq in S2. apply negb_true_iff in S1.
  apply N.eqb_neq in S1. auto.
Qed.
