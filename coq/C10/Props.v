(* C10 — property theorems (stage 1). *)
From Coq Require Import List NArith Bool.
Import ListNotations.
From VF Require Import C10.Model.
Local Open Scope N_scope.

Theorem no_repoint_asis_refuted :
  exists a i d dc, resolve a d = Some dc /\ resolve (fst (step AsIs a i)) d <> Some dc.
Proof.
  exists (Agent [(7, Doc 7 [8] 9 10)] [] [] [] [(2, 3)]),
         (IRecv (MRequest DX 29 2 7 (Some (Doc 7 [20] 21 30))) 31 (Doc 40 [41] 11 42)), 7, (Doc 7 [8] 9 10).
  split; [reflexivity | vm_compute; discriminate].
Qed.
Print Assumptions no_repoint_asis_refuted.
