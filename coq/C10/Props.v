(* C10 — property theorems only.  Model: coq/C10/Model.v (one agent's stores and its reaction to every input,
   as the code has it after the two fix: commits; `AsIs` = the code as found).  Every proof is `exact <lemma>`
   or a closed computation for a refutation witness; Print Assumptions follows each. *)
From Coq Require Import List NArith Bool.
Import ListNotations.
From VF Require Import C10.Model C10.Proofs.
From VF Require gen.Gen_C09.
Local Open Scope N_scope.

Definition alice_history_r : list input :=
  [ICreateInv 2 3; IRecv (MRequest DX 6 6 2 7 (Some (doc1 7 [8] 9 10))) 17 (doc1 14 [15] 11 16);
   IRecv (MComplete DX 6 6) 0 doc0].

(* NO RE-POINTING (full).  For every agent state, every peer DID d that resolves to a document there, and EVERY
   sequence of inputs afterwards — messages of any type from anybody, on any thread, carrying any DID, document,
   key or initialState, interleaved with the agent's own operations —, d still resolves to the same document:
   same keys, same endpoint.  In particular the peer identifier of an established connection. *)
Theorem no_repoint : forall (a : agent) (is : list input) (d : did) (dc : doc),
  resolve a d = Some dc -> resolve (final Fixed a is) d = Some dc.
Proof. intros a is d dc. exact (final_mono_vdr is a d dc). Qed.
Print Assumptions no_repoint.

(* input histories include restarts of the agent (IRestart: a new framework instance over the same persisted stores, run on
   the real agents between any two steps): the model's restart keeps exactly the persisted maps, and the correspondence
   checks after every real restart that the peer DID store, the records, the thread and key indices are what they were *)
Theorem restart_keeps_the_stores : forall (v : variant) (a : agent), step v a IRestart = (a, []).
Proof. reflexivity. Qed.
Print Assumptions restart_keeps_the_stores.

(* the same for the index that attributes inbound messages: a key linked to a DID stays linked to it *)
Theorem attribution_index_stable : forall (a : agent) (is : list input) (k : key) (d : did),
  kget (a_keyidx a) k = Some d -> kget (a_keyidx (final Fixed a is)) k = Some d.
Proof. intros a is k d. exact (final_mono_keys is a k d). Qed.
Print Assumptions attribution_index_stable.

(* A completed connection record is terminal (repaired code): no input sequence changes its state,
   thread, own or peer identifier — unless it contains a DIDComm v2 rotation (from_prior) of the peer identifier
   that verifies under a key of the peer identifier's own document, i.e. the peer's own act: nothing a third
   party, who does not hold those keys, can send (connection ids are drawn by the agent and are new when drawn). *)
Theorem completed_is_terminal : forall (is : list input) (a : agent) (c : cid) (r : conn),
  fresh_ids Fixed a is -> Forall (not_rotating (c_their r)) is ->
  record a c = Some r -> c_state r = SCompleted -> record (final Fixed a is) c = Some r.
Proof. intros is a c r. exact (run_completed_stable Fixed is a c r (or_introl eq_refl)). Qed.
Print Assumptions completed_is_terminal.

(* The code as found: a response whose own @id names a thread in state `requested` (mallory's invitation, accepted by
   bob and never answered) but whose ~thread member is spelt THID and names bob's COMPLETED thread with alice passed
   the state check on the first and was handled on the second: bob's completed record got mallory's DID as peer
   (corpus/C10/response-case-remap.json). *)
Definition bob_history : list input :=
  [IAcceptInv DX 2 3 11 12 6 (doc1 7 [8] 9 10); IRecv (MResponse DX 6 6 14 (Some (doc1 14 [15] 11 16)) 0) 0 doc0;
   IAcceptInv DX 50 51 21 52 53 (doc1 54 [55] 9 56)].
Theorem completed_is_terminal_asis_refuted :
  let hostile := IRecv (MResponse DX 53 6 41 (Some (doc1 41 [20] 21 42)) 0) 0 doc0 in
  record (final AsIs agent0 bob_history) 12 = Some (Conn My 6 SCompleted 7 14 3) /\
  record (final AsIs agent0 (bob_history ++ [hostile])) 12 = Some (Conn My 6 SCompleted 7 41 3) /\
  record (final Fixed agent0 (bob_history ++ [hostile])) 12 = Some (Conn My 6 SCompleted 7 14 3).
Proof. vm_compute. repeat split. Qed.
Print Assumptions completed_is_terminal_asis_refuted.

Theorem completed_is_terminal_asis_partial : forall (is : list input) (a : agent) (c : cid) (r : conn),
  Forall ids_agree is -> fresh_ids AsIs a is -> Forall (not_rotating (c_their r)) is ->
  record a c = Some r -> c_state r = SCompleted -> record (final AsIs a is) c = Some r.
Proof. intros is a c r H. exact (run_completed_stable AsIs is a c r (or_intror H)). Qed.
Print Assumptions completed_is_terminal_asis_partial.

(* the guard is needed, and is exactly the peer's signature: a rotation signed by the peer moves the identifier, the
   same message signed by anybody else (signer <> iss) does not *)
Theorem rotation_by_peer_only :
  let a := final Fixed agent0 alice_history_r in
  record a 17 = Some (Conn Their 6 SCompleted 14 7 0) /\
  record (final Fixed a [IRecv (MRotate 7 90 7 8 15) 0 doc0]) 17 = Some (Conn Their 6 SCompleted 14 7 0) /\
  record (final Fixed a [IRecv (MInit (doc1 90 [91] 9 92) 91 15) 0 doc0; IRecv (MRotate 7 90 7 91 15) 0 doc0]) 17
    = Some (Conn Their 6 SCompleted 14 90 0) /\
  record (final Fixed a [IRecv (MInit (doc1 90 [91] 9 92) 91 15) 0 doc0; IRecv (MRotate 7 90 90 91 15) 0 doc0]) 17
    = Some (Conn Their 6 SCompleted 14 7 0).
Proof. vm_compute. repeat split. Qed.
Print Assumptions rotation_by_peer_only.

(* NO CROSS-TALK (repaired code, full).  The record of the exchange on thread (n, t) is untouched by ANY sequence of
   inputs that are not addressed to thread (n, t) — any number of other exchanges at any stage, in any interleaving,
   and anything a third party sends on other threads, with any ids inside (rotations of the peer identifier signed by
   the peer itself excepted, see completed_is_terminal). *)
Theorem no_crosstalk : forall (is : list input) (a : agent) (n : ns) (t : th) (c : cid) (r : conn),
  Forall (foreign n t c) is -> Forall (not_rotating (c_their r)) is -> owns a n t c -> record a c = Some r ->
  owns (final Fixed a is) n t c /\ record (final Fixed a is) c = Some r.
Proof.
  intros is a n t c r F NR. exact (run_frame Fixed is a n t c r (c_their r) (or_introl eq_refl) (or_introl eq_refl) NR F).
Qed.
Print Assumptions no_crosstalk.

(* The code as found: a request whose thread id (~thread.thid) is new but whose @id is the thread id of an existing
   exchange passed the state check and re-mapped that thread to a new record (corpus/C10/thread-remap.json). *)
Theorem no_crosstalk_asis_refuted :
  let a := final AsIs agent0 [ICreateInv 2 3; ICreateInv 27 28;
                              IRecv (MRequest DX 6 6 2 7 (Some (doc1 7 [8] 9 10))) 17 (doc1 14 [15] 11 16)] in
  let i := IRecv (MRequest DX 29 6 27 41 (Some (doc1 41 [20] 21 42))) 43 (doc1 44 [45] 11 46) in
  foreign Their 6 17 i /\ owns a Their 6 17 /\
  tget (a_thmap (fst (step AsIs a i))) Their 6 = Some 43 /\
  (* bob's complete now completes mallory's record and leaves his own at responded *)
  (let a' := final AsIs a [i; IRecv (MComplete DX 6 6) 0 doc0] in
   completed_at a' 43 = true /\ completed_at a' 17 = false) /\
  (let a' := final Fixed (final Fixed agent0 [ICreateInv 2 3; ICreateInv 27 28;
                              IRecv (MRequest DX 6 6 2 7 (Some (doc1 7 [8] 9 10))) 17 (doc1 14 [15] 11 16)])
                   [i; IRecv (MComplete DX 6 6) 0 doc0] in
   completed_at a' 17 = true /\ record a' 43 = None).
Proof.
  cbv zeta. split; [split; [reflexivity|cbn; congruence]|].
  split; [split; [reflexivity|]|].
  - intros n' t' H.
    assert (E : a_thmap (final AsIs agent0 [ICreateInv 2 3; ICreateInv 27 28;
                  IRecv (MRequest DX 6 6 2 7 (Some (doc1 7 [8] 9 10))) 17 (doc1 14 [15] 11 16)]) = [((Their, 6), 17)])
      by (vm_compute; reflexivity).
    rewrite E, tget_cons in H. destruct (ns_eqb n' Their && (t' =? 6)) eqn:Q; [|discriminate].
    apply andb_true_iff in Q. destruct Q as [Q1 Q2]. apply ns_eqb_eq in Q1. apply N.eqb_eq in Q2. auto.
  - vm_compute. repeat split.
Qed.
Print Assumptions no_crosstalk_asis_refuted.

(* ... and holds as found for every history whose requests carry one id (all requests this code base sends) *)
Theorem no_crosstalk_asis_partial : forall (is : list input) (a : agent) (n : ns) (t : th) (c : cid) (r : conn),
  Forall ids_agree is -> Forall (foreign n t c) is -> Forall (not_rotating (c_their r)) is ->
  owns a n t c -> record a c = Some r ->
  owns (final AsIs a is) n t c /\ record (final AsIs a is) c = Some r.
Proof.
  intros is a n t c r H F NR. exact (run_frame AsIs is a n t c r (c_their r) (or_intror H) (or_introl eq_refl) NR F).
Qed.
Print Assumptions no_crosstalk_asis_partial.

(* MUTUAL, full statement: whenever Bob handles an invitation of Alice and both run the protocol, Bob's completed record
   names Alice's identifier for this connection.  REFUTED for DID Exchange on the faithful model (and on the real
   frameworks, findings/C10.json `forged-dx-response`, corpus/C10/forged-dx-response.json): the requester does not
   authenticate the response by the invitation key (did_doc~attach is neither signed by this build's responder nor
   verified by the requester), and the thread id is the invitation's @id, so a response made by anybody who saw the
   invitation, arriving before Alice's, is accepted: Bob completes with the impostor's identifier and document while
   Alice runs the thread under hers; her genuine response is then refused. *)
Theorem mutual_refuted_forged_response :
  let docB := doc1 7 [8] 9 10 in let myA := doc1 14 [15] 11 16 in let docM := doc1 41 [20] 21 42 in
  let A1 := final Fixed agent0 [ICreateInv 2 3] in
  let B2 := fst (step Fixed agent0 (IAcceptInv DX 2 3 11 12 6 docB)) in
  let A2 := fst (step Fixed A1 (IRecv (MRequest DX 6 6 2 7 (Some docB)) 17 myA)) in
  (* the forged response overtakes the genuine one *)
  let B3 := fst (step Fixed B2 (IRecv (MResponse DX 6 6 41 (Some docM) 0) 0 doc0)) in
  snd (step Fixed A1 (IRecv (MRequest DX 6 6 2 7 (Some docB)) 17 myA)) = [OSend 9 [8] (MResponse DX 6 6 14 (Some myA) 3)] /\
  record B3 12 = Some (Conn My 6 SCompleted 7 41 3) /\ resolve B3 41 = Some docM /\
  record A2 17 = Some (Conn Their 6 SResponded 14 7 0) /\
  snd (step Fixed B3 (IRecv (MResponse DX 6 6 14 (Some myA) 3) 0 doc0)) = [OReject].
Proof. vm_compute. repeat split. Qed.
Print Assumptions mutual_refuted_forged_response.

(* The legacy Connection protocol is not open to this: a response the invitee accepts verifies under the invitation key
   (both variants of the code; the forged responses of the generators are refused on the real frameworks). *)
Theorem legacy_response_accepted_is_signed_by_invitation_key :
  forall v B t dt d dco sg x y c r e ks m,
  tget (a_thmap B) My dt = Some c -> record B c = Some r ->
  snd (step v B (IRecv (MResponse LC t dt d dco sg) x y)) = [OSend e ks m] ->
  sg = c_rk r /\ sg <> 0.
Proof. exact lc_response_signed. Qed.
Print Assumptions legacy_response_accepted_is_signed_by_invitation_key.

(* MUTUAL, partial: under the guard that, while the exchange is under way, no input addressed to the exchange's own
   thread reaches either side from elsewhere (midA/midB are foreign to the thread: excludes exactly the forged response /
   a second request on the thread; for the legacy protocol the signature makes the guard unnecessary for responses).
   Bob (any state B1) handles an invitation of Alice (any state A1) and emits a request; Alice receives
   that request and emits a response; Bob receives that response and emits the complete; Alice receives it.
   Between these steps and after them each side processes ARBITRARY other inputs (midA/midB: other threads;
   postA/postB: other threads — on the exchange's own thread a completed record admits nothing, see
   completed_is_terminal; rotations of the two identifiers signed by their owners excepted).  Then both records are
   completed on the same thread, each one's own identifier is the other's peer identifier, each side resolves the
   peer identifier to exactly the document the other side created for this connection (keys and endpoint), and the
   response / complete were posted to the endpoint and keys of those documents. *)
Theorem mutual_partial : forall p t i k eA cA cB docB myA A1 B1 midA postA midB postB req resp cmpl e1 k1 e2 k2 e3 k3 xa ya xb yb,
  unused A1 cA -> unused B1 cB ->
  Forall (foreign Their t cA) midA -> Forall (foreign Their t cA) postA ->
  Forall (foreign My t cB) midB -> Forall (foreign My t cB) postB ->
  Forall (not_rotating (d_id docB)) (midA ++ postA) -> Forall (not_rotating (d_id myA)) (midB ++ postB) ->
  let B2 := fst (step Fixed B1 (IAcceptInv p i k eA cB t docB)) in
  snd (step Fixed B1 (IAcceptInv p i k eA cB t docB)) = [OSend e1 k1 req] ->
  let A2 := fst (step Fixed A1 (IRecv req cA myA)) in
  snd (step Fixed A1 (IRecv req cA myA)) = [OSend e2 k2 resp] ->
  let B3 := final Fixed B2 midB in
  let B4 := fst (step Fixed B3 (IRecv resp xb yb)) in
  snd (step Fixed B3 (IRecv resp xb yb)) = [OSend e3 k3 cmpl] ->
  let A3 := final Fixed A2 midA in
  let A4 := fst (step Fixed A3 (IRecv cmpl xa ya)) in
  let A' := final Fixed A4 postA in
  let B' := final Fixed B4 postB in
  exists rA rB,
    record A' cA = Some rA /\ record B' cB = Some rB /\
    c_state rA = SCompleted /\ c_state rB = SCompleted /\ c_th rA = t /\ c_th rB = t /\
    c_my rA = c_their rB /\ c_their rA = c_my rB /\
    resolve A' (c_their rA) = Some docB /\ resolve B' (c_their rB) = Some myA /\
    e2 = d_ep docB /\ k2 = d_keys docB /\ e3 = d_ep myA /\ k3 = d_keys myA.
Proof.
  intros p t i k eA cA cB docB myA A1 B1 midA postA midB postB req resp cmpl e1 k1 e2 k2 e3 k3 xa ya xb yb
         UA UB FmA FpA FmB FpB NRA NRB B2 H1 A2 H2 B3 B4 H3 A3 A4 A' B'.
  destruct (mutual_run p t i k eA cA cB docB myA A1 B1 midA postA midB postB req resp cmpl e1 k1 e2 k2 e3 k3 xa ya xb yb
              UA UB FmA FpA FmB FpB NRA NRB H1 H2 H3) as ((rk & RA) & RB & VA & VB & E2 & K2 & E3 & K3 & _).
  exists (Conn Their t SCompleted (d_id myA) (d_id docB) rk), (Conn My t SCompleted (d_id docB) (d_id myA) k).
  cbn [c_state c_th c_my c_their]. repeat split; assumption.
Qed.
Print Assumptions mutual_partial.

(* ATTRIBUTED, partial (same guard as mutual_partial).  After such an exchange, a message packed by Bob with a key of his document for a key of Alice's
   document is handed to Alice's handler with (my, their) = the two identifiers of that same connection record,
   and the other way round — whatever else (postA/postB: ANY foreign-thread inputs, e.g. everything a third
   party sends afterwards) the two agents processed meanwhile.  Guard on the time of the exchange itself: when the
   complete arrives, nobody else has yet claimed Bob's keys at Alice (the other exchanges running at the same
   time use keys of their own). *)
Theorem attributed_partial : forall p t i k eA cA cB docB myA A1 B1 midA postA midB postB req resp cmpl e1 k1 e2 k2 e3 k3 xa ya xb yb,
  unused A1 cA -> unused B1 cB ->
  Forall (foreign Their t cA) midA -> Forall (foreign Their t cA) postA ->
  Forall (foreign My t cB) midB -> Forall (foreign My t cB) postB ->
  Forall (not_rotating (d_id docB)) (midA ++ postA) -> Forall (not_rotating (d_id myA)) (midB ++ postB) ->
  let B2 := fst (step Fixed B1 (IAcceptInv p i k eA cB t docB)) in
  snd (step Fixed B1 (IAcceptInv p i k eA cB t docB)) = [OSend e1 k1 req] ->
  let A2 := fst (step Fixed A1 (IRecv req cA myA)) in
  snd (step Fixed A1 (IRecv req cA myA)) = [OSend e2 k2 resp] ->
  let B3 := final Fixed B2 midB in
  let B4 := fst (step Fixed B3 (IRecv resp xb yb)) in
  snd (step Fixed B3 (IRecv resp xb yb)) = [OSend e3 k3 cmpl] ->
  let A3 := final Fixed A2 midA in
  let A4 := fst (step Fixed A3 (IRecv cmpl xa ya)) in
  let A' := final Fixed A4 postA in
  let B' := final Fixed B4 postB in
  (forall fk, In fk (d_keys docB) -> kget (a_keyidx A3) fk = None \/ kget (a_keyidx A3) fk = Some (d_id docB)) ->
  forall kb ka x y, In kb (d_keys docB) -> In ka (d_keys myA) ->
    snd (step Fixed A' (IRecv (MPing kb ka) x y)) = [OHandled (d_id myA) (d_id docB)] /\
    snd (step Fixed B' (IRecv (MPing ka kb) x y)) = [OHandled (d_id docB) (d_id myA)].
Proof.
  intros p t i k eA cA cB docB myA A1 B1 midA postA midB postB req resp cmpl e1 k1 e2 k2 e3 k3 xa ya xb yb
         UA UB FmA FpA FmB FpB NRA NRB B2 H1 A2 H2 B3 B4 H3 A3 A4 A' B' FRESH kb ka x y Hb Ha.
  destruct (mutual_run p t i k eA cA cB docB myA A1 B1 midA postA midB postB req resp cmpl e1 k1 e2 k2 e3 k3 xa ya xb yb
              UA UB FmA FpA FmB FpB NRA NRB H1 H2 H3) as (_ & _ & _ & _ & _ & _ & _ & _ & KA1 & KA2 & KB1 & KB2).
  subst A' B' A4 B4 A3 B3 A2 B2.
  split; rewrite ping_step; unfold dispatch.
  - rewrite (KA1 _ Ha), (KA2 FRESH _ Hb). reflexivity.
  - rewrite (KB1 _ Hb), (KB2 _ Ha). reflexivity.
Qed.
Print Assumptions attributed_partial.

(* The state machine the model consults (`can`) is the relation C09's translator regenerates from the code of both
   services (coq/gen/Gen_C09.v: didex_edges / legacy_edges over null, invited, requested, responded, completed[,
   abandoned], numbered from 1), which coq/C09 proves to be the published RFC 0023 / 0160 graph. *)
Definition st_index (s : st) : N :=
  match s with SNull => 1 | SInvited => 2 | SRequested => 3 | SResponded => 4 | SCompleted => 5 | SAbandoned => 6 end.
Definition all_states : list st := [SNull; SInvited; SRequested; SResponded; SCompleted; SAbandoned].
Definition in_edges (es : list (N * N)) (a b : st) : bool :=
  existsb (fun e => N.eqb (fst e) (st_index a) && N.eqb (snd e) (st_index b)) es.

Theorem state_machine_is_generated_graph :
  forallb (fun a => forallb (fun b => Bool.eqb (can a b) (in_edges Gen_C09.didex_edges a b) &&
                                      Bool.eqb (can a b) (in_edges Gen_C09.legacy_edges a b)) all_states) all_states = true.
Proof. vm_compute. reflexivity. Qed.
Print Assumptions state_machine_is_generated_graph.

(* ---------- the code as found ---------- *)
(* alice: invitation 2 (key 3); bob's request (thread 6, DID 7, keys [8], endpoint 9); complete; then mallory's
   request on a fresh thread 29 naming DID 7 with her own key 20 and endpoint 21 (corpus/C10/repoint-request.json) *)
Definition alice_history : list input :=
  [ICreateInv 2 3; IRecv (MRequest DX 6 6 2 7 (Some (doc1 7 [8] 9 10))) 17 (doc1 14 [15] 11 16);
   IRecv (MComplete DX 6 6) 0 doc0].
Definition mallory_repoint : list input :=
  [ICreateInv 27 28; IRecv (MRequest DX 29 29 27 7 (Some (doc1 7 [20] 21 30))) 31 (doc1 32 [33] 11 34)].
(* mallory's own exchange (thread 40) with a new DID 41 whose document lists bob's key 8 next to her key 20 *)
Definition mallory_keysteal : list input :=
  [ICreateInv 27 28; IRecv (MRequest DX 40 40 27 41 (Some (doc1 41 [20; 8] 21 42))) 43 (doc1 44 [45] 11 46);
   IRecv (MComplete DX 40 40) 0 doc0].

Theorem no_repoint_asis_refuted :
  let a := final AsIs agent0 alice_history in
  completed_at a 17 = true /\ resolve a 7 = Some (doc1 7 [8] 9 10) /\
  resolve (final AsIs a mallory_repoint) 7 = Some (doc1 7 [20] 21 30) /\
  resolve (final Fixed (final Fixed agent0 alice_history) mallory_repoint) 7 = Some (doc1 7 [8] 9 10).
Proof. vm_compute. repeat split. Qed.
Print Assumptions no_repoint_asis_refuted.

Theorem initial_state_repoint_asis_refuted :
  let a := final AsIs agent0 alice_history in
  resolve (final AsIs a [IRecv (MInit (doc1 7 [20] 21 30) 20 28) 0 doc0]) 7 = Some (doc1 7 [20] 21 30).
Proof. vm_compute. reflexivity. Qed.
Print Assumptions initial_state_repoint_asis_refuted.

Theorem attributed_asis_refuted :
  let a := final AsIs agent0 alice_history in
  snd (step AsIs a (IRecv (MPing 8 15) 0 doc0)) = [OHandled 14 7] /\
  snd (step AsIs (final AsIs a mallory_keysteal) (IRecv (MPing 8 15) 0 doc0)) = [OHandled 14 41] /\
  snd (step Fixed (final Fixed (final Fixed agent0 alice_history) mallory_keysteal) (IRecv (MPing 8 15) 0 doc0))
    = [OHandled 14 7].
Proof. vm_compute. repeat split. Qed.
Print Assumptions attributed_asis_refuted.

(* ---------- non-vacuity: the hypotheses of `mutual`/`attributed` are met by a concrete run with another
   exchange interleaved on each side and a hostile request afterwards ---------- *)
Example mutual_nonvacuous :
  let docB := doc1 7 [8] 9 10 in let myA := doc1 14 [15] 11 16 in
  let A1 := final Fixed agent0 [ICreateInv 2 3; ICreateInv 50 51] in
  let B1 := agent0 in
  let other := IRecv (MRequest DX 60 60 50 61 (Some (doc1 61 [62] 63 64))) 65 (doc1 66 [67] 11 68) in
  let B2 := fst (step Fixed B1 (IAcceptInv DX 2 3 11 12 6 docB)) in
  let A2 := fst (step Fixed A1 (IRecv (MRequest DX 6 6 2 7 (Some docB)) 17 myA)) in
  let A3 := final Fixed A2 [other] in
  let A4 := fst (step Fixed A3 (IRecv (MComplete DX 6 6) 0 doc0)) in
  let A' := final Fixed A4 mallory_repoint in
  snd (step Fixed B1 (IAcceptInv DX 2 3 11 12 6 docB)) = [OSend 11 [3] (MRequest DX 6 6 2 7 (Some docB))] /\
  snd (step Fixed A1 (IRecv (MRequest DX 6 6 2 7 (Some docB)) 17 myA)) = [OSend 9 [8] (MResponse DX 6 6 14 (Some myA) 3)] /\
  snd (step Fixed B2 (IRecv (MResponse DX 6 6 14 (Some myA) 3) 0 doc0)) = [OSend 11 [15] (MComplete DX 6 6)] /\
  record A' 17 = Some (Conn Their 6 SCompleted 14 7 0) /\ resolve A' 7 = Some docB /\
  record A' 31 = Some (Conn Their 29 SAbandoned 0 7 0) /\ completed_at A3 65 = false /\
  snd (step Fixed A' (IRecv (MPing 8 15) 0 doc0)) = [OHandled 14 7].
Proof. vm_compute. repeat split. Qed.
