(* C10 — connection protocols (DID Exchange RFC 0023, legacy Connection RFC 0160) as one agent runs them:
   executable model, NO proofs (this file must keep running when a proof breaks).

   One agent = the stores the property talks about:
     a_vdr    peer DID store            DID -> document        (component/vdr/peer/store.go storeDID / Get)
     a_conns  connection records        id  -> record          (pkg/store/connection SaveConnectionRecord)
     a_thmap  namespaced thread index   (ns, thid) -> id       (SaveNamespaceThreadID)
     a_keyidx DID connection store      key -> DID             (pkg/store/did/didconnection.go SaveDID: plain Put)
     a_invs   invitations created here  id -> invitation key   (SaveInvitation)
   One input = one thing that happens to the agent: it creates an invitation, it handles an invitation,
   or a message is delivered to it (by anyone: the peer, another exchange, a third party).  `step` expands the
   input into the code's order of effects (pkg/didcomm/protocol/didexchange/service.go HandleInbound/handle,
   states.go handleInboundRequest / handleInboundResponse / resolveDidDocFromMessage; legacyconnection/states.go
   the same with the signed response; dispatcher/inbound getDIDs; middleware HandleInboundPeerDID).
   Values the agent draws itself (connection id, thread id, its own new peer DID document) are parameters of the
   input: the harness reads them off the real agent.

   Identifiers are numbers (the harness interns the real strings); 0 = the empty string. *)
From Coq Require Import List NArith Bool.
Import ListNotations.
Local Open Scope N_scope.

Definition did := N.
Definition key := N.
Definition ep := N.
Definition th := N.
Definition cid := N.
Definition inv := N.

(* what a DID document is to the property: its service blocks in document order, its key agreement key ids, and
   d_h = digest of the whole normalised document.  The keys and the endpoint messages for that DID are packed for
   and posted to are COMPUTED from these by `dest` as service.CreateDestination does it (checked against the real
   function on every document of every trace, Corr.dests_ok). *)
Inductive svct := TV2 | TV1 | TIndy | TOther.
    (* DIDCommMessaging / did-communication / IndyAgent / any other service type *)
Definition svct_eqb (a b : svct) : bool :=
  match a, b with TV2, TV2 | TV1, TV1 | TIndy, TIndy | TOther, TOther => true | _, _ => false end.

(* s_plain: some recipient key of the block is not written as a DID (raw base58); s_ep = 0: no usable URI *)
Record svc := Svc { s_type : svct; s_keys : list key; s_plain : bool; s_ep : ep }.
Record doc := Doc { d_id : did; d_svcs : list svc; d_ka : list key; d_h : N }.

Fixpoint keys_eqb (a b : list key) : bool :=
  match a, b with
  | [], [] => true
  | x :: r, y :: t => N.eqb x y && keys_eqb r t
  | _, _ => false
  end.

Definition svc_eqb (a b : svc) : bool :=
  svct_eqb (s_type a) (s_type b) && keys_eqb (s_keys a) (s_keys b) && Bool.eqb (s_plain a) (s_plain b) &&
  N.eqb (s_ep a) (s_ep b).
Fixpoint svcs_eqb (a b : list svc) : bool :=
  match a, b with
  | [], [] => true
  | x :: r, y :: t => svc_eqb x y && svcs_eqb r t
  | _, _ => false
  end.

(* did.LookupService: the first block of the type (priorities of a parsed document are JSON numbers, which the
   comparison does not recognise as integers: the first block found stays) *)
Fixpoint find_svc (t : svct) (l : list svc) : option svc :=
  match l with
  | [] => None
  | s :: r => if svct_eqb (s_type s) t then Some s else find_svc t r
  end.

Definition is_nil {A} (l : list A) : bool := match l with [] => true | _ => false end.

(* service.CreateDestination (destination_default.go): DIDComm v2 block first (recipient keys = the key agreement
   ids), then did-communication (recipient keys must all be DIDs), then IndyAgent (raw keys are converted) *)
Definition dest (dc : doc) : option (ep * list key) :=
  match find_svc TV2 (d_svcs dc) with
  | Some s => if is_nil (d_ka dc) || N.eqb (s_ep s) 0 then None else Some (s_ep s, d_ka dc)
  | None =>
      match find_svc TV1 (d_svcs dc) with
      | Some s => if N.eqb (s_ep s) 0 || is_nil (s_keys s) || s_plain s then None else Some (s_ep s, s_keys s)
      | None =>
          match find_svc TIndy (d_svcs dc) with
          | Some s => if N.eqb (s_ep s) 0 || is_nil (s_keys s) then None else Some (s_ep s, s_keys s)
          | None => None
          end
      end
  end.

Definition d_keys (dc : doc) : list key := match dest dc with Some (_, ks) => ks | None => [] end.
Definition d_ep (dc : doc) : ep := match dest dc with Some (e, _) => e | None => 0 end.

(* the type of the document's FIRST service block: what handleInboundRequest hands to getMyDIDDoc *)
Definition first_type (dc : doc) : option svct := match d_svcs dc with [] => None | s :: _ => Some (s_type s) end.

(* the ordinary document: one did-communication block *)
Definition doc1 (i : did) (ks : list key) (e : ep) (h : N) : doc := Doc i [Svc TV1 ks false e] [] h.
Definition doc0 : doc := Doc 0 [] [] 0.

Definition doc_eqb (a b : doc) : bool :=
  N.eqb (d_id a) (d_id b) && svcs_eqb (d_svcs a) (d_svcs b) && keys_eqb (d_ka a) (d_ka b) && N.eqb (d_h a) (d_h b).

(* the code as found (the peer DID store and the key index overwrite) and after the two fix: commits (a stored
   document is never replaced by a different one; a key stays linked to the DID it was first saved for) *)
Inductive variant := AsIs | Fixed.

(* ---------- peer DID store ---------- *)
Definition vdr := list (did * doc).

Fixpoint vget (s : vdr) (d : did) : option doc :=
  match s with
  | [] => None
  | (d', dc) :: r => if N.eqb d d' then Some dc else vget r d
  end.

(* Create(..., store=true) / storeDID: keyed by the DOCUMENT's id *)
Definition vput (v : variant) (s : vdr) (dc : doc) : option vdr :=
  match v with
  | AsIs => Some ((d_id dc, dc) :: s)
  | Fixed =>
      match vget s (d_id dc) with
      | None => Some ((d_id dc, dc) :: s)
      | Some old => if doc_eqb old dc then Some s else None
      end
  end.

(* ---------- connection records ---------- *)
Inductive ns := My | Their.
Inductive st := SNull | SInvited | SRequested | SResponded | SCompleted | SAbandoned.
Inductive proto := DX | LC.          (* DID Exchange / legacy Connection *)

Definition ns_eqb (a b : ns) : bool := match a, b with My, My | Their, Their => true | _, _ => false end.
Definition st_eqb (a b : st) : bool :=
  match a, b with
  | SNull, SNull | SInvited, SInvited | SRequested, SRequested | SResponded, SResponded
  | SCompleted, SCompleted | SAbandoned, SAbandoned => true
  | _, _ => false
  end.
Definition proto_eqb (a b : proto) : bool := match a, b with DX, DX | LC, LC => true | _, _ => false end.

(* c_rk: RecipientKeys[0] of the record (0 = none): the invitation key on the invitee's side, the first key of
   the own document on a legacy inviter's side, nothing on a DID Exchange inviter's side *)
Record conn := Conn { c_ns : ns; c_th : th; c_state : st; c_my : did; c_their : did; c_rk : key }.
Definition fallback (k : key) : list key := if N.eqb k 0 then [] else [k].

Definition conns := list (cid * conn).
Fixpoint cget (s : conns) (c : cid) : option conn :=
  match s with
  | [] => None
  | (c', r) :: t => if N.eqb c c' then Some r else cget t c
  end.

(* the two protocols keep their records in the same store and index threads in the same map; the state
   machine consulted is the one of the service the message type belongs to *)
Definition thmap := list ((ns * th) * cid).
Fixpoint tget (s : thmap) (n : ns) (t : th) : option cid :=
  match s with
  | [] => None
  | ((n', t'), c) :: r => if ns_eqb n n' && N.eqb t t' then Some c else tget r n t
  end.

Definition keyidx := list (key * did).
Fixpoint kget (s : keyidx) (k : key) : option did :=
  match s with
  | [] => None
  | (k', d) :: r => if N.eqb k k' then Some d else kget r k
  end.
(* SaveDID(did, keys...): the keys are linked one after the other.  As found: plain Put.  Fixed: a key already
   linked to a different DID stays where it is and the call fails there (the keys before it are linked). *)
Fixpoint kput (v : variant) (s : keyidx) (d : did) (ks : list key) : keyidx * bool :=
  match ks with
  | [] => (s, true)
  | k :: r =>
      match v, kget s k with
      | Fixed, Some d' => if N.eqb d' d then kput v ((k, d) :: s) d r else (s, false)
      | _, _ => kput v ((k, d) :: s) d r
      end
  end.

Definition invs := list (inv * key).
Fixpoint iget (s : invs) (i : inv) : option key :=
  match s with
  | [] => None
  | (i', k) :: r => if N.eqb i i' then Some k else iget r i
  end.

Record agent := Agent { a_vdr : vdr; a_conns : conns; a_thmap : thmap; a_keyidx : keyidx; a_invs : invs }.
Definition agent0 : agent := Agent [] [] [] [] [].

(* ---------- messages ---------- *)
Inductive msg :=
| MRequest (p : proto) (t rid : th) (pt : inv) (d : did) (dc : option doc)
    (* t = the message's thread id (~thread.thid, else @id), rid = its @id: equal in every request an agent of
       this code base sends *)
| MResponse (p : proto) (t dt : th) (d : did) (dc : option doc) (sig : key)
    (* t = the message's thread id as ThreadID() reads it (exactly "~thread"."thid", else @id); dt = the thread id
       the handlers decode from ~thread (member names matched case-insensitively): equal in every honest message *)
    (* sig: the key the connection~sig of a legacy response verifies under (0 = none / not verifying);
       ignored by DID Exchange *)
| MComplete (p : proto) (t dt : th)              (* DID Exchange complete / legacy ack; t, dt as above *)
| MPing (fk tk : key)                            (* an application message; envelope sender / recipient key *)
| MPingV2 (fd td : did)                          (* the same under a DIDComm v2 envelope: the envelope key ids name
                                                    the sender's and the recipient's DID (getDIDGivenKey) *)
| MInit (dc : doc) (fk tk : key)
| MRotate (iss sub signer : did) (fk tk : key).
    (* a DIDComm v2 message with from_prior = JWS{iss -> sub}: `signer` is the DID in whose document the JWS kid
       is found with a key under which the signature verifies (0 = none) *)                (* an application message whose `from` is did:peer:..?initialState=<dc> *)

Inductive input :=
| ICreateInv (i : inv) (k : key)
| IAcceptInv (p : proto) (i : inv) (k : key) (e : ep) (c : cid) (t : th) (my : doc)
| IRecv (m : msg) (c : cid) (my : doc)
| IRestart.     (* the framework instance is stopped and a new one started over the same persisted stores *)

Inductive out :=
| OSend (e : ep) (ks : list key) (m : msg)
| OHandled (my their : did)                      (* the message handler was called with these DIDs *)
| OReject.                                       (* the inbound handler returned an error: nothing happened *)

(* CanTransitionTo of the current state of the thread (null when the thread is unknown) *)
Definition can (cur next : st) : bool :=
  match cur, next with
  | SNull, SInvited | SNull, SRequested | SInvited, SRequested | SRequested, SResponded
  | SResponded, SCompleted => true
  | _, _ => false
  end.

Definition cur_state (a : agent) (n : ns) (t : th) : st :=
  match tget (a_thmap a) n t with
  | None => SNull
  | Some c => match cget (a_conns a) c with Some r => c_state r | None => SNull end
  end.

Definition set_conn (a : agent) (c : cid) (r : conn) : agent :=
  Agent (a_vdr a) ((c, r) :: a_conns a) (a_thmap a) (a_keyidx a) (a_invs a).
Definition set_th (a : agent) (n : ns) (t : th) (c : cid) : agent :=
  Agent (a_vdr a) (a_conns a) (((n, t), c) :: a_thmap a) (a_keyidx a) (a_invs a).
Definition set_vdr (a : agent) (s : vdr) : agent :=
  Agent s (a_conns a) (a_thmap a) (a_keyidx a) (a_invs a).
Definition set_keys (v : variant) (a : agent) (d : did) (ks : list key) : agent * bool :=
  let '(s, ok) := kput v (a_keyidx a) d ks in
  (Agent (a_vdr a) (a_conns a) (a_thmap a) s (a_invs a), ok).
Definition set_conns (a : agent) (s : conns) : agent :=
  Agent (a_vdr a) s (a_thmap a) (a_keyidx a) (a_invs a).
(* handleInboundRotate: the completed connection (my, iss) now has their = sub *)
Definition rot_rec (my iss sub : did) (r : conn) : conn :=
  if st_eqb (c_state r) SCompleted && N.eqb (c_my r) my && N.eqb (c_their r) iss
  then Conn (c_ns r) (c_th r) (c_state r) (c_my r) sub (c_rk r) else r.
Definition rot_conns (my iss sub : did) (s : conns) : conns := map (fun p => (fst p, rot_rec my iss sub (snd p))) s.
Definition with_state (r : conn) (s : st) : conn :=
  Conn (c_ns r) (c_th r) s (c_my r) (c_their r) (c_rk r).

(* getMyDIDDoc without a public DID: create a new peer DID (stored through the same storeDID), index its keys *)
Definition new_my (v : variant) (a : agent) (my : doc) : option agent :=
  match vput v (a_vdr a) my with
  | None => None
  | Some s => let '(a1, ok) := set_keys v (set_vdr a s) (d_id my) (d_keys my) in if ok then Some a1 else None
  end.

(* SaveDIDByResolving(their, fallback keys) at the completed state *)
Definition save_by_resolving (v : variant) (a : agent) (their : did) (fallback : list key) : agent * bool :=
  match vget (a_vdr a) their with
  | Some dc => set_keys v a (d_id dc) (d_keys dc)
  | None => set_keys v a their fallback
  end.

(* getDIDs: both envelope keys are looked up in the key index; the handler is called unless only the
   recipient side is known *)
Definition dispatch (a : agent) (fk tk : key) : out :=
  match kget (a_keyidx a) tk, kget (a_keyidx a) fk with
  | Some m, Some t => OHandled m t
  | None, Some t => OHandled 0 t
  | None, None => OHandled 0 0
  | Some _, None => OReject
  end.

(* getMyDIDDoc: DID Exchange builds a document for did-communication, IndyAgent and DIDCommMessaging; the legacy
   protocol for did-communication and IndyAgent *)
Definition my_type_ok (p : proto) (t : option svct) : bool :=
  match p, t with
  | DX, Some TV1 | DX, Some TV2 | DX, Some TIndy => true
  | LC, Some TV1 | LC, Some TIndy => true
  | _, _ => false
  end.
(* DID Exchange (default build): recipientKeyAsDIDKey knows did-communication and DIDCommMessaging only, an
   IndyAgent document just created is left behind; legacy: recipientKey = CreateDestination of the new document
   (a did-communication document of the legacy service lists its key in raw base58, which CreateDestination refuses) *)
Definition reply_key_ok (p : proto) (t : option svct) (my : doc) : bool :=
  match p, t with
  | DX, Some TIndy => false
  | _, _ => negb (is_nil (d_keys my))
  end.

Definition step (v : variant) (a : agent) (i : input) : agent * list out :=
  match i with
  | ICreateInv i k =>
      (Agent (a_vdr a) (a_conns a) (a_thmap a) (a_keyidx a) ((i, k) :: a_invs a), [])
  | IAcceptInv p i k e c t my =>
      (* invitee: record (invited, with thread mapping), then `requested`: own new DID, request sent *)
      let r0 := Conn My t SInvited 0 0 k in
      let a1 := set_th (set_conn a c r0) My t c in
      match new_my v a1 my with
      | None => (set_conn a1 c (with_state r0 SAbandoned), [])
      | Some a2 =>
          (set_conn a2 c (Conn My t SRequested (d_id my) 0 k),
           [OSend e [k] (MRequest p t t i (d_id my) (Some my))])
      end
  | IRecv (MRequest p t0 rid pt d dco) c my =>
      (* inviter.  nextState looks at the message's thread id: the thread (their namespace) must be new *)
      if negb (can (cur_state a Their t0) SRequested) then (a, [OReject]) else
      if N.eqb pt 0 then (a, [OReject]) else
      (* requestMsgRecord keys the record, the thread mapping and the response on the request's @id.  As found the
         two ids were never compared; fixed: a request whose thread id differs from its @id is refused *)
      if (match v with Fixed => negb (N.eqb t0 rid) | AsIs => false end) then (a, [OReject]) else
      let t := rid in
      (* state requested (saved with the thread mapping); action event auto-continued *)
      let r0 := Conn Their t SRequested 0 d 0 in
      let a1 := set_th (set_conn a c r0) Their t c in
      (* an error after this point: DID Exchange moves the record to abandoned (and announces it); the legacy service's
         listener drops the error: the record stays as it was saved, in state requested, and nothing is announced *)
      let abandoned x := (set_conn x c (with_state r0 (match p with DX => SAbandoned | LC => SRequested end)), []) in
      match dco with
      | None => abandoned a1
      | Some dc =>
          (* resolveDidDocFromMessage: the attached document is stored under ITS id *)
          match vput v (a_vdr a1) dc with
          | None => abandoned a1
          | Some s =>
              let a2 := set_vdr a1 s in
              match d_keys dc with
              | [] => abandoned a2                      (* CreateDestination fails *)
              | _ =>
                  (* getMyDIDDoc(type of the request document's first service block): a type it does not know
                     is refused before anything is created *)
                  if negb (my_type_ok p (first_type dc)) then abandoned a2 else
                  match new_my v a2 my with
                  | None => abandoned a2
                  | Some a3 =>
                      (* the key the reply is sent from: recipientKeyAsDIDKey / recipientKey of the new document *)
                      if negb (reply_key_ok p (first_type dc) my) then abandoned a3 else
                      (* prepareResponse: the invitation named by pthid must be one of ours *)
                      match iget (a_invs a3) pt with
                      | None => abandoned a3
                      | Some ik =>
                          (set_conn a3 c (Conn Their t SResponded (d_id my) d
                                            (match p with DX => 0 | LC => hd 0 (d_keys my) end)),
                           [OSend (d_ep dc) (d_keys dc) (MResponse p t t (d_id my) (Some my) ik)])
                      end
                  end
              end
          end
      end
  | IRecv (MResponse p t0 dt d dco sig) _ _ =>
      (* invitee.  nextState on the message's thread id: the thread (my namespace) must be in state requested *)
      if negb (can (cur_state a My t0) SResponded) then (a, [OReject]) else
      (* the record is fetched, and the response handled, under the DECODED thread id.  As found the two were never
         compared; fixed: a message whose decoded thread id differs from its thread id is refused *)
      if (match v with Fixed => negb (N.eqb dt t0) | AsIs => false end) then (a, [OReject]) else
      let t := dt in
      match tget (a_thmap a) My t with
      | None => (a, [OReject])
      | Some c =>
          match cget (a_conns a) c with
          | None => (a, [OReject])
          | Some r =>
              (* state responded is persisted; then `completed` is executed; an error there is only logged *)
              let r1 := with_state r SResponded in
              let a1 := set_conn a c r1 in
              let sig_ok := match p with DX => true | LC => negb (N.eqb sig 0) && N.eqb sig (c_rk r) end in
              if negb sig_ok then (a1, []) else
              match dco with
              | None => (a1, [])
              | Some dc =>
                  match vput v (a_vdr a1) dc with
                  | None => (a1, [])
                  | Some s =>
                      let a2 := set_vdr a1 s in
                      match d_keys dc with
                      | [] => (a2, [])
                      | _ =>
                          let a3 := set_conn a2 c (Conn My (c_th r) SCompleted (c_my r) d (c_rk r)) in
                          (* the key index is written before the action: if that fails the complete is not sent *)
                          let '(a4, ok) := save_by_resolving v a3 d (fallback (c_rk r)) in
                          (a4, if ok then [OSend (d_ep dc) (d_keys dc) (MComplete p t t)] else [])
                      end
                  end
              end
          end
      end
  | IRecv (MComplete p t0 dt) _ _ =>
      (* inviter: nextState on the message's thread id, the record under the decoded one *)
      if negb (can (cur_state a Their t0) SCompleted) then (a, [OReject]) else
      if (match v with Fixed => negb (N.eqb dt t0) | AsIs => false end) then (a, [OReject]) else
      let t := dt in
      match tget (a_thmap a) Their t with
      | None => (a, [OReject])
      | Some c =>
          match cget (a_conns a) c with
          | None => (a, [OReject])
          | Some r =>
              let a1 := set_conn a c (with_state r SCompleted) in
              let '(a2, _) := save_by_resolving v a1 (c_their r) (fallback (c_rk r)) in (a2, [])
          end
      end
  | IRecv (MPing fk tk) _ _ => (a, [dispatch a fk tk])
  | IRecv (MPingV2 fd td) _ _ => (a, [OHandled td fd])
  | IRecv (MInit dc fk tk) _ _ =>
      (* HandleInboundPeerDID: before anything else, for any message type; then the message is dispatched *)
      match vput v (a_vdr a) dc with
      | None => (a, [OReject])
      | Some s =>
          let '(a1, ok) := set_keys v (set_vdr a s) (d_id dc) (d_keys dc) in
          (a1, [if ok then dispatch a1 fk tk else OReject])
      end
  | IRestart =>
      (* everything the agent's decisions rest on lives in the persisted stores: nothing is lost, nothing is relaxed *)
      (a, [])
  | IRecv (MRotate iss sub signer fk tk) _ _ =>
      (* getDIDs from the envelope keys; middleware HandleInboundMessage -> handleInboundRotate: sub must be the
         sender, the connection (my, iss) must exist, the JWS must verify under a key of iss's document.  A v2
         message of this type has no handler afterwards: the inbound handler returns an error in every case *)
      match kget (a_keyidx a) tk, kget (a_keyidx a) fk with
      | Some my, Some their =>
          if N.eqb their sub && negb (N.eqb iss 0) && N.eqb signer iss
          then (set_conns a (rot_conns my iss sub (a_conns a)), [OReject])
          else (a, [OReject])
      | _, _ => (a, [OReject])
      end
  end.

Fixpoint run (v : variant) (a : agent) (is : list input) : agent * list (list out) :=
  match is with
  | [] => (a, [])
  | i :: r => let '(a1, o) := step v a i in let '(a2, os) := run v a1 r in (a2, o :: os)
  end.

Definition final (v : variant) (a : agent) (is : list input) : agent := fst (run v a is).

(* ---------- what the property reads ---------- *)
Definition resolve (a : agent) (d : did) : option doc := vget (a_vdr a) d.
Definition record (a : agent) (c : cid) : option conn := cget (a_conns a) c.

Definition completed_at (a : agent) (c : cid) : bool :=
  match record a c with Some r => st_eqb (c_state r) SCompleted | None => false end.

(* ---------- vocabulary of the theorems ---------- *)
(* the connection id an input makes the agent draw (it names a new record) *)
Definition input_cid (i : input) : option cid :=
  match i with
  | IAcceptInv _ _ _ _ c _ _ => Some c
  | IRecv (MRequest _ _ _ _ _ _) c _ => Some c
  | _ => None
  end.

(* the input is addressed to thread t in namespace n (requests/completes: their; invitations/responses: my) *)
Definition touches (n : ns) (t : th) (i : input) : bool :=
  match i with
  | IAcceptInv _ _ _ _ _ t' _ => ns_eqb n My && N.eqb t t'
  | IRecv (MRequest _ t' _ _ _ _) _ _ => ns_eqb n Their && N.eqb t t'
  | IRecv (MResponse _ t' _ _ _ _) _ _ => ns_eqb n My && N.eqb t t'
  | IRecv (MComplete _ t' _) _ _ => ns_eqb n Their && N.eqb t t'
  | _ => false
  end.

(* an input that belongs to something else than the exchange on thread (n, t) with record c: any message of any
   other thread (other exchanges running at the same time, anything a third party sends), any local operation;
   connection ids are drawn by the agent itself and do not repeat *)
Definition foreign (n : ns) (t : th) (c : cid) (i : input) : Prop :=
  touches n t i = false /\ input_cid i <> Some c.

(* the message's two thread ids agree (true of every message the code sends; the repaired code refuses the others) *)
Definition ids_agree (i : input) : Prop :=
  match i with
  | IRecv (MRequest _ t rid _ _ _) _ _ => rid = t
  | IRecv (MResponse _ t dt _ _ _) _ _ => dt = t
  | IRecv (MComplete _ t dt) _ _ => dt = t
  | _ => True
  end.

(* the input is not a rotation of DID d signed with a key of d's own document: whoever does not hold d's keys
   (every third party) can only send such inputs *)
Definition not_rotating (d : did) (i : input) : Prop :=
  match i with IRecv (MRotate iss _ signer _ _) _ _ => ~ (signer = iss /\ iss = d) | _ => True end.

(* connection id c is not in use *)
Definition unused (a : agent) (c : cid) : Prop :=
  cget (a_conns a) c = None /\ forall n t, tget (a_thmap a) n t <> Some c.

(* thread (n, t) is the thread of record c, and of no other record *)
Definition owns (a : agent) (n : ns) (t : th) (c : cid) : Prop :=
  tget (a_thmap a) n t = Some c /\ forall n' t', tget (a_thmap a) n' t' = Some c -> n' = n /\ t' = t.

(* the ids drawn along a run are new when they are drawn *)
Fixpoint fresh_ids (v : variant) (a : agent) (is : list input) : Prop :=
  match is with
  | [] => True
  | i :: r => (forall c, input_cid i = Some c -> cget (a_conns a) c = None) /\ fresh_ids v (fst (step v a i)) r
  end.
