(* C10 — correspondence: for every honest agent of a case, the inputs the real framework instance received (in
   the order it received them, values it drew itself read off it) and, after each input, what it sent / how its
   message handler was called, and the content of its stores over the identifiers seen so far. *)
From Coq Require Import List NArith Bool.
Import ListNotations.
From VF Require Export C10.Model.
Local Open Scope N_scope.

Definition odoc_eqb (a b : option doc) : bool :=
  match a, b with
  | None, None => true
  | Some x, Some y => doc_eqb x y
  | _, _ => false
  end.

Definition msg_eqb (a b : msg) : bool :=
  match a, b with
  | MRequest p t rid pt d dc, MRequest p' t' rid' pt' d' dc' =>
      proto_eqb p p' && N.eqb t t' && N.eqb rid rid' && N.eqb pt pt' && N.eqb d d' && odoc_eqb dc dc'
  | MResponse p t dt d dc s, MResponse p' t' dt' d' dc' s' =>
      proto_eqb p p' && N.eqb t t' && N.eqb dt dt' && N.eqb d d' && odoc_eqb dc dc' &&
      match p with DX => true | LC => N.eqb s s' end     (* only the legacy response carries a signature *)
  | MComplete p t dt, MComplete p' t' dt' => proto_eqb p p' && N.eqb t t' && N.eqb dt dt'
  | MPing f t, MPing f' t' => N.eqb f f' && N.eqb t t'
  | MPingV2 f t, MPingV2 f' t' => N.eqb f f' && N.eqb t t'
  | MInit d f t, MInit d' f' t' => doc_eqb d d' && N.eqb f f' && N.eqb t t'
  | MRotate i s g f t, MRotate i' s' g' f' t' => N.eqb i i' && N.eqb s s' && N.eqb g g' && N.eqb f f' && N.eqb t t'
  | _, _ => false
  end.

Definition out_eqb (a b : out) : bool :=
  match a, b with
  | OSend e ks m, OSend e' ks' m' => N.eqb e e' && keys_eqb ks ks' && msg_eqb m m'
  | OHandled m t, OHandled m' t' => N.eqb m m' && N.eqb t t'
  | OReject, OReject => true
  | _, _ => false
  end.

Fixpoint outs_eqb (a b : list out) : bool :=
  match a, b with
  | [], [] => true
  | x :: r, y :: t => out_eqb x y && outs_eqb r t
  | _, _ => false
  end.

(* projection of a connection record: namespace, thread, state, my DID, their DID *)
Definition crec := (ns * th * st * did * did)%type.
Definition proj (r : conn) : crec := (c_ns r, c_th r, c_state r, c_my r, c_their r).
Definition crec_eqb (a b : crec) : bool :=
  let '(n, t, s, m, h) := a in let '(n', t', s', m', h') := b in
  ns_eqb n n' && N.eqb t t' && st_eqb s s' && N.eqb m m' && N.eqb h h'.
Definition ocrec_eqb (a : option conn) (b : option crec) : bool :=
  match a, b with
  | None, None => true
  | Some x, Some y => crec_eqb (proj x) y
  | _, _ => false
  end.
Definition odid_eqb (a b : option did) : bool :=
  match a, b with
  | None, None => true
  | Some x, Some y => N.eqb x y
  | _, _ => false
  end.

Record obs := Obs {
  o_out : list out;
  o_recs : list (cid * option crec);
  o_res : list (did * option doc);
  o_keys : list (key * option did) }.

Definition obs_ok (a : agent) (outs : list out) (o : obs) : bool :=
  outs_eqb outs (o_out o) &&
  forallb (fun p => ocrec_eqb (record a (fst p)) (snd p)) (o_recs o) &&
  forallb (fun p => odoc_eqb (resolve a (fst p)) (snd p)) (o_res o) &&
  forallb (fun p => odid_eqb (kget (a_keyidx a) (fst p)) (snd p)) (o_keys o).

Fixpoint check_from (a : agent) (is : list input) (os : list obs) : bool :=
  match is, os with
  | [], [] => true
  | i :: r, o :: t => let '(a1, outs) := step Fixed a i in obs_ok a1 outs o && check_from a1 r t
  | _, _ => false
  end.

(* the post-states a service announced for one connection, in protocol order: a path of the model's state
   machine (`can`, which Props.state_machine_is_generated_graph ties to the graph C09's translator reads off the
   code) from the null state, possibly ending in abandoned *)
Fixpoint path_ok (cur : st) (l : list st) : bool :=
  match l with
  | [] => true
  | x :: r =>
      match x, r with
      | SAbandoned, [] => negb (st_eqb cur SCompleted)
      | _, _ => can cur x && path_ok x r
      end
  end.

(* every document of the case (attached to a message, drawn by an agent, resolved from a store) with what the real
   service.CreateDestination made of it: endpoint and recipient keys, or an error.  The model's `dest` (from which
   d_keys / d_ep in `step` are computed) must say the same. *)
Definition odest_eqb (a b : option (ep * list key)) : bool :=
  match a, b with
  | None, None => true
  | Some (e, ks), Some (e', ks') => N.eqb e e' && keys_eqb ks ks'
  | _, _ => false
  end.
Definition dests_ok (l : list (doc * option (ep * list key))) : bool :=
  forallb (fun p => odest_eqb (dest (fst p)) (snd p)) l.

Record acase := ACase { k_inputs : list input; k_obs : list obs }.
Record case := Case { c_agents : list acase; c_paths : list (list st); c_dests : list (doc * option (ep * list key)) }.

Definition check_case (c : case) : bool :=
  forallb (fun k => check_from agent0 (k_inputs k) (k_obs k)) (c_agents c) &&
  forallb (path_ok SNull) (c_paths c) &&
  dests_ok (c_dests c).

Fixpoint mismatches_from (i : nat) (cs : list case) : list nat :=
  match cs with
  | [] => []
  | c :: r => if check_case c then mismatches_from (S i) r else i :: mismatches_from (S i) r
  end.
Definition mismatches := mismatches_from 0.
