From Coq Require Import List NArith Bool Lia.
Import ListNotations.

(* A protocol service with deferred action events, as issue-credential / present-proof implement it:
   the transition is checked when the message ARRIVES, persisted only when the application CONTINUES. *)
Section Svc.
  Variable st : Type.
  Variable st_eqb : st -> st -> bool.
  Hypothesis st_eqb_eq : forall a b, st_eqb a b = true <-> a = b.
  Variable start : st.
  Variable can : st -> st -> bool.          (* generated CanTransitionTo relation *)
  Variable terminal : st -> bool.
  Hypothesis terminal_stuck : forall a b, terminal a = true -> can a b = false.

  Definition thid := N.
  Record sstate := { persisted : list (thid * st); pending : list (thid * st * bool) (* continued? *) }.
  Definition cur (s : sstate) (t : thid) : st :=
    match find (fun p => N.eqb (fst p) t) (persisted s) with Some p => snd p | None => start end.
  Definition set (s : sstate) (t : thid) (x : st) : sstate :=
    {| persisted := (t, x) :: persisted s; pending := pending s |}.

  Inductive op := Inbound (t : thid) (target : st) (action : bool) | Continue (ev : nat).

  Fixpoint mark (l : list (thid * st * bool)) (n : nat) : list (thid * st * bool) :=
    match l, n with
    | (t, x, _) :: r, O => (t, x, true) :: r
    | p :: r, S n' => p :: mark r n'
    | [], _ => []
    end.

  Definition step (s : sstate) (o : op) : sstate :=
    match o with
    | Inbound t target action =>
        if can (cur s t) target then
          if action then {| persisted := persisted s; pending := pending s ++ [(t, target, false)] |}
          else set s t target
        else s                                              (* rejected: nothing changes *)
    | Continue ev =>
        match nth_error (pending s) ev with
        | Some (t, target, _) =>                            (* no re-check: the code as it is *)
            let s' := set s t target in {| persisted := persisted s'; pending := mark (pending s') ev |}
        | None => s
        end
    end.

  (* the observable: every change of a thread's persisted state *)
  Definition moved (s s' : sstate) (t : thid) : Prop := cur s t <> cur s' t.
  Definition edge_ok (s s' : sstate) : Prop := forall t, moved s s' t -> can (cur s t) (cur s' t) = true.

  Lemma cur_set_same s t x : cur (set s t x) t = x.
  Proof. unfold cur, set; cbn. rewrite N.eqb_refl. reflexivity. Qed.
  Lemma cur_set_other s t t' x : t' <> t -> cur (set s t x) t' = cur s t'.
  Proof. intros H. unfold cur, set; cbn. destruct (N.eqb_spec t t'); [congruence|reflexivity]. Qed.

  (* "busy" discipline: while an action event of thread t is pending (not continued), nothing else is
     accepted on t, and an event is continued once.  Invariant carried by such histories: *)
  Definition inv (s : sstate) : Prop :=
    forall ev t x, nth_error (pending s) ev = Some (t, x, false) -> can (cur s t) x = true.

  Definition disciplined (s : sstate) (o : op) : Prop :=
    match o with
    | Inbound t _ _ => forall ev x, nth_error (pending s) ev <> Some (t, x, false)
    | Continue ev => forall t x b, nth_error (pending s) ev = Some (t, x, b) -> b = false /\
                       (forall ev' x', ev' <> ev -> nth_error (pending s) ev' <> Some (t, x', false))
    end.

  Theorem step_edge_partial s o : inv s -> disciplined s o -> edge_ok s (step s o).
  Proof.
    intros Hinv Hd t Hm. destruct o as [t0 target action|ev]; cbn in *.
    - destruct (can (cur s t0) target) eqn:Hc; [|contradiction Hm; reflexivity].
      destruct action; [contradiction Hm; reflexivity|].
      destruct (N.eq_dec t t0) as [->|Hne].
      + rewrite cur_set_same. exact Hc.
      + unfold moved in Hm. rewrite cur_set_other in Hm by assumption. contradiction Hm; reflexivity.
    - destruct (nth_error (pending s) ev) as [[[t0 x] b]|] eqn:Hn; [|contradiction Hm; reflexivity].
      destruct (Hd _ _ _ eq_refl) as [-> _].
      assert (Hcur : forall t', cur {| persisted := persisted (set s t0 x); pending := mark (pending (set s t0 x)) ev |} t'
                                = cur (set s t0 x) t') by reflexivity.
      unfold moved in Hm. rewrite Hcur in *.
      destruct (N.eq_dec t t0) as [->|Hne].
      + rewrite cur_set_same. apply (Hinv ev). exact Hn.
      + rewrite cur_set_other in Hm by assumption. contradiction Hm; reflexivity.
  Qed.

  Theorem terminal_stable_partial s o t :
    inv s -> disciplined s o -> terminal (cur s t) = true -> cur (step s o) t = cur s t.
  Proof.
    intros Hinv Hd Ht. destruct (st_eqb (cur s t) (cur (step s o) t)) eqn:E.
    - apply st_eqb_eq in E. symmetry; exact E.
    - assert (Hm : moved s (step s o) t).
      { intro H. rewrite <- H in E. assert (st_eqb (cur s t) (cur s t) = true) by (apply st_eqb_eq; reflexivity). congruence. }
      pose proof (step_edge_partial s o Hinv Hd t Hm) as Hc. rewrite terminal_stuck in Hc by assumption. discriminate.
  Qed.
End Svc.

(* the full statement is false for the service as it is: the history found on the real issuer (obs. #16) *)
Inductive ic := Start | RequestReceived | CredentialIssued | Done.
Definition ic_eqb (a b : ic) : bool :=
  match a, b with Start, Start | RequestReceived, RequestReceived | CredentialIssued, CredentialIssued | Done, Done => true | _, _ => false end.
Definition ic_can (a b : ic) : bool :=
  match a, b with
  | Start, RequestReceived | RequestReceived, CredentialIssued | CredentialIssued, Done => true
  | _, _ => false end.
Definition ic_run := fold_left (step ic Start ic_can).
Definition s0 : sstate ic := {| persisted := []; pending := [] |}.
(* request twice (two action events), continue #0 -> issued (modelled as one persisted hop), ack -> done, continue #1 *)
Definition witness : list (op ic) :=
  [Inbound ic 1%N RequestReceived true; Inbound ic 1%N RequestReceived true; Continue ic 0;
   Inbound ic 1%N CredentialIssued false; Inbound ic 1%N Done false; Continue ic 1].
Theorem terminal_stable_refuted :
  cur ic Start (ic_run (firstn 5 witness) s0) 1%N = Done /\
  cur ic Start (ic_run witness s0) 1%N = RequestReceived.
Proof. split; reflexivity. Qed.
Print Assumptions step_edge_partial.
Print Assumptions terminal_stable_partial.
Print Assumptions terminal_stable_refuted.
