From Coq Require Import List Ring Field Bool Lia.
Import ListNotations.

Section ExponentModel.
  (* scalars of the prime-order group; group elements are represented by their discrete logs,
     the pairing by multiplication *)
  Variable F : Type.
  Variables (f0 f1 : F) (fadd fmul fsub : F -> F -> F) (fopp : F -> F) (fdiv : F -> F -> F) (finv : F -> F).
  Hypothesis Ffield : field_theory f0 f1 fadd fmul fsub fopp fdiv finv (@eq F).
  Add Field Ffld : Ffield.
  Notation "a + b" := (fadd a b). Notation "a * b" := (fmul a b). Notation "a - b" := (fsub a b).
  Notation "- a" := (fopp a). Notation "a / b" := (fdiv a b).
  Notation "0" := f0. Notation "1" := f1.

  (* sum_i h_i * m_i over a list of (generator-log, message) pairs *)
  Fixpoint dot (l : list (F * F)) : F :=
    match l with [] => 0 | (h, m) :: r => h * m + dot r end.

  (* partition by a reveal mask: exactly the bookkeeping DeriveProof/VerifyProof perform *)
  Fixpoint split_mask (mask : list bool) (l : list (F * F)) : list (F * F) * list (F * F) :=
    match mask, l with
    | b :: ms, x :: r => let '(rv, hd) := split_mask ms r in if b then (x :: rv, hd) else (rv, x :: hd)
    | _, _ => ([], l)
    end.
  Lemma dot_split mask l : let '(rv, hd) := split_mask mask l in dot l = dot rv + dot hd.
  Proof.
    revert l; induction mask as [|b ms IH]; intros [|[h m] r]; cbn; try ring.
    specialize (IH r). destruct (split_mask ms r) as [rv hd]. destruct b; cbn; rewrite IH; ring.
  Qed.

  (* BBS+ in the exponent: secret x, generator logs h0 and (h_i), signature (a, e, s) with a*(x+e) = b *)
  Variables (x h0 e s : F) (hm : list (F * F)).
  Let b := 1 + h0 * s + dot hm.
  Hypothesis xe_nz : x + e <> 0.
  Let a := b / (x + e).

  (* prover randomness *)
  Variables (r1 r2 : F).
  Hypothesis r1_nz : r1 <> 0.
  Let r3 := 1 / r1.
  Let a' := a * r1.                       (* A'   = A^r1 *)
  Let abar := - (e * a') + b * r1.        (* Abar = A'^-e * B^r1 *)
  Let d := b * r1 - h0 * r2.              (* d    = B^r1 * h0^-r2 *)
  Let s' := s - r2 * r3.

  (* pairing check e(A', w) = e(Abar, g2) *)
  Lemma pairing_ok : a' * x = abar.
  Proof. unfold abar, a', a. field. exact xe_nz. Qed.

  (* relation proved by VC1: Abar / d = A'^-e * h0^r2 *)
  Lemma vc1_relation : abar - d = a' * (- e) + h0 * r2.
  Proof. unfold abar, d. ring. Qed.

  (* relation proved by VC2 for ANY reveal mask:
     g1 * prod_{revealed} h_i^m_i = d^r3 * h0^-s' * prod_{hidden} h_j^-m_j *)
  Lemma vc2_relation mask :
    let '(rv, hd) := split_mask mask hm in
    1 + dot rv = d * r3 + h0 * (- s') + (- dot hd).
  Proof.
    pose proof (dot_split mask hm) as Hs. destruct (split_mask mask hm) as [rv hd].
    unfold d, s', r3, b. rewrite Hs. field. exact r1_nz.
  Qed.

  (* Schnorr proof of a linear relation: commitment t = sum base_i*rho_i, responses z_i = rho_i - c*w_i *)
  Fixpoint lin (bases ws : list F) : F :=
    match bases, ws with bb :: bs, w :: wr => bb * w + lin bs wr | _, _ => 0 end.
  Fixpoint resp (c : F) (rhos ws : list F) : list F :=
    match rhos, ws with r :: rr, w :: wr => (r - c * w) :: resp c rr wr | _, _ => [] end.
  Lemma schnorr_complete c bases rhos ws :
    length rhos = length ws -> length bases = length ws ->
    lin bases (resp c rhos ws) + c * lin bases ws = lin bases rhos.
  Proof.
    revert rhos ws; induction bases as [|bb bs IH]; intros [|r rr] [|w wr] H1 H2; cbn in *; try discriminate; try ring.
    injection H1 as H1. injection H2 as H2. specialize (IH rr wr H1 H2).
    transitivity (bb * r + (lin bs (resp c rr wr) + c * lin bs wr)); [ring|]. rewrite IH. ring.
  Qed.
End ExponentModel.

Print Assumptions vc2_relation.
Print Assumptions schnorr_complete.
Print Assumptions pairing_ok.
