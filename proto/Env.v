From Coq Require Import List NArith Bool Lia.
Import ListNotations.
Require Import Sym.

(* A miniature authcrypt envelope: protected header carries sender kid; KEK binds ECDH-ES, ECDH-SS, header and ciphertext(tag). *)
Record rcp := { r_kid : N; r_epk : term; r_wk : term }.
Record env := { e_prot : term; e_recs : list rcp; e_ct : term }.

Definition prot_of (sender : N) (hdr : N) : term := Tup [Bytes hdr; Pub sender].
Definition sender_of (p : term) : option N :=
  match p with Tup [Bytes _; Pub s] => Some s | _ => None end.

Definition cek_of (seed : N) : term := Kdf [Bytes seed; Junk 0].
Definition kek (zes zss prot ct : term) : term := Kdf [zes; zss; prot; ct].

Definition pack (sender hdr eph seed : N) (payload : term) (rcpts : list N) : env :=
  let prot := prot_of sender hdr in
  let cek := cek_of seed in
  let ct := AEnc cek prot payload in
  {| e_prot := prot;
     e_recs := map (fun r => {| r_kid := r; r_epk := Pub eph;
                                r_wk := Wrap (kek (dh eph r) (dh sender r) prot ct) cek |}) rcpts;
     e_ct := ct |}.

Definition dh_with (me : N) (their : term) : option term :=
  match their with Pub b => Some (dh me b) | _ => None end.

Fixpoint find_cek (me : N) (s : N) (prot ct : term) (recs : list rcp) : option term :=
  match recs with
  | [] => None
  | r :: rest =>
    if N.eqb (r_kid r) me then
      match dh_with me (r_epk r) with
      | Some zes =>
        match unwrap (kek zes (dh me s) prot ct) (r_wk r) with
        | Some c => Some c
        | None => find_cek me s prot ct rest
        end
      | None => find_cek me s prot ct rest
      end
    else find_cek me s prot ct rest
  end.

Definition unpack (me : N) (e : env) : option (term * N) :=
  match sender_of (e_prot e) with
  | None => None
  | Some s =>
    match find_cek me s (e_prot e) (e_ct e) (e_recs e) with
    | None => None
    | Some c => match adec c (e_prot e) (e_ct e) with
                | Some m => Some (m, s)
                | None => None
                end
    end
  end.

Lemma find_cek_pack me sender hdr eph seed payload rcpts :
  In me rcpts ->
  let e := pack sender hdr eph seed payload rcpts in
  find_cek me sender (e_prot e) (e_ct e) (e_recs e) = Some (cek_of seed).
Proof.
  intros Hin e. subst e. unfold pack; cbn [e_prot e_ct e_recs].
  induction rcpts as [|r rs IH]; [destruct Hin|].
  cbn [map find_cek r_kid r_epk r_wk dh_with].
  destruct (N.eqb_spec r me) as [->|Hne].
  - cbn [unwrap]. rewrite (dh_comm me eph), (dh_comm me sender), term_eqb_refl. reflexivity.
  - apply IH. destruct Hin; [congruence|assumption].
Qed.

Theorem roundtrip sender hdr eph seed payload rcpts me :
  In me rcpts ->
  unpack me (pack sender hdr eph seed payload rcpts) = Some (payload, sender).
Proof.
  intros Hin. unfold unpack.
  pose proof (find_cek_pack me sender hdr eph seed payload rcpts Hin) as H. cbv zeta in H.
  change (e_prot (pack sender hdr eph seed payload rcpts)) with (prot_of sender hdr) in *.
  cbn [sender_of prot_of]. rewrite H.
  unfold pack; cbn [e_ct adec]. rewrite !term_eqb_refl. reflexivity.
Qed.

Theorem only_recipients sender hdr eph seed payload rcpts me :
  ~ In me rcpts -> unpack me (pack sender hdr eph seed payload rcpts) = None.
Proof.
  intros Hn. unfold unpack.
  change (e_prot (pack sender hdr eph seed payload rcpts)) with (prot_of sender hdr).
  cbn [sender_of prot_of].
  assert (find_cek me sender (prot_of sender hdr) (e_ct (pack sender hdr eph seed payload rcpts))
            (e_recs (pack sender hdr eph seed payload rcpts)) = None) as ->; [|reflexivity].
  unfold pack; cbn [e_ct e_recs].
  induction rcpts as [|r rs IH]; [reflexivity|].
  cbn [map find_cek r_kid]. destruct (N.eqb_spec r me) as [->|Hne].
  - exfalso; apply Hn; left; reflexivity.
  - apply IH. intro; apply Hn; right; assumption.
Qed.

(* Integrity: the adversary may present ANY envelope whose wrapped-key terms and ciphertext are either
   taken from honest envelopes e1,e2 or are not well-formed crypto terms (it cannot build Wrap/AEnc under
   honest keys); headers, kids, epks and the arrangement are arbitrary. *)
Definition is_wrap (t : term) := match t with Wrap _ _ => true | _ => false end.
Definition is_aenc (t : term) := match t with AEnc _ _ _ => true | _ => false end.

Section Integrity.
  Variables (s1 h1 e1 c1 : N) (p1 : term) (rs1 : list N).
  Variables (s2 h2 e2 c2 : N) (p2 : term) (rs2 : list N).
  Let E1 := pack s1 h1 e1 c1 p1 rs1.
  Let E2 := pack s2 h2 e2 c2 p2 rs2.

  Definition honest_wk (w : term) : Prop :=
    In w (map r_wk (e_recs E1)) \/ In w (map r_wk (e_recs E2)) \/ is_wrap w = false.
  Definition honest_ct (c : term) : Prop := c = e_ct E1 \/ c = e_ct E2 \/ is_aenc c = false.

  Lemma find_cek_sound me s prot ct recs c :
    Forall (fun r => honest_wk (r_wk r)) recs ->
    find_cek me s prot ct recs = Some c ->
    (c = cek_of c1 /\ prot = e_prot E1 /\ ct = e_ct E1) \/
    (c = cek_of c2 /\ prot = e_prot E2 /\ ct = e_ct E2).
  Proof.
    induction recs as [|r rest IH]; intros HF H; [discriminate|].
    inversion HF as [|? ? Hr HF']; subst. cbn [find_cek] in H.
    destruct (N.eqb (r_kid r) me); [|apply IH; assumption].
    destruct (dh_with me (r_epk r)) as [zes|]; [|apply IH; assumption].
    destruct (unwrap (kek zes (dh me s) prot ct) (r_wk r)) as [c'|] eqn:Hu; [|apply IH; assumption].
    inversion H; subst c'. clear H IH.
    destruct Hr as [Hin|[Hin|Hj]].
    - left. unfold E1, pack in Hin; cbn [e_recs] in Hin. rewrite map_map in Hin; cbn [r_wk] in Hin.
      apply in_map_iff in Hin as [ri [Hw _]]. rewrite <- Hw in Hu. cbn [unwrap] in Hu.
      destruct (term_eqb _ _) eqn:He in Hu; [|discriminate]. inversion Hu; subst c.
      apply term_eqb_eq in He. unfold kek in He. inversion He; subst. repeat split; reflexivity.
    - right. unfold E2, pack in Hin; cbn [e_recs] in Hin. rewrite map_map in Hin; cbn [r_wk] in Hin.
      apply in_map_iff in Hin as [ri [Hw _]]. rewrite <- Hw in Hu. cbn [unwrap] in Hu.
      destruct (term_eqb _ _) eqn:He in Hu; [|discriminate]. inversion Hu; subst c.
      apply term_eqb_eq in He. unfold kek in He. inversion He; subst. repeat split; reflexivity.
    - destruct (r_wk r); try discriminate Hu; discriminate Hj.
  Qed.

  Theorem integrity me (E : env) m s :
    Forall (fun r => honest_wk (r_wk r)) (e_recs E) ->
    unpack me E = Some (m, s) ->
    (m, s) = (p1, s1) \/ (m, s) = (p2, s2).
  Proof.
    intros HF H. unfold unpack in H.
    destruct (sender_of (e_prot E)) as [s'|] eqn:Hs; [|discriminate].
    destruct (find_cek me s' (e_prot E) (e_ct E) (e_recs E)) as [c|] eqn:Hf; [|discriminate].
    apply find_cek_sound in Hf; [|assumption].
    destruct Hf as [(Hc & Hp & Hct)|(Hc & Hp & Hct)]; rewrite Hp, Hct, Hc in *;
      [left|right]; unfold E1, E2, pack in *; cbn [e_prot e_ct] in *;
      cbn [adec sender_of prot_of] in *; rewrite !term_eqb_refl in H; cbn in H;
      inversion Hs; subst; inversion H; subst; reflexivity.
  Qed.
End Integrity.

Print Assumptions integrity.
Print Assumptions roundtrip.

(* non-vacuity / executable *)
Eval vm_compute in unpack 7 (pack 1 100 50 9 (Bytes 42) [5;7;8]%N).
Eval vm_compute in unpack 6 (pack 1 100 50 9 (Bytes 42) [5;7;8]%N).
