From Coq Require Import List NArith Bool Lia.
Import ListNotations.

Definition key := N. Definition val := N. Definition tag := (N * N)%type.
Definition entry := (val * list tag)%type.

Inductive op := Put (k : key) (v : val) (t : list tag) | Get (k : key) | GetTags (k : key) | Delete (k : key).
Inductive out := ODone | OVal (v : val) | OTags (t : list tag) | ONotFound.

(* abstract spec: association list, first binding wins *)
Definition spec := list (key * entry).
Fixpoint lookup (s : spec) (k : key) : option entry :=
  match s with [] => None | (k', e) :: r => if N.eqb k k' then Some e else lookup r k end.
Fixpoint remove (s : spec) (k : key) : spec :=
  match s with [] => [] | (k', e) :: r => if N.eqb k k' then remove r k else (k', e) :: remove r k end.

Definition spec_step (s : spec) (o : op) : spec * out :=
  match o with
  | Put k v t => ((k, (v, t)) :: s, ODone)
  | Get k => (s, match lookup s k with Some (v, _) => OVal v | None => ONotFound end)
  | GetTags k => (s, match lookup s k with Some (_, t) => OTags t | None => ONotFound end)
  | Delete k => (remove s k, ODone)
  end.

Lemma lookup_remove_same s k : lookup (remove s k) k = None.
Proof. induction s as [|[k' e] r IH]; cbn; [reflexivity|]. destruct (N.eqb_spec k k'); [assumption|].
  cbn. destruct (N.eqb_spec k k'); [contradiction|assumption]. Qed.
Lemma lookup_remove_other s k k' : k <> k' -> lookup (remove s k') k = lookup s k.
Proof. intros Hne. induction s as [|[k2 e] r IH]; cbn; [reflexivity|].
  destruct (N.eqb_spec k' k2) as [->|H2].
  - destruct (N.eqb_spec k k2); [contradiction|assumption].
  - cbn. destruct (N.eqb_spec k k2); [reflexivity|assumption]. Qed.

(* any provider: a state machine over the same interface *)
Record prov := { St : Type; step : St -> op -> St * out }.

(* P refines the spec via a simulation relation *)
Definition sim (P : prov) (R : St P -> spec -> Prop) : Prop :=
  forall s a o, R s a ->
    let '(s', r) := step P s o in let '(a', r') := spec_step a o in R s' a' /\ r = r'.

Definition spec_prov : prov := {| St := spec; step := spec_step |}.
Lemma spec_sim : sim spec_prov (fun s a => forall k, lookup s k = lookup a k).
Proof.
  intros s a o HR. destruct o as [k v t|k|k|k]; cbn.
  - split; [|reflexivity]. intros k'. cbn. destruct (N.eqb k' k); [reflexivity|apply HR].
  - split; [assumption|]. rewrite HR; reflexivity.
  - split; [assumption|]. rewrite HR; reflexivity.
  - split; [|reflexivity]. intros k'. destruct (N.eq_dec k' k) as [->|Hne].
    + rewrite !lookup_remove_same; reflexivity.
    + rewrite !lookup_remove_other by assumption. apply HR.
Qed.

(* the caching wrapper over ANY provider; cache is itself a spec machine.  [fill_tags] selects the
   repaired (true) or the code-as-is (false) read-through fill. *)
Section Cached.
  Variable fill_tags : bool.
  Variable P : prov.
  Definition cstate := (St P * spec)%type.
  Definition cached_step (s : cstate) (o : op) : cstate * out :=
    let '(m, c) := s in
    match o with
    | Put k v t => let '(m', _) := step P m (Put k v t) in ((m', (k, (v, t)) :: c), ODone)
    | Get k =>
      match lookup c k with
      | Some (v, _) => (s, OVal v)
      | None =>
        let '(m1, r) := step P m (Get k) in
        match r with
        | OVal v =>
          if fill_tags then
            let '(m2, rt) := step P m1 (GetTags k) in
            match rt with
            | OTags t => ((m2, (k, (v, t)) :: c), OVal v)
            | _ => ((m2, c), OVal v)
            end
          else ((m1, (k, (v, [])) :: c), OVal v)
        | _ => ((m1, c), r)
        end
      end
    | GetTags k =>
      match lookup c k with
      | Some (_, t) => (s, OTags t)
      | None => let '(m1, r) := step P m (GetTags k) in ((m1, c), r)
      end
    | Delete k => let '(m', _) := step P m (Delete k) in ((m', remove c k), ODone)
    end.
  Definition cached : prov := {| St := cstate; step := cached_step |}.
End Cached.

(* cache entries agree with the abstract main state *)
Definition cache_ok (c : spec) (a : spec) : Prop :=
  forall k e, lookup c k = Some e -> lookup a k = Some e.

Theorem cached_fixed_transparent (P : prov) R :
  sim P R -> sim (cached true P) (fun s a => R (fst s) a /\ cache_ok (snd s) a).
Proof.
  intros HP [m c] a o [HR Hc]. cbn [fst snd] in *.
  destruct o as [k v t|k|k|k]; cbn [step cached cached_step].
  - pose proof (HP m a (Put k v t) HR) as H. destruct (step P m (Put k v t)) as [m' r].
    cbn in H. destruct H as [HR' _]. cbn. split; [split; [exact HR'|]|reflexivity].
    intros k' e. cbn. destruct (N.eqb k' k); [auto|apply Hc].
  - destruct (lookup c k) as [[v t]|] eqn:Hl.
    + cbn. split; [split; assumption|]. rewrite (Hc _ _ Hl). reflexivity.
    + pose proof (HP m a (Get k) HR) as H. destruct (step P m (Get k)) as [m1 r].
      cbn in H. destruct H as [HR1 Hr].
      destruct (lookup a k) as [[v t]|] eqn:Ha; subst r.
      * pose proof (HP m1 a (GetTags k) HR1) as H2. destruct (step P m1 (GetTags k)) as [m2 rt].
        cbn in H2. rewrite Ha in H2. destruct H2 as [HR2 ->]. cbn. rewrite Ha.
        split; [split; [exact HR2|]|reflexivity].
        intros k' e. cbn. destruct (N.eqb_spec k' k) as [->|]; [|apply Hc].
        intros He; inversion He; subst; exact Ha.
      * cbn. rewrite Ha. split; [split; assumption|reflexivity].
  - destruct (lookup c k) as [[v t]|] eqn:Hl.
    + cbn. split; [split; assumption|]. rewrite (Hc _ _ Hl). reflexivity.
    + pose proof (HP m a (GetTags k) HR) as H. destruct (step P m (GetTags k)) as [m1 r].
      cbn in H. destruct H as [HR1 Hr]. cbn. split; [split; assumption|exact Hr].
  - pose proof (HP m a (Delete k) HR) as H. destruct (step P m (Delete k)) as [m' r].
    cbn in H. destruct H as [HR' _]. cbn. split; [split; [exact HR'|]|reflexivity].
    intros k' e. destruct (N.eq_dec k' k) as [->|Hne].
    + rewrite lookup_remove_same; discriminate.
    + rewrite !lookup_remove_other by assumption. apply Hc.
Qed.

(* whole histories, any length, any pre-populated provider state related to an abstract state *)
Fixpoint run (P : prov) (s : St P) (ops : list op) : list out :=
  match ops with [] => [] | o :: r => let '(s', x) := step P s o in x :: run P s' r end.
Theorem sim_run P R : sim P R -> forall ops s a, R s a -> run P s ops = run spec_prov a ops.
Proof. intros HP. induction ops as [|o r IH]; intros s a HR; [reflexivity|]. cbn.
  pose proof (HP s a o HR) as H. destruct (step P s o) as [s' x]. destruct (spec_step a o) as [a' x'].
  destruct H as [HR' ->]. f_equal. apply IH; assumption. Qed.

(* stacks of any depth follow by iterating the theorem *)
Corollary cached_twice P R : sim P R ->
  exists R2, sim (cached true (cached true P)) R2.
Proof. intros H. eexists. apply cached_fixed_transparent. apply cached_fixed_transparent. exact H. Qed.

(* the code as it is today: refuted, with the witness history found in the probe *)
Definition witness : list op := [Get 1%N; GetTags 1%N].
Definition pre : spec := [(1%N, (7%N, [(2%N, 3%N)]))].
Theorem cached_asis_refuted :
  run (cached false spec_prov) (pre, []) witness <> run spec_prov pre witness.
Proof. vm_compute. discriminate. Qed.
Eval vm_compute in (run (cached false spec_prov) (pre, []) witness, run spec_prov pre witness).
Print Assumptions cached_fixed_transparent.
Print Assumptions cached_asis_refuted.
