// c07: signs generated credentials / presentations through the real API with every linked-data signature suite,
// then hands edited copies (every leaf and key: change, delete, duplicate, move, add; every proof option) to the
// real verification entry points, default and strict, and records what happened together with what the third-party
// functions returned on the inputs the framework gave them, for comparison with the Coq model (coq/C07).
package main

import (
	"crypto/sha256"
	"encoding/base64"
	"encoding/json"
	"fmt"
	"os"
	"path/filepath"
	"sort"
	"strings"
	"time"

	"github.com/hyperledger/aries-framework-go/component/kmscrypto/crypto/primitive/bbs12381g2pub"
	"github.com/hyperledger/aries-framework-go/component/kmscrypto/doc/jose/jwk/jwksupport"
	ldcontext "github.com/hyperledger/aries-framework-go/component/models/ld/context"
	"github.com/hyperledger/aries-framework-go/component/models/ld/processor"
	ldproof "github.com/hyperledger/aries-framework-go/component/models/ld/proof"
	"github.com/hyperledger/aries-framework-go/component/models/ld/testutil"
	"github.com/hyperledger/aries-framework-go/component/models/ld/validator"
	sigapi "github.com/hyperledger/aries-framework-go/component/models/signature/api"
	"github.com/hyperledger/aries-framework-go/component/models/signature/signer"
	"github.com/hyperledger/aries-framework-go/component/models/signature/suite"
	"github.com/hyperledger/aries-framework-go/component/models/signature/suite/bbsblssignature2020"
	"github.com/hyperledger/aries-framework-go/component/models/signature/suite/ecdsasecp256k1signature2019"
	"github.com/hyperledger/aries-framework-go/component/models/signature/suite/ed25519signature2018"
	"github.com/hyperledger/aries-framework-go/component/models/signature/suite/ed25519signature2020"
	"github.com/hyperledger/aries-framework-go/component/models/signature/suite/jsonwebsignature2020"
	sigutil "github.com/hyperledger/aries-framework-go/component/models/signature/util"
	sigverifier "github.com/hyperledger/aries-framework-go/component/models/signature/verifier"
	afgotime "github.com/hyperledger/aries-framework-go/component/models/util/time"
	"github.com/hyperledger/aries-framework-go/component/models/verifiable"
	"github.com/hyperledger/aries-framework-go/spi/kms"
	"github.com/piprate/json-gold/ld"

	"verifharness/hx"
)

const (
	ctxURL  = "https://verif.example/ctx/v1"
	bbsCtx  = "https://w3id.org/security/bbs/v1"
	vcCtx   = "https://www.w3.org/2018/credentials/v1"
	diCtx   = "https://w3id.org/security/data-integrity/v1"
	jwsCtx  = "https://w3id.org/security/suites/jws-2020/v1"
	strictE = "JSON-LD doc has different structure after compaction"
)

// the custom vocabulary: every generated claim uses a term defined here; "zz_undef*" never is.
const ctxDoc = `{"@context":{"@version":1.1,
 "ex":"https://verif.example/vocab#","xsd":"http://www.w3.org/2001/XMLSchema#",
 "VerifCredential":"ex:VerifCredential","OtherCredential":"ex:OtherCredential","Thing":"ex:Thing","Other":"ex:Other",
 "Ed25519Signature2020":{"@id":"https://w3id.org/security#Ed25519Signature2020","@context":{"@version":1.1,"id":"@id","type":"@type",
   "sec":"https://w3id.org/security#","challenge":"sec:challenge","created":{"@id":"http://purl.org/dc/terms/created","@type":"xsd:dateTime"},
   "domain":"sec:domain","nonce":"sec:nonce","creator":{"@id":"http://purl.org/dc/terms/creator","@type":"@id"},
   "proofPurpose":{"@id":"sec:proofPurpose","@type":"@vocab","@context":{"@version":1.1,"id":"@id","type":"@type","sec":"https://w3id.org/security#",
     "assertionMethod":{"@id":"sec:assertionMethod","@type":"@id","@container":"@set"},"authentication":{"@id":"sec:authenticationMethod","@type":"@id","@container":"@set"}}},
   "proofValue":{"@id":"https://w3id.org/security#proofValue","@type":"https://w3id.org/security#multibase"},
   "verificationMethod":{"@id":"sec:verificationMethod","@type":"@id"}}},
 "name":"ex:name", "b0":"_:b0",
 "a0":"ex:a0","a1":"ex:a1","a2":"ex:a2","a3":"ex:a3","a4":"ex:a4","a5":"ex:a5","a6":"ex:a6","a7":"ex:a7","a8":"ex:a8","a9":"ex:a9",
 "when":{"@id":"ex:when","@type":"xsd:dateTime"},
 "ref":{"@id":"ex:ref","@type":"@id"},
 "seq":{"@id":"ex:seq","@container":"@list"}}}`

// ---------- world: keys, suites, recorder ----------

type signerI interface {
	Sign(data []byte) ([]byte, error)
	Alg() string
}

type keyInfo struct {
	atom   int
	did    string
	frag   string // "#k0"
	pub    *sigapi.PublicKey
	signer signerI
}

func (k *keyInfo) id() string { return k.did + k.frag }

type innerSuite interface {
	GetCanonicalDocument(doc map[string]interface{}, opts ...processor.Opts) ([]byte, error)
	GetDigest(doc []byte) []byte
	Verify(pubKey *sigapi.PublicKey, doc, signature []byte) error
	Accept(signatureType string) bool
	CompactProof() bool
}

type canonCall struct {
	in  interface{} // normalised tree
	out []byte
	err error
}

type verifyCall struct {
	ok bool
}

type recording struct {
	canon    []canonCall
	verifies []verifyCall
	contract string // non-empty: the signature primitive did not behave ideally
}

type sigInfo struct {
	key  int
	term string // Gallina msg term
	msg  []byte
}

type suiteDef struct {
	name  string // proof type
	repr  verifiable.SignatureRepresentation
	inner innerSuite
	keys  []*keyInfo
	w     *world
	cur   *keyInfo // the key the next Sign uses
	extra string   // extra context needed in the document
	di    bool     // Data Integrity ecdsa-2019 (no linked-data suite object)
}

type world struct {
	loader         ld.DocumentLoader
	suites         []*suiteDef
	keys           []*keyInfo
	canonAtoms     map[string]int
	sigs           map[string]sigInfo
	rec            *recording
	badFetch       map[string]*keyInfo // key id -> key handed out instead (key substitution)
	tick           int
	di             *diWorld
	diExpect       [3]string // purpose, domain, challenge the verifier expects of a Data Integrity proof
	lastDIVerifies []diVerify
	suiteSubset    []string               // when set: the verifier is configured with the suites of these proof types only
	jwtKey         *keyInfo               // issuer key of the JWT credentials embedded in presentations
	jwtKey2        *keyInfo               // a P-256 issuer / holder key for the JWS-secured forms (ES256)
	baseline       map[string]interface{} // the signed document as the framework parses and re-serialises it
}

// recSuite is what the framework sees: it records every call and delegates to the real suite.
func (s *suiteDef) GetCanonicalDocument(doc map[string]interface{}, opts ...processor.Opts) ([]byte, error) {
	in := normalise(doc)
	out, err := s.inner.GetCanonicalDocument(doc, opts...)
	s.w.rec.canon = append(s.w.rec.canon, canonCall{in: in, out: out, err: err})

	return out, err
}

func (s *suiteDef) GetDigest(doc []byte) []byte { return s.inner.GetDigest(doc) }
func (s *suiteDef) Accept(t string) bool        { return s.inner.Accept(t) }
func (s *suiteDef) CompactProof() bool          { return s.inner.CompactProof() }
func (s *suiteDef) Alg() string                 { return s.cur.signer.Alg() }

func (s *suiteDef) Sign(message []byte) ([]byte, error) {
	sig, err := s.cur.signer.Sign(message)
	if err != nil {
		return nil, err
	}

	s.w.sigs[string(sig)] = sigInfo{key: s.cur.atom, term: s.w.msgTerm(s, message), msg: append([]byte{}, message...)}

	return sig, nil
}

func (s *suiteDef) Verify(pubKey *sigapi.PublicKey, message, signature []byte) error {
	err := s.inner.Verify(pubKey, message, signature)

	// primitive contract: accepted exactly when this byte string was produced by the holder of this key over this message
	si, known := s.w.sigs[string(signature)]
	ideal := known && string(si.msg) == string(message) && s.w.keyAtomOf(pubKey) == si.key

	if ideal != (err == nil) {
		s.w.rec.contract = fmt.Sprintf("suite %s: primitive verify=%v, ideal=%v", s.name, err == nil, ideal)
	}

	s.w.rec.verifies = append(s.w.rec.verifies, verifyCall{ok: err == nil})

	return err
}

func (w *world) keyAtomOf(pk *sigapi.PublicKey) int {
	for _, k := range w.keys {
		if k.pub == pk {
			return k.atom
		}
	}

	return -1
}

func (w *world) atomOf(nq []byte) int {
	a, ok := w.canonAtoms[string(nq)]
	if !ok {
		a = len(w.canonAtoms) + 1
		w.canonAtoms[string(nq)] = a
	}

	return a
}

// msgTerm expresses the bytes handed to the signer by the canonical forms produced just before.
func (w *world) msgTerm(s *suiteDef, message []byte) string {
	n := len(w.rec.canon)
	if n < 2 || w.rec.canon[n-1].err != nil || w.rec.canon[n-2].err != nil {
		return "MHash 0 0"
	}

	o, d := w.rec.canon[n-2].out, w.rec.canon[n-1].out
	body := append(append([]byte{}, s.GetDigest(o)...), s.GetDigest(d)...)

	if string(body) == string(message) {
		return fmt.Sprintf("MHash %d %d", w.atomOf(o), w.atomOf(d))
	}

	if i := strings.IndexByte(string(message), '.'); i >= 0 && string(message[i+1:]) == string(body) {
		return fmt.Sprintf("MJws %s %d %d", cs(string(message[:i])), w.atomOf(o), w.atomOf(d))
	}

	return "MHash 0 0"
}

type bbsSigner struct{ priv []byte }

func (s *bbsSigner) Sign(data []byte) ([]byte, error) {
	var msgs [][]byte

	for _, l := range strings.Split(string(data), "\n") {
		if strings.TrimSpace(l) != "" {
			msgs = append(msgs, []byte(l))
		}
	}

	return bbs12381g2pub.New().Sign(msgs, s.priv)
}

func (s *bbsSigner) Alg() string { return "" }

func must(err error) {
	if err != nil {
		panic(err)
	}
}

func newWorld(rng *hx.Rng) *world {
	loader, err := testutil.DocumentLoader(ldcontext.Document{URL: ctxURL, Content: []byte(ctxDoc)})
	must(err)

	w := &world{loader: loader, canonAtoms: map[string]int{}, sigs: map[string]sigInfo{}, rec: &recording{},
		badFetch: map[string]*keyInfo{}}

	addKey := func(s *suiteDef, signer signerI, pub *sigapi.PublicKey) {
		k := &keyInfo{atom: len(w.keys) + 1, did: fmt.Sprintf("did:example:iss%d", len(s.keys)+10*len(w.suites)),
			frag: fmt.Sprintf("#k%d", len(s.keys)), pub: pub, signer: signer}
		s.keys = append(s.keys, k)
		w.keys = append(w.keys, k)
	}

	edKeys := func(s *suiteDef, typ string, withJWK bool) {
		for i := 0; i < 2; i++ {
			sg, e := sigutil.NewSigner(kms.ED25519Type)
			must(e)

			pk := &sigapi.PublicKey{Type: typ, Value: sg.PublicKeyBytes()}

			if withJWK {
				j, e2 := jwksupport.JWKFromKey(sg.PublicKey())
				must(e2)

				pk.JWK = j
			}

			addKey(s, sg, pk)
		}
	}

	s18 := &suiteDef{name: "Ed25519Signature2018", repr: verifiable.SignatureProofValue, w: w,
		inner: ed25519signature2018.New(suite.WithVerifier(ed25519signature2018.NewPublicKeyVerifier()))}
	edKeys(s18, "Ed25519VerificationKey2018", false)
	w.suites = append(w.suites, s18)

	s18j := &suiteDef{name: "Ed25519Signature2018", repr: verifiable.SignatureJWS, w: w, inner: s18.inner}
	s18j.keys = s18.keys
	w.suites = append(w.suites, s18j)

	s20 := &suiteDef{name: "Ed25519Signature2020", repr: verifiable.SignatureProofValue, w: w,
		inner: ed25519signature2020.New(suite.WithVerifier(ed25519signature2020.NewPublicKeyVerifier()))}
	edKeys(s20, "Ed25519VerificationKey2020", false)
	w.suites = append(w.suites, s20)

	jws := &suiteDef{name: "JsonWebSignature2020", repr: verifiable.SignatureJWS, w: w, extra: jwsCtx,
		inner: jsonwebsignature2020.New(suite.WithVerifier(jsonwebsignature2020.NewPublicKeyVerifier()))}
	edKeys(jws, "JsonWebKey2020", true)

	for i := 0; i < 1; i++ {
		sg, e := sigutil.NewSigner(kms.ECDSAP256TypeIEEEP1363)
		must(e)

		j, e2 := jwksupport.JWKFromKey(sg.PublicKey())
		must(e2)
		addKey(jws, sg, &sigapi.PublicKey{Type: "JsonWebKey2020", Value: sg.PublicKeyBytes(), JWK: j})
	}

	w.suites = append(w.suites, jws)

	k1 := &suiteDef{name: "EcdsaSecp256k1Signature2019", repr: verifiable.SignatureJWS, w: w,
		inner: ecdsasecp256k1signature2019.New(suite.WithVerifier(ecdsasecp256k1signature2019.NewPublicKeyVerifier()))}

	for i := 0; i < 2; i++ {
		sg, e := sigutil.NewSigner(kms.ECDSASecp256k1TypeIEEEP1363)
		must(e)

		j, e2 := jwksupport.JWKFromKey(sg.PublicKey())
		must(e2)
		addKey(k1, sg, &sigapi.PublicKey{Type: "EcdsaSecp256k1VerificationKey2019", JWK: j})
	}

	w.suites = append(w.suites, k1)

	bbs := &suiteDef{name: "BbsBlsSignature2020", repr: verifiable.SignatureProofValue, w: w, extra: bbsCtx,
		inner: bbsblssignature2020.New(suite.WithVerifier(bbsblssignature2020.NewG2PublicKeyVerifier()))}

	for i := 0; i < 2; i++ {
		pub, priv, e := bbs12381g2pub.GenerateKeyPair(sha256.New, rng.Bytes(32))
		must(e)

		pb, e2 := pub.Marshal()
		must(e2)

		prb, e3 := priv.Marshal()
		must(e3)
		addKey(bbs, &bbsSigner{priv: prb}, &sigapi.PublicKey{Type: "Bls12381G2Key2020", Value: pb})
	}

	w.suites = append(w.suites, bbs)

	jsg, err := sigutil.NewSigner(kms.ED25519Type)
	must(err)

	w.jwtKey = &keyInfo{atom: 200, did: "did:example:jwtissuer", frag: "#k0", signer: jsg,
		pub: &sigapi.PublicKey{Type: "Ed25519VerificationKey2018", Value: jsg.PublicKeyBytes()}}

	w.di = newDIWorld(w)
	w.suites = append(w.suites, &suiteDef{name: "DataIntegrityProof", repr: verifiable.SignatureProofValue, w: w, extra: diCtx, di: true})

	return w
}

func (w *world) fetch(issuerID, keyID string) (*sigverifier.PublicKey, error) {
	if !strings.HasPrefix(keyID, "#") {
		keyID = "#" + keyID // the JWT verifier passes the fragment without '#'
	}

	full := issuerID + keyID
	if k, ok := w.badFetch[full]; ok {
		return k.pub, nil
	}

	for _, k := range w.keys {
		if k.id() == full {
			return k.pub, nil
		}
	}

	if w.jwtKey != nil && w.jwtKey.id() == full {
		return w.jwtKey.pub, nil
	}

	if w.jwtKey2 != nil && w.jwtKey2.id() == full {
		return w.jwtKey2.pub, nil
	}

	return nil, fmt.Errorf("verif: no key %s", full)
}

func contains(l []string, x string) bool {
	for _, e := range l {
		if e == x {
			return true
		}
	}

	return false
}

func (w *world) verifierSuites() []sigverifier.SignatureSuite {
	var out []sigverifier.SignatureSuite

	seen := map[string]bool{}

	for _, s := range w.suites {
		if w.suiteSubset != nil && !contains(w.suiteSubset, s.name) {
			continue
		}

		if !seen[s.name] && !s.di {
			seen[s.name] = true

			out = append(out, s)
		}
	}

	return out
}

// ---------- signing through the real API ----------

type signOpts struct {
	suite     *suiteDef
	key       *keyInfo
	created   time.Time
	domain    string
	challenge string
	purpose   string
	nonce     []byte // only the signer package takes a nonce (LinkedDataProofContext has none): signed through signer.New(...).Sign
}

// signWithNonce signs through the framework's document signer directly (the only way to have a nonce in the proof).
func (w *world) signWithNonce(b []byte, so signOpts) (map[string]interface{}, error) {
	so.suite.cur = so.key
	w.rec = &recording{}

	out, err := signer.New(so.suite).Sign(&signer.Context{
		SignatureType: so.suite.name, SignatureRepresentation: ldproof.SignatureRepresentation(so.suite.repr), Created: &so.created,
		VerificationMethod: so.key.id(), Challenge: so.challenge, Domain: so.domain, Purpose: so.purpose, Nonce: so.nonce,
	}, b, processor.WithDocumentLoader(w.loader))
	if err != nil {
		return nil, fmt.Errorf("sign: %w", err)
	}

	return mustParse(out), nil
}

func (w *world) signVC(doc map[string]interface{}, so signOpts) (map[string]interface{}, error) {
	vc, err := verifiable.ParseCredential(toJSON(doc), verifiable.WithJSONLDDocumentLoader(w.loader),
		verifiable.WithDisabledProofCheck())
	if err != nil {
		return nil, fmt.Errorf("parse unsigned: %w", err)
	}

	if so.nonce != nil {
		b, e := vc.MarshalJSON()
		if e != nil {
			return nil, e
		}

		return w.signWithNonce(b, so)
	}

	so.suite.cur = so.key
	w.rec = &recording{}

	err = vc.AddLinkedDataProof(&verifiable.LinkedDataProofContext{
		SignatureType: so.suite.name, Suite: so.suite, SignatureRepresentation: so.suite.repr,
		Created: &so.created, VerificationMethod: so.key.id(), Challenge: so.challenge, Domain: so.domain,
		Purpose: so.purpose,
	}, processor.WithDocumentLoader(w.loader))
	if err != nil {
		return nil, fmt.Errorf("sign: %w", err)
	}

	b, err := json.Marshal(vc)
	if err != nil {
		return nil, err
	}

	return mustParse(b), nil
}

func (w *world) signVP(doc map[string]interface{}, so signOpts) (map[string]interface{}, error) {
	vp, err := verifiable.ParsePresentation(toJSON(doc), verifiable.WithPresJSONLDDocumentLoader(w.loader),
		verifiable.WithPresDisabledProofCheck())
	if err != nil {
		return nil, fmt.Errorf("parse unsigned: %w", err)
	}

	if so.nonce != nil {
		b, e := vp.MarshalJSON()
		if e != nil {
			return nil, e
		}

		return w.signWithNonce(b, so)
	}

	so.suite.cur = so.key
	w.rec = &recording{}

	err = vp.AddLinkedDataProof(&verifiable.LinkedDataProofContext{
		SignatureType: so.suite.name, Suite: so.suite, SignatureRepresentation: so.suite.repr,
		Created: &so.created, VerificationMethod: so.key.id(), Challenge: so.challenge, Domain: so.domain,
		Purpose: so.purpose,
	}, processor.WithDocumentLoader(w.loader))
	if err != nil {
		return nil, fmt.Errorf("sign: %w", err)
	}

	b, err := json.Marshal(vp)
	if err != nil {
		return nil, err
	}

	return mustParse(b), nil
}

// ---------- verification through the real API, with observation ----------

type verdict struct {
	Err       string `json:"err,omitempty"`
	Accepted  bool   `json:"accepted"`
	ProofPass bool   `json:"proof_stage_passed"`
	Verifies  int    `json:"signature_checks_ok"`
	Calls     int    `json:"signature_checks"`
	StageNote string `json:"stage_note,omitempty"`
}

func proofStageError(kind string, err error) bool {
	if err == nil {
		return false
	}

	s := err.Error()

	if kind == "vc" {
		return strings.HasPrefix(s, "decode new credential: ")
	}

	// a presentation: every error that is not raised by a later stage (schema / JSON-LD validation, decoding of the
	// members) comes from the proof check
	for _, later := range []string{"verifiable presentation is not valid", "validation of verifiable", "compact JSON-LD document",
		"JSON-LD doc has different structure", "validate context URI position", "fill presentation", "decode credentials of presentation",
		"fill credential proof", "verifiableCredential is required", "embedded proof is missing"} {
		if strings.HasPrefix(s, later) {
			return false
		}
	}

	return true
}

func (w *world) verify(kind string, b []byte, strict bool) (verdict, *recording) {
	v, r, _ := w.verifyParsed(kind, b, strict)

	return v, r
}

// verifyParsed also returns the accepted object as the framework re-serialises it.
func (w *world) verifyParsed(kind string, b []byte, strict bool) (verdict, *recording, map[string]interface{}) {
	w.rec = &recording{}
	w.di.verifies = nil

	var (
		err    error
		parsed map[string]interface{}
	)

	// a panic inside the parser is C03's subject (no untrusted input may crash): here it counts as a refusal
	func() {
		defer func() {
			if p := recover(); p != nil {
				err = fmt.Errorf("panic: %v", p)
				parsed = nil
			}
		}()

		err, parsed = w.parseReal(kind, b, strict)
	}()

	v := verdict{Accepted: err == nil, ProofPass: !proofStageError(kind, err), Calls: len(w.rec.verifies)}

	// the proof stage by itself, through the hook (the verdict no longer depends on the text of an error); the
	// classification by prefix is kept for JWT envelopes only, and cross-checked here
	if !strict { // (the strict run of the same bytes keeps the classification by prefix: the two are compared by the caller)
		recMain, diMain := w.rec, w.di.verifies
		w.rec = &recording{}

		if perr, applies := w.proofStage(kind, b, strict); applies {
			byPrefix := v.ProofPass
			v.ProofPass = perr == nil

			switch {
			case perr != nil && (err == nil || !strings.Contains(err.Error(), perr.Error())):
				v.StageNote = fmt.Sprintf("the proof stage alone fails (%v) but the entry point reports %v", perr, err)
			case byPrefix != v.ProofPass:
				v.StageNote = fmt.Sprintf("classification by error prefix (%v) disagrees with the proof stage run alone (%v): %v", byPrefix, v.ProofPass, err)
			}
		}

		w.rec, w.di.verifies = recMain, diMain
	}

	if err != nil {
		v.Err = err.Error()
		if len(v.Err) > 160 {
			v.Err = v.Err[:160]
		}
	}

	for _, c := range w.rec.verifies {
		if c.ok {
			v.Verifies++
		}
	}

	return v, w.rec, parsed
}

// ---------- the Gallina case ----------

func coqDec(w *world, raw []byte, err error) string {
	if err != nil {
		return "DErr"
	}

	if len(raw) == 0 {
		return "DEmpty"
	}

	if si, ok := w.sigs[string(raw)]; ok {
		return fmt.Sprintf("DSig (SBy %d (%s))", si.key, si.term)
	}

	return "DSig SOther"
}

func decodeNonce(s string) (string, bool) {
	for _, enc := range []*base64.Encoding{base64.RawURLEncoding, base64.StdEncoding, base64.RawStdEncoding} {
		if v, err := enc.DecodeString(s); err == nil {
			return base64.RawURLEncoding.EncodeToString(v), true
		}
	}

	return "", false
}

func strOf(v interface{}) string {
	s, _ := v.(string)

	return s
}

func proofEntries(doc map[string]interface{}) []map[string]interface{} {
	var out []map[string]interface{}

	switch p := doc["proof"].(type) {
	case map[string]interface{}:
		out = append(out, p)
	case []interface{}:
		for _, e := range p {
			if m, ok := e.(map[string]interface{}); ok {
				out = append(out, m)
			}
		}
	}

	return out
}

func (w *world) coqEnv(doc map[string]interface{}, rec *recording) string {
	var canon, times, nonces, pvs, segs, keys, types []string

	seenC := map[string]bool{}

	for _, c := range rec.canon {
		in := coqJSON(c.in)
		if seenC[in] {
			continue
		}

		seenC[in] = true

		if c.err != nil {
			canon = append(canon, "("+in+", None)")
		} else {
			canon = append(canon, fmt.Sprintf("(%s, Some %d)", in, w.atomOf(c.out)))
		}
	}

	seen := map[string]bool{}
	once := func(k string) bool {
		if seen[k] {
			return false
		}

		seen[k] = true

		return true
	}

	for _, p := range proofEntries(doc) {
		created := strOf(p["created"])
		if _, err := afgotime.ParseTimeWrapper(created); err == nil && once("t:"+created) {
			times = append(times, cs(created))
		}

		if n := strOf(p["nonce"]); n != "" && once("n:"+n) {
			if r, ok := decodeNonce(n); ok {
				nonces = append(nonces, fmt.Sprintf("(%s, Some %s)", cs(n), cs(r)))
			} else {
				nonces = append(nonces, fmt.Sprintf("(%s, None)", cs(n)))
			}
		}

		if pv, ok := p["proofValue"]; ok {
			t, ty := strOf(pv), strOf(p["type"])
			if once("p:" + t + "\x00" + ty) {
				raw, err := ldproof.DecodeProofValue(t, ty)
				pvs = append(pvs, fmt.Sprintf("((%s, %s), %s)", cs(t), cs(ty), coqDec(w, raw, err)))
			}
		}

		if j := strOf(p["jws"]); j != "" {
			parts := strings.Split(j, ".")
			if len(parts) == 3 && parts[2] != "" && once("s:"+parts[2]) {
				raw, err := base64.RawURLEncoding.DecodeString(parts[2])
				segs = append(segs, fmt.Sprintf("(%s, %s)", cs(parts[2]), coqDec(w, raw, err)))
			}
		}
	}

	for _, k := range w.keys {
		a := k.atom
		if b, ok := w.badFetch[k.id()]; ok {
			a = b.atom
		}

		keys = append(keys, fmt.Sprintf("((%s, %s), %d)", cs(k.did), cs(k.frag), a))
	}

	for _, s := range w.verifierSuites() {
		types = append(types, cs(s.(*suiteDef).name)) //nolint:forcetypeassert
	}

	diEnv := "no_di"

	if ps := proofEntries(doc); len(ps) > 0 && strOf(ps[0]["type"]) == "DataIntegrityProof" {
		var extra []string

		diEnv, extra = w.coqDIEnv(doc, w.lastDIVerifies)
		canon = append(canon, extra...)
	}

	return fmt.Sprintf("(E %s %s %s %s %s %s %s true %s)", hx.CoqList(canon), hx.CoqList(times), hx.CoqList(nonces),
		hx.CoqList(pvs), hx.CoqList(segs), hx.CoqList(keys), hx.CoqList(types), diEnv)
}

// strictInfo runs the public compaction and validation functions credential.go calls in strict mode.
func (w *world) strictInfo(doc map[string]interface{}) string {
	var m1, m2 map[string]interface{}

	b := toJSON(doc)
	must(json.Unmarshal(b, &m1))
	must(json.Unmarshal(b, &m2))

	comp, cerr := processor.Default().Compact(m1, nil, processor.WithDocumentLoader(w.loader))
	verr := validator.ValidateJSONLDMap(m2, validator.WithDocumentLoader(w.loader), validator.WithStrictValidation(true))

	compS := "None"
	if cerr == nil {
		compS = "(Some (" + coqJSON(normalise(comp)) + "))"
	}

	if verr != nil && cerr == nil && verr.Error() != strictE {
		return "None" // another validation stage failed (not the structure comparison)
	}

	return fmt.Sprintf("(Some (%s, %s))", compS, hx.CoqBool(verr == nil))
}

func coqOutcome(v verdict) string {
	if !v.ProofPass {
		return "Rejected"
	}

	return fmt.Sprintf("(Verified %d)", v.Verifies)
}

// ---------- running one edited document ----------

type caseDesc struct {
	Kind   string          `json:"kind"`
	Suite  string          `json:"suite"`
	Repr   string          `json:"repr"`
	Edit   string          `json:"edit"`
	Class  string          `json:"class"`
	Doc    json.RawMessage `json:"doc"`
	BadKey string          `json:"bad_key,omitempty"` // key id for which the fetcher hands out another key
	// generated cases are replayed by regenerating document DocIndex of the run with this seed (keys are fresh per run)
	Seed     uint64 `json:"seed"`
	DocIndex int    `json:"doc_index"`
	// corpus cases carry the unsigned document and the edit operations
	Unsigned map[string]interface{}   `json:"unsigned,omitempty"`
	Ops      []op                     `json:"ops,omitempty"`
	JWTCreds []map[string]interface{} `json:"jwt_credentials,omitempty"`
	SpareJWT map[string]interface{}   `json:"spare_jwt,omitempty"`
	Envelope string                   `json:"envelope,omitempty"` // a JWT envelope case: all envelope variants of the document are re-run
}

type observed struct {
	Default verdict `json:"default"`
	Strict  verdict `json:"strict"`
}

func (w *world) runCase(tr *hx.Trace, gen string, cd caseDesc, doc map[string]interface{}, nproofs int, withCoq bool) {
	b := orderedJSON(doc)
	cd.Doc = b
	byteOrder := memberOrder(doc)
	doc = mustParse(b) // the document as its bytes read (marks of the member order removed)

	vd, rec, parsed := w.verifyParsed(cd.Kind, b, false)
	w.lastDIVerifies = w.di.verifies
	vs, recS := vd, rec

	runStrict := cd.Class != "must-reject" || w.tick%4 == 0 || strings.HasPrefix(editKind(cd.Edit), "jwtcred")
	w.tick++

	if runStrict {
		vs, recS = w.verify(cd.Kind, b, true)
	}

	r := &hx.Record{Kind: gen, Case: cd, Observed: observed{vd, vs}, Oracle: "ok"}
	fail := func(sig, detail string) {
		if r.Oracle == "ok" {
			r.Oracle, r.Sig, r.Detail = "fail", sig, detail
		}
	}

	verified := func(v verdict) bool { return v.Accepted && v.Verifies >= 1 }

	switch cd.Class {
	case "identity":
		if !vd.Accepted || vd.Verifies != nproofs {
			fail("signed-rejected", fmt.Sprintf("the signed document does not verify: %+v", vd))
		}

		if !vs.Accepted || vs.Verifies != nproofs {
			fail("signed-rejected:strict", fmt.Sprintf("the signed document does not verify in strict mode: %+v", vs))
		}
	case "must-reject":
		if verified(vd) || verified(vs) || (vd.Accepted && vd.Verifies != 0) {
			sig := "tamper-accepted:" + editKind(cd.Edit)
			if strings.HasPrefix(editKind(cd.Edit), "jwtcred") {
				sig = "vp-jwt-credential-string-not-covered"
			}

			if f := strings.Fields(cd.Edit); len(f) >= 2 && (strings.HasSuffix(f[1], "/b0") || strings.Contains(f[1], "/b0/")) {
				sig = "blank-node-term-not-signed"
			}

			if strings.HasPrefix(cd.Edit, "optcreatedvar fracnz") && cd.Suite == "DataIntegrityProof" {
				sig = "di-created-subsecond-not-signed"
			}

			fail(sig, fmt.Sprintf("edit %s accepted as verified (%s %s): %+v", cd.Edit, cd.Suite, cd.Repr, vd))
		}
	case "casevariant":
		// default mode: if accepted as verified, the parsed object must still hold the signed members
		if verified(vd) && w.baseline != nil && parsed != nil {
			for k, want := range w.baseline {
				if k == "proof" {
					continue
				}

				if string(toJSON(parsed[k])) != string(toJSON(want)) {
					fail("case-variant-member-overrides-signed-member", fmt.Sprintf("edit %s: accepted as verified, but the parsed %s is %s (signed: %s)",
						cd.Edit, k, toJSON(parsed[k]), toJSON(want)))

					break
				}
			}
		}

		if vs.Accepted {
			fail("strict-undefined-accepted", fmt.Sprintf("edit %s: member the context does not define accepted in strict mode", cd.Edit))
		}
	case "undef":
		if vs.Accepted {
			fail("strict-undefined-accepted", fmt.Sprintf("edit %s: undefined property accepted in strict mode", cd.Edit))
		}
	case "unverify":
		if verified(vd) || verified(vs) {
			fail("tamper-accepted:"+editKind(cd.Edit), "document without a proof reported signature checks")
		}
	}

	// strict + accepted with a verified proof: every member of the accepted document must be covered by the signature,
	// i.e. survive JSON-LD expansion (what canonicalisation starts from); counted leaf by leaf with json-gold itself
	if runStrict && vs.Accepted && vs.Verifies >= 1 {
		if nd, ne, err := w.leafCoverage(b); err != nil || nd != ne {
			fail("strict-accepted-uncovered-member", fmt.Sprintf("edit %s: accepted in strict mode with %d verified proof(s), but the document has %d leaves and only %d are in its expanded form (%v)",
				cd.Edit, vs.Verifies, nd, ne, err))
		}
	}

	if rec.contract != "" || recS.contract != "" {
		fail("primitive-contract", rec.contract+recS.contract)
	}

	if vd.StageNote != "" {
		fail("proof-stage-classification", vd.StageNote)
	}

	// every proof PRESENT in an accepted document must have been verified (whatever suites the verifier registered)
	if nEntries := len(proofEntries(doc)); vd.Accepted && nEntries > 0 && vd.Verifies < nEntries {
		fail("accepted-with-unverified-proof", fmt.Sprintf("edit %s: accepted with %d proof(s) present but %d verified", cd.Edit, nEntries, vd.Verifies))
	}

	if vd.ProofPass != vs.ProofPass || vd.Verifies != vs.Verifies {
		fail("strict-changes-proof-check", fmt.Sprintf("%+v vs %+v", vd, vs))
	}

	if withCoq {
		var m map[string]interface{}

		must(json.Unmarshal(b, &m))
		nd, _ := normalise(m).(map[string]interface{})

		strict := "None"
		if cd.Class == "undef" || cd.Class == "identity" || cd.Class == "casevariant" || strings.HasPrefix(cd.Edit, "dup") ||
			strings.HasPrefix(cd.Edit, "reorder") || strings.HasPrefix(cd.Edit, "struct") {
			strict = w.strictInfo(doc)
		}

		r.Coq = fmt.Sprintf("K %s %s %s %s %s None", w.coqEnv(nd, rec), coqObj(nd), coqOutcome(vd), strict, coqParsed(cd.Kind, byteOrder, doc, parsed))
	}

	out := "rej"
	if vd.Accepted {
		out = fmt.Sprintf("acc%d", vd.Verifies)
	}

	outS := "rej"
	if vs.Accepted {
		outS = fmt.Sprintf("acc%d", vs.Verifies)
	}

	if !runStrict {
		outS = "-"
	}

	r.Class = strings.Join([]string{cd.Kind, cd.Suite, cd.Repr, editKind(cd.Edit), out, outS}, "|")
	r.Trivial = false
	r.Dist = []string{"kind=" + cd.Kind, "suite=" + cd.Suite + "/" + cd.Repr, "edit=" + editKind(cd.Edit), "class=" + cd.Class,
		"default=" + out, "strict=" + outS}

	tr.Put(r)
}

func editKind(e string) string {
	if i := strings.IndexByte(e, ' '); i > 0 {
		return e[:i]
	}

	return e
}

// ---------- main ----------

func reprName(r verifiable.SignatureRepresentation) string {
	if r == verifiable.SignatureJWS {
		return "jws"
	}

	return "proofValue"
}

func main() {
	args := hx.ParseArgs()
	tr := hx.NewTrace(args.Out)

	defer tr.Close()

	rng := hx.NewRng(args.Seed)
	w := newWorld(rng.Fork(99))

	if args.Replay != "" {
		replay(w, tr, args.Replay)
		return
	}

	if args.Extra != "" {
		files, _ := filepath.Glob(filepath.Join(args.Extra, "*.json"))
		sort.Strings(files)

		for _, f := range files {
			corpusFile(w, tr, f)
		}
	}

	nDocs, coqBudget, leafCap := 28, 1300, 30
	jwtEvery, jwtCoqEvery := 2, 4

	if args.Tier == "thorough" {
		nDocs, coqBudget, leafCap = 150, 9000, 100
		jwtEvery, jwtCoqEvery = 2, 6
	}

	g := &gen{rng: rng.Fork(1), w: w}
	coqUsed := 0

	for i := 0; i < nDocs; i++ {
		r := rng.Fork(uint64(1000 + i))
		sd := w.suites[i%len(w.suites)]
		kind := "vc"

		if i%3 == 2 {
			kind = "vp"
		}

		signed, n, err := g.signedDoc(r, kind, sd, i)
		if err != nil {
			fmt.Fprintln(os.Stderr, "c07: cannot sign generated document:", err)
			tr.Put(&hx.Record{Kind: "generated", Case: caseDesc{Kind: kind, Suite: sd.name, Edit: "sign"}, Oracle: "fail",
				Sig: "sign-failed", Detail: err.Error(), Class: "sign-failed"})

			continue
		}

		w.suiteSubset = nil
		_, _, w.baseline = w.verifyParsed(kind, toJSON(signed), false)

		edits := g.edits(r, kind, sd, signed, n, leafCap)
		for j, e := range edits {
			d, _ := clone(signed).(map[string]interface{})
			w.badFetch = map[string]*keyInfo{}
			w.suiteSubset = nil

			if !e.apply(d) {
				continue
			}

			// the Coq budget is spread over the documents (what one document leaves unused carries over)
			allowed := (i+1)*coqBudget/nDocs - coqUsed
			withCoq := allowed > 0 && (e.class != "must-reject" || j%3 == i%3 || strings.HasPrefix(e.name, "opt"))
			// edits of the STRUCTURE of the proof member (wrapped, dropped, string, sets with forged / foreign entries,
			// transplants) are few and stand last in the list: they go through the model whatever the budget says
			// (on top of the budget: the other kinds of edits keep their share)
			if withCoq {
				coqUsed++
			}

			if strings.HasPrefix(e.name, "proof") {
				withCoq = true
			}

			cd := caseDesc{Kind: kind, Suite: sd.name, Repr: reprName(sd.repr), Edit: e.name, Class: e.class, BadKey: e.badKey,
				Seed: args.Seed, DocIndex: i}
			w.runCase(tr, "generated", cd, d, n, withCoq)
		}

		w.badFetch = map[string]*keyInfo{}
		w.suiteSubset = nil

		w.runEnvelopes(tr, kind, sd, signed, args.Seed, i)

		if kind == "vp" {
			w.embeddedReport(tr, sd, signed, g.embeddedBroken, args.Seed, i)
		}

		// the JWS-secured JWT forms (own generator state per document, so that a case replays by seed and index)
		if jwtEvery > 0 && i%jwtEvery == 0 {
			w.runJWT(tr, &gen{rng: rng.Fork(uint64(7000 + i)), w: w}, rng.Fork(uint64(8000+i)), args.Seed, i, i%jwtCoqEvery == 0)
		}
	}
}

// leafCoverage counts the scalar leaves of a document (outside "@context" members) and the leaves of its expanded
// form (values, ids, node types).  An undefined term, at any depth, loses its leaves in expansion.
func (w *world) leafCoverage(b []byte) (int, int, error) {
	var m map[string]interface{}
	if err := json.Unmarshal(b, &m); err != nil {
		return 0, 0, err
	}

	delete(m, "jwt")

	nd := countDocLeaves(m)

	opts := ld.NewJsonLdOptions("")
	opts.ProcessingMode = ld.JsonLd_1_1
	opts.DocumentLoader = w.loader

	exp, err := ld.NewJsonLdProcessor().Expand(m, opts)
	if err != nil {
		return nd, 0, err
	}

	return nd, countExpandedLeaves(exp), nil
}

func countDocLeaves(v interface{}) int {
	switch x := v.(type) {
	case map[string]interface{}:
		n := 0

		for k, e := range x {
			if k != "@context" {
				n += countDocLeaves(e)
			}
		}

		return n
	case []interface{}:
		n := 0
		for _, e := range x {
			n += countDocLeaves(e)
		}

		return n
	case nil:
		return 0
	}

	return 1
}

func countExpandedLeaves(v interface{}) int {
	switch x := v.(type) {
	case map[string]interface{}:
		if _, isValue := x["@value"]; isValue {
			return 1
		}

		n := 0

		for k, e := range x {
			switch k {
			case "@id":
				n++
			case "@type":
				if a, ok := e.([]interface{}); ok {
					n += len(a)
				} else {
					n++
				}
			default:
				n += countExpandedLeaves(e)
			}
		}

		return n
	case []interface{}:
		n := 0
		for _, e := range x {
			n += countExpandedLeaves(e)
		}

		return n
	}

	return 0
}

// jwtCredential issues a JWT credential (compact JWS) through the real API.
func (w *world) jwtCredential(vcDoc map[string]interface{}) (string, error) {
	vcDoc["issuer"] = w.jwtKey.did

	vc, err := verifiable.ParseCredential(toJSON(vcDoc), verifiable.WithJSONLDDocumentLoader(w.loader), verifiable.WithDisabledProofCheck())
	if err != nil {
		return "", err
	}

	claims, err := vc.JWTClaims(false)
	if err != nil {
		return "", err
	}

	return claims.MarshalJWS(verifiable.EdDSA, w.jwtKey.signer, w.jwtKey.id())
}

// memberOrder lists the top-level member names in the order orderedJSON prints them.
func memberOrder(doc map[string]interface{}) []string {
	var ks, late []string

	for k := range doc {
		if strings.HasPrefix(k, lastPrefix) {
			late = append(late, k)
		} else {
			ks = append(ks, k)
		}
	}

	sort.Strings(ks)
	sort.Strings(late)

	out := make([]string, 0, len(ks)+len(late))
	for _, k := range append(ks, late...) {
		out = append(out, strings.TrimPrefix(k, lastPrefix))
	}

	return out
}

// coqParsed prints, for the string-valued identity members of an accepted object, the top-level members in byte
// order and the value the typed object ended up with.
func coqParsed(kind string, order []string, doc, parsed map[string]interface{}) string {
	if parsed == nil {
		return "[]"
	}

	fields := []string{"id", "issuer"}
	if kind == "vp" {
		fields = []string{"id", "holder"}
	}

	var out []string

	for _, f := range fields {
		ok := true

		for _, k := range order {
			if strings.EqualFold(k, f) {
				if _, isStr := doc[k].(string); !isStr {
					ok = false
				}
			}
		}

		got, isStr := parsed[f].(string)
		if _, present := parsed[f]; present && !isStr {
			ok = false
		}

		if !ok {
			continue
		}

		var ms []string

		for _, k := range order {
			v := "JNull"
			if sv, isS := doc[k].(string); isS {
				v = "JStr " + cs(sv)
			}

			ms = append(ms, fmt.Sprintf("(%s, %s)", hx.CoqString(k), v)) // names are NOT interned: the model folds their case
		}

		val := "JNull"
		if isStr {
			val = "JStr " + cs(got)
		}

		out = append(out, fmt.Sprintf("(%s, %s, %s)", hx.CoqString(f), hx.CoqList(ms), val))
	}

	return hx.CoqList(out)
}

// objOrNil parses a re-serialised object (a document that arrived as JWS is re-serialised as the JWS string: nil).
func objOrNil(b []byte) map[string]interface{} {
	v, err := parseJSON(b)
	if err != nil {
		return nil
	}

	m, _ := v.(map[string]interface{})

	return m
}

func (w *world) vcOpts(strict bool) []verifiable.CredentialOpt {
	opts := []verifiable.CredentialOpt{verifiable.WithJSONLDDocumentLoader(w.loader),
		verifiable.WithEmbeddedSignatureSuites(w.verifierSuites()...), verifiable.WithPublicKeyFetcher(w.fetch),
		verifiable.WithDataIntegrityVerifier(w.di.verifier)}
	if w.diExpect != [3]string{} {
		opts = append(opts, verifiable.WithExpectedDataIntegrityFields(w.diExpect[0], w.diExpect[1], w.diExpect[2]))
	}

	if strict {
		opts = append(opts, verifiable.WithStrictValidation())
	}

	return opts
}

func (w *world) vpOpts(strict bool) []verifiable.PresentationOpt {
	opts := []verifiable.PresentationOpt{verifiable.WithPresJSONLDDocumentLoader(w.loader),
		verifiable.WithPresEmbeddedSignatureSuites(w.verifierSuites()...), verifiable.WithPresPublicKeyFetcher(w.fetch),
		verifiable.WithPresDataIntegrityVerifier(w.di.verifier)}
	if w.diExpect != [3]string{} {
		opts = append(opts, verifiable.WithPresExpectedDataIntegrityFields(w.diExpect[0], w.diExpect[1], w.diExpect[2]))
	}

	if strict {
		opts = append(opts, verifiable.WithPresStrictValidation())
	}

	return opts
}

// proofStage runs exactly the embedded-proof stage of the real entry point on the bytes (hook embedded_proof_verif.go:
// checkEmbeddedProof with the options the entry point derives) - no classification of error texts.  The second result
// is false when the hook does not apply (the bytes are no JSON object: a JWT envelope is decoded and refined first).
func (w *world) proofStage(kind string, b []byte, strict bool) (error, bool) { //nolint:revive
	if len(b) == 0 || b[0] != '{' {
		return nil, false
	}

	var err error

	func() {
		defer func() {
			if p := recover(); p != nil {
				err = fmt.Errorf("panic: %v", p)
			}
		}()

		if kind == "vc" {
			err = verifiable.CheckEmbeddedProofVerif(b, w.vcOpts(strict)...)
		} else {
			err = verifiable.CheckPresEmbeddedProofVerif(b, w.vpOpts(strict)...)
		}
	}()

	return err, true
}

// parseReal hands the bytes to the real entry point.
func (w *world) parseReal(kind string, b []byte, strict bool) (error, map[string]interface{}) { //nolint:revive
	var (
		err    error
		parsed map[string]interface{}
	)

	if kind == "vc" {
		opts := w.vcOpts(strict)

		var vc *verifiable.Credential

		vc, err = verifiable.ParseCredential(b, opts...)
		if err == nil {
			if pb, e := vc.MarshalJSON(); e == nil {
				parsed = objOrNil(pb)
			}
		}
	} else {
		opts := w.vpOpts(strict)

		var vp *verifiable.Presentation

		vp, err = verifiable.ParsePresentation(b, opts...)
		if err == nil {
			if pb, e := vp.MarshalJSON(); e == nil {
				parsed = objOrNil(pb)
			}
		}
	}

	return err, parsed
}

// embeddedReport records what a verified presentation says about the credential objects it embeds: the presentation proof
// covers them (their content is what the holder signed), their OWN proofs are not checked by ParsePresentation - a
// caller has to hand them to ParseCredential.  Observation, no demand beyond the presentation verifying.
func (w *world) embeddedReport(tr *hx.Trace, sd *suiteDef, signed map[string]interface{}, broken int, seed uint64, idx int) {
	vd, _ := w.verify("vp", toJSON(signed), false)

	bad, withProof := 0, 0

	creds, _ := signed["verifiableCredential"].([]interface{})
	for _, c := range creds {
		m, isObj := c.(map[string]interface{})
		if !isObj || m["proof"] == nil {
			continue
		}

		withProof++

		if v, _ := w.verify("vc", toJSON(m), false); !v.Accepted {
			bad++
		}
	}

	r := &hx.Record{Kind: "generated", Oracle: "ok",
		Case:     envCase{Kind: "vp", Suite: sd.name, Repr: reprName(sd.repr), Edit: "embedded own-proofs", Class: "observation", Seed: seed, DocIndex: idx},
		Observed: map[string]interface{}{"presentation": vd, "embedded_with_proof": withProof, "embedded_own_proof_invalid": bad, "broken_before_holder_signed": broken}}

	if bad != broken {
		r.Oracle, r.Sig, r.Detail = "fail", "embedded-proof-count", fmt.Sprintf("%d embedded credentials fail their own proof, %d were broken", bad, broken)
	}

	if broken > 0 && (!vd.Accepted || vd.Verifies < 1) {
		r.Oracle, r.Sig, r.Detail = "fail", "signed-rejected:embedded", "a presentation the holder signed over a credential with an invalid own proof does not verify (the model says embedded proofs are not checked)"
	}

	r.Class = fmt.Sprintf("vp|%s|embedded|%d/%d|%v", sd.name, bad, withProof, vd.Accepted)
	r.Dist = []string{"edit=embedded-own-proofs", fmt.Sprintf("embedded_invalid=%d", bad)}
	tr.Put(r)
}
