package main

import (
	"crypto/sha256"
	"fmt"
	"strings"
	"time"

	"github.com/multiformats/go-multibase"

	"github.com/hyperledger/aries-framework-go/component/kmscrypto/crypto/tinkcrypto"
	"github.com/hyperledger/aries-framework-go/component/kmscrypto/doc/jose/jwk"
	"github.com/hyperledger/aries-framework-go/component/kmscrypto/doc/util/jwkkid"
	"github.com/hyperledger/aries-framework-go/component/kmscrypto/kms/localkms"
	"github.com/hyperledger/aries-framework-go/component/models/dataintegrity"
	"github.com/hyperledger/aries-framework-go/component/models/dataintegrity/suite/ecdsa2019"
	"github.com/hyperledger/aries-framework-go/component/models/did"
	"github.com/hyperledger/aries-framework-go/component/models/ld/processor"
	sigverifier "github.com/hyperledger/aries-framework-go/component/models/signature/verifier"
	"github.com/hyperledger/aries-framework-go/component/models/verifiable"
	"github.com/hyperledger/aries-framework-go/component/storageutil/mem"
	mockkms "github.com/hyperledger/aries-framework-go/pkg/mock/kms"
	"github.com/hyperledger/aries-framework-go/pkg/secretlock/noop"
	kmsapi "github.com/hyperledger/aries-framework-go/spi/kms"
	vdrspi "github.com/hyperledger/aries-framework-go/spi/vdr"
)

type diKey struct {
	atom     int
	did      string
	vmID     string
	jwk      *jwk.JWK
	vm       *did.VerificationMethod
	purposes []string // relationships the DID document lists the method under
}

type diWorld struct {
	keys     []*diKey
	signer   *dataintegrity.Signer
	verifier *dataintegrity.Verifier
	w        *world
	curKey   *diKey
	signDoc  map[string]interface{} // the document being signed (for expressing the signed message)
	signConf map[string]string
	verifies []diVerify
}

type diVerify struct {
	msg []byte
	ok  bool
}

type diResolver struct{ d *diWorld }

func (r diResolver) Resolve(id string, _ ...vdrspi.DIDMethodOption) (*did.DocResolution, error) {
	for _, k := range r.d.keys {
		if k.did == id {
			doc := &did.Doc{ID: id}
			ver := did.Verification{VerificationMethod: *k.vm}

			for _, p := range k.purposes {
				v := ver

				switch p {
				case "assertionMethod":
					v.Relationship = did.AssertionMethod
					doc.AssertionMethod = append(doc.AssertionMethod, v)
				case "authentication":
					v.Relationship = did.Authentication
					doc.Authentication = append(doc.Authentication, v)
				}
			}

			return &did.DocResolution{DIDDocument: doc}, nil
		}
	}

	return nil, fmt.Errorf("verif: unknown DID %s", id)
}

type diRecSigner struct {
	inner ecdsa2019.Signer
	d     *diWorld
}

func (s *diRecSigner) Sign(msg []byte) ([]byte, error) {
	sig, err := s.inner.Sign(msg)
	if err != nil {
		return nil, err
	}

	term := "MDI 0 0"
	if conf, docNQ, confNQ := s.d.matchConfig(s.d.signDoc, s.d.signConf, msg); conf != nil {
		term = fmt.Sprintf("MDI %d %d", s.d.w.atomOf(docNQ), s.d.w.atomOf(confNQ))
	}

	s.d.w.sigs[string(sig)] = sigInfo{key: s.d.curKey.atom, term: term, msg: append([]byte{}, msg...)}

	return sig, nil
}

type diRecVerifier struct {
	inner ecdsa2019.Verifier
	d     *diWorld
}

func (v *diRecVerifier) Verify(pk *sigverifier.PublicKey, msg, sig []byte) error {
	err := v.inner.Verify(pk, msg, sig)

	si, known := v.d.w.sigs[string(sig)]
	keyAtom := -1

	for _, k := range v.d.keys {
		if pk.JWK != nil && k.jwk != nil && pk.JWK.KeyID == k.jwk.KeyID && samePub(pk.JWK, k.jwk) {
			keyAtom = k.atom
		}
	}

	ideal := known && string(si.msg) == string(msg) && si.key == keyAtom
	if ideal != (err == nil) {
		v.d.w.rec.contract = fmt.Sprintf("ecdsa-2019: primitive verify=%v, ideal=%v", err == nil, ideal)
	}

	v.d.verifies = append(v.d.verifies, diVerify{msg: append([]byte{}, msg...), ok: err == nil})
	v.d.w.rec.verifies = append(v.d.w.rec.verifies, verifyCall{ok: err == nil})

	return err
}

func samePub(a, b *jwk.JWK) bool {
	ta, e1 := a.PublicKeyBytes()
	tb, e2 := b.PublicKeyBytes()

	return e1 == nil && e2 == nil && string(ta) == string(tb)
}

func newDIWorld(w *world) *diWorld {
	p, err := mockkms.NewProviderForKMS(mem.NewProvider(), &noop.NoLock{})
	must(err)

	k, err := localkms.New("local-lock://verif/c07", p)
	must(err)

	cr, err := tinkcrypto.New()
	must(err)

	d := &diWorld{w: w}

	for i := 0; i < 2; i++ {
		_, pub, e := k.CreateAndExportPubKeyBytes(kmsapi.ECDSAP256IEEEP1363)
		must(e)

		j, e := jwkkid.BuildJWK(pub, kmsapi.ECDSAP256IEEEP1363)
		must(e)

		didID := fmt.Sprintf("did:verif:di%d", i)

		vm, e := did.NewVerificationMethodFromJWK(didID+"#key-1", "JsonWebKey2020", didID, j)
		must(e)

		dk := &diKey{atom: 100 + i, did: didID, vmID: didID + "#key-1", jwk: j, vm: vm, purposes: []string{"assertionMethod"}}
		if i == 0 {
			dk.purposes = append(dk.purposes, "authentication")
		}

		d.keys = append(d.keys, dk)
	}

	inner := ecdsa2019.WithLocalKMSSigner(k, cr)
	getter := func(pub *jwk.JWK) (ecdsa2019.Signer, error) {
		s, e := inner(pub)
		if e != nil {
			return nil, e
		}

		return &diRecSigner{inner: s, d: d}, nil
	}

	d.signer, err = dataintegrity.NewSigner(&dataintegrity.Options{DIDResolver: diResolver{d}},
		ecdsa2019.NewSignerInitializer(&ecdsa2019.SignerInitializerOptions{SignerGetter: getter, LDDocumentLoader: w.loader}))
	must(err)

	d.verifier, err = dataintegrity.NewVerifier(&dataintegrity.Options{DIDResolver: diResolver{d}},
		ecdsa2019.NewVerifierInitializer(&ecdsa2019.VerifierInitializerOptions{LDDocumentLoader: w.loader,
			P256Verifier: &diRecVerifier{inner: sigverifier.NewECDSAES256SignatureVerifier(), d: d}}))
	must(err)

	return d
}

// matchConfig finds which members of the proof configuration the signed/verified message covers: the message is
// sha256(canon(document without proof)) ++ sha256(canon(config)); the config is searched among the subsets of the
// candidate members (the set the current code signs is tried first).  The canonicaliser is the real one.
func (d *diWorld) matchConfig(doc map[string]interface{}, vals map[string]string, msg []byte) (map[string]interface{}, []byte, []byte) {
	if len(msg) != 64 {
		return nil, nil, nil
	}

	body, _ := clone(doc).(map[string]interface{})
	delete(body, "proof")
	delete(body, "jwt")

	docNQ, err := processor.Default().GetCanonicalDocument(body, processor.WithDocumentLoader(d.w.loader))
	if err != nil {
		return nil, nil, nil
	}

	h := sha256.Sum256(docNQ)
	if string(h[:]) != string(msg[:32]) {
		return nil, nil, nil
	}

	optional := []string{"domain", "challenge", "created", "proofPurpose", "verificationMethod", "cryptosuite"}

	// masks ordered so that "everything non-empty" and "everything but domain/challenge" come first
	var masks []int

	full := (1 << len(optional)) - 1
	masks = append(masks, full, full&^3)

	for m := full; m >= 0; m-- {
		if m != full && m != full&^3 {
			masks = append(masks, m)
		}
	}

	seen := map[string]bool{}

	for _, m := range masks {
		conf := map[string]interface{}{"@context": clone(doc["@context"]), "type": "DataIntegrityProof"}

		for i, k := range optional {
			if m&(1<<i) != 0 && vals[k] != "" {
				conf[k] = vals[k]
			}
		}

		key := string(toJSON(conf))
		if seen[key] {
			continue
		}

		seen[key] = true

		nq, err := processor.Default().GetCanonicalDocument(clone(conf).(map[string]interface{}), //nolint:forcetypeassert
			processor.WithDocumentLoader(d.w.loader))
		if err != nil {
			continue
		}

		hc := sha256.Sum256(nq)
		if string(hc[:]) == string(msg[32:]) {
			return conf, docNQ, nq
		}
	}

	return nil, nil, nil
}

func (w *world) signDI(kind string, doc map[string]interface{}, key *diKey, created time.Time, purpose, domain, challenge string) (map[string]interface{}, error) {
	d := w.di
	d.curKey = key
	w.rec = &recording{}
	ctx := &verifiable.DataIntegrityProofContext{SigningKeyID: key.vmID, ProofPurpose: purpose, CryptoSuite: ecdsa2019.SuiteType,
		Created: &created, Domain: domain, Challenge: challenge}

	pu := purpose
	if pu == "" {
		pu = "assertionMethod"
	}

	d.signConf = map[string]string{"domain": domain, "challenge": challenge, "created": created.Format(time.RFC3339),
		"proofPurpose": pu, "verificationMethod": key.vmID, "cryptosuite": ecdsa2019.SuiteType}

	if kind == "vc" {
		vc, err := verifiable.ParseCredential(toJSON(doc), verifiable.WithJSONLDDocumentLoader(w.loader), verifiable.WithDisabledProofCheck())
		if err != nil {
			return nil, fmt.Errorf("parse unsigned: %w", err)
		}

		b, err := vc.MarshalJSON()
		if err != nil {
			return nil, err
		}

		d.signDoc = mustParse(b)

		if err = vc.AddDataIntegrityProof(ctx, d.signer); err != nil {
			return nil, fmt.Errorf("sign: %w", err)
		}

		b, err = vc.MarshalJSON()
		if err != nil {
			return nil, err
		}

		return mustParse(b), nil
	}

	vp, err := verifiable.ParsePresentation(toJSON(doc), verifiable.WithPresJSONLDDocumentLoader(w.loader), verifiable.WithPresDisabledProofCheck())
	if err != nil {
		return nil, fmt.Errorf("parse unsigned: %w", err)
	}

	b, err := vp.MarshalJSON()
	if err != nil {
		return nil, err
	}

	d.signDoc = mustParse(b)

	if err = vp.AddDataIntegrityProof(ctx, d.signer); err != nil {
		return nil, fmt.Errorf("sign: %w", err)
	}

	b, err = vp.MarshalJSON()
	if err != nil {
		return nil, err
	}

	return mustParse(b), nil
}

// coqDIEnv builds the Data Integrity part of the environment of a case, and the canonicaliser table entries.
func (w *world) coqDIEnv(doc map[string]interface{}, verifies []diVerify) (string, []string) {
	d := w.di

	var times, keys, sigs, canon []string

	pm, _ := doc["proof"].(map[string]interface{})
	if pm == nil {
		return "no_di", nil
	}

	created := strOf(pm["created"])
	norm := ""

	if t, err := time.Parse(time.RFC3339, created); err == nil {
		norm = t.Format(time.RFC3339)
		times = append(times, fmt.Sprintf("(%s, %s)", cs(created), cs(norm)))
	}

	for _, k := range d.keys {
		for _, p := range k.purposes {
			keys = append(keys, fmt.Sprintf("((%s, %s), %d)", cs(k.vmID), cs(p), k.atom))
		}
	}

	pv := strOf(pm["proofValue"])
	_, raw, err := multibase.Decode(pv)
	sigs = append(sigs, fmt.Sprintf("(%s, %s)", cs(pv), coqDec(w, raw, err)))

	pu := w.diExpect[0]
	if pu == "" {
		pu = "assertionMethod"
	}

	vals := map[string]string{"domain": strOf(pm["domain"]), "challenge": strOf(pm["challenge"]), "created": norm,
		"proofPurpose": pu, "verificationMethod": strOf(pm["verificationMethod"]), "cryptosuite": ecdsa2019.SuiteType}

	for _, v := range verifies {
		if conf, docNQ, confNQ := d.matchConfig(doc, vals, v.msg); conf != nil {
			body, _ := clone(doc).(map[string]interface{})
			delete(body, "proof")
			delete(body, "jwt")
			canon = append(canon, fmt.Sprintf("(%s, Some %d)", coqJSON(normalise(body)), w.atomOf(docNQ)),
				fmt.Sprintf("(%s, Some %d)", coqJSON(normalise(conf)), w.atomOf(confNQ)))
		}
	}

	exp := fmt.Sprintf("(%s, %s, %s)", cs(w.diExpect[0]), cs(w.diExpect[1]), cs(w.diExpect[2]))

	return fmt.Sprintf("(DI [%s] [%s] [%s] [%s] %s)", strings.Join(times, "; "), cs(ecdsa2019.SuiteType), strings.Join(keys, "; "),
		strings.Join(sigs, "; "), exp), canon
}
