package main

import (
	"encoding/base64"
	"encoding/json"
	"fmt"
	"sort"
	"strings"
	"time"

	"github.com/hyperledger/aries-framework-go/component/kmscrypto/doc/jose/jwk/jwksupport"
	"github.com/hyperledger/aries-framework-go/component/models/jwt"
	sigapi "github.com/hyperledger/aries-framework-go/component/models/signature/api"
	sigutil "github.com/hyperledger/aries-framework-go/component/models/signature/util"
	"github.com/hyperledger/aries-framework-go/component/models/verifiable"
	"github.com/hyperledger/aries-framework-go/spi/kms"

	"verifharness/hx"
)

// JWS-secured JWT credentials and presentations (no embedded proof): issued through Credential.JWTClaims /
// Presentation.JWTClaims + MarshalJWS, parsed through ParseCredential / ParsePresentation with signature checking.
// What the decoded object holds is compared with coq/C07/JwtModel.v (which payload members become the credential, the
// override rules of the registered claims, which bytes are taken as the token); jwt.IsJWS and the JWS verification
// itself are C08's subject and enter the model as recorded tables.

type jwtSigner struct {
	key *keyInfo
	alg verifiable.JWSAlgorithm
}

func (w *world) jwtSigners() []jwtSigner {
	if w.jwtKey2 == nil {
		sg, err := sigutil.NewSigner(kms.ECDSAP256TypeIEEEP1363)
		must(err)

		j, err := jwksupport.JWKFromKey(sg.PublicKey())
		must(err)

		w.jwtKey2 = &keyInfo{atom: 201, did: "did:example:jwtissuer2", frag: "#p256", signer: sg,
			pub: &sigapi.PublicKey{Type: "JsonWebKey2020", Value: sg.PublicKeyBytes(), JWK: j}}
	}

	return []jwtSigner{{w.jwtKey, verifiable.EdDSA}, {w.jwtKey2, verifiable.ECDSASecp256r1}}
}

// signPayload makes a compact JWS over an arbitrary payload object with the framework's own JWT signer.
func signPayload(payload map[string]interface{}, s jwtSigner, kid string) (string, error) {
	algName, err := s.alg.Name()
	if err != nil {
		return "", err
	}

	tok, err := jwt.NewSigned(string(toJSON(payload)), map[string]interface{}{"kid": kid}, verifiable.GetJWTSigner(s.key.signer, algName))
	if err != nil {
		return "", err
	}

	return tok.Serialize(false)
}

// openToken: what the real JWS verification (resolver = the world's fetcher) says about a token.
func (w *world) openToken(token string) (map[string]interface{}, bool) {
	_, raw, err := jwt.Parse(token, jwt.WithSignatureVerifier(jwt.NewVerifier(jwt.KeyResolverFunc(w.fetch))),
		jwt.WithIgnoreClaimsMapDecoding(true))
	if err != nil {
		return nil, false
	}

	v, err := parseJSON(raw)
	if err != nil {
		return nil, false
	}

	m, ok := v.(map[string]interface{})

	return m, ok
}

type jwtVariant struct {
	name  string
	class string // jwt-identity | jwt-override | jwt-tamper
	min   bool
	mut   func(p map[string]interface{}) // change of the payload BEFORE signing (signed by the issuer's key)
	// after signing
	tamper string // "", "payload", "otherkey", "sigflip"
}

type jwtCase struct {
	Kind     string                 `json:"kind"`
	Suite    string                 `json:"suite"`
	Edit     string                 `json:"edit"`
	Class    string                 `json:"class"`
	Input    string                 `json:"input"`
	Seed     uint64                 `json:"seed"`
	DocIndex int                    `json:"doc_index"`
	Object   map[string]interface{} `json:"object"`
}

func payloadOf(claims interface{}) map[string]interface{} {
	b, err := json.Marshal(claims)
	must(err)

	return mustParse(b)
}

func unixOf(s string) (int64, bool) {
	t, err := time.Parse(time.RFC3339, s)
	if err != nil {
		return 0, false
	}

	return t.Unix(), true
}

func coqFmtTable(payload map[string]interface{}) string {
	var out []string

	seen := map[int64]bool{}

	for _, k := range []string{"nbf", "iat", "exp"} {
		n, ok := payload[k].(json.Number)
		if !ok {
			continue
		}

		v, err := n.Int64()
		if err != nil || seen[v] {
			continue
		}

		seen[v] = true

		out = append(out, fmt.Sprintf("((%d)%%Z, %s)", v, cs(time.Unix(v, 0).UTC().Format(time.RFC3339))))
	}

	return hx.CoqList(out)
}

func coqSecsTable(m map[string]interface{}) string {
	var out []string

	for _, k := range []string{"issuanceDate", "expirationDate"} {
		if s, ok := m[k].(string); ok {
			if v, ok2 := unixOf(s); ok2 {
				out = append(out, fmt.Sprintf("(%s, (%d)%%Z)", cs(s), v))
			}
		}
	}

	return hx.CoqList(out)
}

func sameJSON(a, b interface{}) bool { return string(toJSON(normalise(a))) == string(toJSON(normalise(b))) }

func diffMembers(got, want map[string]interface{}) string {
	var ks []string

	for k := range want {
		ks = append(ks, k)
	}

	for k := range got {
		if _, ok := want[k]; !ok {
			ks = append(ks, k)
		}
	}

	sort.Strings(ks)

	for _, k := range ks {
		if !sameJSON(got[k], want[k]) {
			return fmt.Sprintf("%s is %s (signed: %s)", k, toJSON(got[k]), toJSON(want[k]))
		}
	}

	return ""
}

// parseJWTReal hands the bytes to ParseCredential / ParsePresentation with signature checking and returns the members
// of the accepted object.
func (w *world) parseJWTReal(kind string, input []byte) (map[string]interface{}, error) {
	var (
		members map[string]interface{}
		err     error
	)

	func() {
		defer func() {
			if p := recover(); p != nil {
				err = fmt.Errorf("panic: %v", p)
				members = nil
			}
		}()

		if kind == "vc" {
			var vc *verifiable.Credential

			vc, err = verifiable.ParseCredential(input, verifiable.WithJSONLDDocumentLoader(w.loader), verifiable.WithPublicKeyFetcher(w.fetch))
			if err != nil {
				return
			}

			cp := *vc
			cp.JWT = ""

			b, e := cp.MarshalJSON()
			must(e)

			members = mustParse(b)

			return
		}

		var vp *verifiable.Presentation

		vp, err = verifiable.ParsePresentation(input, verifiable.WithPresJSONLDDocumentLoader(w.loader), verifiable.WithPresPublicKeyFetcher(w.fetch))
		if err != nil {
			return
		}

		cp := *vp
		cp.JWT = ""

		b, e := cp.MarshalJSON()
		must(e)

		members = mustParse(b)
	}()

	return members, err
}

// runJWT issues one generated credential (and a presentation around it) as JWS and parses the variants.
func (w *world) runJWT(tr *hx.Trace, g *gen, r *hx.Rng, seed uint64, idx int, withCoq bool) {
	signers := w.jwtSigners()
	s := signers[idx%len(signers)]

	doc := g.credential(r, "")
	if _, isArr := doc["credentialSubject"].([]interface{}); isArr {
		doc["credentialSubject"] = g.subject(r) // the JWT form takes one subject
	}

	if idx%5 == 3 {
		delete(doc, "id")
	}

	if im, ok := doc["issuer"].(map[string]interface{}); ok {
		im["id"] = s.key.did
	} else {
		doc["issuer"] = s.key.did
	}

	vc, err := verifiable.ParseCredential(toJSON(doc), verifiable.WithJSONLDDocumentLoader(w.loader), verifiable.WithDisabledProofCheck())
	if err != nil {
		return
	}

	mb, err := vc.MarshalJSON()
	must(err)

	m := mustParse(mb) // the credential object the issuer holds

	sub, err := verifiable.SubjectID(vc.Subject)
	if err != nil {
		return
	}

	t1 := time.Date(2001, 2, 3, 4, 5, 6, 0, time.UTC).Unix()
	t2 := time.Date(2041, 2, 3, 4, 5, 6, 0, time.UTC).Unix()
	num := func(v int64) json.Number { return json.Number(fmt.Sprintf("%d", v)) }

	variants := []jwtVariant{
		{name: "full", class: "jwt-identity"},
		{name: "minimised", class: "jwt-identity", min: true},
		{name: "iss other", class: "jwt-override", mut: func(p map[string]interface{}) { p["iss"] = "did:example:mallory" }},
		{name: "iss other minimised", class: "jwt-override", min: true, mut: func(p map[string]interface{}) { p["iss"] = "did:example:mallory" }},
		{name: "jti other", class: "jwt-override", mut: func(p map[string]interface{}) { p["jti"] = "urn:uuid:override" }},
		{name: "nbf only", class: "jwt-override", mut: func(p map[string]interface{}) { delete(p, "iat"); p["nbf"] = num(t1) }},
		{name: "iat differs", class: "jwt-override", mut: func(p map[string]interface{}) { p["iat"] = num(t1); p["nbf"] = num(t2) }},
		{name: "exp added", class: "jwt-override", mut: func(p map[string]interface{}) { p["exp"] = num(t2) }},
		{name: "exp added minimised", class: "jwt-override", min: true, mut: func(p map[string]interface{}) { p["exp"] = num(t2) }},
		{name: "claims absent", class: "jwt-override", mut: func(p map[string]interface{}) {
			for _, k := range []string{"iss", "jti", "nbf", "iat", "exp", "sub"} {
				delete(p, k)
			}
		}},
		{name: "claims null", class: "jwt-override", mut: func(p map[string]interface{}) {
			for _, k := range []string{"iss", "jti", "nbf", "exp"} {
				p[k] = nil
			}
		}},
		{name: "claims empty", class: "jwt-override", mut: func(p map[string]interface{}) { p["iss"] = ""; p["jti"] = "" }},
		{name: "aud added", class: "jwt-override", mut: func(p map[string]interface{}) { p["aud"] = []interface{}{"did:example:v1", "did:example:v2"} }},
		{name: "issuer object to string", class: "jwt-override", mut: func(p map[string]interface{}) {
			if c, ok := p["vc"].(map[string]interface{}); ok {
				if im, isObj := c["issuer"].(map[string]interface{}); isObj {
					c["issuer"] = im["id"]
				} else {
					c["issuer"] = map[string]interface{}{"id": "did:example:inner", "name": "Inner"}
				}
			}
		}},
		// the SD-JWT v5 layout: no vc claim, the credential members stand in the payload itself
		{name: "v5 layout", class: "jwt-override", mut: func(p map[string]interface{}) {
			if c, ok := p["vc"].(map[string]interface{}); ok {
				delete(p, "vc")

				for k, v := range c {
					p[k] = v
				}
			}
		}},
		{name: "v5 layout minimised", class: "jwt-override", min: true, mut: func(p map[string]interface{}) {
			if c, ok := p["vc"].(map[string]interface{}); ok {
				delete(p, "vc")

				for k, v := range c {
					p[k] = v
				}
			}
		}},
		// a vc claim AND credential members in the payload: the payload members must not leak into the credential
		{name: "vc plus payload members", class: "jwt-override", mut: func(p map[string]interface{}) {
			p["issuer"] = "did:example:mallory"
			p["credentialSubject"] = map[string]interface{}{"id": "did:example:other"}
			p["a1"] = "extra"
		}},
		{name: "vc claim wrong type", class: "jwt-override", mut: func(p map[string]interface{}) { p["vc"] = "text" }},
		{name: "iss wrong type", class: "jwt-override", mut: func(p map[string]interface{}) { p["iss"] = num(7) }},
		{name: "nbf wrong type", class: "jwt-override", mut: func(p map[string]interface{}) { p["nbf"] = "2001-02-03T04:05:06Z" }},
		{name: "payload altered", class: "jwt-tamper", tamper: "payload"},
		{name: "payload altered minimised", class: "jwt-tamper", min: true, tamper: "payload"},
		{name: "signed by another key", class: "jwt-tamper", tamper: "otherkey"},
		{name: "signature flipped", class: "jwt-tamper", tamper: "sigflip"},
	}

	for vi, v := range variants {
		claims, e := vc.JWTClaims(v.min)
		if e != nil {
			return
		}

		issued := payloadOf(claims)
		payload, _ := clone(issued).(map[string]interface{})

		var token string

		if v.mut == nil && v.tamper != "otherkey" {
			token, e = claims.MarshalJWS(s.alg, s.key.signer, s.key.id()) // the real issuing path
		} else {
			if v.mut != nil {
				v.mut(payload)
			}

			signer := s
			if v.tamper == "otherkey" {
				signer = signers[(idx+1)%len(signers)] // another key's signature under the issuer's kid
			}

			token, e = signPayload(payload, signer, s.key.id())
		}

		if e != nil {
			continue
		}

		switch v.tamper {
		case "payload":
			parts := strings.Split(token, ".")
			pl, _ := base64.RawURLEncoding.DecodeString(parts[1])
			alt := strings.Replace(string(pl), "did:example:", "did:exampel:", 1)
			parts[1] = base64.RawURLEncoding.EncodeToString([]byte(alt))
			token = strings.Join(parts, ".")
		case "sigflip":
			parts := strings.Split(token, ".")
			sg, _ := base64.RawURLEncoding.DecodeString(parts[2])
			sg[len(sg)/2] ^= 0x20
			parts[2] = base64.RawURLEncoding.EncodeToString(sg)
			token = strings.Join(parts, ".")
		}

		// the forms of the bytes ParseCredential takes a token from
		type form struct {
			name  string
			bytes []byte
			coq   string
		}

		forms := []form{{"text", []byte(token), "InText " + cs(token)}}

		if vi < 2 || v.tamper != "" || vi%3 == idx%3 {
			forms = append(forms, form{"quoted", []byte(`"` + token + `"`), "InText " + cs(token)})

			wr := map[string]interface{}{"jwt": token}
			forms = append(forms, form{"wrapper", toJSON(wr), "InObj " + coqObj(normalise(wr).(map[string]interface{}))}) //nolint:forcetypeassert

			// the wrapper carries members of its own that contradict the signed ones: nothing of it may be reported
			forged, _ := clone(m).(map[string]interface{})
			forged["jwt"] = token
			forged["issuer"] = "did:example:mallory"
			forged["id"] = "urn:uuid:forged"
			forged["a1"] = "forged"
			forged["credentialSubject"] = map[string]interface{}{"id": "did:example:forged-subject"}
			forms = append(forms, form{"wrapper forged", toJSON(forged), "InObj " + coqObj(normalise(forged).(map[string]interface{}))}) //nolint:forcetypeassert
		}

		opened, verified := w.openToken(token)

		for _, f := range forms {
			got, perr := w.parseJWTReal("vc", f.bytes)

			cd := jwtCase{Kind: "vc", Suite: "JWT/" + s.key.frag[1:], Edit: "jwt " + v.name, Class: v.class, Input: string(f.bytes), Seed: seed, DocIndex: idx, Object: m}
			rec := &hx.Record{Kind: "generated", Case: cd, Oracle: "ok",
				Observed: map[string]interface{}{"accepted": perr == nil, "err": errText(perr), "members": got, "signature_verifies": verified}}
			fail := func(sig, detail string) {
				if rec.Oracle == "ok" {
					rec.Oracle, rec.Sig, rec.Detail = "fail", sig, detail
				}
			}

			switch v.class {
			case "jwt-identity":
				if perr != nil {
					fail("signed-rejected:jwt", fmt.Sprintf("the credential issued as JWS (%s, %s) does not verify: %v", v.name, f.name, perr))
				} else if d := diffMembers(got, m); d != "" {
					fail("jwt-member-not-from-signed-payload", fmt.Sprintf("JWS credential (%s, %s): returned %s", v.name, f.name, d))
				}
			case "jwt-tamper":
				if perr == nil {
					fail("tamper-accepted:jwt", fmt.Sprintf("JWS credential with %s accepted (%s)", v.name, f.name))
				}
			case "jwt-override":
				// whatever the registered claims do, a member they do not govern is the vc claim's (or, in the v5 layout, the payload's)
				if perr == nil {
					src, _ := payload["vc"].(map[string]interface{})
					if src == nil {
						src = payload
					}

					for k, want := range src {
						switch k {
						case "issuer", "issuanceDate", "expirationDate", "id", "iss", "jti", "nbf", "iat", "exp", "sub", "aud", "vc":
							continue
						}

						if !sameJSON(got[k], want) {
							fail("jwt-member-not-from-signed-payload", fmt.Sprintf("JWS credential (%s, %s): member %s is %s, the signed claim object has %s", v.name, f.name, k, toJSON(got[k]), toJSON(want)))
						}
					}

					// ... and the credential holds no member that is neither in the signed claim object nor governed by a claim
					for k := range got {
						switch k {
						case "issuer", "issuanceDate", "expirationDate", "id":
							continue
						}

						if _, signed := src[k]; !signed {
							fail("jwt-member-not-from-signed-payload", fmt.Sprintf("JWS credential (%s, %s): member %s = %s is not in the signed claim object", v.name, f.name, k, toJSON(got[k])))
						}
					}

					if iss, _ := payload["iss"].(string); iss != "" {
						gi := got["issuer"]
						if im, ok := gi.(map[string]interface{}); ok {
							gi = im["id"]
						}

						if gi != iss {
							fail("jwt-issuer-not-iss", fmt.Sprintf("JWS credential (%s): reported issuer %v, signed iss %s", v.name, gi, iss))
						}
					}
				}
			}

			if withCoq {
				isjws, opens := []string{}, []string{}
				if jwt.IsJWS(token) {
					isjws = append(isjws, cs(token))
				}

				if verified {
					opens = append(opens, fmt.Sprintf("(%s, %s)", cs(token), coqObj(opened)))
				}

				obs := "None"
				if perr == nil {
					obs = "(Some " + coqObj(normalise(got).(map[string]interface{})) + ")" //nolint:forcetypeassert
				}

				issue := "None"
				if f.name == "text" && v.mut == nil && v.tamper == "" {
					issue = fmt.Sprintf("(Some (%s, %s, %s, %s, %s))", hx.CoqBool(v.min), cs(sub), coqObj(normalise(m).(map[string]interface{})), //nolint:forcetypeassert
						coqSecsTable(m), coqObj(issued))
				}

				fmtSrc := payload
				if verified {
					fmtSrc = opened
				}

				rec.Coq = fmt.Sprintf("KJ (J true (%s) %s %s %s %s %s)", f.coq, hx.CoqList(isjws), hx.CoqList(opens), coqFmtTable(fmtSrc), obs, issue)
			}

			out := "rej"
			if perr == nil {
				out = "acc"
			}

			rec.Class = strings.Join([]string{"vc", "jwt", s.key.frag, v.name, f.name, out}, "|")
			rec.Dist = []string{"kind=vc", "suite=JWT/" + s.key.frag[1:], "edit=jwt:" + v.name, "class=" + v.class, "input=" + f.name, "default=" + out}
			tr.Put(rec)
		}
	}

	w.runJWTPres(tr, g, s, m, seed, idx, withCoq)
}

func errText(err error) string {
	if err == nil {
		return ""
	}

	s := err.Error()
	if len(s) > 160 {
		s = s[:160]
	}

	return s
}

// runJWTPres: a presentation of the credential object (and of its JWS form), issued as JWS by the holder.
func (w *world) runJWTPres(tr *hx.Trace, g *gen, s jwtSigner, cred map[string]interface{}, seed uint64, idx int, withCoq bool) {
	creds := []interface{}{cred}

	if idx%2 == 1 {
		if j, err := w.jwtCredential(g.credential(g.rng, "")); err == nil {
			creds = append(creds, j)
		}
	}

	doc := map[string]interface{}{
		"@context":             []interface{}{vcCtx, ctxURL},
		"id":                   "urn:uuid:" + g.fresh("jp"),
		"type":                 []interface{}{"VerifiablePresentation"},
		"holder":               s.key.did,
		"verifiableCredential": creds,
	}

	if idx%4 == 2 {
		delete(doc, "id")
	}

	vp, err := verifiable.ParsePresentation(toJSON(doc), verifiable.WithPresJSONLDDocumentLoader(w.loader), verifiable.WithPresDisabledProofCheck())
	if err != nil {
		return
	}

	mb, err := vp.MarshalJSON()
	must(err)

	m := mustParse(mb)

	variants := []jwtVariant{
		{name: "full", class: "jwt-identity"},
		{name: "minimised", class: "jwt-identity", min: true},
		{name: "iss other", class: "jwt-override", mut: func(p map[string]interface{}) { p["iss"] = "did:example:mallory" }},
		{name: "jti other minimised", class: "jwt-override", min: true, mut: func(p map[string]interface{}) { p["jti"] = "urn:uuid:override" }},
		{name: "claims absent", class: "jwt-override", mut: func(p map[string]interface{}) { delete(p, "iss"); delete(p, "jti") }},
		{name: "vp plus payload members", class: "jwt-override", mut: func(p map[string]interface{}) { p["holder"] = "did:example:mallory"; p["a1"] = "extra" }},
		{name: "no vp claim", class: "jwt-override", mut: func(p map[string]interface{}) { delete(p, "vp") }},
		{name: "payload altered", class: "jwt-tamper", tamper: "payload"},
		{name: "signed by another key", class: "jwt-tamper", tamper: "otherkey"},
	}

	signers := w.jwtSigners()

	for _, v := range variants {
		var aud []string
		if idx%2 == 0 {
			aud = []string{"did:example:verifier"}
		}

		claims, e := vp.JWTClaims(aud, v.min)
		if e != nil {
			return
		}

		issued := payloadOf(claims)
		payload, _ := clone(issued).(map[string]interface{})

		var token string

		if v.mut == nil && v.tamper != "otherkey" {
			token, e = claims.MarshalJWS(s.alg, s.key.signer, s.key.id())
		} else {
			if v.mut != nil {
				v.mut(payload)
			}

			signer := s
			if v.tamper == "otherkey" {
				signer = signers[(idx+1)%len(signers)]
			}

			token, e = signPayload(payload, signer, s.key.id())
		}

		if e != nil {
			continue
		}

		if v.tamper == "payload" {
			parts := strings.Split(token, ".")
			pl, _ := base64.RawURLEncoding.DecodeString(parts[1])
			alt := strings.Replace(string(pl), "urn:uuid:", "urn:uuie:", 1)
			alt = strings.Replace(alt, "did:example:", "did:exampel:", 1)
			parts[1] = base64.RawURLEncoding.EncodeToString([]byte(alt))
			token = strings.Join(parts, ".")
		}

		opened, verified := w.openToken(token)
		got, perr := w.parseJWTReal("vp", []byte(token))

		cd := jwtCase{Kind: "vp", Suite: "JWT/" + s.key.frag[1:], Edit: "jwt " + v.name, Class: v.class, Input: token, Seed: seed, DocIndex: idx, Object: m}
		rec := &hx.Record{Kind: "generated", Case: cd, Oracle: "ok",
			Observed: map[string]interface{}{"accepted": perr == nil, "err": errText(perr), "members": got, "signature_verifies": verified}}
		fail := func(sig, detail string) {
			if rec.Oracle == "ok" {
				rec.Oracle, rec.Sig, rec.Detail = "fail", sig, detail
			}
		}

		switch v.class {
		case "jwt-identity":
			if perr != nil {
				fail("signed-rejected:jwt", fmt.Sprintf("the presentation issued as JWS (%s) does not verify: %v", v.name, perr))
			} else if d := diffMembers(got, m); d != "" {
				fail("jwt-member-not-from-signed-payload", fmt.Sprintf("JWS presentation (%s): returned %s", v.name, d))
			}
		case "jwt-tamper":
			if perr == nil {
				fail("tamper-accepted:jwt", fmt.Sprintf("JWS presentation with %s accepted", v.name))
			}
		case "jwt-override":
			if perr == nil {
				if src, ok := payload["vp"].(map[string]interface{}); ok {
					for k, want := range src {
						if k == "holder" || k == "id" {
							continue
						}

						if !sameJSON(got[k], want) {
							fail("jwt-member-not-from-signed-payload", fmt.Sprintf("JWS presentation (%s): member %s is %s, the signed vp claim has %s", v.name, k, toJSON(got[k]), toJSON(want)))
						}
					}

					for k := range got {
						if _, signed := src[k]; !signed && k != "holder" && k != "id" {
							fail("jwt-member-not-from-signed-payload", fmt.Sprintf("JWS presentation (%s): member %s = %s is not in the signed vp claim", v.name, k, toJSON(got[k])))
						}
					}
				}
			}
		}

		// a refusal by a later stage (schema / JSON-LD validation of the decoded presentation) is not the decoder's
		decoderStage := perr == nil || strings.HasPrefix(perr.Error(), "decoding of Verifiable Presentation from JWS")

		if withCoq && decoderStage {
			isjws, opens := []string{}, []string{}
			if jwt.IsJWS(token) {
				isjws = append(isjws, cs(token))
			}

			if verified {
				opens = append(opens, fmt.Sprintf("(%s, %s)", cs(token), coqObj(opened)))
			}

			obs := "None"
			if perr == nil {
				obs = "(Some " + coqObj(normalise(got).(map[string]interface{})) + ")" //nolint:forcetypeassert
			}

			issue := "None"
			if v.mut == nil && v.tamper == "" && aud == nil {
				issue = fmt.Sprintf("(Some (%s, \"\", %s, [], %s))", hx.CoqBool(v.min), coqObj(normalise(m).(map[string]interface{})), coqObj(issued)) //nolint:forcetypeassert
			}

			rec.Coq = fmt.Sprintf("KJ (J false (InText %s) %s %s [] %s %s)", cs(token), hx.CoqList(isjws), hx.CoqList(opens), obs, issue)
		}

		out := "rej"
		if perr == nil {
			out = "acc"
		}

		rec.Class = strings.Join([]string{"vp", "jwt", s.key.frag, v.name, out}, "|")
		rec.Dist = []string{"kind=vp", "suite=JWT/" + s.key.frag[1:], "edit=jwt:" + v.name, "class=" + v.class, "default=" + out}
		tr.Put(rec)
	}
}
