package main

import (
	"bytes"
	"encoding/json"
	"fmt"
	"sort"
	"strings"

	"verifharness/hx"
)

// JSON values are interface{} trees with map[string]interface{}, []interface{}, string, json.Number, bool, nil.

func parseJSON(b []byte) (interface{}, error) {
	d := json.NewDecoder(bytes.NewReader(b))
	d.UseNumber()

	var v interface{}
	if err := d.Decode(&v); err != nil {
		return nil, err
	}

	return v, nil
}

func mustParse(b []byte) map[string]interface{} {
	v, err := parseJSON(b)
	if err != nil {
		panic(err)
	}

	m, ok := v.(map[string]interface{})
	if !ok {
		panic("not an object")
	}

	return m
}

func toJSON(v interface{}) []byte {
	b, err := json.Marshal(v)
	if err != nil {
		panic(err)
	}

	return b
}

func clone(v interface{}) interface{} {
	switch x := v.(type) {
	case map[string]interface{}:
		m := make(map[string]interface{}, len(x))
		for k, e := range x {
			m[k] = clone(e)
		}

		return m
	case []interface{}:
		a := make([]interface{}, len(x))
		for i, e := range x {
			a[i] = clone(e)
		}

		return a
	}

	return v
}

// normalise re-reads any Go value (float64 numbers etc.) as a json.Number tree.
func normalise(v interface{}) interface{} {
	t, err := parseJSON(toJSON(v))
	if err != nil {
		panic(err)
	}

	return t
}

// coqJSON prints a tree as a term of common/Json.v (object members sorted by key, as encoding/json prints maps).
func coqJSON(v interface{}) string {
	var b strings.Builder

	writeCoq(&b, v)

	return b.String()
}

func writeCoq(b *strings.Builder, v interface{}) {
	switch x := v.(type) {
	case nil:
		b.WriteString("JNull")
	case bool:
		if x {
			b.WriteString("JBool true")
		} else {
			b.WriteString("JBool false")
		}
	case json.Number:
		s := x.String()
		if isInt(s) && len(s) < 18 {
			b.WriteString("JNum (" + s + ")%Z")
		} else {
			b.WriteString("JStr " + cs("#num:"+s))
		}
	case float64:
		writeCoq(b, normalise(x))
	case int:
		b.WriteString(fmt.Sprintf("JNum (%d)%%Z", x))
	case string:
		b.WriteString("JStr " + cs(x))
	case []interface{}:
		b.WriteString("JArr [")

		for i, e := range x {
			if i > 0 {
				b.WriteString("; ")
			}

			if needsParen(e) {
				b.WriteString("(")
				writeCoq(b, e)
				b.WriteString(")")
			} else {
				writeCoq(b, e)
			}
		}

		b.WriteString("]")
	case map[string]interface{}:
		b.WriteString("JObj [")

		ks := make([]string, 0, len(x))
		for k := range x {
			ks = append(ks, k)
		}

		sort.Strings(ks)

		for i, k := range ks {
			if i > 0 {
				b.WriteString("; ")
			}

			b.WriteString("(" + cs(k) + ", ")
			writeCoq(b, x[k])
			b.WriteString(")")
		}

		b.WriteString("]")
	default:
		panic(fmt.Sprintf("coqJSON: unsupported %T", v))
	}
}

func needsParen(v interface{}) bool { return v != nil }

func isInt(s string) bool {
	if s == "" {
		return false
	}

	for i, c := range s {
		if c == '-' && i == 0 && len(s) > 1 {
			continue
		}

		if c < '0' || c > '9' {
			return false
		}
	}

	return true
}

// coqObjMembers prints the member list of an object (the model's `obj`).
func coqObj(m map[string]interface{}) string {
	s := coqJSON(m)

	return strings.TrimPrefix(s, "JObj ")
}

// --- paths ---

type path []interface{} // string (member) or int (index)

func (p path) String() string {
	var b strings.Builder

	for _, e := range p {
		switch x := e.(type) {
		case string:
			b.WriteString("/" + x)
		case int:
			b.WriteString(fmt.Sprintf("/%d", x))
		}
	}

	return b.String()
}

func (p path) with(e interface{}) path {
	q := make(path, len(p)+1)
	copy(q, p)
	q[len(p)] = e

	return q
}

func get(v interface{}, p path) interface{} {
	for _, e := range p {
		switch x := e.(type) {
		case string:
			v = v.(map[string]interface{})[x] //nolint:forcetypeassert
		case int:
			v = v.([]interface{})[x] //nolint:forcetypeassert
		}
	}

	return v
}

// set replaces the value at p (p non-empty) in root and returns root.
func set(root interface{}, p path, val interface{}) {
	parent := get(root, p[:len(p)-1])

	switch x := p[len(p)-1].(type) {
	case string:
		parent.(map[string]interface{})[x] = val //nolint:forcetypeassert
	case int:
		parent.([]interface{})[x] = val //nolint:forcetypeassert
	}
}

// del removes the member / element at p.
func del(root interface{}, p path) {
	pp := p[:len(p)-1]
	parent := get(root, pp)

	switch x := p[len(p)-1].(type) {
	case string:
		delete(parent.(map[string]interface{}), x) //nolint:forcetypeassert
	case int:
		a := parent.([]interface{}) //nolint:forcetypeassert
		na := append(append([]interface{}{}, a[:x]...), a[x+1:]...)
		set(root, pp, na)
	}
}

type node struct {
	p    path
	kind string // leaf | obj | arr
}

// walk lists every node below v (not v itself when top is true).
func walk(v interface{}, p path, out *[]node) {
	switch x := v.(type) {
	case map[string]interface{}:
		*out = append(*out, node{p, "obj"})

		ks := make([]string, 0, len(x))
		for k := range x {
			ks = append(ks, k)
		}

		sort.Strings(ks)

		for _, k := range ks {
			walk(x[k], p.with(k), out)
		}
	case []interface{}:
		*out = append(*out, node{p, "arr"})

		for i, e := range x {
			walk(e, p.with(i), out)
		}
	default:
		*out = append(*out, node{p, "leaf"})
	}
}

func (p path) under(first string) bool {
	if len(p) == 0 {
		return false
	}

	s, ok := p[0].(string)

	return ok && s == first
}

func (p path) has(key string) bool {
	for _, e := range p {
		if s, ok := e.(string); ok && s == key {
			return true
		}
	}

	return false
}

func (p path) lastKey() string {
	for i := len(p) - 1; i >= 0; i-- {
		if s, ok := p[i].(string); ok {
			return s
		}
	}

	return ""
}

func (p path) inArray() bool {
	for _, e := range p {
		if _, ok := e.(int); ok {
			return true
		}
	}

	return false
}

// ---------- string interning for the Gallina terms ----------
// Elaborating long string literals dominates coqc's time, and the model treats strings as opaque except for
// equality, emptiness and splitting at '.' and '#'.  Every segment (between '.' / '#') longer than 5 bytes that is
// not a constant the model knows is replaced by a short token "~n", consistently over the whole run (injective).

var (
	internTab = map[string]string{} //nolint:gochecknoglobals
	reserved  = map[string]bool{    //nolint:gochecknoglobals
		"@context": true, "proof": true, "holder": true, "issuer": true, "issuanceDate": true, "expirationDate": true, "created": true, "creator": true, "verificationMethod": true, "proofValue": true,
		"proofPurpose": true, "domain": true, "nonce": true, "challenge": true, "capabilityChain": true, "cryptosuite": true,
		"previousProof": true, "assertionMethod": true, "authentication": true, "ecdsa-2019": true, "DataIntegrityProof": true,
		"Ed25519Signature2018": true, "JsonWebSignature2020": true, "EcdsaSecp256k1Signature2019": true,
		"BbsBlsSignature2020": true, "BbsBlsSignatureProof2020": true, "Ed25519Signature2020": true,
		"https://w3id.org/security/v2": true, "https://w3id.org/security/jws/v1": true,
	}
)

func shorten(s string) string {
	if reserved[s] || len(s) <= 5 {
		return s
	}

	var b strings.Builder

	start := 0

	flush := func(end int) {
		seg := s[start:end]
		if len(seg) <= 5 || reserved[seg] {
			b.WriteString(seg)
			return
		}

		t, ok := internTab[seg]
		if !ok {
			t = fmt.Sprintf("~%d", len(internTab))
			internTab[seg] = t
		}

		b.WriteString(t)
	}

	for i := 0; i < len(s); i++ {
		if s[i] == '.' || s[i] == '#' {
			flush(i)
			b.WriteByte(s[i])
			start = i + 1
		}
	}

	flush(len(s))

	return b.String()
}

func cs(s string) string { return hx.CoqString(shorten(s)) }

// lastPrefix marks a member that must be printed AFTER the other members of its object (an attacker chooses the
// member order of the bytes; encoding/json lets the later of two members that fold to the same struct field win).
const lastPrefix = "~last~"

// orderedJSON prints a tree with sorted member names, members marked with lastPrefix last (mark removed).
func orderedJSON(v interface{}) []byte {
	var b bytes.Buffer

	writeOrdered(&b, v)

	return b.Bytes()
}

func writeOrdered(b *bytes.Buffer, v interface{}) {
	switch x := v.(type) {
	case map[string]interface{}:
		var ks, late []string

		for k := range x {
			if strings.HasPrefix(k, lastPrefix) {
				late = append(late, k)
			} else {
				ks = append(ks, k)
			}
		}

		sort.Strings(ks)
		sort.Strings(late)
		b.WriteByte('{')

		for i, k := range append(ks, late...) {
			if i > 0 {
				b.WriteByte(',')
			}

			b.Write(toJSON(strings.TrimPrefix(k, lastPrefix)))
			b.WriteByte(':')
			writeOrdered(b, x[k])
		}

		b.WriteByte('}')
	case []interface{}:
		b.WriteByte('[')

		for i, e := range x {
			if i > 0 {
				b.WriteByte(',')
			}

			writeOrdered(b, e)
		}

		b.WriteByte(']')
	default:
		b.Write(toJSON(v))
	}
}
