package main

import (
	"encoding/json"
	"fmt"
	"os"
	"strings"
	"time"

	"verifharness/hx"
)

type gen struct {
	rng       *hx.Rng
	w         *world
	n         int
	lastProof map[string]interface{}
	spareJWT  string // another valid JWT credential of the same issuer, not part of the presentation that was signed
	// number of embedded credentials of the current presentation whose own proof was broken before the holder signed
	embeddedBroken int
}

func (g *gen) fresh(prefix string) string {
	g.n++

	return fmt.Sprintf("%s%d", prefix, g.n)
}

var claimKeys = []string{"a0", "a1", "a2", "a3", "a4", "a5", "a6", "a7"} //nolint:gochecknoglobals

// value generates a claim value of nesting depth <= d.
func (g *gen) value(r *hx.Rng, d int) interface{} {
	k := r.Intn(10)
	if d <= 0 && k >= 5 {
		k = r.Intn(5)
	}

	switch k {
	case 0, 1:
		return g.fresh("v")
	case 2:
		g.n++

		return json.Number(fmt.Sprintf("%d", g.n+100))
	case 3:
		return r.Bool()
	case 4: // array of strings
		n := 2 + r.Intn(3)
		a := make([]interface{}, n)

		for i := range a {
			a[i] = g.fresh("s")
		}

		return a
	case 5, 6: // nested object
		return g.object(r, d-1, r.Intn(3) == 0)
	default: // array of objects
		n := 1 + r.Intn(3)
		a := make([]interface{}, n)

		for i := range a {
			a[i] = g.object(r, d-1, false)
		}

		return a
	}
}

func (g *gen) object(r *hx.Rng, d int, typed bool) map[string]interface{} {
	o := map[string]interface{}{}
	if typed {
		o["type"] = "Thing"
	}

	if r.Intn(4) == 0 {
		o["id"] = "urn:verif:" + g.fresh("n")
	}

	n := 1 + r.Intn(3)
	for i := 0; i < n; i++ {
		o[claimKeys[r.Intn(len(claimKeys))]] = g.value(r, d)
	}

	return o
}

func (g *gen) subject(r *hx.Rng) map[string]interface{} {
	s := g.object(r, 2, false)
	delete(s, "id")

	if r.Intn(5) != 0 {
		s["id"] = "did:example:" + g.fresh("subj")
	}

	if r.Intn(3) == 0 {
		s["when"] = fmt.Sprintf("20%02d-0%d-1%dT0%d:00:00Z", 10+r.Intn(10), 1+r.Intn(9), r.Intn(9), r.Intn(9))
	}

	if r.Intn(3) == 0 {
		s["ref"] = "urn:verif:" + g.fresh("ref")
	}

	if r.Intn(3) == 0 {
		s["seq"] = []interface{}{g.fresh("q"), g.fresh("q"), g.fresh("q")}
	}

	// an array of at least two objects is always present somewhere (undefined terms inside arrays)
	if r.Intn(2) == 0 {
		s["a8"] = []interface{}{g.object(r, 1, false), g.object(r, 1, true)}
	}

	// a claim whose term the context maps to a BLANK-NODE identifier ("b0": "_:b0")
	if r.Intn(3) == 0 {
		s["b0"] = g.fresh("level")
	}

	// arrays whose elements are node references: objects holding nothing but an id (they compact to the plain id),
	// alone, in pairs, and mixed with strings and with ordinary objects
	switch r.Intn(5) {
	case 0:
		s["a7"] = []interface{}{g.bareID(), g.bareID()}
	case 1:
		s["a7"] = []interface{}{g.bareID(), g.fresh("s"), g.object(r, 0, false)}
	case 2:
		s["a7"] = []interface{}{g.bareID()}
	case 3:
		s["ref"] = []interface{}{g.bareID(), "urn:verif:" + g.fresh("ref"), g.bareID()}
	}

	return s
}

func (g *gen) bareID() map[string]interface{} {
	return map[string]interface{}{"id": "urn:verif:" + g.fresh("node")}
}

func (g *gen) credential(r *hx.Rng, extraCtx string) map[string]interface{} {
	ctx := []interface{}{vcCtx, ctxURL}
	if extraCtx != "" {
		ctx = append(ctx, extraCtx)
	}

	vc := map[string]interface{}{
		"@context":     ctx,
		"id":           "urn:uuid:" + g.fresh("c"),
		"type":         []interface{}{"VerifiableCredential", "VerifCredential"},
		"issuanceDate": fmt.Sprintf("20%02d-01-0%dT00:00:00Z", 10+r.Intn(10), 1+r.Intn(9)),
	}

	if r.Bool() {
		vc["issuer"] = "did:example:" + g.fresh("issuer")
	} else {
		vc["issuer"] = map[string]interface{}{"id": "did:example:" + g.fresh("issuer"), "name": g.fresh("Issuer ")}
	}

	if r.Intn(3) == 0 {
		vc["expirationDate"] = fmt.Sprintf("20%02d-01-0%dT00:00:00Z", 30+r.Intn(10), 1+r.Intn(9))
	}

	switch r.Intn(8) {
	case 0, 1:
		vc["credentialSubject"] = []interface{}{g.subject(r), g.subject(r)}
	case 2:
		// several subjects named by their ids only
		vc["credentialSubject"] = []interface{}{
			map[string]interface{}{"id": "did:example:" + g.fresh("subj")},
			map[string]interface{}{"id": "did:example:" + g.fresh("subj")},
			map[string]interface{}{"id": "did:example:" + g.fresh("subj")},
		}
	case 3:
		vc["credentialSubject"] = []interface{}{map[string]interface{}{"id": "did:example:" + g.fresh("subj")}, g.subject(r)}
	default:
		vc["credentialSubject"] = g.subject(r)
	}

	if r.Intn(4) == 0 {
		vc["evidence"] = []interface{}{
			map[string]interface{}{"id": "urn:verif:" + g.fresh("ev"), "type": []interface{}{"Thing"}, "a1": g.fresh("v")},
			map[string]interface{}{"id": "urn:verif:" + g.fresh("ev"), "type": []interface{}{"Other"}},
		}
	}

	if r.Intn(4) == 0 {
		vc["termsOfUse"] = []interface{}{
			map[string]interface{}{"id": "urn:verif:" + g.fresh("tou"), "type": "Thing"},
			map[string]interface{}{"type": "Other", "a2": g.fresh("v")},
		}
	}

	return vc
}

func (g *gen) presentation(r *hx.Rng, extraCtx string) map[string]interface{} {
	ctx := []interface{}{vcCtx, ctxURL}
	if extraCtx != "" {
		ctx = append(ctx, extraCtx)
	}

	n := 1 + r.Intn(2)
	creds := make([]interface{}, n)

	for i := range creds {
		creds[i] = g.credential(r, "")
	}

	// embedded credentials with their OWN issuer proof (Ed25519Signature2018): intact, or with a claim altered after the
	// issuer signed and before the holder signs the presentation (the presentation proof then covers a credential
	// whose own proof is invalid: ParsePresentation does not check proofs of embedded credential objects)
	g.embeddedBroken = 0

	for i := range creds {
		if r.Intn(2) == 0 {
			continue
		}

		sd0 := g.w.suites[0]

		vcSigned, err := g.w.signVC(creds[i].(map[string]interface{}), signOpts{suite: sd0, key: sd0.keys[0], //nolint:forcetypeassert
			created: time.Date(2020, 5, 6, 7, 8, 9, 0, time.UTC)})
		if err != nil {
			continue
		}

		if r.Bool() {
			vcSigned["issuanceDate"] = "2001-01-01T00:00:00Z"
			g.embeddedBroken++
		}

		creds[i] = vcSigned
	}

	// every other presentation also carries credentials in JWT form (compact JWS strings)
	g.spareJWT = ""

	if r.Bool() {
		for i := 0; i < 1+r.Intn(2); i++ {
			if j, err := g.w.jwtCredential(g.credential(r, "")); err == nil {
				creds = append(creds, j)
			}
		}

		if j, err := g.w.jwtCredential(g.credential(r, "")); err == nil {
			g.spareJWT = j
		}
	}

	return map[string]interface{}{
		"@context":             ctx,
		"id":                   "urn:uuid:" + g.fresh("p"),
		"type":                 []interface{}{"VerifiablePresentation"},
		"holder":               "did:example:" + g.fresh("holder"),
		"verifiableCredential": creds,
	}
}

// signedDoc generates a document and signs it through the real API (sometimes twice: a proof set).
func (g *gen) signedDoc(r *hx.Rng, kind string, sd *suiteDef, idx int) (map[string]interface{}, int, error) {
	g.w.diExpect = [3]string{}

	var doc map[string]interface{}
	if kind == "vc" {
		doc = g.credential(r, sd.extra)
	} else {
		doc = g.presentation(r, sd.extra)
	}

	sign := g.w.signVC
	if kind == "vp" {
		sign = g.w.signVP
	}

	var k0 *keyInfo
	if len(sd.keys) > 0 {
		k0 = sd.keys[r.Intn(len(sd.keys))]
	}

	so := signOpts{suite: sd, key: k0,
		created: time.Date(2021, time.Month(1+r.Intn(12)), 1+r.Intn(28), r.Intn(24), r.Intn(60), r.Intn(60), 0, time.UTC)}

	// a third of the documents are signed with a local time of a non-UTC zone
	switch idx % 3 {
	case 1:
		so.created = so.created.In(time.FixedZone("", 2*3600))
	case 2:
		if idx%2 == 0 {
			so.created = so.created.In(time.FixedZone("", -(5*3600 + 30*60)))
		}
	}

	if r.Intn(3) != 0 {
		so.domain = g.fresh("domain")
	}

	if r.Intn(3) != 0 {
		so.challenge = g.fresh("challenge")
	}

	if r.Intn(3) == 0 {
		so.purpose = "authentication"
	}

	if idx%3 == 1 && !sd.di {
		so.nonce = []byte(g.fresh("nonce"))
	}

	if sd.di {
		// Data Integrity documents cycle through the presence patterns of domain and challenge
		switch (idx / len(g.w.suites)) % 4 {
		case 0:
			so.domain, so.challenge = "", g.fresh("challenge")
		case 1:
			so.domain, so.challenge = g.fresh("domain"), g.fresh("challenge")
		case 2:
			so.domain, so.challenge = g.fresh("domain"), ""
		default:
			so.domain, so.challenge = "", ""
		}

		key := g.w.di.keys[r.Intn(2)]
		if so.purpose == "authentication" && len(key.purposes) < 2 {
			key = g.w.di.keys[0]
		}

		signed, err := g.w.signDI(kind, doc, key, so.created, so.purpose, so.domain, so.challenge)

		// what the verifier is configured to expect of the proof: the purpose it was made for, and sometimes the
		// domain and challenge as well
		g.w.diExpect = [3]string{so.purpose, "", ""}
		if r.Intn(3) == 0 {
			g.w.diExpect = [3]string{so.purpose, so.domain, so.challenge}
		}

		return signed, 1, err
	}

	signed, err := sign(doc, so)
	if err != nil {
		return nil, 0, err
	}

	n := 1

	if idx%5 == 4 && sd.extra == "" {
		// a second proof by another suite / key over the same document
		sd2 := g.w.suites[(idx/5)%len(g.w.suites)]
		if sd2.extra == "" && !sd2.di {
			so2 := signOpts{suite: sd2, key: sd2.keys[r.Intn(len(sd2.keys))],
				created: time.Date(2022, time.Month(1+r.Intn(12)), 1+r.Intn(28), 1, 2, 3, 0, time.UTC), challenge: g.fresh("challenge")}

			signed, err = sign(signed, so2)
			if err != nil {
				return nil, 0, fmt.Errorf("second proof: %w", err)
			}

			n = 2
		}
	}

	return signed, n, nil
}

// ---------- edits ----------

type edit struct {
	name   string
	class  string // identity | must-reject | undef | unverify | model
	apply  func(d map[string]interface{}) bool
	badKey string
	keep   bool // never sampled away by the per-node cap
}

func changed(v interface{}) interface{} {
	switch x := v.(type) {
	case string:
		return x + "x"
	case json.Number:
		return json.Number(x.String() + "1")
	case bool:
		return !x
	case nil:
		return "x"
	}

	return v
}

func proofPath(d map[string]interface{}, i int) path {
	if _, ok := d["proof"].([]interface{}); ok {
		return path{"proof", i}
	}

	return path{"proof"}
}

func (g *gen) edits(r *hx.Rng, kind string, sd *suiteDef, signed map[string]interface{}, nproofs, leafCap int) (out []edit) {
	var es []edit

	defer func() {
		// cap the number of per-leaf / per-node edits (sampled with the case's generator), keep all the others
		var fixed, perNode []edit

		for _, e := range es {
			switch editKind(e.name) {
			case "change", "delete", "dup", "undef", "undefobj", "addclaim", "dupobj", "delobj", "reorder", "structwrap":
				if e.keep {
					fixed = append(fixed, e)
				} else {
					perNode = append(perNode, e)
				}
			default:
				fixed = append(fixed, e)
			}
		}

		for len(perNode) > leafCap {
			i := r.Intn(len(perNode))
			perNode = append(perNode[:i], perNode[i+1:]...)
		}

		es = append(fixed, perNode...)
		out = es
	}()

	add := func(name, class string, f func(d map[string]interface{}) bool) {
		es = append(es, edit{name: name, class: class, apply: f})
	}

	add("identity", "identity", func(d map[string]interface{}) bool { return true })

	var nodes []node

	walk(signed, nil, &nodes)

	var claimLeaves []node

	for _, n := range nodes {
		n := n
		if len(n.p) == 0 {
			continue
		}

		inProof := n.p.under("proof")

		switch n.kind {
		case "leaf":
			if inProof {
				continue
			}

			claimLeaves = append(claimLeaves, n)

			if s0, isStr := get(signed, n.p).(string); isStr && kind == "vp" && len(n.p) == 2 && n.p.under("verifiableCredential") &&
				strings.Count(s0, ".") == 2 {
				// a credential in JWT form inside the presentation
				add("jwtcreddelete "+n.p.String(), "must-reject", func(d map[string]interface{}) bool {
					del(d, n.p)
					return true
				})

				if g.spareJWT != "" {
					spare := g.spareJWT

					add("jwtcredswap "+n.p.String(), "must-reject", func(d map[string]interface{}) bool {
						set(d, n.p, spare)
						return true
					})
					add("jwtcredinsert "+n.p.String(), "must-reject", func(d map[string]interface{}) bool {
						a, _ := d["verifiableCredential"].([]interface{})
						d["verifiableCredential"] = append(append([]interface{}{}, a...), spare)

						return true
					})
				}

				continue
			}

			leafClass := "must-reject"
			if n.p.has("@context") {
				// a context entry the signed content uses no term of can be dropped or altered without changing the
				// RDF dataset; only the two contexts every generated credential uses are certain to matter
				v, _ := get(signed, n.p).(string)
				if kind == "vp" || len(n.p) != 2 || (v != vcCtx && v != ctxURL) {
					leafClass = "model"
				}
			}

			add("change "+n.p.String(), leafClass, func(d map[string]interface{}) bool {
				set(d, n.p, changed(get(d, n.p)))
				return true
			})
			add("delete "+n.p.String(), leafClass, func(d map[string]interface{}) bool {
				del(d, n.p)
				return true
			})

			if _, isIdx := n.p[len(n.p)-1].(int); isIdx {
				add("dup "+n.p.String(), "model", func(d map[string]interface{}) bool {
					pp := n.p[:len(n.p)-1]
					a, _ := get(d, pp).([]interface{})
					set(d, pp, append(append([]interface{}{}, a...), clone(get(d, n.p))))

					return true
				})
			}
		case "obj":
			if len(n.p) == 0 {
				continue
			}

			class := "undef"

			add("undef "+n.p.String(), class, func(d map[string]interface{}) bool {
				o, _ := get(d, n.p).(map[string]interface{})
				o["zz_undef"] = "u"

				return true
			})

			// every element of every array keeps its add-undefined edit
			if !inProof && n.p.inArray() {
				es[len(es)-1].keep = true
			}

			if !inProof && r.Intn(3) == 0 {
				add("undefobj "+n.p.String(), class, func(d map[string]interface{}) bool {
					o, _ := get(d, n.p).(map[string]interface{})
					o["zz_undef"] = map[string]interface{}{"a1": "hidden", "zz_more": []interface{}{"p", "q"}}

					return true
				})
			}

			if !inProof && (n.p.under("credentialSubject") || n.p.under("verifiableCredential")) {
				add("addclaim "+n.p.String(), "must-reject", func(d map[string]interface{}) bool {
					o, _ := get(d, n.p).(map[string]interface{})
					if _, has := o["a9"]; has {
						return false
					}

					o["a9"] = "added"

					return true
				})
			}

			if !inProof {
				if _, isIdx := n.p[len(n.p)-1].(int); isIdx {
					add("dupobj "+n.p.String(), "model", func(d map[string]interface{}) bool {
						pp := n.p[:len(n.p)-1]
						a, _ := get(d, pp).([]interface{})
						set(d, pp, append(append([]interface{}{}, a...), clone(get(d, n.p))))

						return true
					})
					add("delobj "+n.p.String(), "must-reject", func(d map[string]interface{}) bool {
						del(d, n.p)
						return true
					})
				}
			}
		case "arr":
			if inProof {
				continue
			}

			a, _ := get(signed, n.p).([]interface{})
			if len(a) >= 2 {
				add("reorder "+n.p.String(), "model", func(d map[string]interface{}) bool {
					x, _ := get(d, n.p).([]interface{})
					x[0], x[1] = x[1], x[0]

					return true
				})
			}

			if len(a) >= 2 {
				if o0, isObj := a[0].(map[string]interface{}); isObj && o0 != nil {
					add("undefnested "+n.p.String(), "undef", func(d map[string]interface{}) bool {
						x, _ := get(d, n.p).([]interface{})
						e0, _ := x[0].(map[string]interface{})
						e0["zz_undef"] = "u"
						set(d, n.p, []interface{}{x, []interface{}{}})

						return true
					})
				}
			}

			add("structwrap "+n.p.String(), "model", func(d map[string]interface{}) bool {
				set(d, n.p, []interface{}{get(d, n.p)})
				return true
			})
		}
	}

	// a type that no context defines: a relative IRI, i.e. invalid RDF, which default verification refuses
	add("addtype /", "must-reject", func(d map[string]interface{}) bool {
		switch t := d["type"].(type) {
		case []interface{}:
			d["type"] = append(append([]interface{}{}, t...), "zz_UndefinedType")
		case string:
			d["type"] = []interface{}{t, "zz_UndefinedType"}
		default:
			return false
		}

		return true
	})

	// undefined property at the top level
	add("undef /", "undef", func(d map[string]interface{}) bool { d["zz_undef"] = "u"; return true })
	add("undefarr /", "undef", func(d map[string]interface{}) bool {
		d["zz_undef"] = []interface{}{map[string]interface{}{"a1": "h1"}, map[string]interface{}{"a1": "h2"}}
		return true
	})

	// move: swap the values of two string leaves that sit under different keys
	for t := 0; t < 3 && len(claimLeaves) >= 2; t++ {
		a, b := claimLeaves[r.Intn(len(claimLeaves))], claimLeaves[r.Intn(len(claimLeaves))]
		va, oka := get(signed, a.p).(string)
		vb, okb := get(signed, b.p).(string)

		if !oka || !okb || va == vb || a.p.lastKey() == b.p.lastKey() || a.p.under("@context") || b.p.under("@context") {
			continue
		}

		if a.p.lastKey() == "type" || b.p.lastKey() == "type" {
			continue
		}

		// two positions of one array: exchanging elements of a set (a string and a {"id": ...} reference under an
		// @id-typed term are the same node) is a reordering, not a change of content
		if divergeAtIndex(a.p, b.p) {
			continue
		}

		add("move "+a.p.String()+" "+b.p.String(), "must-reject", func(d map[string]interface{}) bool {
			set(d, a.p, vb)
			set(d, b.p, va)

			return true
		})
	}

	// members whose names differ from a member of the data model by letter case only, placed AFTER the real member in
	// the bytes (encoding/json folds case when it fills the typed credential / presentation)
	cv := func(name string, at path, key string, val interface{}) {
		es = append(es, edit{name: "casevariant " + at.String() + "/" + key, class: "casevariant", apply: func(d map[string]interface{}) bool {
			o, ok := get(d, at).(map[string]interface{})
			if !ok {
				return false
			}

			o[lastPrefix+key] = clone(val)

			return true
		}})
		_ = name
	}

	evilSubject := map[string]interface{}{"id": "did:example:evil", "a1": "forged"}

	if kind == "vc" {
		cv("", nil, "Issuer", "did:example:evil")
		cv("", nil, "ISSUER", "did:example:evil")
		cv("", nil, "IssuanceDate", "1999-01-01T00:00:00Z")
		cv("", nil, "ExpirationDate", "2999-01-01T00:00:00Z")
		cv("", nil, "ID", "urn:evil:id")
		cv("", nil, "Id", "urn:evil:id")
		cv("", nil, "iD", "urn:evil:id")
		cv("", nil, "Type", []interface{}{"VerifiableCredential", "OtherCredential"})
		cv("", nil, "CredentialSubject", evilSubject)
		cv("", nil, "Proof", []interface{}{})

		if _, isObj := signed["issuer"].(map[string]interface{}); isObj {
			cv("", path{"issuer"}, "ID", "did:example:evil")
			cv("", path{"issuer"}, "Name", "Evil")
		}

		switch cs := signed["credentialSubject"].(type) {
		case map[string]interface{}:
			cv("", path{"credentialSubject"}, "ID", "did:example:evil")
			cv("", path{"credentialSubject"}, "Id", "did:example:evil")
		case []interface{}:
			if _, isObj := cs[0].(map[string]interface{}); isObj {
				cv("", path{"credentialSubject", 0}, "ID", "did:example:evil")
			}
		}
	} else {
		cv("", nil, "Holder", "did:example:evil")
		cv("", nil, "ID", "urn:evil:id")
		cv("", nil, "Type", []interface{}{"VerifiablePresentation", "OtherCredential"})
		cv("", nil, "VerifiableCredential", []interface{}{})
		cv("", nil, "Proof", []interface{}{})
	}

	// the verifier is configured with the suites of some proof types only
	{
		var types []string

		for i := 0; i < nproofs; i++ {
			pm, _ := get(signed, proofPath(signed, i)).(map[string]interface{})
			types = append(types, strOf(pm["type"]))
		}

		if !sd.di {
			for i := range types {
				i := i
				only := []string{types[i]}

				es = append(es, edit{name: fmt.Sprintf("suitesubset only#%d", i), class: "model", apply: func(d map[string]interface{}) bool {
					g.w.suiteSubset = only
					return true
				}})

				if nproofs > 1 {
					j := (i + 1) % nproofs

					es = append(es, edit{name: fmt.Sprintf("suitesubsettamper only#%d", i), class: "must-reject", apply: func(d map[string]interface{}) bool {
						g.w.suiteSubset = only
						m, _ := get(d, proofPath(d, j)).(map[string]interface{})

						for _, h := range []string{"proofValue", "jws"} {
							if sv := strOf(m[h]); len(sv) > 12 {
								c := byte('A')
								if sv[len(sv)-10] == 'A' {
									c = 'B'
								}

								m[h] = sv[:len(sv)-10] + string(c) + sv[len(sv)-9:]
							}
						}

						return true
					}})
				}
			}

			// only a suite of a type that none of the proofs has
			for _, s2 := range g.w.suites {
				if !s2.di && !contains(types, s2.name) {
					other := []string{s2.name}

					es = append(es, edit{name: "suitesubset other", class: "model", apply: func(d map[string]interface{}) bool {
						g.w.suiteSubset = other
						return true
					}})

					break
				}
			}
		}
	}

	// proof options
	for i := 0; i < nproofs; i++ {
		i := i
		pp := proofPath(signed, i)
		pm, _ := get(signed, pp).(map[string]interface{})

		for _, k := range []string{"created", "verificationMethod", "proofPurpose", "domain", "challenge", "type"} {
			k := k
			if _, has := pm[k]; !has {
				if k == "domain" || k == "challenge" {
					add(fmt.Sprintf("optadd %s#%d", k, i), "must-reject", func(d map[string]interface{}) bool {
						m, _ := get(d, proofPath(d, i)).(map[string]interface{})
						m[k] = "injected"

						return true
					})
				}

				continue
			}

			add(fmt.Sprintf("optchange %s#%d", k, i), "must-reject", func(d map[string]interface{}) bool {
				m, _ := get(d, proofPath(d, i)).(map[string]interface{})

				switch k {
				case "created":
					m[k] = strings.Replace(strOf(m[k]), "T", "T1", 1)
					if _, err := time.Parse(time.RFC3339, strOf(m[k])); err != nil {
						m[k] = "2019-12-31T23:59:59Z"
					}
				case "type":
					if strOf(m[k]) == "Ed25519Signature2018" {
						m[k] = "Ed25519Signature2020"
					} else {
						m[k] = "Ed25519Signature2018"
					}
				case "proofPurpose":
					if strOf(m[k]) == "authentication" {
						m[k] = "assertionMethod"
					} else {
						m[k] = "authentication"
					}
				default:
					m[k] = strOf(m[k]) + "x"
				}

				return true
			})
			add(fmt.Sprintf("optdelete %s#%d", k, i), "must-reject", func(d map[string]interface{}) bool {
				m, _ := get(d, proofPath(d, i)).(map[string]interface{})
				delete(m, k)

				return true
			})
		}

		// TYPE changes: the option keeps its text but arrives as an object holding it as id (plus foreign members), as a
		// one-element array, or as a number
		for _, k := range []string{"created", "verificationMethod", "proofPurpose", "domain", "challenge", "type", "nonce", "creator"} {
			k := k

			sv, isStr := pm[k].(string)
			if !isStr {
				continue
			}

			tClass := "must-reject"
			if _, isJWS := pm["jws"]; k == "nonce" && !isJWS {
				tClass = "model" // the nonce is not part of the digest in the proofValue representation
			}

			add(fmt.Sprintf("opttype obj %s#%d", k, i), tClass, func(d map[string]interface{}) bool {
				m, _ := get(d, proofPath(d, i)).(map[string]interface{})
				m[k] = map[string]interface{}{"id": sv, "controller": "did:example:evil", "publicKeyBase58": "evil"}

				return true
			})
			add(fmt.Sprintf("opttype arr %s#%d", k, i), tClass, func(d map[string]interface{}) bool {
				m, _ := get(d, proofPath(d, i)).(map[string]interface{})
				m[k] = []interface{}{sv}

				return true
			})

			{
				add(fmt.Sprintf("opttype num %s#%d", k, i), tClass, func(d map[string]interface{}) bool {
					m, _ := get(d, proofPath(d, i)).(map[string]interface{})
					m[k] = json.Number("7")

					return true
				})
			}
		}

		// other literals of the same instant: the digest is over the RECEIVED `created` literal (linked-data suites);
		// Data Integrity re-formats the parsed time (the model decides there)
		if cr := strOf(pm["created"]); strings.HasSuffix(cr, "Z") {
			crClass := "must-reject"
			if sd.di {
				crClass = "model"
			}

			for _, v := range [][2]string{{"nozone", strings.TrimSuffix(cr, "Z")}, {"offset", strings.TrimSuffix(cr, "Z") + "+00:00"},
				{"frac", strings.TrimSuffix(cr, "Z") + ".000Z"}, {"frac0", strings.TrimSuffix(cr, "Z") + ".0Z"}} {
				v := v

				add(fmt.Sprintf("optcreatedvar %s#%d", v[0], i), crClass, func(d map[string]interface{}) bool {
					m, _ := get(d, proofPath(d, i)).(map[string]interface{})
					m["created"] = v[1]

					return true
				})
			}
		}

		// the same instant written with another NON-ZERO offset, another instant, a non-zero fraction of a second
		if t0, err := time.Parse(time.RFC3339Nano, strOf(pm["created"])); err == nil {
			_, off := t0.Zone()
			zone := time.FixedZone("", 2*3600)

			if off == 2*3600 {
				zone = time.FixedZone("", -(5*3600 + 30*60))
			}

			for _, v := range [][2]string{{"shift", t0.In(zone).Format(time.RFC3339)}, {"instant", t0.Add(2 * time.Hour).Format(time.RFC3339)},
				{"fracnz", t0.Add(500 * time.Millisecond).Format(time.RFC3339Nano)}} {
				v := v

				add(fmt.Sprintf("optcreatedvar %s#%d", v[0], i), "must-reject", func(d map[string]interface{}) bool {
					m, _ := get(d, proofPath(d, i)).(map[string]interface{})
					m["created"] = v[1]

					return true
				})
			}
		}

		// nonce: covered by the digest in the detached-JWS representation, excluded in the proofValue representation
		{
			_, isJWS := pm["jws"]
			nClass := "model"

			if isJWS && !sd.di && strOf(pm["type"]) != "DataIntegrityProof" {
				nClass = "must-reject"
			}

			if _, has := pm["nonce"]; has {
				add(fmt.Sprintf("optnonce change#%d", i), nClass, func(d map[string]interface{}) bool {
					m, _ := get(d, proofPath(d, i)).(map[string]interface{})
					m["nonce"] = "b3RoZXItbm9uY2U"

					return true
				})
				add(fmt.Sprintf("optnonce delete#%d", i), nClass, func(d map[string]interface{}) bool {
					m, _ := get(d, proofPath(d, i)).(map[string]interface{})
					delete(m, "nonce")

					return true
				})
				add(fmt.Sprintf("optnonce reencode#%d", i), "model", func(d map[string]interface{}) bool {
					m, _ := get(d, proofPath(d, i)).(map[string]interface{})
					m["nonce"] = strOf(m["nonce"]) + "="

					return true
				})
			} else {
				add(fmt.Sprintf("optnonce add#%d", i), nClass, func(d map[string]interface{}) bool {
					m, _ := get(d, proofPath(d, i)).(map[string]interface{})
					m["nonce"] = "YWRkZWQtbm9uY2U"

					return true
				})
			}
		}

		// another key of the same suite: named in the proof, or handed out by the resolver
		signer := pm["verificationMethod"]

		var other *keyInfo

		for _, s := range g.w.suites {
			if s.name == strOf(pm["type"]) {
				for _, k := range s.keys {
					if k.id() != strOf(signer) && (other == nil || k.pub.JWK == nil) {
						other = k
					}
				}
			}
		}

		if other != nil {
			add(fmt.Sprintf("optotherkey #%d", i), "must-reject", func(d map[string]interface{}) bool {
				m, _ := get(d, proofPath(d, i)).(map[string]interface{})
				m["verificationMethod"] = other.id()

				return true
			})

			es = append(es, edit{name: fmt.Sprintf("resolverotherkey #%d", i), class: "must-reject",
				apply: func(d map[string]interface{}) bool {
					g.w.badFetch[strOf(signer)] = other
					return true
				}, badKey: strOf(signer)})
		}

		holder := "proofValue"
		if _, ok := pm["jws"]; ok {
			holder = "jws"
		}

		off := 8 + r.Intn(20)

		add(fmt.Sprintf("sigflip #%d", i), "must-reject", func(d map[string]interface{}) bool {
			m, _ := get(d, proofPath(d, i)).(map[string]interface{})
			s := strOf(m[holder])
			at := len(s) - off
			c := byte('A')

			if s[at] == 'A' {
				c = 'B'
			}

			m[holder] = s[:at] + string(c) + s[at+1:]

			return true
		})

		if holder == "jws" {
			add(fmt.Sprintf("jwsheader #%d", i), "must-reject", func(d map[string]interface{}) bool {
				m, _ := get(d, proofPath(d, i)).(map[string]interface{})
				parts := strings.Split(strOf(m["jws"]), ".")
				parts[0] = "eyJhbGciOiJub25lIn0"
				m["jws"] = strings.Join(parts, ".")

				return true
			})
			add(fmt.Sprintf("jwspayload #%d", i), "model", func(d map[string]interface{}) bool {
				m, _ := get(d, proofPath(d, i)).(map[string]interface{})
				parts := strings.Split(strOf(m["jws"]), ".")
				parts[1] = "e30"
				m["jws"] = strings.Join(parts, ".")

				return true
			})
		}

		add(fmt.Sprintf("optrename %s#%d", holder, i), "model", func(d map[string]interface{}) bool {
			m, _ := get(d, proofPath(d, i)).(map[string]interface{})
			to := "jws"

			if holder == "jws" {
				to = "proofValue"
			}

			m[to] = m[holder]
			delete(m, holder)

			return true
		})

		for _, kv := range [][2]string{{"nonce", "%%%"}, {"id", "urn:verif:proof"}, {"creator", "did:example:x#k"},
			{"zz_unknown", "u"}, {"capabilityChain", "notarray"}, {"previousProof", "urn:verif:previous"}} {
			kv := kv

			add(fmt.Sprintf("optinject %s=%s#%d", kv[0], kv[1], i), "model", func(d map[string]interface{}) bool {
				m, _ := get(d, proofPath(d, i)).(map[string]interface{})
				m[kv[0]] = kv[1]

				return true
			})
		}

		add(fmt.Sprintf("optnull created#%d", i), "must-reject", func(d map[string]interface{}) bool {
			m, _ := get(d, proofPath(d, i)).(map[string]interface{})
			m["created"] = nil

			return true
		})

		if nproofs > 1 {
			add(fmt.Sprintf("proofdrop #%d", i), "model", func(d map[string]interface{}) bool {
				del(d, path{"proof", i})
				return true
			})
		}
	}

	add("proofdelete", "unverify", func(d map[string]interface{}) bool { delete(d, "proof"); return true })
	add("proofnull", "unverify", func(d map[string]interface{}) bool { d["proof"] = nil; return true })
	add("proofempty", "unverify", func(d map[string]interface{}) bool { d["proof"] = []interface{}{}; return true })
	add("proofstring", "model", func(d map[string]interface{}) bool { d["proof"] = "x"; return true })
	add("proofwrap", "model", func(d map[string]interface{}) bool {
		if _, isArr := d["proof"].([]interface{}); isArr {
			return false
		}

		d["proof"] = []interface{}{d["proof"]}

		return true
	})
	add("jwtmember", "model", func(d map[string]interface{}) bool { d["jwt"] = "abc"; return true })

	// proof SETS made from the signed document by an attacker: a forged entry (a copy of a genuine entry naming another
	// verification method, with another signature text) or an entry of another proof family is put after / before the
	// genuine entries.  Every entry present must verify: none of these may be accepted with a verified proof.
	entriesOf := func(d map[string]interface{}) []interface{} {
		if a, isArr := d["proof"].([]interface{}); isArr {
			return append([]interface{}{}, a...)
		}

		return []interface{}{d["proof"]}
	}
	forgedOf := func(d map[string]interface{}) map[string]interface{} {
		es := entriesOf(d)

		f, _ := clone(es[0]).(map[string]interface{})
		if f == nil {
			return nil
		}

		f["verificationMethod"] = "did:example:mallory#k0"

		for _, h := range []string{"proofValue", "jws"} {
			if t, isStr := f[h].(string); isStr && len(t) > 4 {
				f[h] = t[:len(t)-3] + "AAA"
			}
		}

		return f
	}
	foreignOf := func(d map[string]interface{}) map[string]interface{} {
		// an entry of the other family: for a Data Integrity document the last linked-data proof seen, and the other way round
		for k, v := range g.lastProof {
			if m, isObj := v.(map[string]interface{}); isObj && (m["type"] == "DataIntegrityProof") != sd.di && k != "" {
				f, _ := clone(m).(map[string]interface{})

				return f
			}
		}

		return nil
	}

	for _, where := range []string{"append", "prepend"} {
		where := where

		for _, what := range []string{"forged", "foreign"} {
			what := what

			add("proofset "+where+" "+what, "must-reject", func(d map[string]interface{}) bool {
				var x map[string]interface{}
				if what == "forged" {
					x = forgedOf(d)
				} else {
					x = foreignOf(d)
				}

				if x == nil {
					return false
				}

				if where == "append" {
					d["proof"] = append(entriesOf(d), x)
				} else {
					d["proof"] = append([]interface{}{x}, entriesOf(d)...)
				}

				return true
			})
		}
	}

	// the proof of the previously signed document of the same suite
	if prev, ok := g.lastProof[sd.name+reprName(sd.repr)]; ok {
		add("prooftransplant", "must-reject", func(d map[string]interface{}) bool {
			d["proof"] = clone(prev)
			return true
		})
	}

	if g.lastProof == nil {
		g.lastProof = map[string]interface{}{}
	}

	if nproofs == 1 {
		g.lastProof[sd.name+reprName(sd.repr)] = clone(signed["proof"])
	}

	return es
}

// ---------- replay and corpus ----------

type op struct {
	Op    string          `json:"op"` // set | del
	Path  []interface{}   `json:"path"`
	Value json.RawMessage `json:"value,omitempty"`
}

func applyOps(d map[string]interface{}, ops []op) {
	for _, o := range ops {
		p := path{}

		for _, e := range o.Path {
			switch x := e.(type) {
			case float64:
				p = append(p, int(x))
			case json.Number:
				n, _ := x.Int64()
				p = append(p, int(n))
			case string:
				// a member name under an array means "of its first element" (a single proof may be printed as an array)
				if _, isArr := get(d, p).([]interface{}); isArr {
					p = append(p, 0)
				}

				p = append(p, x)
			}
		}

		switch o.Op {
		case "set":
			v, err := parseJSON(o.Value)
			must(err)
			set(d, p, v)
		case "del":
			del(d, p)
		}
	}
}

type corpusCase struct {
	Note     string                 `json:"note"`
	Kind     string                 `json:"kind"`
	Suite    string                 `json:"suite"`
	Repr     string                 `json:"repr"`
	Unsigned map[string]interface{} `json:"unsigned"`
	Ops      []op                   `json:"ops"`
	Class    string                 `json:"class"`
	Edit     string                 `json:"edit"`
	// credentials issued as JWT at run time (keys are fresh per run) and appended to verifiableCredential; SpareJWT is
	// issued too and replaces the value "$SPARE_JWT" in the ops
	JWTCreds []map[string]interface{} `json:"jwt_credentials,omitempty"`
	SpareJWT map[string]interface{}   `json:"spare_jwt,omitempty"`
}

func runCorpusCase(w *world, tr *hx.Trace, genName string, c corpusCase) {
	var sd *suiteDef

	for _, s := range w.suites {
		if s.name == c.Suite && reprName(s.repr) == c.Repr {
			sd = s
		}
	}

	if sd == nil || c.Unsigned == nil {
		fmt.Fprintln(os.Stderr, "c07: bad corpus/replay case")
		os.Exit(2)
	}

	un, _ := normalise(c.Unsigned).(map[string]interface{})

	for _, jc := range c.JWTCreds {
		j, err := w.jwtCredential(normalise(jc).(map[string]interface{})) //nolint:forcetypeassert
		must(err)

		a, _ := un["verifiableCredential"].([]interface{})
		un["verifiableCredential"] = append(a, j)
	}

	spare := ""

	if c.SpareJWT != nil {
		var err error

		spare, err = w.jwtCredential(normalise(c.SpareJWT).(map[string]interface{})) //nolint:forcetypeassert
		must(err)
	}

	sign := w.signVC

	if c.Kind == "vp" {
		sign = w.signVP
	}

	var (
		signed map[string]interface{}
		err    error
	)

	if sd.di {
		signed, err = w.signDI(c.Kind, un, w.di.keys[0], time.Date(2021, 2, 3, 4, 5, 6, 0, time.UTC), "", "d", "c")
	} else {
		signed, err = sign(un, signOpts{suite: sd, key: sd.keys[0], created: time.Date(2021, 2, 3, 4, 5, 6, 0, time.UTC),
			domain: "d", challenge: "c"})
	}

	if err != nil {
		fmt.Fprintln(os.Stderr, "c07: cannot sign corpus document:", err)
		os.Exit(2)
	}

	w.suiteSubset = nil
	_, _, w.baseline = w.verifyParsed(c.Kind, toJSON(signed), false)

	for i := range c.Ops {
		if string(c.Ops[i].Value) == `"$SPARE_JWT"` {
			c.Ops[i].Value = toJSON(spare)
		}
	}

	applyOps(signed, c.Ops)
	w.runCase(tr, genName, caseDesc{Kind: c.Kind, Suite: c.Suite, Repr: c.Repr, Edit: c.Edit, Class: c.Class,
		Unsigned: c.Unsigned, Ops: c.Ops, JWTCreds: c.JWTCreds, SpareJWT: c.SpareJWT}, signed, 1, true)
}

func corpusFile(w *world, tr *hx.Trace, f string) {
	b, err := os.ReadFile(f)
	must(err)

	var c corpusCase

	d := json.NewDecoder(strings.NewReader(string(b)))
	d.UseNumber()
	must(d.Decode(&c))

	runCorpusCase(w, tr, "corpus", c)
}

func replay(w *world, tr *hx.Trace, f string) {
	b, err := os.ReadFile(f)
	must(err)

	var rf struct {
		Case caseDesc `json:"case"`
	}

	must(json.Unmarshal(b, &rf))

	cd := rf.Case
	if cd.Unsigned != nil {
		runCorpusCase(w, tr, "replay", corpusCase{Kind: cd.Kind, Suite: cd.Suite, Repr: cd.Repr, Unsigned: cd.Unsigned,
			Ops: cd.Ops, Class: cd.Class, Edit: cd.Edit, JWTCreds: cd.JWTCreds, SpareJWT: cd.SpareJWT})

		return
	}

	// a generated case: regenerate document cd.DocIndex of run cd.Seed and apply the edit of the same name
	rng := hx.NewRng(cd.Seed)

	if strings.HasPrefix(cd.Edit, "jwt ") {
		i := cd.DocIndex
		w.runJWT(tr, &gen{rng: rng.Fork(uint64(7000 + i)), w: w}, rng.Fork(uint64(8000+i)), cd.Seed, i, true)

		return
	}
	g := &gen{rng: rng.Fork(1), w: w}

	for i := 0; i <= cd.DocIndex; i++ {
		r := rng.Fork(uint64(1000 + i))
		sd := w.suites[i%len(w.suites)]
		kind := "vc"

		if i%3 == 2 {
			kind = "vp"
		}

		signed, n, err := g.signedDoc(r, kind, sd, i)
		if err != nil {
			continue
		}

		edits := g.edits(r, kind, sd, signed, n, 1<<30)
		if i != cd.DocIndex {
			continue
		}

		if cd.Envelope != "" {
			w.suiteSubset = nil
			_, _, w.baseline = w.verifyParsed(kind, toJSON(signed), false)
			w.runEnvelopes(tr, kind, sd, signed, cd.Seed, i)

			return
		}

		for _, e := range edits {
			if e.name == cd.Edit {
				d, _ := clone(signed).(map[string]interface{})
				w.badFetch = map[string]*keyInfo{}

				w.suiteSubset = nil
				_, _, w.baseline = w.verifyParsed(kind, toJSON(signed), false)

				if e.apply(d) {
					w.runCase(tr, "replay", cd, d, n, true)
				}

				return
			}
		}
	}

	fmt.Fprintln(os.Stderr, "c07: replay case not found")
	os.Exit(2)
}

// divergeAtIndex reports whether two paths separate at an array index (they lie in the same array).
func divergeAtIndex(a, b path) bool {
	for i := 0; i < len(a) && i < len(b); i++ {
		if a[i] != b[i] {
			_, ia := a[i].(int)
			_, ib := b[i].(int)

			return ia && ib
		}
	}

	return false
}
