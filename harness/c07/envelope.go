package main

import (
	"encoding/base64"
	"encoding/json"
	"fmt"
	"strings"
	"time"

	josejwt "github.com/go-jose/go-jose/v3/jwt"

	"github.com/hyperledger/aries-framework-go/component/models/verifiable"

	"verifharness/hx"
)

// An LD-signed (or Data-Integrity-signed) document carried in a JWT: unsecured (alg none: the embedded proof is the only
// protection) with registered claims equal to / different from / absent relative to the members of the embedded
// object, in full and minimised form; and as a JWS signed by another key (there the JWS covers everything).

type envVariant struct {
	name  string
	class string // envelope-identity | envelope-override | jws-identity | jws-tampered
	iss   *string
	jti   *string
	nbf   *time.Time
	exp   *time.Time
	min   bool
	jws   bool
}

func str(s string) *string { return &s }

func (w *world) runEnvelopes(tr *hx.Trace, kind string, sd *suiteDef, signed map[string]interface{}, seed uint64, docIndex int) {
	t1 := time.Date(2001, 2, 3, 4, 5, 6, 0, time.UTC)
	t2 := time.Date(2041, 2, 3, 4, 5, 6, 0, time.UTC)

	variants := []envVariant{
		{name: "equal", class: "envelope-identity"},
		{name: "absent", class: "envelope-identity", iss: str(""), jti: str("")},
		{name: "minimised", class: "envelope-identity", min: true},
		{name: "iss", class: "envelope-override", iss: str("did:example:mallory")},
		{name: "jti", class: "envelope-override", jti: str("urn:uuid:00000000-0000-4000-8000-000000000000")},
		{name: "iss+jti", class: "envelope-override", iss: str("did:example:mallory"), jti: str("urn:evil:id")},
		{name: "iss minimised", class: "envelope-override", iss: str("did:example:mallory"), min: true},
		{name: "jws", class: "jws-identity", jws: true},
		{name: "jws tampered", class: "jws-tampered", jws: true},
	}

	if kind == "vc" {
		variants = append(variants,
			envVariant{name: "nbf", class: "envelope-override", nbf: &t1},
			envVariant{name: "exp", class: "envelope-override", exp: &t2})
	}

	for _, v := range variants {
		token, err := w.wrap(kind, signed, v)
		if err != nil {
			continue // e.g. a credential with several subjects has no JWT form
		}

		w.runEnvelopeCase(tr, kind, sd, v, token, seed, docIndex)
	}
}

func (w *world) wrap(kind string, signed map[string]interface{}, v envVariant) (string, error) {
	var token string

	if kind == "vp" {
		vp, err := verifiable.ParsePresentation(toJSON(signed), verifiable.WithPresJSONLDDocumentLoader(w.loader),
			verifiable.WithPresDisabledProofCheck())
		if err != nil {
			return "", err
		}

		claims, err := vp.JWTClaims(nil, v.min)
		if err != nil {
			return "", err
		}

		if v.iss != nil {
			claims.Issuer = *v.iss
		}

		if v.jti != nil {
			claims.ID = *v.jti
		}

		if v.jws {
			token, err = claims.MarshalJWS(verifiable.EdDSA, w.jwtKey.signer, w.jwtKey.id())
		} else {
			token, err = claims.MarshalUnsecuredJWT()
		}

		if err != nil {
			return "", err
		}
	} else {
		vc, err := verifiable.ParseCredential(toJSON(signed), verifiable.WithJSONLDDocumentLoader(w.loader),
			verifiable.WithDisabledProofCheck())
		if err != nil {
			return "", err
		}

		claims, err := vc.JWTClaims(v.min)
		if err != nil {
			return "", err
		}

		if v.iss != nil {
			claims.Issuer = *v.iss
		}

		if v.jti != nil {
			claims.ID = *v.jti
		}

		if v.nbf != nil {
			claims.NotBefore = josejwt.NewNumericDate(*v.nbf)
			claims.IssuedAt = nil
		}

		if v.exp != nil {
			claims.Expiry = josejwt.NewNumericDate(*v.exp)
		}

		if v.jws {
			token, err = claims.MarshalJWS(verifiable.EdDSA, w.jwtKey.signer, w.jwtKey.id())
		} else {
			token, err = claims.MarshalUnsecuredJWT()
		}

		if err != nil {
			return "", err
		}
	}

	if v.class == "jws-tampered" {
		// another payload under the old signature: one claim text altered
		parts := strings.Split(token, ".")
		pl, err := base64.RawURLEncoding.DecodeString(parts[1])
		if err != nil || len(parts) != 3 {
			return "", fmt.Errorf("bad token")
		}

		alt := strings.Replace(string(pl), "did:example:", "did:exampel:", 1)
		if alt == string(pl) {
			return "", fmt.Errorf("nothing to alter")
		}

		parts[1] = base64.RawURLEncoding.EncodeToString([]byte(alt))
		token = strings.Join(parts, ".")
	}

	return token, nil
}

type envCase struct {
	Kind     string `json:"kind"`
	Suite    string `json:"suite"`
	Repr     string `json:"repr"`
	Edit     string `json:"edit"`
	Class    string `json:"class"`
	Token    string `json:"token"`
	Seed     uint64 `json:"seed"`
	DocIndex int    `json:"doc_index"`
	Envelope string `json:"envelope"`
}

func (w *world) runEnvelopeCase(tr *hx.Trace, kind string, sd *suiteDef, v envVariant, token string, seed uint64, docIndex int) {
	vd, rec, parsed := w.verifyParsed(kind, []byte(token), false)
	w.lastDIVerifies = w.di.verifies
	vs, _, _ := w.verifyParsed(kind, []byte(token), true)

	cd := envCase{Kind: kind, Suite: sd.name, Repr: reprName(sd.repr), Edit: "envelope " + v.name, Class: v.class, Token: token,
		Seed: seed, DocIndex: docIndex, Envelope: v.name}
	r := &hx.Record{Kind: "generated", Case: cd, Observed: observed{vd, vs}, Oracle: "ok"}
	fail := func(sig, detail string) {
		if r.Oracle == "ok" {
			r.Oracle, r.Sig, r.Detail = "fail", sig, detail
		}
	}

	// every member of the returned object must be the signed one (the embedded proof is the only signature of an
	// unsecured JWT)
	differs := ""

	if parsed != nil && w.baseline != nil {
		for k, want := range w.baseline {
			if k == "proof" || k == "jwt" {
				continue
			}

			if string(toJSON(parsed[k])) != string(toJSON(want)) {
				differs = fmt.Sprintf("%s is %s (signed: %s)", k, toJSON(parsed[k]), toJSON(want))
			}
		}
	}

	switch v.class {
	case "envelope-identity":
		if strings.HasPrefix(vd.Err, "panic:") || strings.HasPrefix(vs.Err, "panic:") {
			break // the parser crashed on this token (e.g. no registered claims at all): C03's subject, not decided here
		}

		if !vd.Accepted || vd.Verifies < 1 || !vs.Accepted {
			fail("signed-rejected:envelope", fmt.Sprintf("the signed document in its own unsecured JWT form (%s) does not verify: %+v / strict %+v", v.name, vd, vs))
		} else if differs != "" {
			fail("jwt-envelope-overrides-signed-member", fmt.Sprintf("envelope %s: returned %s", v.name, differs))
		}
	case "envelope-override":
		if (vd.Accepted || vs.Accepted) && vd.Verifies >= 1 {
			fail("jwt-envelope-overrides-signed-member", fmt.Sprintf("unsecured JWT whose %s differs from the embedded signed object accepted with a verified embedded proof; returned %s", v.name, differs))
		}
	case "jws-identity":
		if !vd.Accepted {
			fail("signed-rejected:jws", fmt.Sprintf("JWS form does not verify: %+v", vd))
		}
	case "jws-tampered":
		if vd.Accepted || vs.Accepted {
			fail("tamper-accepted:jws-payload", "a JWS whose payload was altered under the old signature was accepted")
		}
	}

	if rec.contract != "" {
		fail("primitive-contract", rec.contract)
	}

	if !v.jws && !v.min && !strings.HasPrefix(vd.Err, "panic:") {
		if term, ok := w.coqEnvelopeCase(kind, token, vd, rec, parsed); ok {
			r.Coq = term
		}
	}

	out := "rej"
	if vd.Accepted {
		out = fmt.Sprintf("acc%d", vd.Verifies)
	}

	r.Class = strings.Join([]string{kind, sd.name, reprName(sd.repr), "envelope:" + v.name, out}, "|")
	r.Dist = []string{"kind=" + kind, "suite=" + sd.name + "/" + reprName(sd.repr), "edit=envelope:" + v.name, "class=" + v.class, "default=" + out}
	tr.Put(r)
}

// coqEnvelopeCase: the claim object as it is on the wire, the registered claims, what the check did.
func (w *world) coqEnvelopeCase(kind, token string, vd verdict, rec *recording, parsed map[string]interface{}) (string, bool) {
	parts := strings.Split(token, ".")
	if len(parts) != 3 {
		return "", false
	}

	pl, err := base64.RawURLEncoding.DecodeString(parts[1])
	if err != nil {
		return "", false
	}

	var payload map[string]interface{}
	if json.Unmarshal(pl, &payload) != nil {
		return "", false
	}

	claimKey := "vc"
	if kind == "vp" {
		claimKey = "vp"
	}

	claim, ok := normalise(payload[claimKey]).(map[string]interface{})
	if !ok {
		return "", false
	}

	iss, _ := payload["iss"].(string)
	jti, _ := payload["jti"].(string)

	var envl string

	if kind == "vp" {
		for _, k := range []string{"holder", "id"} {
			if _, has := claim[k]; !has {
				return "", false
			}
		}

		envl = fmt.Sprintf("(Some (EnvVP %s %s))", cs(iss), cs(jti))
	} else {
		// every member the refinement touches must already be in the claim (the model inserts missing ones last)
		for _, k := range []string{"issuer", "id", "issuanceDate"} {
			if _, has := claim[k]; !has {
				return "", false
			}
		}

		var fmtTab []string

		num := func(k string) string {
			f, isNum := payload[k].(float64)
			if !isNum {
				return "None"
			}

			fmtTab = append(fmtTab, fmt.Sprintf("((%d)%%Z, %s)", int64(f), cs(time.Unix(int64(f), 0).UTC().Format(time.RFC3339))))

			return fmt.Sprintf("(Some (%d)%%Z)", int64(f))
		}

		if _, has := payload["exp"]; has {
			if _, hasM := claim["expirationDate"]; !hasM {
				return "", false
			}
		}

		nbf, iat, exp := num("nbf"), num("iat"), num("exp")
		envl = fmt.Sprintf("(Some (EnvVC %s %s %s %s %s %s))", cs(iss), cs(jti), nbf, iat, exp, hx.CoqList(fmtTab))
	}

	var ps []string

	if parsed != nil && vd.Accepted {
		fields := []string{"id", "issuer"}
		if kind == "vp" {
			fields = []string{"id", "holder"}
		}

		for _, f := range fields {
			if sv, isStr := parsed[f].(string); isStr {
				ps = append(ps, fmt.Sprintf("(%s, [(%s, JStr %s)], JStr %s)", hx.CoqString(f), hx.CoqString(f), cs(sv), cs(sv)))
			}
		}
	}

	return fmt.Sprintf("K %s %s %s None %s %s", w.coqEnv(claim, rec), coqObj(claim), coqOutcome(vd), hx.CoqList(ps), envl), true
}
