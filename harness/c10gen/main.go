// c10gen: translator for C10.  Executes service.CreateDestination of /repo on a finite grid of DID documents (every
// sequence of up to two service blocks over {DIDCommMessaging, did-communication, IndyAgent, another type} x
// {no recipient keys, a did:key, a raw base58 key, both} x {endpoint, no endpoint}, every sequence of three well-formed
// blocks, each with and without a key agreement key; priorities as a parsed document has them: JSON numbers) and writes
// what it answered as coq/gen/Gen_C10.v.  Coq then checks that the model's `dest` (coq/C10/Model.v), from which the
// theorems' d_keys / d_ep are computed, says the same on every row.  Run by bin/check on every run: an edit of
// CreateDestination / LookupService that changes which block, keys or endpoint a document yields breaks that obligation.
//
// Second table: for both connection services of a real framework instance and every service type, whether
// handleInboundRequest's getMyDIDDoc(type of the request document's first block) makes a document and whether a key to
// send the reply from is found in it (add-only hooks VerifReplyForType, build tag verif): the model's my_type_ok /
// reply_key_ok are checked against these rows.
package main

import (
	"fmt"
	"os"
	"strings"

	"github.com/btcsuite/btcutil/base58"

	"github.com/hyperledger/aries-framework-go/component/models/did"
	"github.com/hyperledger/aries-framework-go/component/storageutil/mem"
	"github.com/hyperledger/aries-framework-go/pkg/framework/aries"
	"github.com/hyperledger/aries-framework-go/component/models/did/endpoint"
	"github.com/hyperledger/aries-framework-go/pkg/didcomm/common/service"
	"github.com/hyperledger/aries-framework-go/pkg/vdr/fingerprint"
)

const docID = "did:peer:1zQmC10gen"

type block struct {
	typ  int // 0 DIDCommMessaging, 1 did-communication, 2 IndyAgent, 3 other
	keys int // 0 none, 1 did:key, 2 raw, 3 did:key + raw (of the next key)
	ep   bool
}

var typeNames = []string{"DIDCommMessaging", "did-communication", "IndyAgent", "LinkedDomains"}

func rawKey(i int) []byte {
	b := make([]byte, 32)
	for j := range b {
		b[j] = byte(i*16 + j)
	}

	return b
}

func main() {
	if len(os.Args) < 2 {
		fmt.Fprintln(os.Stderr, "usage: c10gen <out.v>")
		os.Exit(2)
	}

	// key numbers 1..4, in both spellings; key agreement id = 10; endpoints 21..23
	num := map[string]int{}

	didKey := make([]string, 5)
	raw58 := make([]string, 5)

	for i := 1; i <= 4; i++ {
		raw58[i] = base58.Encode(rawKey(i))
		didKey[i], _ = fingerprint.CreateDIDKey(rawKey(i))
		num[raw58[i]] = i
		num[didKey[i]] = i
	}

	kaID := docID + "#ka"
	num[kaID] = 10

	eps := []string{"", "http://e1.example", "http://e2.example", "http://e3.example"}
	epNum := map[string]int{"": 0}

	for i := 1; i <= 3; i++ {
		epNum[eps[i]] = 20 + i
	}

	var variants []block

	for t := 0; t < 4; t++ {
		for k := 0; k < 4; k++ {
			for _, e := range []bool{true, false} {
				variants = append(variants, block{t, k, e})
			}
		}
	}

	var seqs [][]block

	seqs = append(seqs, nil)

	for _, a := range variants {
		seqs = append(seqs, []block{a})

		for _, b := range variants {
			seqs = append(seqs, []block{a, b})
		}
	}

	for a := 0; a < 4; a++ {
		for b := 0; b < 4; b++ {
			for c := 0; c < 4; c++ {
				seqs = append(seqs, []block{{a, 1, true}, {b, 1, true}, {c, 1, true}})
			}
		}
	}

	var rows []string

	for _, seq := range seqs {
		for _, withKA := range []bool{false, true} {
			doc := &did.Doc{ID: docID}

			var cblocks []string

			for i, b := range seq {
				var keys []string

				var knums []string

				plain := false

				switch b.keys {
				case 1:
					keys = []string{didKey[i+1]}
				case 2:
					keys = []string{raw58[i+1]}
					plain = true
				case 3:
					keys = []string{didKey[i+1], raw58[i+2]}
					plain = true
				}

				for _, k := range keys {
					knums = append(knums, fmt.Sprint(num[k]))
				}

				ep := ""
				if b.ep {
					ep = eps[i+1]
				}

				sv := did.Service{ID: fmt.Sprintf("%s#s%d", docID, i), Type: typeNames[b.typ], RecipientKeys: keys,
					Priority: float64(3 - i)} // as a parsed document has it: a JSON number

				switch {
				case b.typ == 0 && b.ep:
					sv.ServiceEndpoint = endpoint.NewDIDCommV2Endpoint([]endpoint.DIDCommV2Endpoint{{URI: ep}})
				case b.typ == 0:
					sv.ServiceEndpoint = endpoint.Endpoint{}
				default:
					sv.ServiceEndpoint = endpoint.NewDIDCommV1Endpoint(ep)
				}

				doc.Service = append(doc.Service, sv)
				cblocks = append(cblocks, fmt.Sprintf("(%d, [%s], %v, %d)", b.typ, strings.Join(knums, "; "), plain, epNum[ep]))
			}

			ka := "[]"

			if withKA {
				vm := did.VerificationMethod{ID: "#ka", Type: "X25519KeyAgreementKey2019", Controller: docID, Value: rawKey(9)}
				doc.KeyAgreement = []did.Verification{{VerificationMethod: vm, Relationship: did.KeyAgreement, Embedded: true}}
				ka = "[10]"
			}

			obs := "None"

			if dest, err := service.CreateDestination(doc); err == nil {
				uri, _ := dest.ServiceEndpoint.URI()

				var ks []string

				for _, k := range dest.RecipientKeys {
					n, ok := num[k]
					if !ok {
						fmt.Fprintln(os.Stderr, "c10gen: CreateDestination returned a key the grid does not know:", k)
						os.Exit(1)
					}

					ks = append(ks, fmt.Sprint(n))
				}

				en, ok := epNum[uri]
				if !ok {
					fmt.Fprintln(os.Stderr, "c10gen: CreateDestination returned an endpoint the grid does not know:", uri)
					os.Exit(1)
				}

				obs = fmt.Sprintf("Some (%d, [%s])", en, strings.Join(ks, "; "))
			}

			rows = append(rows, fmt.Sprintf("  ([%s], %s, %s)", strings.Join(cblocks, "; "), ka, obs))
		}
	}

	var sb strings.Builder

	sb.WriteString("(* GENERATED by harness/c10gen from /repo (service.CreateDestination executed on a grid of documents). Do not edit. *)\n")
	sb.WriteString("From Coq Require Import List NArith Bool.\nImport ListNotations.\nLocal Open Scope N_scope.\n\n")
	sb.WriteString("(* row = (service blocks in document order: (type 0 DIDCommMessaging / 1 did-communication / 2 IndyAgent / 3 other,\n")
	sb.WriteString("   recipient keys, some key not written as a DID, endpoint (0 = none)), key agreement ids,\n")
	sb.WriteString("   what CreateDestination answered: endpoint and recipient keys, or None for an error) *)\n")
	sb.WriteString("Definition dest_table : list (list (N * list N * bool * N) * list N * option (N * list N)) := [\n")
	sb.WriteString(strings.Join(rows, ";\n"))
	sb.WriteString("\n].\n\n")
	sb.WriteString("(* row = (service: 0 DID Exchange / 1 legacy Connection, type of the request document's first service block,\n")
	sb.WriteString("   getMyDIDDoc made a document, a key to send the reply from was found) *)\n")
	sb.WriteString("Definition reply_table : list (N * N * bool * bool) := [\n")
	sb.WriteString(strings.Join(replyRows(), ";\n"))
	sb.WriteString("\n].\n")

	if err := os.WriteFile(os.Args[1], []byte(sb.String()), 0o644); err != nil {
		fmt.Fprintln(os.Stderr, err)
		os.Exit(1)
	}
}

func replyRows() []string {
	fw, err := aries.New(aries.WithStoreProvider(mem.NewProvider()), aries.WithProtocolStateStoreProvider(mem.NewProvider()))
	if err != nil {
		fmt.Fprintln(os.Stderr, "c10gen: framework:", err)
		os.Exit(1)
	}

	defer fw.Close() //nolint:errcheck

	ctx, err := fw.Context()
	if err != nil {
		fmt.Fprintln(os.Stderr, "c10gen: context:", err)
		os.Exit(1)
	}

	var rows []string

	for pi, name := range []string{"didexchange", "legacyconnection"} {
		found := false

		for _, svc := range ctx.AllServices() {
			h, ok := svc.(interface {
				VerifReplyForType(string) (bool, bool)
			})
			if svc.Name() != name || !ok {
				continue
			}

			found = true

			for ti, tn := range typeNames {
				created, reply := h.VerifReplyForType(tn)
				rows = append(rows, fmt.Sprintf("  (%d, %d, %v, %v)", pi, ti, created, reply))
			}
		}

		if !found {
			fmt.Fprintln(os.Stderr, "c10gen: service without the VerifReplyForType hook:", name)
			os.Exit(1)
		}
	}

	return rows
}
