// c18gen: translator for C18.  Reads /repo's SD-JWT source with go/ast (nothing is executed) and regenerates
// coq/gen/Gen_C18.v:
//
//	common/common.go         string constants SDKey, SDAlgorithmKey, ArrayElementDigestKey, CNFKey, CombinedFormatSeparator
//	                         and the integer constants of the disclosure layout (arity 2 / 3, positions)
//	verifier/verifier.go     Parse, validateIssuerSignedSDJWT, runHolderVerification, verifyHolderVerificationJWT:
//	                         the calls each makes, in source order (the order in which a presentation can be refused),
//	                         and the typ value that selects the v5 key binding
//	verifier/keybidning.go   keyBindingPayload (json tags) and the comparisons of verifyKeyBindingJWT
//	verifier/holderbidning.go holderBindingPayload and the comparisons of verifyHolderBindingJWT
//	common/verification.go   VerifyDisclosuresInSDJWT: the calls it makes, in source order
//
// A comparison `if pOpts.X != "" && pOpts.X != bindingPayload.Y { return ... }` is emitted as the pair (X, Y).
package main

import (
	"flag"
	"fmt"
	"go/ast"
	"go/parser"
	"go/token"
	"os"
	"path/filepath"
	"reflect"
	"strconv"
	"strings"
)

var fset = token.NewFileSet()

func fail(f string, a ...interface{}) {
	fmt.Fprintf(os.Stderr, "c18gen: "+f+"\n", a...)
	os.Exit(1)
}

func parse(path string) *ast.File {
	f, err := parser.ParseFile(fset, path, nil, 0)
	if err != nil {
		fail("parse %s: %v", path, err)
	}

	return f
}

func funcDecl(f *ast.File, name string) *ast.FuncDecl {
	for _, d := range f.Decls {
		if fd, ok := d.(*ast.FuncDecl); ok && fd.Name.Name == name && fd.Recv == nil {
			return fd
		}
	}

	fail("function %s not found", name)

	return nil
}

func coqStr(s string) string { return "\"" + strings.ReplaceAll(s, "\"", "\"\"") + "\"" }

func coqList(l []string) string { return "[" + strings.Join(l, "; ") + "]" }

func coqStrs(l []string) string {
	q := make([]string, len(l))
	for i, s := range l {
		q[i] = coqStr(s)
	}

	return coqList(q)
}

// constants: name -> literal text of the value
func constants(f *ast.File) map[string]string {
	out := map[string]string{}

	for _, d := range f.Decls {
		gd, ok := d.(*ast.GenDecl)
		if !ok || gd.Tok != token.CONST {
			continue
		}

		for _, sp := range gd.Specs {
			vs := sp.(*ast.ValueSpec)
			for i, n := range vs.Names {
				if i < len(vs.Values) {
					if bl, ok := vs.Values[i].(*ast.BasicLit); ok {
						out[n.Name] = bl.Value
					}
				}
			}
		}
	}

	return out
}

func exprName(e ast.Expr) string {
	switch t := e.(type) {
	case *ast.Ident:
		return t.Name
	case *ast.SelectorExpr:
		return exprName(t.X) + "." + t.Sel.Name
	}

	return ""
}

// calls: every call expression of a function body whose callee is a plain or package-qualified name, in source
// order; closures and method calls on local values (d.Decode, opt(pOpts), fmt.Errorf) are left out.
func calls(fd *ast.FuncDecl, keep func(string) bool) []string {
	var out []string

	ast.Inspect(fd.Body, func(n ast.Node) bool {
		if ce, ok := n.(*ast.CallExpr); ok {
			if name := exprName(ce.Fun); name != "" && keep(name) {
				out = append(out, name)
			}
		}

		return true
	})

	return out
}

// jsonTags: the json names of the fields of a struct type, in order
func jsonTags(f *ast.File, typ string) []string {
	for _, d := range f.Decls {
		gd, ok := d.(*ast.GenDecl)
		if !ok || gd.Tok != token.TYPE {
			continue
		}

		for _, sp := range gd.Specs {
			ts := sp.(*ast.TypeSpec)
			if ts.Name.Name != typ {
				continue
			}

			st, ok := ts.Type.(*ast.StructType)
			if !ok {
				fail("%s is not a struct", typ)
			}

			var out []string

			for _, fld := range st.Fields.List {
				if fld.Tag == nil {
					fail("%s: field without tag", typ)
				}

				raw, _ := strconv.Unquote(fld.Tag.Value)
				tag := reflect.StructTag(raw).Get("json")
				out = append(out, strings.Split(tag, ",")[0])
			}

			return out
		}
	}

	fail("type %s not found", typ)

	return nil
}

// comparisons: the top-level if statements of the form  pOpts.X != "" && pOpts.X != bindingPayload.Y  whose body
// returns, in order; any other top-level if statement that returns is reported by its position so that a new
// check cannot be added unnoticed.
func comparisons(fd *ast.FuncDecl) (pairs [][2]string, others int) {
	for _, st := range fd.Body.List {
		is, ok := st.(*ast.IfStmt)
		if !ok {
			continue
		}

		be, ok := is.Cond.(*ast.BinaryExpr)
		if !ok || be.Op != token.LAND {
			others++
			continue
		}

		l, lok := be.X.(*ast.BinaryExpr)
		r, rok := be.Y.(*ast.BinaryExpr)

		if !lok || !rok || l.Op != token.NEQ || r.Op != token.NEQ {
			others++
			continue
		}

		lit, isLit := l.Y.(*ast.BasicLit)
		if !isLit || lit.Value != `""` || exprName(l.X) != exprName(r.X) || !strings.HasPrefix(exprName(l.X), "pOpts.") ||
			!strings.HasPrefix(exprName(r.Y), "bindingPayload.") {
			others++
			continue
		}

		returns := false

		for _, b := range is.Body.List {
			if _, ok := b.(*ast.ReturnStmt); ok {
				returns = true
			}
		}

		if !returns {
			others++
			continue
		}

		pairs = append(pairs, [2]string{strings.TrimPrefix(exprName(l.X), "pOpts."), strings.TrimPrefix(exprName(r.Y), "bindingPayload.")})
	}

	return pairs, others
}

func coqPairs(p [][2]string) string {
	l := make([]string, len(p))
	for i, x := range p {
		l[i] = "(" + coqStr(x[0]) + ", " + coqStr(x[1]) + ")"
	}

	return coqList(l)
}

// kbTyp: the string literal compared with the typ header in verifyHolderVerificationJWT
func kbTyp(fd *ast.FuncDecl) string {
	found := ""

	ast.Inspect(fd.Body, func(n ast.Node) bool {
		if be, ok := n.(*ast.BinaryExpr); ok && be.Op == token.EQL {
			if bl, ok := be.Y.(*ast.BasicLit); ok && bl.Kind == token.STRING && exprName(be.X) == "holderVerificationTyp" {
				found, _ = strconv.Unquote(bl.Value)
			}
		}

		return true
	})

	if found == "" {
		fail("typ literal of the key binding not found")
	}

	return found
}

func main() {
	repo := flag.String("repo", "/repo", "")
	out := flag.String("out", "", "")

	flag.Parse()

	dir := filepath.Join(*repo, "component", "models", "sdjwt")
	common := parse(filepath.Join(dir, "common", "common.go"))
	verification := parse(filepath.Join(dir, "common", "verification.go"))
	ver := parse(filepath.Join(dir, "verifier", "verifier.go"))
	kb := parse(filepath.Join(dir, "verifier", "keybidning.go"))
	hb := parse(filepath.Join(dir, "verifier", "holderbidning.go"))

	consts := constants(common)
	str := func(n string) string {
		v, ok := consts[n]
		if !ok {
			fail("constant %s not found", n)
		}

		s, err := strconv.Unquote(v)
		if err != nil {
			fail("constant %s is not a string", n)
		}

		return coqStr(s)
	}
	num := func(n string) string {
		v, ok := consts[n]
		if !ok {
			fail("constant %s not found", n)
		}

		if _, err := strconv.Atoi(v); err != nil {
			fail("constant %s is not an integer", n)
		}

		return v + "%N"
	}

	// calls that decide acceptance (helpers of this package, of common and of afgjwt); option plumbing, errors and
	// conversions are left out
	keep := func(n string) bool {
		switch {
		case strings.HasPrefix(n, "fmt."), strings.HasPrefix(n, "utils."), strings.HasPrefix(n, "json."),
			strings.HasPrefix(n, "mapstructure."), strings.HasPrefix(n, "errors."):
			return false
		case n == "opt", n == "len", n == "append", n == "make", n == "string", n == "common.ParseCombinedFormatForPresentation":
			return false
		case strings.Contains(n, ".") && !strings.HasPrefix(n, "common.") && !strings.HasPrefix(n, "afgjwt."):
			return false
		}

		return true
	}

	kbPairs, kbOthers := comparisons(funcDecl(kb, "verifyKeyBindingJWT"))
	hbPairs, hbOthers := comparisons(funcDecl(hb, "verifyHolderBindingJWT"))

	var b strings.Builder

	b.WriteString("(* GENERATED by harness/c18gen from component/models/sdjwt (go/ast) — do not edit. *)\n")
	b.WriteString("From Coq Require Import List String NArith.\nImport ListNotations.\nOpen Scope string_scope.\n\n")
	fmt.Fprintf(&b, "Definition g_sd_key : string := %s.\n", str("SDKey"))
	fmt.Fprintf(&b, "Definition g_sd_alg_key : string := %s.\n", str("SDAlgorithmKey"))
	fmt.Fprintf(&b, "Definition g_array_digest_key : string := %s.\n", str("ArrayElementDigestKey"))
	fmt.Fprintf(&b, "Definition g_cnf_key : string := %s.\n", str("CNFKey"))
	fmt.Fprintf(&b, "Definition g_separator : string := %s.\n", str("CombinedFormatSeparator"))
	fmt.Fprintf(&b, "Definition g_arity_array : N := %s.\n", num("disclosureElementsAmountForArrayDigest"))
	fmt.Fprintf(&b, "Definition g_arity_sd : N := %s.\n", num("disclosureElementsAmountForSDDigest"))
	fmt.Fprintf(&b, "Definition g_positions : list N := [%s; %s; %s; %s].  (* salt, array value, sd name, sd value *)\n\n",
		num("saltPosition"), num("arrayDigestValuePosition"), num("sdDigestNamePosition"), num("sdDigestValuePosition"))

	fmt.Fprintf(&b, "(* verifier.Parse: the calls that can refuse a presentation, in source order *)\n")
	fmt.Fprintf(&b, "Definition g_parse_calls : list string := %s.\n", coqStrs(calls(funcDecl(ver, "Parse"), keep)))
	fmt.Fprintf(&b, "Definition g_validate_calls : list string := %s.\n", coqStrs(calls(funcDecl(ver, "validateIssuerSignedSDJWT"), keep)))
	fmt.Fprintf(&b, "Definition g_holder_calls : list string := %s.\n", coqStrs(calls(funcDecl(ver, "runHolderVerification"), keep)))
	fmt.Fprintf(&b, "Definition g_holder_jwt_calls : list string := %s.\n", coqStrs(calls(funcDecl(ver, "verifyHolderVerificationJWT"), keep)))
	fmt.Fprintf(&b, "Definition g_verify_disclosures_calls : list string := %s.\n\n",
		coqStrs(calls(funcDecl(verification, "VerifyDisclosuresInSDJWT"), keep)))

	fmt.Fprintf(&b, "(* the binding JWT: typ that selects the v5 key binding, payload members, comparisons (option, member) *)\n")
	fmt.Fprintf(&b, "Definition g_kb_typ : string := %s.\n", coqStr(kbTyp(funcDecl(ver, "verifyHolderVerificationJWT"))))
	fmt.Fprintf(&b, "Definition g_kb_members_v5 : list string := %s.\n", coqStrs(jsonTags(kb, "keyBindingPayload")))
	fmt.Fprintf(&b, "Definition g_kb_members_v2 : list string := %s.\n", coqStrs(jsonTags(hb, "holderBindingPayload")))
	fmt.Fprintf(&b, "Definition g_kb_checks_v5 : list (string * string) := %s.\n", coqPairs(kbPairs))
	fmt.Fprintf(&b, "Definition g_kb_checks_v2 : list (string * string) := %s.\n", coqPairs(hbPairs))
	fmt.Fprintf(&b, "Definition g_kb_other_ifs_v5 : N := %d%%N.  (* top-level if statements of another shape (the decoder's error checks) *)\n", kbOthers)
	fmt.Fprintf(&b, "Definition g_kb_other_ifs_v2 : N := %d%%N.\n", hbOthers)

	if *out == "" {
		fmt.Print(b.String())
		return
	}

	if err := os.WriteFile(*out, []byte(b.String()), 0o644); err != nil {
		fail("write: %v", err)
	}
}
