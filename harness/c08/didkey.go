package main

// did:key kids: the DID document is produced by the REAL did:key resolver of /repo (component/vdr/key) from the
// DID itself; the harness's description of that document (what the model and the oracle read) is written down here
// from the did:key method's definition: the key under verificationMethod + authentication + assertionMethod +
// capabilityDelegation + capabilityInvocation, and a key-agreement method (for Ed25519 the derived X25519 key
// under its own id, for NIST curves the same method listed under keyAgreement as well).

import (
	"crypto/ecdsa"
	"crypto/ed25519"
	"strings"

	"github.com/hyperledger/aries-framework-go/component/kmscrypto/doc/util/fingerprint"
	vdrkey "github.com/hyperledger/aries-framework-go/component/vdr/key"

	"verifharness/hx"
)

type didKeyParty struct {
	k    *key
	did  string
	kid  string // did#fingerprint
	kaID string // id of the key-agreement method
}

func (w *world) didKeyLayout() []didKeyParty {
	var out []didKeyParty

	real := vdrkey.New()
	w.vdr.real = real

	for i, k := range w.party {
		var (
			d, kid string
			err    error
		)

		switch pub := k.pub.(type) {
		case ed25519.PublicKey:
			d, kid = fingerprint.CreateDIDKey(pub)
		case *ecdsa.PublicKey:
			if k.fam == "FSecp256k1" {
				continue
			}

			d, kid, err = fingerprint.CreateDIDKeyByJwk(k.jwk)
			if err != nil {
				continue
			}
		default:
			continue
		}

		if _, seen := w.docs[d]; seen {
			continue // the same key under two party names (e.g. DER and P1363 signers of one curve) — keep the first
		}

		res, err := real.Read(d)
		must(err)

		p := didKeyParty{k: k, did: d, kid: kid}
		dd := &docDesc{did: d}
		jwkForm := k.fam != "FEd25519"

		for _, rel := range []string{"RGeneral", "RAuth", "RAssert", "RCapDel", "RCapInv"} {
			dd.ms = append(dd.ms, method{kid, rel, k, jwkForm})
		}

		if jwkForm {
			p.kaID = kid
			dd.ms = append(dd.ms, method{kid, "RKeyAgr", k, true})
		} else {
			// the derived X25519 key: never a verification key; described with a key object of its own
			p.kaID = res.DIDDocument.KeyAgreement[0].VerificationMethod.ID
			ka := &key{id: 900 + i, name: "x25519", fam: "FEd25519"}
			dd.ms = append(dd.ms, method{p.kaID, "RKeyAgr", ka, false})
		}

		w.docs[d] = dd
		w.byRef[kid] = k
		out = append(out, p)
	}

	return out
}

// didKeyGroup: honestly signed tokens whose kid is a did:key DID URL, and kids that mix DIDs and fragments.
func (w *world) didKeyGroup(r *hx.Rng, ps []didKeyParty, tr *hx.Trace) {
	entries := []string{"did", "jws", "jwt", "jwt-ignore"}
	n := 0

	for i, p := range ps {
		o := ps[(i+1)%len(ps)]
		frag := p.kid[strings.Index(p.kid, "#")+1:]
		ofrag := o.kid[strings.Index(o.kid, "#")+1:]
		kids := []struct{ note, kid string }{
			{"own", p.kid},
			{"own-second-fragment", p.kid + "#x"},
			{"prefix-fragment", p.did + "#" + frag[:4]},
			{"empty-fragment", p.did + "#"},
			{"no-fragment", p.did},
			{"keyagreement-id", p.kaID},
			{"other-did-own-fragment", o.did + "#" + frag},
			{"own-did-other-fragment", p.did + "#" + ofrag},
			{"other-kid", o.kid},
			{"upper-method", strings.Replace(p.kid, "did:key:", "did:KEY:", 1)},
			{"truncated-did", p.did[:len(p.did)-1] + "#" + frag},
			{"did-ex-with-fingerprint", didA + "#" + frag},
		}

		for _, kd := range kids {
			w.kidOverride = kd.kid
			ref := ""

			for rf, k := range w.byRef {
				if k == p.k && strings.HasPrefix(rf, didA+"#") {
					ref = rf
				}
			}

			b := w.sign(ref, p.k.fam != "FEd25519", nil, claimsJSON(r, 1), r.Intn(6), false, false)
			w.kidOverride = ""
			w.run("didkey", b.mk(entries[n%len(entries)], "basic", "didkey-"+kd.note), true, tr)
			n++
		}
	}
}
