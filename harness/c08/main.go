// Command c08 drives the real jose.ParseJWS / jwt.Parse / didsignjwt.VerifyJWT of /repo with honest tokens
// (signed inside a real local KMS or by the repo's software signers), every single-character alteration of
// them, header-level attacks, algorithm/key cross combinations, unsigned tokens, detached and b64=false
// payloads, and records what happened next to the model's input (coq/C08/Corr.v `case`).
// With -gen FILE it is the translator that regenerates coq/gen/Gen_C08.v by executing the verifiers.
package main

import (
	"crypto/ecdsa"
	"crypto/ed25519"
	"crypto/rsa"
	"crypto/sha256"
	"encoding/asn1"
	"encoding/base64"
	"encoding/json"
	"flag"
	"fmt"
	"math/big"
	"os"
	"path/filepath"
	"sort"
	"strings"

	"crypto"

	gojson "github.com/go-jose/go-jose/v3/json"

	"github.com/hyperledger/aries-framework-go/component/kmscrypto/crypto/tinkcrypto"
	"github.com/hyperledger/aries-framework-go/component/kmscrypto/doc/jose"
	"github.com/hyperledger/aries-framework-go/component/kmscrypto/kms/localkms"
	"github.com/hyperledger/aries-framework-go/component/models/jwt"
	"github.com/hyperledger/aries-framework-go/component/models/jwt/didsignjwt"
	"github.com/hyperledger/aries-framework-go/component/models/signature/verifier"

	"verifharness/hx"
)

var b64 = base64.RawURLEncoding

// Case is the replayable description of one verification.
type Case struct {
	Entry  string `json:"entry"` // jws | jwt | jwt-ignore | did
	Cfg    string `json:"cfg"`   // basic | single:<did#frag> | unsecured
	Det    string `json:"det,omitempty"`
	HasDet bool   `json:"has_det,omitempty"`
	Tok    string `json:"tok"`
	// Sig0/SigKey/SigProc/SigMsg: a signature segment whose origin the harness knows (who made it, how, over what).
	Sig0    string `json:"sig0,omitempty"`
	SigKey  string `json:"sig_key,omitempty"` // did#frag-stem of the signing key
	SigProc string `json:"sig_proc,omitempty"`
	SigMsg  string `json:"sig_msg,omitempty"`
	Note    string `json:"note,omitempty"`
	// Overlap: tokens verified by other goroutines WHILE this verification was parked inside its key resolution
	// (between the construction of its signing input and its signature check); Shared: through the same verifier.
	Overlap []string `json:"overlap,omitempty"`
	Shared  bool     `json:"shared,omitempty"`
	// Prefix: the tokens that went through the SAME verifier instance before this one (sequence cases).
	Prefix []string `json:"prefix,omitempty"`
	// World carries the public keys of the run (attached to failing cases only) so that a replay is self-contained.
	World []KeyPub `json:"world,omitempty"`
}

type world struct {
	party, attacker []*key
	extra           []*key              // keys of did:ex:b
	docs            map[string]*docDesc // the harness's own description of the served documents
	shared          jose.SignatureVerifier // when set: ONE jwt.NewVerifier instance used for every "basic" case
	sharedSingle    map[string]jose.SignatureVerifier
	vcrypto         cryptoVerifier // the verifying party's own crypto service (for the DefaultSigningInputVerifier configuration)
	byRef           map[string]*key // "did:ex:a#ed" -> key
	vdr             *vdrStub
	fetch           func(d, f string) (*verifier.PublicKey, error)
	semCalls, seed  int
	semAll          bool
	kidOverride     string // the kid of signed tokens, when it is not the signer's own method
	kidSuffix       string // appended to the kid of signed tokens (a kid with a second '#': the resolver gets the part between)
}

const (
	didA = "did:ex:a"
	didM = "did:ex:m"
	didB = "did:ex:b"
	didP = "did:ex:p"
)

func newWorld() *world {
	w := &world{byRef: map[string]*key{}}
	w.party = newPartyKeys(1)

	for i, f := range fams {
		w.attacker = append(w.attacker, newBareKey(100+i, strings.ToLower(f[1:]), f))
	}

	for _, k := range w.party {
		w.byRef[didA+"#"+k.name] = k
	}

	for _, k := range w.attacker {
		w.byRef[didM+"#"+k.name] = k
	}

	for i, n := range []string{"multi:FP256", "cap:FP384", "ka1:FP256", "ka2:FEd25519", "k10:FEd25519", "k1:FEd25519"} {
		p := strings.Split(n, ":")
		k := newBareKey(200+i, p[0], p[1])
		w.extra = append(w.extra, k)
		w.byRef[didB+"#"+k.name] = k
	}

	w.vdr = newVDR()

	return w
}

func coqKey(k *key, jwkForm bool) string {
	r := "RRaw"
	if jwkForm {
		r = "RJwk"
	}

	return fmt.Sprintf("{| pk_fam := %s; pk_repr := %s; pk_id := %d |}", k.fam, r, k.id)
}

// coqStr prints a Coq string literal; ok=false when the bytes cannot be written in one.
func coqStr(s string) (string, bool) {
	var b strings.Builder

	b.WriteByte('"')

	for _, c := range []byte(s) {
		switch {
		case c == '"':
			b.WriteString("\"\"")
		case c >= 32 && c < 127, c == '\n', c == '\t', c == '\r':
			b.WriteByte(c)
		default:
			return "", false
		}
	}

	b.WriteByte('"')

	return b.String(), true
}

func stageOf(err error) string {
	s := err.Error()
	s = strings.TrimPrefix(s, "jwt verification failed: ")
	s = strings.TrimPrefix(s, "parse JWT from compact JWS: ")

	switch {
	case s == "JWT of compacted JWS form is supported only", s == "invalid JWS compact format",
		s == "JWS JSON serialization is not supported":
		return "StSplit"
	case strings.HasPrefix(s, "decode base64 header"), strings.HasPrefix(s, "unmarshal JSON headers"),
		strings.HasSuffix(s, "JWS header is not defined"):
		return "StHdr"
	case strings.HasPrefix(s, "decode base64 payload"):
		return "StPay"
	case strings.HasPrefix(s, "build signing input"):
		return "StSigIn"
	case strings.HasPrefix(s, "decode base64 signature"):
		return "StSigDec"
	case strings.HasPrefix(s, "check JWT headers"):
		return "StJwtHdr"
	case strings.HasPrefix(s, "read JWT claims"):
		return "StClaims"
	}

	return "StVerif"
}

type observed struct {
	Outcome string `json:"outcome"` // accept | reject | crash
	Stage   string `json:"stage,omitempty"`
	Err     string `json:"err,omitempty"`
	Payload string `json:"payload,omitempty"`
}

type cryptoVerifier interface {
	Verify(signature, msg []byte, kh interface{}) error
}

// cfgKey returns the key a single-key verifier configuration names ("single:", "fixed:", "default:").
func (w *world) cfgKey(cfg string) *key {
	if i := strings.Index(cfg, ":"); i > 0 {
		return w.byRef[cfg[i+1:]]
	}

	return nil
}

// execute runs the case on the real implementation.
func (w *world) execute(c *Case) (o observed) {
	var v jose.SignatureVerifier

	switch {
	case c.Cfg == "basic" && w.shared != nil:
		v = w.shared
	case c.Cfg == "basic":
		v = jwt.NewVerifier(jwt.KeyResolverFunc(w.fetch))
	case strings.HasPrefix(c.Cfg, "single:") && w.sharedSingle[c.Cfg] != nil:
		v = w.sharedSingle[c.Cfg]
	case strings.HasPrefix(c.Cfg, "single:"):
		k := w.byRef[strings.TrimPrefix(c.Cfg, "single:")]
		sv, err := jwt.GetVerifier(k.pubKey(true))
		must(err)

		v = sv
	case strings.HasPrefix(c.Cfg, "fixed:"):
		k := w.cfgKey(c.Cfg)

		switch pub := k.pub.(type) {
		case ed25519.PublicKey:
			ev, err := jwt.NewEd25519Verifier(pub)
			must(err)

			v = ev
		case *rsa.PublicKey:
			v = jwt.NewRS256Verifier(pub)
		}
	case strings.HasPrefix(c.Cfg, "default:"):
		// as pkg/didcomm middleware verifies from_prior: key handle from the verifier's KMS, crypto.Verify, alg not consulted
		k := w.cfgKey(c.Cfg)
		kh, err := localkms.PublicKeyBytesToHandle(k.kmsBytes, k.kt)
		must(err)

		if w.vcrypto == nil {
			cr, err := tinkcrypto.New()
			must(err)

			w.vcrypto = cr
		}

		v = jose.DefaultSigningInputVerifier(func(_ jose.Headers, _, signingInput, signature []byte) error {
			return w.vcrypto.Verify(signature, signingInput, kh)
		})
	default:
		v = jwt.UnsecuredJWTVerifier()
	}

	defer func() {
		if r := recover(); r != nil {
			o = observed{Outcome: "crash", Err: fmt.Sprint(r)}
		}
	}()

	var (
		payload []byte
		err     error
	)

	switch c.Entry {
	case "jws":
		var opts []jose.JWSParseOpt
		if c.HasDet {
			opts = append(opts, jose.WithJWSDetachedPayload([]byte(c.Det)))
		}

		var j *jose.JSONWebSignature

		j, err = jose.ParseJWS(c.Tok, v, opts...)
		if err == nil {
			payload = j.Payload
		}
	case "jwt", "jwt-ignore":
		opts := []jwt.ParseOpt{jwt.WithSignatureVerifier(v)}
		if c.HasDet {
			opts = append(opts, jwt.WithJWTDetachedPayload([]byte(c.Det)))
		}

		if c.Entry == "jwt-ignore" {
			opts = append(opts, jwt.WithIgnoreClaimsMapDecoding(true))
		}

		_, payload, err = jwt.Parse(c.Tok, opts...)
	case "did":
		err = didsignjwt.VerifyJWT(c.Tok, w.vdr)
		if err == nil {
			// VerifyJWT returns no payload; the payload it accepted is the decoded middle segment
			parts := strings.Split(c.Tok, ".")
			payload, _ = b64.DecodeString(parts[1])
		}
	}

	if err != nil {
		return observed{Outcome: "reject", Stage: stageOf(err), Err: err.Error()}
	}

	return observed{Outcome: "accept", Payload: string(payload)}
}

var famAlg = map[string]string{"FEd25519": "EdDSA", "FP256": "ES256", "FP384": "ES384", "FP521": "ES521", "FSecp256k1": "ES256K", "FRSA": "PS256"}

// strictVerify is the oracle's own signature check (Go standard library only): is sig a valid signature under
// alg (with the meaning published for that name) by key k over msg?
func strictVerify(alg string, k *key, msg, sig []byte) bool {
	if k == nil || algFam[alg] == "" || algFam[alg] != k.fam {
		return false
	}

	switch pub := k.pub.(type) {
	case ed25519.PublicKey:
		return ed25519.Verify(pub, msg, sig)
	case *rsa.PublicKey:
		d := sha256.Sum256(msg)
		if alg == "PS256" {
			return rsa.VerifyPSS(pub, crypto.SHA256, d[:], sig, nil) == nil
		}

		return rsa.VerifyPKCS1v15(pub, crypto.SHA256, d[:], sig) == nil
	case *ecdsa.PublicKey:
		d := hashFor(algProc[alg], msg)
		n := (pub.Curve.Params().BitSize + 7) / 8

		if len(sig) == 2*n {
			return ecdsa.Verify(pub, d, new(big.Int).SetBytes(sig[:n]), new(big.Int).SetBytes(sig[n:]))
		}

		var es struct{ R, S *big.Int }
		rest, err := asn1.Unmarshal(sig, &es)
		if err != nil || len(rest) != 0 || es.R == nil || es.S == nil {
			return false
		}

		return ecdsa.Verify(pub, d, es.R, es.S)
	}

	return false
}

// run executes one case, evaluates the direct oracle, prints the model's case term.
func (w *world) run(kind string, c *Case, withCoq bool, tr *hx.Trace) {
	if c.Entry == "did" && (c.HasDet || c.Cfg != "basic") {
		d := *c
		d.Entry = "jwt"
		c = &d
	}

	w.record(kind, c, w.execute(c), withCoq, tr)
}

// record evaluates the direct oracle on an observed verdict and prints the model's case term.
func (w *world) record(kind string, c *Case, o observed, withCoq bool, tr *hx.Trace) {
	rec := &hx.Record{Kind: kind, Case: c, Observed: o, Oracle: "ok"}

	parts := strings.Split(c.Tok, ".")

	var (
		hdr     jose.Headers
		hdrOK   bool
		payload []byte
	)

	if len(parts) == 3 {
		if hb, err := b64.DecodeString(parts[0]); err == nil {
			if gojson.Unmarshal(hb, &hdr) == nil {
				hdrOK = true
			}
		}

		if c.HasDet && len(c.Det) > 0 {
			payload = []byte(c.Det)
		} else {
			payload, _ = b64.DecodeString(parts[1])
		}
	}

	detached := c.HasDet && len(c.Det) > 0
	signatureChecking := c.Cfg != "unsecured"

	// ---- the property's direct oracle ----
	switch {
	case o.Outcome == "crash":
		rec.Oracle, rec.Sig = "fail", "crash"
		rec.Detail = "the verifier panicked instead of rejecting: " + o.Err
	case o.Outcome == "accept" && signatureChecking:
		alg, _ := hdr["alg"].(string)
		sig, _ := b64.DecodeString(parts[2])

		var received, rebuilt []byte

		b64Hdr, hasB64 := hdr["b64"].(bool)
		if hasB64 && !b64Hdr {
			received = []byte(parts[0] + "." + string(payload))
			rebuilt = received
		} else {
			rebuilt = []byte(parts[0] + "." + b64.EncodeToString(payload))
			received = rebuilt

			if !detached {
				received = []byte(parts[0] + "." + parts[1])
			}
		}

		if !detached && b64.EncodeToString(payload) != parts[1] {
			received = []byte(parts[0] + "." + parts[1])
		}

		// the keys the token may legitimately be verified with (the oracle's own reading of the documents)
		var cands []*key

		if k := w.cfgKey(c.Cfg); k != nil {
			cands = []*key{k}
		} else if kid, isStr := hdr["kid"].(string); isStr {
			if ps := strings.Split(kid, "#"); len(ps) >= 2 {
				for _, m := range w.candidates(ps[0], ps[1]) {
					cands = append(cands, m.k)
				}
			}
		}

		if strings.HasPrefix(c.Cfg, "default:") {
			// jose.DefaultSigningInputVerifier: the wrapped function decides key and procedure (the key's own);
			// the property still wants the signature to cover the received header bytes
			k := cands[0]
			ka := famAlg[k.fam]
			canon, _ := gojson.Marshal(hdr)
			canonMsg := append([]byte(b64.EncodeToString(canon)), received[len(parts[0]):]...)

			switch {
			case !hdrOK || len(sig) == 0:
				rec.Oracle, rec.Sig = "fail", "accept-unsigned"
			case strictVerify(ka, k, received, sig):
			case strictVerify(ka, k, canonMsg, sig):
				rec.Oracle, rec.Sig = "fail", "default-input-verifier-reserialized-header"
				rec.Detail = "jose.DefaultSigningInputVerifier accepted a token whose received header bytes are not the signed ones (it verifies the re-marshalled header)"
			default:
				rec.Oracle, rec.Sig = "fail", "accept-invalid-signature"
				rec.Detail = "DefaultSigningInputVerifier configuration accepted although the signature is valid neither for the received nor for the re-marshalled header"
			}

			break
		}

		famOK, recvOK, rebuiltOK := false, false, false

		for _, k := range cands {
			if algFam[alg] == k.fam {
				famOK = true
				recvOK = recvOK || strictVerify(alg, k, received, sig)
				rebuiltOK = rebuiltOK || strictVerify(alg, k, rebuilt, sig)
			}
		}

		switch {
		case !hdrOK || alg == "none" || len(sig) == 0:
			rec.Oracle, rec.Sig = "fail", "accept-unsigned"
			rec.Detail = "a signature-checking verifier accepted a token without signature / alg none"
		case len(cands) == 0:
			rec.Oracle, rec.Sig = "fail", "accept-no-signing-key"
			rec.Detail = "accepted although the kid names no method of its DID document that is listed for anything but key agreement"
		case !famOK:
			rec.Oracle, rec.Sig = "fail", "accept-alg-key-mismatch"
			rec.Detail = fmt.Sprintf("alg %s accepted although no key the kid can resolve to is of its family", alg)
		case !recvOK:
			if rebuiltOK {
				rec.Oracle, rec.Sig = "fail", "accept-noncanonical-payload"
				rec.Detail = "accepted although the received payload segment is not what was signed (it only decodes to it)"
			} else {
				rec.Oracle, rec.Sig = "fail", "accept-invalid-signature"
				rec.Detail = "accepted although the signature is not valid for the received header and payload under " + alg + " for any signing key of the kid's DID the kid names"
			}
		}
	}

	// ---- evidence labels ----
	mut := c.Note
	if i := strings.Index(mut, ":"); i > 0 {
		mut = mut[:i]
	}

	algL, _ := hdr["alg"].(string)
	rec.Dist = []string{"entry:" + c.Entry, "cfg:" + strings.SplitN(c.Cfg, ":", 2)[0], "out:" + o.Outcome + o.Stage, "mut:" + mut}
	if allowedLabel(algL) {
		rec.Dist = append(rec.Dist, "alg:"+algL)
	}

	rec.Class = fmt.Sprintf("%s|%s|%s|%s|%s%s|%v", c.Entry, strings.SplitN(c.Cfg, ":", 2)[0], algL, c.Note, o.Outcome, o.Stage, detached)
	rec.Trivial = len(parts) != 3

	// ---- the model's case ----
	if withCoq {
		rec.Coq = w.coqCase(c, o, hdr, hdrOK, payload)
	}

	if rec.Oracle == "fail" && c.World == nil {
		cc := *c
		cc.World = w.export()
		rec.Case = &cc
	}

	tr.Put(rec)
}

func allowedLabel(a string) bool {
	for _, x := range append([]string{"none"}, allAlgs...) {
		if a == x {
			return true
		}
	}

	return false
}

func (w *world) coqCase(c *Case, o observed, hdr jose.Headers, hdrOK bool, payload []byte) string {
	ok := true
	str := func(s string) string {
		q, good := coqStr(s)
		if !good {
			ok = false
		}

		return q
	}

	entry := map[string]string{"jws": "EJws", "jwt": "(EJwt false)", "jwt-ignore": "(EJwt true)", "did": "(EJwt false)"}[c.Entry]

	cfg := "VBasic"

	switch {
	case strings.HasPrefix(c.Cfg, "single:"):
		cfg = "(VSingle " + coqKey(w.byRef[strings.TrimPrefix(c.Cfg, "single:")], true) + ")"
	case c.Cfg == "unsecured":
		cfg = "VUnsecured"
	case strings.HasPrefix(c.Cfg, "fixed:"):
		k := w.cfgKey(c.Cfg)
		cfg = fmt.Sprintf("(VFixed %q %s)", map[string]string{"FEd25519": "EdDSA", "FRSA": "RS256"}[k.fam], coqKey(k, false))
	case strings.HasPrefix(c.Cfg, "default:"):
		cfg = "(VDefault " + coqKey(w.cfgKey(c.Cfg), false) + ")"
	}

	det := "None"
	if c.HasDet {
		det = "(Some " + str(c.Det) + ")"
	}

	// the header bytes are decoded by the MODEL; only the re-marshalled bytes (what DefaultSigningInputVerifier
	// verifies over) are handed over, and the model's own marshal is compared with them
	canonS := `""`

	if hdrOK {
		canon, _ := gojson.Marshal(hdr)
		canonS = `"` + b64.EncodeToString(canon) + `"`
	}

	// the document the kid's DID resolves to, as the harness built it (NOT what the resolver answered)
	keys := "[]"

	if kid, isStr := hdr["kid"].(string); isStr {
		if ps := strings.Split(kid, "#"); len(ps) >= 2 {
			if dd := w.docs[ps[0]]; dd != nil {
				if !w.deterministic(ps[0], ps[1]) {
					return ""
				}

				var ms []string
				for _, m := range dd.sorted() {
					r := "RRaw"
					if m.jwk {
						r = "RJwk"
					}

					ms = append(ms, fmt.Sprintf("M %s %s %s %s %d", str(m.id), m.rel, m.k.fam, r, m.k.id))
				}

				keys = fmt.Sprintf("[(%s, [%s])]", str(ps[0]), strings.Join(ms, "; "))
			}
		}
	}

	sigv := "SOther"
	if c.SigKey != "" {
		sigv = fmt.Sprintf("(SBy %d %s (chars %s))", w.byRef[c.SigKey].id, parenProc(c.SigProc), str(c.SigMsg))
	}

	if c.HasDet && len(c.Det) > 0 {
		payload = []byte(c.Det)
	}

	_, perr := jwt.PayloadToMap(payload)

	obs := "OCrash"

	switch o.Outcome {
	case "accept":
		obs = "(OAccept " + str(o.Payload) + ")"
	case "reject":
		obs = "(OReject " + o.Stage + ")"
	}

	tokS, sigS := str(c.Tok), str(c.Sig0)

	if !ok {
		return ""
	}

	return fmt.Sprintf("{| c_entry := %s; c_cfg := %s; c_det := %s; c_tok := %s; c_canon := %s; c_docs := %s; c_sig0 := %s; c_sigv0 := %s; c_payobj := %s; c_obs := %s |}",
		entry, cfg, det, tokS, canonS, keys, sigS, sigv, hx.CoqBool(perr == nil && payload != nil), obs)
}

// ---------- token construction ----------

type baseTok struct {
	hdr, pay string // the JSON texts
	hseg     string
	pseg     string // "" when detached
	sseg     string
	det      string
	hasDet   bool
	key      string // did#stem of the signer
	proc     string
	msg      string
	cfgRef   string // did#frag named by kid
}

func (b *baseTok) tok() string { return b.hseg + "." + b.pseg + "." + b.sseg }

func (b *baseTok) mk(entry, cfg, note string) *Case {
	return &Case{Entry: entry, Cfg: cfg, Det: b.det, HasDet: b.hasDet, Tok: b.tok(), Sig0: b.sseg, SigKey: b.key,
		SigProc: b.proc, SigMsg: b.msg, Note: note}
}

// with returns a copy of the case with another token (the known signature stays the base token's).
func with(c *Case, tok, note string) *Case {
	d := *c
	d.Tok, d.Note = tok, note

	return &d
}

// headerJSON writes a header with the members in the given order; spacing varies with the style.
func headerJSON(members [][2]string, style int) string {
	sep, col := ",", ":"

	switch style % 3 {
	case 1:
		sep, col = ", ", ": "
	case 2:
		sep, col = " ,", " :"
	}

	var ms []string
	for _, m := range members {
		ms = append(ms, fmt.Sprintf("%q%s%s", m[0], col, m[1]))
	}

	return "{" + strings.Join(ms, sep) + "}"
}

func q(s string) string { return fmt.Sprintf("%q", s) }

// sign makes a token of the key by its holder's real signer (honest) over the received-form signing input.
func (w *world) sign(ref string, jwkForm bool, hdrExtra [][2]string, claims string, style int, detached, rawPayload bool) *baseTok {
	k := w.byRef[ref]
	frag := k.name + "-r"

	if jwkForm {
		frag = k.name + "-j"
	}

	d := ref[:strings.Index(ref, "#")]
	alg := k.alg
	proc := k.hproc

	if k.hon == nil {
		alg = map[string]string{"FEd25519": "EdDSA", "FP256": "ES256", "FP384": "ES384", "FP521": "ES521", "FSecp256k1": "ES256K", "FRSA": "PS256"}[k.fam]
		proc = algProc[alg]
	}

	kidStr := d + "#" + frag + w.kidSuffix
	if w.kidOverride != "" {
		kidStr = w.kidOverride
	}

	members := [][2]string{{"alg", q(alg)}, {"kid", q(kidStr)}}
	members = append(members, hdrExtra...)

	if rawPayload {
		members = append(members, [2]string{"b64", "false"})
	}

	if style%2 == 1 {
		members[0], members[1] = members[1], members[0]
	}

	b := &baseTok{hdr: headerJSON(members, style), pay: claims, key: ref, proc: proc, cfgRef: d + "#" + frag}
	if w.kidOverride != "" {
		b.cfgRef = w.kidOverride
	}

	b.hseg = b64.EncodeToString([]byte(b.hdr))

	switch {
	case rawPayload:
		b.msg = b.hseg + "." + claims
	default:
		b.msg = b.hseg + "." + b64.EncodeToString([]byte(claims))
	}

	if detached {
		b.det, b.hasDet = claims, true
	} else {
		b.pseg = b64.EncodeToString([]byte(claims))
	}

	var (
		sig []byte
		err error
	)

	if k.hon != nil {
		sig, err = k.hon.Sign([]byte(b.msg))
		must(err)
	} else {
		enc := "p1363"
		if style%2 == 1 {
			enc = "der"
		}

		sig = rawSign(k.priv, proc, enc, []byte(b.msg))
	}

	b.sseg = b64.EncodeToString(sig)

	return b
}

func claimsJSON(r *hx.Rng, size int) string {
	m := [][2]string{{"iss", q("did:ex:a")}, {"sub", q(fmt.Sprintf("user-%d", r.Intn(1000)))}}

	pool := [][2]string{{"iat", fmt.Sprint(1600000000 + r.Intn(100000000))}, {"admin", "false"}, {"aud", q("https://rp.example/" + fmt.Sprint(r.Intn(99)))},
		{"nonce", q(b64.EncodeToString(r.Bytes(6)))}, {"vc", `{"type":["VerifiableCredential"],"credentialSubject":{"id":"did:ex:s","degree":"BSc"}}`},
		{"amount", fmt.Sprint(r.Intn(100000))}, {"scope", q("read write")}}

	for i := 0; i < size; i++ {
		m = append(m, pool[r.Intn(len(pool))])
	}

	seen := map[string]bool{}

	var out [][2]string

	for _, kv := range m {
		if !seen[kv[0]] {
			seen[kv[0]] = true
			out = append(out, kv)
		}
	}

	return headerJSON(out, 0)
}

// ---------- alterations ----------

const urlAlphabet = "ABCDEFGHIJKLMNOPQRSTUVWXYZabcdefghijklmnopqrstuvwxyz0123456789-_"

// substitutes returns replacement characters for position i of a segment: a random alphabet character, the
// neighbour that differs only in the low bits (non-canonical tail candidates), and an out-of-alphabet character.
func substitutes(r *hx.Rng, c byte, n int) []byte {
	var out []byte

	idx := strings.IndexByte(urlAlphabet, c)
	if idx >= 0 {
		out = append(out, urlAlphabet[idx^1], urlAlphabet[idx^(1<<uint(1+r.Intn(5)))])
	}

	for len(out) < n {
		x := urlAlphabet[r.Intn(64)]
		if r.Intn(8) == 0 {
			x = "=+/ .~{\n\t*"[r.Intn(10)]
		}

		if x != c {
			out = append(out, x)
		}
	}

	return out[:n]
}

func join3(p [3]string) string { return p[0] + "." + p[1] + "." + p[2] }

// positional emits, for every position of every segment, nSub substitutions (the first one goes through the model),
// plus deletions and line-break insertions at sampled positions.
func (w *world) positional(r *hx.Rng, b *baseTok, c *Case, nSub int, coqEvery int, tr *hx.Trace) {
	segs := [3]string{b.hseg, b.pseg, b.sseg}
	names := [3]string{"hdr", "pay", "sig"}
	n := 0

	for s := 0; s < 3; s++ {
		seg := segs[s]

		for i := 0; i < len(seg); i++ {
			for j, x := range substitutes(r, seg[i], nSub) {
				p := segs
				p[s] = seg[:i] + string(x) + seg[i+1:]
				last := "mid"

				if i == len(seg)-1 {
					last = "last"
				}

				n++
				w.run("alter", with(c, join3(p), "subst-"+names[s]+"-"+last), j == 0 && n%coqEvery == 0 || (j <= 1 && i >= len(seg)-2), tr)
			}
		}

		for t := 0; t < 6 && len(seg) > 0; t++ {
			i := r.Intn(len(seg) + 1)
			p := segs
			p[s] = seg[:i] + []string{"\n", "\r\n", "\n\n"}[t%3] + seg[i:]
			w.run("alter", with(c, join3(p), "newline-"+names[s]), t < 3, tr)

			i = r.Intn(len(seg))
			p = segs
			p[s] = seg[:i] + seg[i+1:]
			w.run("alter", with(c, join3(p), "delete-"+names[s]), t < 2, tr)

			p = segs
			p[s] = seg[:i] + string(urlAlphabet[r.Intn(64)]) + seg[i:]
			w.run("alter", with(c, join3(p), "insert-"+names[s]), t < 2, tr)
		}
	}
}

// reheader builds the token that keeps payload and signature of b but carries another header text.
func reheader(b *baseTok, hdr string) string {
	return b64.EncodeToString([]byte(hdr)) + "." + b.pseg + "." + b.sseg
}

// semantic emits the header/structure level attacks on a base token.
func (w *world) semantic(r *hx.Rng, b *baseTok, c *Case, tr *hx.Trace) {
	k := w.byRef[b.key]
	alg := k.alg

	if alg == "" {
		alg = map[string]string{"FEd25519": "EdDSA", "FP256": "ES256", "FP384": "ES384", "FP521": "ES521", "FSecp256k1": "ES256K", "FRSA": "PS256"}[k.fam]
	}

	kid := b.cfgRef
	w.semCalls++
	coq := w.semAll || (w.semCalls+w.seed)%3 == 0
	put := func(note, tok string) { w.run("attack", with(c, tok, note), coq, tr) }
	hdrWith := func(a, kd string, extra ...[2]string) string {
		m := [][2]string{}
		if a != "-" {
			m = append(m, [2]string{"alg", a})
		}

		if kd != "-" {
			m = append(m, [2]string{"kid", kd})
		}

		return headerJSON(append(m, extra...), 0)
	}

	// same header content, other bytes: re-ordered / re-spaced (the signature covers the received bytes)
	var hm map[string]json.RawMessage

	_ = json.Unmarshal([]byte(b.hdr), &hm)

	names := make([]string, 0, len(hm))
	for n := range hm {
		names = append(names, n)
	}

	sort.Strings(names)

	for style := 0; style < 3; style++ {
		var m [][2]string
		for _, n := range names {
			m = append(m, [2]string{n, string(hm[n])})
		}

		if h := headerJSON(m, style); h != b.hdr {
			put("reserialized-header", reheader(b, h))
		}
	}

	put("reserialized-header", reheader(b, b.hdr+" "))

	// alg attacks
	for _, a := range append([]string{"none", "None", "HS256", "", "ES512"}, allAlgs...) {
		if a != alg {
			put("alg-swap", reheader(b, hdrWith(q(a), q(kid))))
		}
	}

	put("alg-missing", reheader(b, hdrWith("-", q(kid))))
	put("alg-nonstring", reheader(b, hdrWith("7", q(kid))))
	put("alg-nonstring", reheader(b, hdrWith("null", q(kid))))
	put("alg-nonstring", reheader(b, hdrWith(`["`+alg+`"]`, q(kid))))

	// unsigned
	for _, a := range []string{"none", alg} {
		h := b64.EncodeToString([]byte(hdrWith(q(a), q(kid))))
		put("unsigned", h+"."+b.pseg+".")
		put("unsigned", h+"."+b.pseg+"."+b.sseg)
		put("unsigned", h+"."+b.pseg+".AA")
	}

	put("unsigned", b.hseg+"."+b.pseg+".")

	// kid attacks
	d := kid[:strings.Index(kid, "#")]
	frag := kid[strings.Index(kid, "#")+1:]

	for _, kd := range []string{q(d), q(d + "#"), q(strings.TrimPrefix(kid, "did:")), q("#" + frag), q(d + "#" + frag + "#x"),
		q(d + "#nokey"), q("did:ex:zz#" + frag), q(d + "#" + frag[:len(frag)-2]), q(didM + "#" + frag), "7", "null", "-", q("")} {
		put("kid-attack", reheader(b, hdrWith(q(alg), kd)))
	}

	// another key of the same did / the attacker's did named by kid
	for _, o := range w.party {
		if o != k && r.Intn(3) == 0 {
			put("kid-otherkey", reheader(b, hdrWith(q(alg), q(didA+"#"+o.name+"-j"))))
		}
	}

	// b64 / typ / cty members added to the (then no longer signed) header
	for _, e := range [][2]string{{"b64", "false"}, {"b64", "true"}, {"b64", `"false"`}, {"b64", "0"}, {"b64", "null"},
		{"typ", `"JWT"`}, {"typ", `"jwt"`}, {"typ", `"at+jwt"`}, {"typ", `"vc+sd-jwt"`}, {"typ", `"JOSE"`}, {"typ", "1"}, {"cty", `"JWT"`}, {"cty", `"json"`}} {
		put("member-"+e[0], reheader(b, hdrWith(q(alg), q(kid), e)))
	}

	// structure
	put("structure", b.hseg+"."+b.pseg)
	put("structure", b.tok()+".")
	put("structure", b.tok()+"."+b.sseg)
	put("structure", "."+b.pseg+"."+b.sseg)
	put("structure", b.hseg+".."+b.sseg)
	put("structure", "{"+b.tok())
	put("structure", `{"payload":"`+b.pseg+`","protected":"`+b.hseg+`","signature":"`+b.sseg+`"}`)
	put("structure", "")
	put("structure", b.pseg+"."+b.hseg+"."+b.sseg)

	// payload replaced by other claims (same length and different length)
	other := claimsJSON(r, 2)
	put("payload-replaced", b.hseg+"."+b64.EncodeToString([]byte(other))+"."+b.sseg)
	put("payload-replaced", b.hseg+"."+b64.EncodeToString([]byte(strings.Replace(b.pay, "false", "true ", 1)))+"."+b.sseg)
	put("payload-replaced", b.hseg+"."+b64.EncodeToString([]byte("not json"))+"."+b.sseg)
	put("payload-replaced", b.hseg+"."+b64.EncodeToString([]byte("[1]"))+"."+b.sseg)
	put("payload-padded", b.hseg+"."+b.pseg+"="+"."+b.sseg)

	// detached option handed to an attached token and the reverse
	dc := *c
	dc.HasDet, dc.Det = true, other
	w.run("attack", with(&dc, b.tok(), "detached-other"), coq, tr)

	dc.Det = b.pay
	w.run("attack", with(&dc, b.hseg+".."+b.sseg, "detached-same"), coq, tr)
	w.run("attack", with(&dc, b.hseg+".e30."+b.sseg, "detached-junk-middle"), coq, tr)

	dc.Det = ""
	w.run("attack", with(&dc, b.tok(), "detached-empty"), coq, tr)
}

// cross emits tokens in which alg and key disagree, signed by the key's holder in every way he can.
func (w *world) cross(r *hx.Rng, tr *hx.Trace, entries []string) {
	n := 0

	for _, a := range allAlgs {
		for _, k := range w.attacker {
			for _, jwkForm := range []bool{true, false} {
				for _, p := range procsOfFam(k.fam) {
					for _, e := range encsOfFam(k.fam) {
						frag := k.name + "-r"
						if jwkForm {
							frag = k.name + "-j"
						}

						hdr := headerJSON([][2]string{{"alg", q(a)}, {"kid", q(didM + "#" + frag)}}, n)
						claims := claimsJSON(r, 1)
						hseg, pseg := b64.EncodeToString([]byte(hdr)), b64.EncodeToString([]byte(claims))
						msg := hseg + "." + pseg
						sig := rawSign(k.priv, p, e, []byte(msg))
						sseg := b64.EncodeToString(sig)
						c := &Case{Entry: entries[n%len(entries)], Cfg: "basic", Tok: msg + "." + sseg, Sig0: sseg,
							SigKey: didM + "#" + k.name, SigProc: p, SigMsg: msg, Note: "cross:" + e}
						n++

						// signature meaning: bytes are a signature only in a well-formed encoding (exact r||s or exact DER).
						// A DER signature followed by further bytes is NOT a signature (the ECDSA verifier rejects trailing
						// data since /repo adba44c); such bytes mean nothing (SOther) under every alg.
						if e == "derpad" {
							c.SigKey, c.SigProc, c.SigMsg = "", "", ""
						}

						// the model abstracts from the signature encoding: cases whose encoding the alg's verifier cannot
						// even read are checked by the direct oracle only, unless alg and key agree on family and procedure
						match := algFam[a] == k.fam && algProc[a] == p
						w.run("cross", c, !match || e != "derpad" || true, tr)

						if jwkForm && n%3 == 0 {
							s := *c
							s.Cfg, s.Note = "single:"+didM+"#"+k.name, "cross-single:"+e
							if s.Entry == "did" {
								s.Entry = "jwt"
							}

							w.run("cross", &s, true, tr)
						}
					}
				}
			}
		}
	}
}

func main() {
	gen := flag.String("gen", "", "write coq/gen/Gen_C08.v to this file and exit")
	args := hx.ParseArgs()

	if *gen != "" {
		generate(*gen)
		return
	}

	tr := hx.NewTrace(args.Out)
	defer tr.Close()

	var w *world

	if args.Replay != "" {
		b, err := os.ReadFile(args.Replay)
		must(err)

		var f struct {
			Case *Case `json:"case"`
		}

		must(json.Unmarshal(b, &f))

		if f.Case != nil && f.Case.World != nil {
			w = importWorld(f.Case.World)
		}
	}

	if w == nil {
		w = newWorld()
	}

	w.layout()
	didKeys := w.didKeyLayout()
	w.fetch = didsignjwt.NewVDRKeyResolver(w.vdr).PublicKeyFetcher()

	if args.Replay != "" {
		b, err := os.ReadFile(args.Replay)
		must(err)

		var f struct {
			Case *Case `json:"case"`
		}

		must(json.Unmarshal(b, &f))
		w.replay("replay", f.Case, tr)

		return
	}

	rng := hx.NewRng(args.Seed)
	w.corpus(args.Extra, tr)

	thorough := args.Tier == "thorough"
	w.seed, w.semAll = int(args.Seed%3), thorough
	entries := []string{"jws", "jwt", "did", "jwt-ignore"}

	// base tokens: every party key in both published forms; quick alters one form per key position-exhaustively
	nb := 0

	for ki, k := range w.party {
		for fi, jwkForm := range []bool{false, true} {
			r := rng.Fork(uint64(1000 + 10*ki + fi))
			ref := didA + "#" + k.name
			extra := [][2]string{}

			if r.Intn(2) == 0 {
				extra = append(extra, [2]string{"typ", `"JWT"`})
			}

			b := w.sign(ref, jwkForm, extra, claimsJSON(r, 1+r.Intn(3)), r.Intn(6), false, false)
			entry := entries[nb%len(entries)]
			nb++
			c := b.mk(entry, "basic", "honest")
			w.run("honest", c, true, tr)

			for _, e := range entries {
				if e != entry {
					w.run("honest", b.mk(e, "basic", "honest"), true, tr)
				}
			}

			if jwkForm {
				w.run("honest", b.mk("jwt", "single:"+ref, "honest"), true, tr)
				w.run("honest", b.mk("jws", "unsecured", "honest-unsecured-verifier"), true, tr)
			}

			full := thorough || (int(args.Seed)+ki)%2 == fi
			nSub, every := 2, 8

			if thorough {
				nSub, every = 6, 2
			}

			if full {
				w.positional(r, b, c, nSub, every, tr)
			}

			w.semantic(r, b, c, tr)

			if jwkForm {
				sc := b.mk("jwt", "single:"+ref, "honest")
				w.semantic(r, b, sc, tr)
			}
		}
	}

	// honestly signed tokens whose kid has a second fragment separator: the key is the one named between the two
	for ki, k := range w.party {
		r := rng.Fork(uint64(3000 + ki))
		w.kidSuffix = []string{"#x", "#" + k.name + "-r", "#"}[ki%3]
		b := w.sign(didA+"#"+k.name, ki%2 == 0, nil, claimsJSON(r, 1), r.Intn(6), false, false)
		w.kidSuffix = ""
		w.run("honest", b.mk(entries[ki%4], "basic", "honest-kid-two-fragments"), true, tr)
	}

	// detached and b64=false tokens
	for ki, k := range w.party {
		r := rng.Fork(uint64(5000 + ki))
		ref := didA + "#" + k.name

		for v := 0; v < 3; v++ {
			detached, rawp := v != 1, v >= 1
			b := w.sign(ref, r.Bool(), nil, claimsJSON(r, 1), r.Intn(6), detached, rawp)
			entry := []string{"jws", "jwt", "jwt-ignore"}[(ki+v)%3]
			c := b.mk(entry, "basic", fmt.Sprintf("honest-det%v-raw%v", detached, rawp))
			w.run("honest", c, true, tr)

			if detached {
				// the detached payload altered at every position
				step := 1
				if !thorough {
					step = 3
				}

				for i := r.Intn(step); i < len(b.det); i += step {
					d := *c
					x := byte(32 + r.Intn(95))

					if x == b.det[i] {
						x ^= 1
					}

					d.Det = b.det[:i] + string(x) + b.det[i+1:]
					w.run("alter", with(&d, b.tok(), "subst-detached"), true, tr)
				}

				d := *c
				d.Det = b.det + " "
				w.run("alter", with(&d, b.tok(), "subst-detached"), true, tr)

				d.HasDet, d.Det = false, ""
				w.run("attack", with(&d, b.tok(), "detached-missing"), true, tr)
				w.run("attack", with(c, b.hseg+"."+b64.EncodeToString([]byte(b.det))+"."+b.sseg, "detached-and-attached"), true, tr)
				w.run("attack", with(c, b.hseg+".e30."+b.sseg, "detached-junk-middle"), true, tr)
			} else {
				w.positional(r, b, c, 1, 2, tr)
			}

			w.semantic(r, b, c, tr)
		}
	}

	// documents with methods under single relationships, several relationships, key agreement only (with signature
	// capable keys), relative ids and fragments containing each other: every key of did:ex:b signs tokens naming
	// every method id of the document (and ids of the other documents)
	{
		r := rng.Fork(13000)
		kids := []string{didB + "#multi", didB + "#cap", didB + "#ka-1", didB + "#ka-2", didB + "#ka", didB + "#key-10", didB + "#key-1",
			didB + "#key", didB + "#", didB + "#mul", didA + "#key-1", didM + "#key-1", "did:ex:none#key-1"}
		n := 0

		for _, k := range w.extra {
			for _, kid := range kids {
				w.kidOverride = kid
				b := w.sign(didB+"#"+k.name, true, nil, claimsJSON(r, 1), r.Intn(6), false, false)
				w.kidOverride = ""
				w.run("docs", b.mk([]string{"did", "jwt", "jws"}[n%3], "basic", "doc-method:"+kid[strings.Index(kid, "#"):]), true, tr)
				n++
			}
		}
	}

	// SEQUENCES through ONE verifier instance (verifiers are long-lived objects): victim, attacker and forged tokens
	// of DIDs that share a fragment, in every order; the model is stateless, so any state a verifier keeps between
	// tokens shows up as a disagreement on the 2nd, 3rd ... token
	{
		r := rng.Fork(14000)
		mkTok := func(signer, kid, note string) *Case {
			w.kidOverride = kid
			b := w.sign(signer, true, nil, claimsJSON(r, 1), r.Intn(6), false, false)
			w.kidOverride = ""

			return b.mk("jwt", "basic", note)
		}
		pool := []*Case{
			mkTok(didA+"#ed", didA+"#key-1", "seq-victim"),
			mkTok(didM+"#ed25519", didM+"#key-1", "seq-attacker"),
			mkTok(didM+"#ed25519", didA+"#key-1", "seq-forged"),
			mkTok(didA+"#ed", didM+"#key-1", "seq-forged-reverse"),
			mkTok(didB+"#k10", didB+"#key-1", "seq-substring"),
			mkTok(didB+"#ka1", didB+"#ka-1", "seq-keyagreement"),
			mkTok(didA+"#p256", didA+"#p256-j", "seq-other-alg"),
		}
		seqN := 0
		runSeq := func(seq []int) {
			entry := []string{"jwt", "jws", "jwt-ignore", "did"}[seqN%4]
			seqN++

			if entry != "did" {
				w.shared = jwt.NewVerifier(jwt.KeyResolverFunc(w.fetch))
			}

			var prefix []string

			for pos, i := range seq {
				c := *pool[i]
				c.Entry = entry
				c.Note = fmt.Sprintf("%s@%d", c.Note, pos)
				c.Prefix = append([]string(nil), prefix...)
				w.run("sequence", &c, true, tr)
				prefix = append(prefix, c.Tok)
			}

			w.shared = nil
		}

		for i := range pool {
			for j := range pool {
				runSeq([]int{i, j})

				for k := range pool {
					if thorough || (i+2*j+3*k+int(args.Seed))%5 == 0 {
						runSeq([]int{i, j, k})
					}
				}
			}
		}

		// one GetVerifier instance per key, fed its own and foreign tokens alternately
		w.sharedSingle = map[string]jose.SignatureVerifier{}

		for _, k := range w.party {
			cfg := "single:" + didA + "#" + k.name
			sv, err := jwt.GetVerifier(k.pubKey(true))
			must(err)

			w.sharedSingle[cfg] = sv
			own := w.sign(didA+"#"+k.name, true, nil, claimsJSON(r, 1), 0, false, false)
			other := w.party[(k.id)%len(w.party)]
			foreign := w.sign(didA+"#"+other.name, true, nil, claimsJSON(r, 1), 0, false, false)

			for pos, b := range []*baseTok{foreign, own, foreign, own} {
				w.run("sequence", b.mk([]string{"jws", "jwt"}[pos%2], cfg, fmt.Sprintf("seq-single@%d", pos)), true, tr)
			}
		}

		w.sharedSingle = nil
	}

	// the single-key verifiers of jwt_support.go (alg fixed) and jose.DefaultSigningInputVerifier configured as the
	// didcomm middleware does (key handle in the verifier's KMS, crypto.Verify, alg not consulted)
	{
		r := rng.Fork(16000)
		n := 0

		type kc struct {
			ref, cfg string
		}

		var list []kc

		for _, k := range append(append([]*key{}, w.party...), w.attacker...) {
			d := didA
			if k.origin == "bare" {
				d = didM
			}

			ref := d + "#" + k.name
			if (k.fam == "FEd25519" || k.fam == "FRSA") && (k.hproc == "" || k.hproc == "PEd" || k.hproc == "PPkcs") {
				list = append(list, kc{ref, "fixed:" + ref})
			}

			if k.kmsBytes != nil {
				list = append(list, kc{ref, "default:" + ref})
			}
		}

		for _, x := range list {
			k := w.byRef[x.ref]
			if k.fam == "FRSA" && k.hon == nil {
				continue // bare RSA keys sign PS256
			}

			for style := 0; style < 2; style++ {
				extra := [][2]string{}
				if n%2 == 0 {
					extra = append(extra, [2]string{"typ", `"JWT"`})
				}

				b := w.sign(x.ref, true, extra, claimsJSON(r, 1+r.Intn(2)), style, false, false)
				if k.hon == nil && k.fam != "FEd25519" && style == 1 {
					continue // DER signatures do not fit an r||s key handle
				}

				entry := []string{"jws", "jwt", "jwt-ignore"}[n%3]
				n++
				note := "honest"

				if style == 1 {
					note = "honest-noncanonical-header"
				}

				c := b.mk(entry, x.cfg, note)
				w.run("singlekey", c, true, tr)
				w.semantic(r, b, c, tr)

				if style == 0 && (thorough || (n+w.seed)%5 == 0) {
					w.positional(r, b, c, 2, 4, tr)
				}

				// detached
				db := w.sign(x.ref, true, nil, claimsJSON(r, 1), 0, true, false)
				dc := db.mk(entry, x.cfg, "honest-dettrue-rawfalse")
				w.run("singlekey", dc, true, tr)

				d2 := *dc
				d2.Det = db.det + " "
				w.run("singlekey", with(&d2, db.tok(), "subst-detached"), true, tr)
			}
		}
	}

	// signature ENCODINGS: length changes, leading/trailing bytes, S+L (Ed25519), s+N (RSA), (r, n-s), r||s <-> DER,
	// zero-extended halves (ECDSA).  The bytes are a signature exactly when they verify in a well-formed encoding.
	{
		r := rng.Fork(17000)
		n := 0

		for _, k := range w.party {
			ref := didA + "#" + k.name

			for _, jwkForm := range []bool{false, true} {
				b := w.sign(ref, jwkForm, nil, claimsJSON(r, 1), 0, false, false)
				sig, _ := b64.DecodeString(b.sseg)

				for _, v := range sigVariants(k, sig) {
					seg := b64.EncodeToString(v.bytes)
					c := b.mk([]string{"jws", "jwt", "did"}[n%3], "basic", "sigenc-"+v.name)
					n++
					c.Tok, c.Sig0 = b.hseg+"."+b.pseg+"."+seg, seg

					if !strictVerify(k.alg, k, []byte(b.msg), v.bytes) {
						c.SigKey, c.SigProc, c.SigMsg = "", "", ""
					}

					w.run("sigenc", c, true, tr)

					if k.fam == "FEd25519" || (k.fam == "FRSA" && k.hproc == "PPkcs") {
						f := *c
						f.Entry, f.Cfg = "jwt", "fixed:"+ref
						w.run("sigenc", &f, true, tr)
					}
				}
			}
		}
	}

	// kid FORMS: honestly signed tokens whose kid is a relative reference, carries a query, a path, parameters,
	// percent-encoding, other letter case or white space: only an absolute did:...#fragment naming a served DID resolves
	{
		r := rng.Fork(18000)
		n := 0

		for _, name := range []string{"ed", "p256"} {
			for _, kid := range []string{"#" + name + "-j", didA + "?versionId=1#" + name + "-j", didA + "/path#" + name + "-j",
				didA + ";service=x#" + name + "-j", didA + "#" + strings.Replace(name, "d", "%64", 1) + "-j", didA + "#" + name + "%2Dj",
				"DID:EX:A#" + name + "-j", didA + "#" + strings.ToUpper(name) + "-J", " " + didA + "#" + name + "-j", didA + "#" + name + "-j ",
				didA + "#" + name + "-j?x=1", didA + " #" + name + "-j", "did:ex:A#" + name + "-j", didA + "#" + name + "-j"} {
				w.kidOverride = kid
				b := w.sign(didA+"#"+name, true, nil, claimsJSON(r, 1), r.Intn(6), false, false)
				w.kidOverride = ""
				w.run("kidform", b.mk([]string{"did", "jws", "jwt"}[n%3], "basic", "kid-form"), true, tr)
				n++
			}
		}
	}

	// did:key kids resolved by the real did:key method
	w.didKeyGroup(rng.Fork(22), didKeys, tr)

	// header JSON: the decoder's view of the header bytes (model decodes the bytes itself)
	w.headerJSONGroup(rng.Fork(21), int(args.Seed), thorough, tr)

	// claims decoding (jwt.PayloadToMap): payload bytes the model decodes itself
	w.claimsGroup(rng.Fork(23), int(args.Seed), thorough, tr)

	// CONCURRENT use of verifiers
	w.concurrent(rng.Fork(15000), thorough, tr)

	// alg / key cross combinations
	w.cross(rng.Fork(7), tr, []string{"jws", "jwt", "did"})

	// unsecured tokens: only the explicit unsecured verifier accepts them
	for i := 0; i < 6; i++ {
		r := rng.Fork(uint64(9000 + i))
		claims := claimsJSON(r, 2)
		tokn, err := jwt.NewUnsecured(json.RawMessage(claims), jose.Headers{"typ": "JWT"})
		must(err)

		s, err := tokn.Serialize(false)
		must(err)

		for _, cfg := range []string{"unsecured", "basic", "single:" + didA + "#" + w.party[i%len(w.party)].name} {
			for _, e := range []string{"jws", "jwt"} {
				w.run("unsecured", &Case{Entry: e, Cfg: cfg, Tok: s, Note: "unsecured-token"}, true, tr)
				w.run("unsecured", &Case{Entry: e, Cfg: cfg, Tok: s + "AAAA", Note: "unsecured-token-with-sig"}, true, tr)
			}
		}
	}

	// tokens produced by the repo's own producer path (didsignjwt.SignJWT over the party's KMS is exercised by C04;
	// here jwt.NewSigned with the party signer)
	for ki, k := range w.party {
		r := rng.Fork(uint64(11000 + ki))
		claims := claimsJSON(r, 2)
		frag := k.name + []string{"-r", "-j"}[ki%2]

		tokn, err := jwt.NewSigned(json.RawMessage(claims), jose.Headers{"kid": didA + "#" + frag, "typ": "JWT"}, &joseSigner{k})
		must(err)

		s, err := tokn.Serialize(false)
		must(err)

		parts := strings.Split(s, ".")
		c := &Case{Entry: entries[ki%4], Cfg: "basic", Tok: s, Sig0: parts[2], SigKey: didA + "#" + k.name, SigProc: k.hproc,
			SigMsg: parts[0] + "." + parts[1], Note: "honest-newsigned"}
		w.run("honest", c, true, tr)
	}
}

type joseSigner struct{ k *key }

func (s *joseSigner) Sign(d []byte) ([]byte, error) { return s.k.hon.Sign(d) }
func (s *joseSigner) Headers() jose.Headers         { return jose.Headers{"alg": s.k.alg} }

func (w *world) replay(kind string, c *Case, tr *hx.Trace) {
	// a replayed case names its signature by description; keys differ between runs, so a corpus case is a
	// recipe: it is re-signed when it carries a recipe, otherwise executed as is.
	if len(c.Prefix) > 0 && c.Cfg == "basic" && c.Entry != "did" {
		w.shared = jwt.NewVerifier(jwt.KeyResolverFunc(w.fetch))

		for _, t := range c.Prefix {
			p := *c
			p.Tok, p.Prefix = t, nil
			w.execute(&p)
		}
	}

	if len(c.Overlap) > 0 {
		var bs []*Case

		for _, t := range c.Overlap {
			b := *c
			b.Tok, b.Overlap, b.SigKey, b.Sig0 = t, nil, "", ""
			bs = append(bs, &b)
		}

		w.overlap(kind, c, bs, c.Shared, false, tr)

		return
	}

	w.run(kind, c, c.SigKey == "", tr)
}

// corpus cases are recipes applied to freshly signed tokens (keys are per run).
func (w *world) corpus(dir string, tr *hx.Trace) {
	files, _ := filepath.Glob(filepath.Join(dir, "*.json"))
	sort.Strings(files)

	for _, f := range files {
		b, err := os.ReadFile(f)
		must(err)

		var rc struct {
			Recipe string `json:"recipe"`
		}

		must(json.Unmarshal(b, &rc))

		for _, c := range w.recipe(rc.Recipe) {
			w.run("corpus:"+filepath.Base(f), c, true, tr)
		}
	}
}

func (w *world) recipe(name string) []*Case {
	r := hx.NewRng(42)

	switch name {
	case "es256-with-secp256k1-jwk":
		k := w.attacker[4]
		hdr := headerJSON([][2]string{{"alg", q("ES256")}, {"kid", q(didM + "#" + k.name + "-j")}}, 0)
		hseg, pseg := b64.EncodeToString([]byte(hdr)), b64.EncodeToString([]byte(claimsJSON(r, 1)))
		msg := hseg + "." + pseg
		sseg := b64.EncodeToString(rawSign(k.priv, "PEc H256", "p1363", []byte(msg)))

		return []*Case{{Entry: "did", Cfg: "basic", Tok: msg + "." + sseg, Sig0: sseg, SigKey: didM + "#" + k.name,
			SigProc: "PEc H256", SigMsg: msg, Note: "cross:p1363"}}
	case "default-verifier-reserialized-header":
		b := w.sign(didA+"#ed", true, nil, claimsJSON(r, 1), 0, false, false)
		c := b.mk("jws", "default:"+didA+"#ed", "honest")

		return []*Case{c, with(c, reheader(b, strings.Replace(b.hdr, ",", " , ", 1)), "reserialized-header")}
	case "kid-without-fragment":
		b := w.sign(didA+"#ed", true, nil, claimsJSON(r, 1), 0, false, false)
		c := b.mk("jwt", "basic", "honest")
		hdr := headerJSON([][2]string{{"alg", q("EdDSA")}, {"kid", q(didA)}}, 0)

		return []*Case{with(c, reheader(b, hdr), "kid-attack")}
	case "noncanonical-payload":
		var out []*Case

		for i := 0; len(out) < 2 && i < 50; i++ {
			b := w.sign(didA+"#p256", true, nil, claimsJSON(r, 1+i%3), 0, false, false)
			if len(b.pseg)%4 == 0 {
				continue
			}

			c := b.mk("jws", "basic", "honest")
			last := b.pseg[len(b.pseg)-1]
			idx := strings.IndexByte(urlAlphabet, last)
			out = append(out, with(c, b.hseg+"."+b.pseg[:len(b.pseg)-1]+string(urlAlphabet[idx^1])+"."+b.sseg, "subst-pay-last"),
				with(c, b.hseg+"."+b.pseg[:5]+"\n"+b.pseg[5:]+"."+b.sseg, "newline-pay"))
		}

		return out
	}

	return nil
}

type sigVariant struct {
	name  string
	bytes []byte
}

var (
	edL, _ = new(big.Int).SetString("7237005577332262213973186563042994240857116359379907606001950938285454250989", 10)
)

func cat(bs ...[]byte) []byte {
	var out []byte
	for _, b := range bs {
		out = append(out, b...)
	}

	return out
}

// sigVariants re-encodes / perturbs a signature in the ways specific to its scheme.
func sigVariants(k *key, sig []byte) []sigVariant {
	out := []sigVariant{
		{"lead-zero", cat([]byte{0}, sig)}, {"trail-zero", cat(sig, []byte{0})},
		{"drop-last", sig[:len(sig)-1]}, {"drop-first", sig[1:]}, {"doubled", cat(sig, sig)},
	}

	switch pub := k.pub.(type) {
	case ed25519.PublicKey:
		// S + L: the same scalar modulo the group order, little endian
		s := make([]byte, 32)
		for i := 0; i < 32; i++ {
			s[i] = sig[63-i]
		}

		v := new(big.Int).Add(new(big.Int).SetBytes(s), edL)
		if v.BitLen() <= 256 {
			be := v.FillBytes(make([]byte, 32))
			le := make([]byte, 32)

			for i := 0; i < 32; i++ {
				le[i] = be[31-i]
			}

			out = append(out, sigVariant{"ed-s-plus-l", cat(sig[:32], le)})
		}
	case *rsa.PublicKey:
		v := new(big.Int).Add(new(big.Int).SetBytes(sig), pub.N)
		if v.BitLen() <= 8*len(sig) {
			out = append(out, sigVariant{"rsa-s-plus-n", v.FillBytes(make([]byte, len(sig)))})
		}

		out = append(out, sigVariant{"rsa-s-plus-n-long", v.Bytes()})
	case *ecdsa.PublicKey:
		n := (pub.Curve.Params().BitSize + 7) / 8

		var rr, ss *big.Int

		if len(sig) == 2*n {
			rr, ss = new(big.Int).SetBytes(sig[:n]), new(big.Int).SetBytes(sig[n:])
		} else {
			var es struct{ R, S *big.Int }
			if _, err := asn1.Unmarshal(sig, &es); err != nil {
				return out
			}

			rr, ss = es.R, es.S
		}

		p1363 := func(a, b *big.Int, sz int) []byte { return cat(a.FillBytes(make([]byte, sz)), b.FillBytes(make([]byte, sz))) }
		der := func(a, b *big.Int) []byte {
			d, err := asn1.Marshal(struct{ R, S *big.Int }{a, b})
			must(err)

			return d
		}
		ns := new(big.Int).Sub(pub.Curve.Params().N, ss)
		out = append(out, sigVariant{"ec-as-p1363", p1363(rr, ss, n)}, sigVariant{"ec-as-der", der(rr, ss)},
			sigVariant{"ec-n-minus-s", p1363(rr, ns, n)}, sigVariant{"ec-n-minus-s-der", der(rr, ns)},
			sigVariant{"ec-zero-extended", p1363(rr, ss, n+1)}, sigVariant{"ec-der-trailing", cat(der(rr, ss), []byte{0, 0})},
			sigVariant{"ec-s-plus-n", p1363(rr, new(big.Int).Add(ss, pub.Curve.Params().N), n+1)})
	}

	return out
}
