package main

// Header-JSON generator: tokens whose header BYTES exercise the decoder (duplicate members, escaped and case-variant
// member names, wrong types, number grammar and float64 range, UTF-8 / UTF-16 coercions, white space, syntax
// errors, top-level non-objects, deep nesting, unread members such as crit / jwk / jku / x5c).  Every token is
// signed HONESTLY by the key its kid names over exactly the header segment it carries, so the verdict is decided
// by how the header is decoded; the model decodes the same bytes itself (coq/C08/HeaderJson.v).

import (
	"encoding/json"
	"fmt"
	"strings"

	gojson "github.com/go-jose/go-jose/v3/json"

	"verifharness/hx"
)

type hdrVariant struct {
	note string
	text string
}

// signHdr signs a token with the given header bytes by the real signer of the key.
func (w *world) signHdr(ref string, jwkForm bool, hdr, claims string) *baseTok {
	k := w.byRef[ref]
	frag := k.name + "-r"

	if jwkForm {
		frag = k.name + "-j"
	}

	d := ref[:strings.Index(ref, "#")]
	b := &baseTok{hdr: hdr, pay: claims, key: ref, proc: k.hproc, cfgRef: d + "#" + frag}
	b.hseg = b64.EncodeToString([]byte(hdr))
	b.pseg = b64.EncodeToString([]byte(claims))
	b.msg = b.hseg + "." + b.pseg

	// a signer that honours b64=false signs the payload itself
	var hm map[string]interface{}
	if gojson.Unmarshal([]byte(hdr), &hm) == nil {
		if v, ok := hm["b64"].(bool); ok && !v {
			b.msg = b.hseg + "." + claims
		}
	}

	sig, err := k.hon.Sign([]byte(b.msg))
	must(err)

	b.sseg = b64.EncodeToString(sig)

	return b
}

func uEsc(s string) string {
	var sb strings.Builder
	for _, c := range []byte(s) {
		fmt.Fprintf(&sb, `\u%04x`, c)
	}

	return sb.String()
}

func hdrVariants(r *hx.Rng, a, kid, otherAlg string, attackerJWK string) []hdrVariant {
	A, K := q(a), q(kid)
	base := func(extra string) string { return `{"alg":` + A + `,"kid":` + K + extra + `}` }
	deep := strings.Repeat("[", 150) + strings.Repeat("]", 150)
	deepObj := strings.Repeat(`{"a":`, 80) + "1" + strings.Repeat("}", 80)
	long := strings.Repeat("x", 1500)
	digits400 := "1" + strings.Repeat("0", 400)
	tiny := "0." + strings.Repeat("0", 400) + "1"
	i := strings.Index(kid, "#")

	vs := []hdrVariant{
		{"plain", base("")},
		{"ws", " \t\r\n{ \"alg\"\t:\n" + A + " ,\r\n \"kid\" : " + K + "\n}\n \t"},
		{"ws-bad:vt", "\v" + base("")},
		{"ws-bad:ff", base("") + "\f"},
		{"ws-bad:nbsp", "\u00a0" + base("")},
		{"ws-bad:bom", "\ufeff" + base("")},
		{"ws-bad:nul", base("") + "\x00"},
		// escapes in names and values
		{"esc-name:alg", `{"\u0061lg":` + A + `,"kid":` + K + `}`},
		{"esc-name:kid", `{"alg":` + A + `,"k\u0069d":` + K + `}`},
		{"esc-name:upper-hex", `{"\u0061\u006C\u0067":` + A + `,"kid":` + K + `}`},
		{"esc-value:alg", `{"alg":"` + uEsc(a) + `","kid":` + K + `}`},
		{"esc-value:kid-hash", `{"alg":` + A + `,"kid":"` + kid[:i] + `\u0023` + kid[i+1:] + `"}`},
		{"esc-value:kid-all", `{"alg":` + A + `,"kid":"` + uEsc(kid) + `"}`},
		{"esc-value:solidus", `{"alg":` + A + `,"kid":"` + strings.ReplaceAll(kid, ":", `\u003a`) + `","x":"a\/b\\c\"d\b\f\n\r\t"}`},
		{"esc-bad:x", base(`,"x":"\x41"`)},
		{"esc-bad:short-u", base(`,"x":"\u12"`)},
		{"esc-bad:U", base(`,"x":"\U00000041"`)},
		{"esc-bad:quote", base(`,"x":"\'"`)},
		{"esc-bad:nonhex", base(`,"x":"\u00g1"`)},
		{"esc-bad:in-alg", `{"alg":"` + a + `\0","kid":` + K + `}`},
		// duplicate members
		{"dup:alg-same", `{"alg":` + A + `,"alg":` + A + `,"kid":` + K + `}`},
		{"dup:alg-none-first", `{"alg":"none","alg":` + A + `,"kid":` + K + `}`},
		{"dup:alg-none-last", `{"alg":` + A + `,"kid":` + K + `,"alg":"none"}`},
		{"dup:alg-other-first", `{"alg":` + q(otherAlg) + `,"alg":` + A + `,"kid":` + K + `}`},
		{"dup:alg-escaped", `{"alg":` + A + `,"\u0061lg":"none","kid":` + K + `}`},
		{"dup:kid", `{"alg":` + A + `,"kid":` + q(didM+"#key-1") + `,"kid":` + K + `}`},
		{"dup:kid-last", `{"alg":` + A + `,"kid":` + K + `,"kid":` + q(didM+"#key-1") + `}`},
		{"dup:unrelated", base(`,"x":1,"x":1`)},
		{"dup:nested", base(`,"x":{"a":1,"a":2}`)},
		{"dup:nested-array", base(`,"x":[{"a":1,"b":2},{"a":1,"a":1}]`)},
		{"dup:b64", base(`,"b64":true,"b64":false`)},
		{"dup:case-is-not-dup", `{"alg":` + A + `,"Alg":"none","ALG":"none","kid":` + K + `,"Kid":"x"}`},
		// case variants / look-alikes of the member names
		{"case:ALG", `{"ALG":` + A + `,"kid":` + K + `}`},
		{"case:Alg", `{"Alg":` + A + `,"kid":` + K + `}`},
		{"case:alg-space", `{"alg ":` + A + `,"kid":` + K + `}`},
		{"case:KID", `{"alg":` + A + `,"KID":` + K + `}`},
		{"case:Kid", `{"alg":` + A + `,"Kid":` + K + `}`},
		{"case:alg-value-lower", `{"alg":` + q(strings.ToLower(a)) + `,"kid":` + K + `}`},
		{"case:alg-value-upper", `{"alg":` + q(strings.ToUpper(a)) + `,"kid":` + K + `}`},
		{"case:alg-value-space", `{"alg":` + q(a+" ") + `,"kid":` + K + `}`},
		{"case:alg-value-nul", `{"alg":"` + a + `\u0000","kid":` + K + `}`},
		{"case:B64", base(`,"B64":false`)},
		// wrong types
		{"type:alg-num", `{"alg":1,"kid":` + K + `}`},
		{"type:alg-null", `{"alg":null,"kid":` + K + `}`},
		{"type:alg-true", `{"alg":true,"kid":` + K + `}`},
		{"type:alg-array", `{"alg":[` + A + `],"kid":` + K + `}`},
		{"type:alg-object", `{"alg":{"alg":` + A + `},"kid":` + K + `}`},
		{"type:kid-num", `{"alg":` + A + `,"kid":1}`},
		{"type:kid-null", `{"alg":` + A + `,"kid":null}`},
		{"type:kid-array", `{"alg":` + A + `,"kid":[` + K + `]}`},
		{"type:kid-object", `{"alg":` + A + `,"kid":{"id":` + K + `}}`},
		{"type:b64-string", base(`,"b64":"false"`)},
		{"type:b64-num", base(`,"b64":0`)},
		{"type:b64-null", base(`,"b64":null`)},
		{"type:b64-array", base(`,"b64":[false]`)},
		{"type:b64-false", base(`,"b64":false`)},
		{"type:b64-true", base(`,"b64":true,"crit":["b64"]`)},
		{"type:typ-num", base(`,"typ":1`)},
		{"type:typ-null", base(`,"typ":null`)},
		{"type:typ-array", base(`,"typ":["JWT"]`)},
		{"type:cty-num", base(`,"cty":1`)},
		{"type:cty-null", base(`,"cty":null`)},
		{"type:cty-JWT-escaped", base(`,"cty":"\u004aWT"`)},
		{"type:typ-JWT-escaped", base(`,"typ":"\u004aWT"`)},
		// unread members
		{"unread:crit-unknown", base(`,"crit":["exp"],"exp":1700000000`)},
		{"unread:crit-empty", base(`,"crit":[]`)},
		{"unread:crit-string", base(`,"crit":"b64"`)},
		{"unread:crit-alg", base(`,"crit":["alg","kid"]`)},
		{"unread:jwk", base(`,"jwk":` + attackerJWK)},
		{"unread:jku-x5", base(`,"jku":"https://evil.example/keys","x5u":"https://evil.example/c","x5c":["AAAA"],"x5t":"AA"`)},
		{"unread:nested", base(`,"x":{"alg":"none","kid":"did:ex:m#key-1","y":[null,true,false,{"z":[]}]}`)},
		{"unread:null-true", base(`,"x":null,"y":true,"z":false`)},
		{"unread:empty-name", base(`,"":""`)},
		// numbers: grammar and range
		{"num:int", base(`,"n":0,"m":-0,"k":1234567890123456789012345`)},
		{"num:frac-exp", base(`,"n":1.5,"m":-2.25e-3,"k":1E+2,"j":0e0,"i":0.0`)},
		{"num:max", base(`,"n":1.7976931348623157e308`)},
		{"num:max-half-below", base(`,"n":1.7976931348623158e308`)},
		{"num:max-half", base(`,"n":179769313486231580793728971405303415079934132710037826936173778980444968292764750946649017977587207096330286416692887910946555547851940402630657488671505820681908902000708383676273854845817711531764475730270069855571366959622842914819860834936475292719074168444365510704342711559699508093042880177904174497791.9999999999999999999999999`)},
		{"num:over-half", base(`,"n":179769313486231580793728971405303415079934132710037826936173778980444968292764750946649017977587207096330286416692887910946555547851940402630657488671505820681908902000708383676273854845817711531764475730270069855571366959622842914819860834936475292719074168444365510704342711559699508093042880177904174497792`)},
		{"num:over", base(`,"n":1.7976931348623159e308`)},
		{"num:over-e309", base(`,"n":1e309`)},
		{"num:over-neg", base(`,"n":-1e309`)},
		{"num:over-nested", base(`,"x":{"y":[0,1e400]}`)},
		{"num:over-digits", base(`,"n":` + digits400)},
		{"num:over-shifted", base(`,"n":0.000001e315`)},
		{"num:fits-shifted", base(`,"n":` + digits400 + `e-100`)},
		{"num:tiny", base(`,"n":1e-400,"m":` + tiny + `,"k":4.9e-324`)},
		{"num:huge-neg-exp", base(`,"n":1e-99999999999999999999`)},
		{"num:zero-huge-exp", base(`,"n":0e99999999999999999999`)},
		{"num:bad-leading-zero", base(`,"n":01`)},
		{"num:bad-minus", base(`,"n":-`)},
		{"num:bad-dot-end", base(`,"n":1.`)},
		{"num:bad-dot-start", base(`,"n":.5`)},
		{"num:bad-plus", base(`,"n":+1`)},
		{"num:bad-e", base(`,"n":1e`)},
		{"num:bad-e-sign", base(`,"n":1e+`)},
		{"num:bad-hex", base(`,"n":0x10`)},
		{"num:bad-nan", base(`,"n":NaN`)},
		{"num:bad-inf", base(`,"n":Infinity`)},
		{"num:bad-underscore", base(`,"n":1_000`)},
		{"num:bad-minus-zero-digit", base(`,"n":-01`)},
		{"num:alg-is-overflow", `{"alg":1e999,"kid":` + K + `}`},
		// UTF-8 / UTF-16
		{"utf:emoji", base(`,"x":"😀 ü ‱"`)},
		{"utf:pair", base(`,"x":"\ud83d\ude00"`)},
		{"utf:lone-high", base(`,"x":"\ud800A"`)},
		{"utf:lone-low", base(`,"x":"\udc00A"`)},
		{"utf:high-high", base(`,"x":"\ud800\ud800\udc00"`)},
		{"utf:high-bmp", base(`,"x":"\ud83d\u0041"`)},
		{"utf:high-then-raw", base(`,"x":"\ud83dude00"`)},
		{"utf:invalid-ff", base(",\"x\":\"a\xffb\"")},
		{"utf:truncated", base(",\"x\":\"a\xe2\x82\"")},
		{"utf:overlong", base(",\"x\":\"\xc0\xaf\xe0\x80\xaf\"")},
		{"utf:surrogate-bytes", base(",\"x\":\"\xed\xa0\x80\"")},
		{"utf:beyond", base(",\"x\":\"\xf4\x90\x80\x80\xf5\x80\x80\x80\"")},
		{"utf:continuation", base(",\"x\":\"\x80\xbf\"")},
		{"utf:max", base(",\"x\":\"\xf4\x8f\xbf\xbf\xef\xbf\xbd\xe2\x80\xa8\xe2\x80\xa9\x7f\"")},
		{"utf:invalid-in-kid", "{\"alg\":" + A + ",\"kid\":\"" + kid + "\xff\"}"},
		{"utf:invalid-in-name", "{\"alg\":" + A + ",\"kid\":" + K + ",\"a\xff\":1,\"a\xfe\":2}"},
		{"utf:html", base(`,"x":"<script>&amp;</script>"`)},
		{"utf:fffd-dup", "{\"alg\":" + A + ",\"kid\":" + K + ",\"a\xff\":1,\"a\\ufffd\":2}"},
		// syntax
		{"syn:trailing-comma", `{"alg":` + A + `,"kid":` + K + `,}`},
		{"syn:leading-comma", `{,"alg":` + A + `,"kid":` + K + `}`},
		{"syn:single-quotes", `{'alg':'` + a + `','kid':'` + kid + `'}`},
		{"syn:unquoted-name", `{alg:` + A + `,kid:` + K + `}`},
		{"syn:comment", base("") + " // c"},
		{"syn:comment-inside", `{"alg":` + A + `,/* c */"kid":` + K + `}`},
		{"syn:trailing-garbage", base("") + "x"},
		{"syn:two-objects", base("") + base("")},
		{"syn:two-objects-comma", base("") + "," + base("")},
		{"syn:unterminated-object", `{"alg":` + A + `,"kid":` + K},
		{"syn:unterminated-string", `{"alg":` + A + `,"kid":"` + kid + `}`},
		{"syn:control-in-string", "{\"alg\":" + A + ",\"kid\":" + K + ",\"x\":\"a\nb\"}"},
		{"syn:tab-in-string", "{\"alg\":" + A + ",\"kid\":" + K + ",\"x\":\"a\tb\"}"},
		{"syn:del-in-string", "{\"alg\":" + A + ",\"kid\":" + K + ",\"x\":\"a\x7fb\"}"},
		{"syn:missing-colon", `{"alg" ` + A + `,"kid":` + K + `}`},
		{"syn:missing-comma", `{"alg":` + A + ` "kid":` + K + `}`},
		{"syn:colon-colon", `{"alg"::` + A + `,"kid":` + K + `}`},
		{"syn:literal-case", base(`,"x":True`)},
		{"syn:literal-cut", base(`,"x":tru`)},
		{"syn:literal-long", base(`,"x":nullx`)},
		{"syn:literal-glued", base(`,"x":truefalse`)},
		{"syn:array-trailing-comma", base(`,"x":[1,]`)},
		{"syn:array-unclosed", base(`,"x":[1`)},
		{"syn:array-mismatch", base(`,"x":[1}`)},
		{"syn:empty", ""},
		{"syn:ws-only", "  \n"},
		{"syn:empty-object", "{}"},
		// top-level non-objects
		{"top:null", "null"},
		{"top:true", "true"},
		{"top:number", "1"},
		{"top:string", q(base(""))},
		{"top:array", "[" + base("") + "]"},
		{"top:empty-array", "[]"},
		// size / depth
		{"deep:array", base(`,"x":` + deep)},
		{"deep:object", base(`,"x":` + deepObj)},
		{"deep:unbalanced", base(`,"x":` + deep[:len(deep)-1])},
		{"long:string", base(`,"x":"` + long + `"`)},
		{"long:name", `{"` + long + `":1,"alg":` + A + `,"kid":` + K + `}`},
		{"order:kid-first", `{"kid":` + K + `,"typ":"JWT","alg":` + A + `}`},
	}

	// a few random member soups around the real members
	for n := 0; n < 6; n++ {
		pool := []string{`"x":1`, `"y":"z"`, `"crit":["x"]`, `"n":-1.5e10`, `"o":{"p":[1,2,{"q":null}]}`, `"typ":"JWT"`, `"cty":"json"`,
			`"b64":true`, `"e":""`, `"\u0078x":"\u00e9"`, `"s":"\ud83d\ude00"`, `"z":[[],{},[{}]]`}
		ms := []string{`"alg":` + A, `"kid":` + K}

		for j := r.Intn(5); j >= 0; j-- {
			ms = append(ms, pool[r.Intn(len(pool))])
		}

		for i := len(ms) - 1; i > 0; i-- {
			j := r.Intn(i + 1)
			ms[i], ms[j] = ms[j], ms[i]
		}

		sep := []string{",", " , ", ",\n", "\t,"}[r.Intn(4)]
		vs = append(vs, hdrVariant{"soup", "{" + strings.Join(ms, sep) + "}"})
	}

	return vs
}

// headerJSONGroup runs the header-JSON variants for three signer keys (rotating with the seed) through the entry
// points and verifier kinds.
func (w *world) headerJSONGroup(rng *hx.Rng, seed int, thorough bool, tr *hx.Trace) {
	entries := []string{"jws", "jwt", "did", "jwt-ignore"}
	atk, err := json.Marshal(w.attacker[0].jwk)
	if err != nil || len(atk) == 0 {
		atk = []byte(`{"kty":"OKP","crv":"Ed25519","x":"11qYAYKxCrfVS_7TyWQHOg7hcvPapiMlrwIaaPcHURo"}`)
	}

	n := 0

	for ki, k := range w.party {
		if !thorough && (ki+seed)%3 != 0 {
			continue
		}

		r := rng.Fork(uint64(21000 + ki))
		ref := didA + "#" + k.name
		jwkForm := (ki+seed)%2 == 0
		frag := k.name + "-r"

		if jwkForm {
			frag = k.name + "-j"
		}

		other := "ES256"
		if k.alg == "ES256" {
			other = "EdDSA"
		}

		claims := claimsJSON(r, 1)

		for vi, v := range hdrVariants(r, k.alg, didA+"#"+frag, other, string(atk)) {
			b := w.signHdr(ref, jwkForm, v.text, claims)
			note := "hdrjson-" + v.note
			e := entries[(vi+n)%len(entries)]
			w.run("hdrjson", b.mk(e, "basic", note), true, tr)
			w.run("hdrjson", b.mk(entries[(vi+n+1)%len(entries)], "basic", note), true, tr)

			switch {
			case jwkForm:
				w.run("hdrjson", b.mk("jwt", "single:"+ref, note), true, tr)
			case k.fam == "FEd25519" || k.fam == "FP256" || k.fam == "FP384" || k.fam == "FP521":
				// jose.DefaultSigningInputVerifier verifies over the RE-MARSHALLED header: sign that form too
				w.run("hdrjson", b.mk("jws", "default:"+ref, note), true, tr)

				// ... and the same token signed over the re-marshalled header (what that verifier checks)
				var hm map[string]interface{}
				if gojson.Unmarshal([]byte(v.text), &hm) == nil && hm != nil {
					canon, err := gojson.Marshal(hm)
					must(err)

					cb := *b
					cb.msg = b64.EncodeToString(canon) + b.msg[len(b.hseg):]
					sig, err := k.hon.Sign([]byte(cb.msg))
					must(err)

					cb.sseg = b64.EncodeToString(sig)
					w.run("hdrjson", cb.mk([]string{"jws", "jwt-ignore"}[vi%2], "default:"+ref, note+"-canon-signed"), true, tr)
				}
			}
		}

		n++
	}
}

// claimsGroup: honestly signed tokens whose PAYLOAD bytes exercise the claims decoder of jwt.Parse (stream decoder
// of the same JSON fork with UseNumber: one value, numbers not converted, duplicate members rejected, object or
// null), through the entry points with claims decoding on and off.
func (w *world) claimsGroup(rng *hx.Rng, seed int, thorough bool, tr *hx.Trace) {
	deep := strings.Repeat("[", 120) + strings.Repeat("]", 120)
	payloads := []hdrVariant{
		{"object", `{"iss":"did:ex:a","n":1}`},
		{"empty-object", `{}`},
		{"ws", " \n\t{ \"iss\" : \"x\" }\r\n"},
		{"dup", `{"iss":"a","iss":"b"}`},
		{"dup-escaped", `{"iss":"a","\u0069ss":"b"}`},
		{"dup-nested", `{"iss":"a","vc":{"id":1,"id":2}}`},
		{"dup-in-array", `{"iss":"a","l":[{"x":1,"x":1}]}`},
		{"case-not-dup", `{"iss":"a","Iss":"b","ISS":"c"}`},
		{"trailing-garbage", `{"iss":"a"}xyz`},
		{"trailing-object", `{"iss":"a"} {"iss":"b"}`},
		{"trailing-brace", `{"iss":"a"}}`},
		{"trailing-invalid-utf8", "{\"iss\":\"a\"}\xff\x00"},
		{"null", `null`},
		{"null-space", "null \n"},
		{"null-garbage", `nullx`},
		{"null-space-garbage", `null x`},
		{"null-brace", `null{`},
		{"space-null", ` null`},
		{"true", `true`},
		{"number", `1`},
		{"string", `"{}"`},
		{"array", `[{"iss":"a"}]`},
		{"empty", ``},
		{"ws-only", ` `},
		{"num-overflow", `{"exp":1e999,"n":-1e400}`},
		{"num-bad", `{"exp":01}`},
		{"num-bad-dot", `{"exp":1.}`},
		{"num-huge", `{"exp":` + strings.Repeat("9", 400) + `}`},
		{"utf8-invalid", "{\"iss\":\"a\xffb\"}"},
		{"utf8-dup-coerced", "{\"a\xff\":1,\"a\xfe\":2}"},
		{"surrogates", `{"iss":"\ud800\udc00\udc00"}`},
		{"control-in-string", "{\"iss\":\"a\nb\"}"},
		{"single-quotes", `{'iss':'a'}`},
		{"trailing-comma", `{"iss":"a",}`},
		{"unterminated", `{"iss":"a"`},
		{"bom", "\ufeff{\"iss\":\"a\"}"},
		{"deep", `{"x":` + deep + `}`},
		{"deep-unbalanced", `{"x":` + deep[:len(deep)-1] + `}`},
		{"nested-null", `{"iss":null,"vc":{"a":[null,true,false,1.5e-7]}}`},
	}

	entries := []string{"jwt", "jwt-ignore", "did", "jws"}
	n := 0

	for ki, k := range w.party {
		if !thorough && (ki+seed)%4 != 1 {
			continue
		}

		ref := didA + "#" + k.name
		jwkForm := (ki+seed)%2 == 1
		frag := k.name + "-r"

		if jwkForm {
			frag = k.name + "-j"
		}

		hdr := `{"alg":` + q(k.alg) + `,"kid":` + q(didA+"#"+frag) + `}`

		for vi, p := range payloads {
			b := w.signHdr(ref, jwkForm, hdr, p.text)
			note := "claims-" + p.note
			w.run("claims", b.mk("jwt", "basic", note), true, tr)
			w.run("claims", b.mk(entries[(vi+n)%len(entries)], "basic", note), true, tr)

			if jwkForm {
				w.run("claims", b.mk("jwt", "single:"+ref, note), true, tr)
			}

			// the same bytes as a detached payload
			if vi%3 == n%3 && len(p.text) > 0 {
				db := *b
				db.det, db.hasDet, db.pseg = p.text, true, ""
				w.run("claims", db.mk("jwt", "basic", note+"-detached"), true, tr)
			}
		}

		n++
	}
}
