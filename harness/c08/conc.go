package main

import (
	"fmt"
	"runtime"
	"strings"
	"sync"
	"time"

	"github.com/hyperledger/aries-framework-go/component/kmscrypto/doc/jose"
	"github.com/hyperledger/aries-framework-go/component/models/jwt"

	"verifharness/hx"
)

// parker parks ONE verification inside its key resolution (the DID resolver is harness-owned): that is after
// parseCompacted built the signing input and before the signature check.  While it is parked other complete
// verifications run; then it is released.  Verdicts must not depend on any of this.
type parker struct {
	mu      sync.Mutex
	armed   bool
	did     string
	parked  chan struct{}
	release chan struct{}
}

func (p *parker) arm(d string) {
	p.mu.Lock()
	p.armed, p.did = true, d
	p.parked, p.release = make(chan struct{}, 1), make(chan struct{})
	p.mu.Unlock()
}

func (p *parker) disarm() {
	p.mu.Lock()
	p.armed = false
	p.mu.Unlock()
}

func (p *parker) maybePark(d string) {
	p.mu.Lock()
	hit := p.armed && d == p.did
	if hit {
		p.armed = false // one shot
	}

	parked, release := p.parked, p.release
	p.mu.Unlock()

	if hit {
		parked <- struct{}{}
		<-release
	}
}

// overlap runs verification A (its kid names did:ex:p) up to its key resolution, then verifies every B completely
// while A is parked, then lets A finish.  One P is used while doing so, so that anything A left in per-P caches
// (sync.Pool and the like) is what the B's pick up.
func (w *world) overlap(kind string, a *Case, bs []*Case, shared, withCoq bool, tr *hx.Trace) {
	if w.vdr.park == nil {
		w.vdr.park = &parker{}
	}

	if shared {
		w.shared = jwt.NewVerifier(jwt.KeyResolverFunc(w.fetch))
	}

	old := runtime.GOMAXPROCS(1)
	w.vdr.park.arm(didP)

	var oa observed

	done := make(chan struct{})

	go func() {
		oa = w.execute(a)
		close(done)
	}()

	parkedA := false

	select {
	case <-w.vdr.park.parked:
		parkedA = true
	case <-done:
	case <-time.After(60 * time.Second):
		panic("c08: verification A neither parked nor finished within 60 s")
	}

	w.vdr.park.disarm()

	obs := make([]observed, len(bs))
	for i, b := range bs {
		obs[i] = w.execute(b)
	}

	if parkedA {
		close(w.vdr.park.release)
		<-done
	}

	runtime.GOMAXPROCS(old)

	w.shared = nil

	ac := *a
	ac.Shared = shared
	ac.Note = fmt.Sprintf("%s|parked=%v", a.Note, parkedA)

	for _, b := range bs {
		ac.Overlap = append(ac.Overlap, b.Tok)
	}

	w.record(kind, &ac, oa, withCoq, tr)

	for i, b := range bs {
		bc := *b
		bc.Note = b.Note + "|during-park"
		w.record(kind, &bc, obs[i], withCoq && i < 2, tr)
	}
}

// sameLenAlter changes one character in the middle of the payload segment (same length, still canonical).
func sameLenAlter(r *hx.Rng, b *baseTok) string {
	i := 4 + r.Intn(len(b.pseg)-8)
	x := urlAlphabet[(strings.IndexByte(urlAlphabet, b.pseg[i])+1+r.Intn(62))%64]

	return b.hseg + "." + b.pseg[:i] + string(x) + b.pseg[i+1:] + "." + b.sseg
}

func (w *world) concurrent(r *hx.Rng, thorough bool, tr *hx.Trace) {
	entries := []string{"jws", "jwt", "did", "jwt-ignore"}
	n := 0

	for _, k := range w.party {
		ref := didA + "#" + k.name
		mk := func(claims string) *baseTok {
			w.kidOverride = didP + "#" + k.name + "-j"
			b := w.sign(ref, true, nil, claims, 0, false, false)
			w.kidOverride = ""

			return b
		}

		claims := claimsJSON(r, 2)
		g := mk(claims)
		g2 := mk(strings.Replace(claims, "user-", "USER-", 1)) // same length, other content
		g3 := mk(claimsJSON(r, 4))                              // other length
		other := w.party[(k.id)%len(w.party)]
		w.kidOverride = didP + "#" + other.name + "-j"
		go4 := w.sign(didA+"#"+other.name, true, nil, claims, 0, false, false) // another signer
		w.kidOverride = ""

		variants := []struct {
			note string
			tok  string
		}{
			{"conc-altered-same-length", sameLenAlter(r, g)},
			{"conc-altered-same-length", g.hseg + "." + g2.pseg + "." + g.sseg},
			{"conc-altered-other-length", g.hseg + "." + g3.pseg + "." + g.sseg},
			{"conc-altered-header", reheader(g, g.hdr+" ")},
			{"conc-genuine", g.tok()},
		}

		for vi, v := range variants {
			for _, shared := range []bool{false, true} {
				if !thorough && vi >= 2 && shared != ((vi+int(k.id)+w.seed)%2 == 0) {
					continue
				}

				entry := entries[n%len(entries)]
				n++

				if shared && entry == "did" {
					entry = "jwt"
				}

				a := with(g.mk(entry, "basic", v.note), v.tok, v.note)

				var bs []*Case
				for _, b := range []*baseTok{g, g2, g3, go4, g} {
					bs = append(bs, b.mk(entry, "basic", "conc-genuine"))
				}

				w.overlap("concurrent", a, bs, shared, true, tr)
			}
		}
	}

	// free running: goroutines verify shuffled genuine and altered tokens of the same signers through one shared
	// verifier instance and through independent ones
	type job struct {
		c *Case
		o observed
	}

	var pool []*Case

	for _, k := range w.party[:6] {
		w.kidOverride = didP + "#" + k.name + "-j"
		claims := claimsJSON(r, 2)
		g := w.sign(didA+"#"+k.name, true, nil, claims, 0, false, false)
		w.kidOverride = ""

		pool = append(pool, g.mk("jws", "basic", "free-genuine"),
			with(g.mk("jwt", "basic", "free-altered"), sameLenAlter(r, g), "free-altered"),
			with(g.mk("jws", "basic", "free-altered"), sameLenAlter(r, g), "free-altered"))
	}

	for _, shared := range []bool{true, false} {
		var sv jose.SignatureVerifier
		if shared {
			sv = jwt.NewVerifier(jwt.KeyResolverFunc(w.fetch))
		}

		workers := 8
		results := make([][]job, workers)

		var wg sync.WaitGroup

		w.shared = sv

		for g := 0; g < workers; g++ {
			rr := r.Fork(uint64(g))
			wg.Add(1)

			go func(g int) {
				defer wg.Done()

				for i := 0; i < 3*len(pool); i++ {
					c := pool[rr.Intn(len(pool))]
					results[g] = append(results[g], job{c, w.execute(c)})

					if rr.Intn(3) == 0 {
						runtime.Gosched()
					}
				}
			}(g)
		}

		wg.Wait()

		w.shared = nil

		for g, js := range results {
			for _, j := range js {
				c := *j.c
				c.Shared = shared
				w.record("concurrent", &c, j.o, g == 0, tr)
			}
		}
	}
}
