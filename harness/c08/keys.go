package main

import (
	"strings"
	"crypto"
	"crypto/ecdsa"
	"crypto/ed25519"
	"crypto/elliptic"
	"crypto/rand"
	"crypto/rsa"
	"crypto/sha256"
	"crypto/sha512"
	"crypto/x509"
	"encoding/asn1"
	"fmt"
	"math/big"

	"github.com/btcsuite/btcd/btcec"

	"github.com/hyperledger/aries-framework-go/component/kmscrypto/crypto/tinkcrypto"
	"github.com/hyperledger/aries-framework-go/component/kmscrypto/doc/jose/jwk"
	"github.com/hyperledger/aries-framework-go/component/kmscrypto/doc/jose/jwk/jwksupport"
	"github.com/hyperledger/aries-framework-go/component/kmscrypto/kms/localkms"
	"github.com/hyperledger/aries-framework-go/component/models/did"
	sigutil "github.com/hyperledger/aries-framework-go/component/models/signature/util"
	"github.com/hyperledger/aries-framework-go/component/models/signature/verifier"
	"github.com/hyperledger/aries-framework-go/component/storageutil/mem"
	mockkms "github.com/hyperledger/aries-framework-go/pkg/mock/kms"
	"github.com/hyperledger/aries-framework-go/pkg/secretlock/noop"
	kmsapi "github.com/hyperledger/aries-framework-go/spi/kms"
	"github.com/hyperledger/aries-framework-go/spi/vdr"
)

// families as named in coq/C08/Types.v.
var fams = []string{"FEd25519", "FP256", "FP384", "FP521", "FSecp256k1", "FRSA"}

// procedures as named in coq/C08/Types.v.
var procs = []string{"PEd", "PEc H256", "PEc H384", "PEc H512", "PPss", "PPkcs"}

// the published meaning of the alg names (the oracle's own table; RFC 7518/8037/8812, "ES521" as the repo spells it).
var algFam = map[string]string{"EdDSA": "FEd25519", "ES256": "FP256", "ES384": "FP384", "ES521": "FP521",
	"ES256K": "FSecp256k1", "PS256": "FRSA", "RS256": "FRSA"}
var algProc = map[string]string{"EdDSA": "PEd", "ES256": "PEc H256", "ES384": "PEc H384", "ES521": "PEc H512",
	"ES256K": "PEc H256", "PS256": "PPss", "RS256": "PPkcs"}
var allAlgs = []string{"EdDSA", "ES256", "ES384", "ES521", "ES256K", "PS256", "RS256"}

type signer interface {
	Sign(msg []byte) ([]byte, error)
}

// key is one key pair of one party.
type key struct {
	id    int    // pk_id of the model
	name  string // fragment stem
	fam   string
	pub   interface{} // ed25519.PublicKey | *ecdsa.PublicKey | *rsa.PublicKey
	priv  interface{} // nil for keys held inside the KMS
	hon   signer      // the party's real signer (KMS + tinkcrypto, or the repo's software signer)
	hproc string      // the procedure hon implements
	alg   string      // the alg an honest token of this key names
	raw   []byte      // verifier.PublicKey.Value form
	jwk   *jwk.JWK
	origin string
	kt       kmsapi.KeyType // key type and public key bytes in the form a KMS imports them (PubKeyBytesToHandle)
	kmsBytes []byte
}

func curveOf(f string) elliptic.Curve {
	switch f {
	case "FP256":
		return elliptic.P256()
	case "FP384":
		return elliptic.P384()
	case "FP521":
		return elliptic.P521()
	case "FSecp256k1":
		return btcec.S256()
	}

	return nil
}

func famOfPub(pub interface{}) string {
	switch p := pub.(type) {
	case ed25519.PublicKey:
		return "FEd25519"
	case *rsa.PublicKey:
		return "FRSA"
	case *ecdsa.PublicKey:
		for _, f := range []string{"FP256", "FP384", "FP521", "FSecp256k1"} {
			if p.Curve.Params().N.Cmp(curveOf(f).Params().N) == 0 {
				return f
			}
		}
	}

	return ""
}

func must(err error) {
	if err != nil {
		panic(err)
	}
}

func (k *key) fill() {
	k.fam = famOfPub(k.pub)

	switch p := k.pub.(type) {
	case ed25519.PublicKey:
		k.raw = []byte(p)
	case *ecdsa.PublicKey:
		k.raw = elliptic.Marshal(p.Curve, p.X, p.Y)
	case *rsa.PublicKey:
		k.raw = x509.MarshalPKCS1PublicKey(p)
	}

	j, err := jwksupport.JWKFromKey(k.pub)
	must(err)

	k.jwk = j
}

// hashFor returns the digest of msg for an EC procedure.
func hashFor(proc string, msg []byte) []byte {
	switch proc {
	case "PEc H256":
		h := sha256.Sum256(msg)
		return h[:]
	case "PEc H384":
		h := sha512.Sum384(msg)
		return h[:]
	case "PEc H512":
		h := sha512.Sum512(msg)
		return h[:]
	}

	return nil
}

// rawSign signs with a bare private key by any procedure the key's holder can carry out.  enc: "p1363", "der", "derpad".
func rawSign(priv interface{}, proc, enc string, msg []byte) []byte {
	switch p := priv.(type) {
	case ed25519.PrivateKey:
		if proc != "PEd" {
			return nil
		}

		return ed25519.Sign(p, msg)
	case *ecdsa.PrivateKey:
		d := hashFor(proc, msg)
		if d == nil {
			return nil
		}

		r, s, err := ecdsa.Sign(rand.Reader, p, d)
		must(err)

		switch enc {
		case "p1363":
			n := (p.Curve.Params().BitSize + 7) / 8
			out := make([]byte, 2*n)
			r.FillBytes(out[:n])
			s.FillBytes(out[n:])

			return out
		default:
			b, err := asn1.Marshal(struct{ R, S *big.Int }{r, s})
			must(err)

			if enc == "derpad" {
				for len(b) < 140 {
					b = append(b, 0)
				}
			}

			return b
		}
	case *rsa.PrivateKey:
		d := sha256.Sum256(msg)

		switch proc {
		case "PPss":
			b, err := rsa.SignPSS(rand.Reader, p, crypto.SHA256, d[:], nil)
			must(err)

			return b
		case "PPkcs":
			b, err := rsa.SignPKCS1v15(rand.Reader, p, crypto.SHA256, d[:])
			must(err)

			return b
		}
	}

	return nil
}

func procsOfFam(f string) []string {
	switch f {
	case "FEd25519":
		return []string{"PEd"}
	case "FRSA":
		return []string{"PPss", "PPkcs"}
	}

	return []string{"PEc H256", "PEc H384", "PEc H512"}
}

func encsOfFam(f string) []string {
	switch f {
	case "FEd25519", "FRSA":
		return []string{""}
	}

	return []string{"p1363", "der", "derpad"}
}

var rsaPool []*rsa.PrivateKey

func newRSA() *rsa.PrivateKey {
	k, err := rsa.GenerateKey(rand.Reader, 2048)
	must(err)

	return k
}

// newBareKey makes a key pair held as a bare private key (an attacker's, or the translator's probe key).
func newBareKey(id int, name, f string) *key {
	k := &key{id: id, name: name, origin: "bare"}

	switch f {
	case "FEd25519":
		pub, priv, err := ed25519.GenerateKey(rand.Reader)
		must(err)

		k.pub, k.priv = pub, priv
	case "FRSA":
		p := newRSA()
		k.pub, k.priv = &p.PublicKey, p
	default:
		p, err := ecdsa.GenerateKey(curveOf(f), rand.Reader)
		must(err)

		k.pub, k.priv = &p.PublicKey, p
	}

	k.fill()
	k.kmsForm()

	return k
}

// kmsForm sets the importable form of a bare key (Ed25519 and the NIST curves, r||s signatures).
func (k *key) kmsForm() {
	switch k.fam {
	case "FEd25519":
		k.kt, k.kmsBytes = kmsapi.ED25519Type, k.raw
	case "FP256":
		k.kt, k.kmsBytes = kmsapi.ECDSAP256TypeIEEEP1363, k.raw
	case "FP384":
		k.kt, k.kmsBytes = kmsapi.ECDSAP384TypeIEEEP1363, k.raw
	case "FP521":
		k.kt, k.kmsBytes = kmsapi.ECDSAP521TypeIEEEP1363, k.raw
	}
}

// newPartyKeys creates the honest party's keys: inside a real local KMS where the KMS can hold them, with the
// repo's software signers otherwise.
func newPartyKeys(firstID int) []*key {
	p, err := mockkms.NewProviderForKMS(mem.NewProvider(), &noop.NoLock{})
	must(err)

	km, err := localkms.New("local-lock://c08", p)
	must(err)

	cr, err := tinkcrypto.New()
	must(err)

	var out []*key

	add := func(name string, kt kmsapi.KeyType, inKMS bool, alg, hproc string) {
		var (
			s   sigutil.Signer
			err error
		)

		if inKMS {
			s, err = sigutil.NewCryptoSigner(cr, km, kt)
		} else {
			s, err = sigutil.NewSigner(kt)
		}

		must(err)

		k := &key{id: firstID + len(out), name: name, hon: s, hproc: hproc, alg: alg, origin: "party"}

		switch pk := s.PublicKey().(type) {
		case ed25519.PublicKey, *ecdsa.PublicKey, *rsa.PublicKey:
			k.pub = pk
		default:
			// the crypto signer of an Ed25519 KMS key hands out the raw bytes
			k.pub = ed25519.PublicKey(s.PublicKeyBytes())
		}

		k.fill()

		if inKMS {
			k.kt, k.kmsBytes = kt, s.PublicKeyBytes()
		}

		out = append(out, k)
	}

	add("ed", kmsapi.ED25519Type, true, "EdDSA", "PEd")
	add("p256", kmsapi.ECDSAP256TypeIEEEP1363, true, "ES256", "PEc H256")
	add("p256d", kmsapi.ECDSAP256TypeDER, true, "ES256", "PEc H256")
	add("p384", kmsapi.ECDSAP384TypeIEEEP1363, true, "ES384", "PEc H384")
	add("p521", kmsapi.ECDSAP521TypeIEEEP1363, true, "ES521", "PEc H512")
	add("p521d", kmsapi.ECDSAP521TypeDER, true, "ES521", "PEc H512")
	add("k256", kmsapi.ECDSASecp256k1TypeIEEEP1363, false, "ES256K", "PEc H256")
	add("rsaps", kmsapi.RSAPS256Type, false, "PS256", "PPss")
	add("rsars", kmsapi.RSARS256Type, false, "RS256", "PPkcs")

	return out
}

// ---- DID documents and the resolver ----

type vdrStub struct {
	docs map[string]*did.Doc
	park *parker
	real interface {
		Read(string, ...vdr.DIDMethodOption) (*did.DocResolution, error)
	} // the real did:key resolver of /repo
}

func (r *vdrStub) Resolve(d string, _ ...vdr.DIDMethodOption) (*did.DocResolution, error) {
	if r.park != nil {
		r.park.maybePark(d)
	}

	if r.real != nil && strings.HasPrefix(d, "did:key:") {
		return r.real.Read(d)
	}

	doc, ok := r.docs[d]
	if !ok {
		return nil, fmt.Errorf("DID %s not found", d)
	}

	return &did.DocResolution{DIDDocument: doc}, nil
}

func rawVMType(f string) string {
	switch f {
	case "FEd25519":
		return "Ed25519VerificationKey2018"
	case "FRSA":
		return "RsaVerificationKey2018"
	case "FSecp256k1":
		return "EcdsaSecp256k1VerificationKey2019"
	}

	return "EcdsaSecp256r1VerificationKey2019"
}

// method is one entry of doc.VerificationMethods(): a verification method under the relationship the document
// lists it for.
type method struct {
	id  string
	rel string // constructor of coq/C08/Model.v `rel`
	k   *key
	jwk bool
}

// docDesc is the harness's own description of a DID document, groups in the order the model enumerates them.
type docDesc struct {
	did string
	ms  []method
}

var relOrder = []string{"RAuth", "RAssert", "RCapDel", "RCapInv", "RKeyAgr", "RGeneral"}

func (m method) vm(d string) did.VerificationMethod {
	if m.jwk {
		vm, err := did.NewVerificationMethodFromJWK(m.id, "JsonWebKey2020", d, m.k.jwk)
		must(err)

		return *vm
	}

	return *did.NewVerificationMethodFromBytes(m.id, rawVMType(m.k.fam), d, m.k.raw)
}

// build makes the real did.Doc: methods of the general group go to verificationMethod, the others are embedded
// under their relationship.
func (dd *docDesc) build() *did.Doc {
	doc := &did.Doc{ID: dd.did}

	for _, m := range dd.ms {
		vm := m.vm(dd.did)

		switch m.rel {
		case "RGeneral":
			doc.VerificationMethod = append(doc.VerificationMethod, vm)
		case "RAuth":
			doc.Authentication = append(doc.Authentication, did.Verification{VerificationMethod: vm, Relationship: did.Authentication, Embedded: true})
		case "RAssert":
			doc.AssertionMethod = append(doc.AssertionMethod, did.Verification{VerificationMethod: vm, Relationship: did.AssertionMethod, Embedded: true})
		case "RCapDel":
			doc.CapabilityDelegation = append(doc.CapabilityDelegation, did.Verification{VerificationMethod: vm, Relationship: did.CapabilityDelegation, Embedded: true})
		case "RCapInv":
			doc.CapabilityInvocation = append(doc.CapabilityInvocation, did.Verification{VerificationMethod: vm, Relationship: did.CapabilityInvocation, Embedded: true})
		case "RKeyAgr":
			doc.KeyAgreement = append(doc.KeyAgreement, did.Verification{VerificationMethod: vm, Relationship: did.KeyAgreement, Embedded: true})
		}
	}

	return doc
}

// sorted returns the entries group by group in relOrder (the order the model's list has).
func (dd *docDesc) sorted() []method {
	var out []method

	for _, r := range relOrder {
		for _, m := range dd.ms {
			if m.rel == r {
				out = append(out, m)
			}
		}
	}

	return out
}

// candidates is the ORACLE's reading of "the keys a kid may resolve to for signature verification": methods of the
// DID's document whose id contains the fragment and that are listed under some relationship other than keyAgreement.
func (w *world) candidates(d, frag string) []method {
	dd := w.docs[d]
	if dd == nil {
		return nil
	}

	var out []method

	for _, m := range dd.sorted() {
		if m.rel != "RKeyAgr" && strings.Contains(m.id, frag) {
			out = append(out, m)
		}
	}

	return out
}

// deterministic: Go enumerates the relationship groups of a document in map order; the resolver's answer is
// determined only when the first candidate of every group is the same key in the same representation.
func (w *world) deterministic(d, frag string) bool {
	first := map[string]method{}

	for _, m := range w.candidates(d, frag) {
		if _, ok := first[m.rel]; !ok {
			first[m.rel] = m
		}
	}

	var ref *method

	for _, m := range first {
		m := m
		if ref == nil {
			ref = &m
		} else if ref.k != m.k || ref.jwk != m.jwk {
			return false
		}
	}

	return true
}

// layout describes the three documents of a run.
func (w *world) layout() {
	w.docs = map[string]*docDesc{}

	two := func(d string, keys []*key) *docDesc {
		dd := &docDesc{did: d}
		for _, k := range keys {
			dd.ms = append(dd.ms, method{d + "#" + k.name + "-r", "RGeneral", k, false}, method{d + "#" + k.name + "-j", "RGeneral", k, true})
		}

		return dd
	}

	// did:ex:a and did:ex:m publish every key twice ("<name>-r" raw Value bytes, "<name>-j" JsonWebKey2020) and
	// share the fragment "key-1" (different keys)
	a := two(didA, w.party)
	a.ms = append(a.ms, method{didA + "#key-1", "RGeneral", w.party[0], true})
	m := two(didM, w.attacker)
	m.ms = append(m.ms, method{didM + "#key-1", "RGeneral", w.attacker[0], true})

	x := func(n string) *key { return w.byRef[didB+"#"+n] }
	// did:ex:b: methods embedded under single relationships, one method under several, key-agreement-only methods
	// with signature-capable keys (absolute and relative id), fragments that contain each other
	b := &docDesc{did: didB, ms: []method{
		{didB + "#multi", "RAuth", x("multi"), true},
		{didB + "#multi", "RAssert", x("multi"), true},
		{didB + "#cap", "RCapInv", x("cap"), true},
		{didB + "#ka-1", "RKeyAgr", x("ka1"), true},
		{"#ka-2", "RKeyAgr", x("ka2"), false},
		{didB + "#multi", "RKeyAgr", x("multi"), true},
		{didB + "#key-10", "RGeneral", x("k10"), true},
		{didB + "#key-1", "RGeneral", x("k1"), true},
	}}

	// did:ex:p publishes the party's keys once more: resolving it is where the concurrent phase parks a verification
	pd := two(didP, w.party)

	for _, dd := range []*docDesc{a, m, b, pd} {
		w.docs[dd.did] = dd
		w.vdr.docs[dd.did] = dd.build()
	}
}

// pubKey builds the verifier.PublicKey a resolver hands out for the key in the given representation.
func (k *key) pubKey(jwkForm bool) *verifier.PublicKey {
	if jwkForm {
		b, err := k.jwk.PublicKeyBytes()
		must(err)

		return &verifier.PublicKey{Type: "JsonWebKey2020", Value: b, JWK: k.jwk}
	}

	return &verifier.PublicKey{Type: rawVMType(k.fam), Value: k.raw}
}

func newVDR() *vdrStub { return &vdrStub{docs: map[string]*did.Doc{}} }

// KeyPub is the public part of a key of a run (for self-contained replays).
type KeyPub struct {
	Group string `json:"group"` // party | attacker | extra
	Name  string `json:"name"`
	ID    int    `json:"id"`
	Fam   string `json:"fam"`
	Alg   string `json:"alg,omitempty"`
	HProc string `json:"hproc,omitempty"`
	Raw   []byte `json:"raw"`
	KT    string `json:"kt,omitempty"`
	KMS   []byte `json:"kms,omitempty"`
}

func (w *world) export() []KeyPub {
	var out []KeyPub

	for _, k := range w.party {
		out = append(out, KeyPub{Group: "party", Name: k.name, ID: k.id, Fam: k.fam, Alg: k.alg, HProc: k.hproc, Raw: k.raw, KT: string(k.kt), KMS: k.kmsBytes})
	}

	for _, k := range w.attacker {
		out = append(out, KeyPub{Group: "attacker", Name: k.name, ID: k.id, Fam: k.fam, Raw: k.raw, KT: string(k.kt), KMS: k.kmsBytes})
	}

	for _, k := range w.extra {
		out = append(out, KeyPub{Group: "extra", Name: k.name, ID: k.id, Fam: k.fam, Raw: k.raw, KT: string(k.kt), KMS: k.kmsBytes})
	}

	return out
}

func importWorld(ks []KeyPub) *world {
	w := &world{byRef: map[string]*key{}, vdr: newVDR()}

	for _, p := range ks {
		k := &key{id: p.ID, name: p.Name, alg: p.Alg, hproc: p.HProc, origin: "replay"}

		switch p.Fam {
		case "FEd25519":
			k.pub = ed25519.PublicKey(p.Raw)
		case "FRSA":
			pk, err := x509.ParsePKCS1PublicKey(p.Raw)
			must(err)

			k.pub = pk
		default:
			c := curveOf(p.Fam)
			x, y := elliptic.Unmarshal(c, p.Raw)
			k.pub = &ecdsa.PublicKey{Curve: c, X: x, Y: y}
		}

		k.fill()
		k.kt, k.kmsBytes = kmsapi.KeyType(p.KT), p.KMS

		switch p.Group {
		case "party":
			w.party = append(w.party, k)
			w.byRef[didA+"#"+k.name] = k
		case "attacker":
			w.attacker = append(w.attacker, k)
			w.byRef[didM+"#"+k.name] = k
		default:
			w.extra = append(w.extra, k)
			w.byRef[didB+"#"+k.name] = k
		}
	}

	return w
}
