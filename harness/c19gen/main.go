// c19gen: translator for the token-gate table of C19 (coq/gen/Gen_C19.v).
//
// It parses pkg/wallet, pkg/client/vcwallet/client.go and pkg/controller/command/vcwallet/command.go with go/ast
// (no type checker: receivers, struct field types and result types are resolved by name inside the package) and
// emits, for EVERY exported method of wallet.Wallet and wallet.DidComm:
//   - whether it takes an auth token (a string parameter named authToken / auth),
//   - its first statement: `if err := <wallet>.checkAuth(tok) / checkSession(tok); err != nil { return }` or not,
//     and whether the argument of that check is the method's own token parameter,
//   - every place where the token is compared with the session table that is reachable from the body THROUGH the
//     token parameter (followed along same-package calls argument by argument): cs.open(tok) (hard store gate),
//     newContentBasedVDR(tok, ...) (soft store gate), sessionManager().getSession(tok) (key manager of the session),
//     ownedByOther / ownedBy (the two checks),
//   - the number of calls that receive the token but could not be followed ("leaks"),
//   - whether the body does anything at all (Export / Import are unimplemented), and, for methods without a token,
//     whether they touch the session / store managers or the content store;
// for every exported method of vcwallet.Client: whether its first statement takes the token from c.auth() and returns
// on error, and the wallet / didcomm method it forwards to with that token as first argument;
// for every handler of the vcwallet command: the user its wallet.New is called with, the wallet method it calls and
// the token argument of that call (both must come from the same request object).
//
// usage: go run ./c19gen -repo /repo -out Gen_C19.v
package main

import (
	"flag"
	"fmt"
	"go/ast"
	"go/parser"
	"go/printer"
	"go/token"
	"os"
	"path/filepath"
	"sort"
	"strings"
)

type pkg struct {
	fset    *token.FileSet
	funcs   map[string]*ast.FuncDecl // "Recv.name" or "name"
	fields  map[string]string        // "Struct.field" -> type name (same package) or "func"
	results map[string]string        // function name -> result type name
	order   []string
}

func typeName(e ast.Expr) string {
	switch t := e.(type) {
	case *ast.StarExpr:
		return typeName(t.X)
	case *ast.Ident:
		return t.Name
	case *ast.FuncType:
		return "func"
	}

	return ""
}

func load(dir string, only ...string) *pkg {
	p := &pkg{fset: token.NewFileSet(), funcs: map[string]*ast.FuncDecl{}, fields: map[string]string{}, results: map[string]string{}}

	files, err := filepath.Glob(filepath.Join(dir, "*.go"))
	if err != nil || len(files) == 0 {
		fail("no go files in " + dir)
	}

	sort.Strings(files)

	funcTypes := map[string]bool{}

	var parsed []*ast.File

	for _, f := range files {
		base := filepath.Base(f)
		if strings.HasSuffix(base, "_test.go") || strings.HasSuffix(base, "_verif.go") {
			continue
		}

		if len(only) > 0 && base != only[0] {
			continue
		}

		af, err := parser.ParseFile(p.fset, f, nil, 0)
		if err != nil {
			fail(err.Error())
		}

		parsed = append(parsed, af)

		for _, d := range af.Decls {
			if g, ok := d.(*ast.GenDecl); ok && g.Tok == token.TYPE {
				for _, s := range g.Specs {
					ts, _ := s.(*ast.TypeSpec)
					if _, ok := ts.Type.(*ast.FuncType); ok {
						funcTypes[ts.Name.Name] = true
					}
				}
			}
		}
	}

	for _, af := range parsed {
		for _, d := range af.Decls {
			switch x := d.(type) {
			case *ast.FuncDecl:
				key := x.Name.Name
				if x.Recv != nil && len(x.Recv.List) == 1 {
					key = typeName(x.Recv.List[0].Type) + "." + key
				} else if x.Type.Results != nil && len(x.Type.Results.List) > 0 {
					p.results[key] = typeName(x.Type.Results.List[0].Type)
				}

				p.funcs[key] = x
				p.order = append(p.order, key)
			case *ast.GenDecl:
				if x.Tok != token.TYPE {
					continue
				}

				for _, s := range x.Specs {
					ts, _ := s.(*ast.TypeSpec)
					st, ok := ts.Type.(*ast.StructType)
					if !ok {
						continue
					}

					for _, f := range st.Fields.List {
						tn := typeName(f.Type)
						if funcTypes[tn] {
							tn = "func"
						}

						for _, n := range f.Names {
							p.fields[ts.Name.Name+"."+n.Name] = tn
						}
					}
				}
			}
		}
	}

	return p
}

func fail(msg string) {
	fmt.Fprintln(os.Stderr, "c19gen:", msg)
	os.Exit(1)
}

func (p *pkg) str(e ast.Node) string {
	var b strings.Builder
	_ = printer.Fprint(&b, p.fset, e)

	return b.String()
}

// scope of one function: receiver name / type
type scope struct {
	recvName, recvType string
}

func (p *pkg) scopeOf(fd *ast.FuncDecl) scope {
	if fd.Recv != nil && len(fd.Recv.List) == 1 {
		s := scope{recvType: typeName(fd.Recv.List[0].Type)}
		if len(fd.Recv.List[0].Names) == 1 {
			s.recvName = fd.Recv.List[0].Names[0].Name
		}

		return s
	}

	return scope{}
}

// typeOf: the same-package type of an expression, "" when unknown
func (p *pkg) typeOf(e ast.Expr, sc scope) string {
	switch x := e.(type) {
	case *ast.Ident:
		if x.Name == sc.recvName && sc.recvName != "" {
			return sc.recvType
		}
	case *ast.SelectorExpr:
		if t := p.typeOf(x.X, sc); t != "" {
			return p.fields[t+"."+x.Sel.Name]
		}
	case *ast.CallExpr:
		if id, ok := x.Fun.(*ast.Ident); ok {
			return p.results[id.Name]
		}
	case *ast.ParenExpr:
		return p.typeOf(x.X, sc)
	}

	return ""
}

// callee: key of the same-package function / method called, or "field:<Type>.<name>" for a call through a func field
func (p *pkg) callee(c *ast.CallExpr, sc scope) string {
	switch f := c.Fun.(type) {
	case *ast.Ident:
		if _, ok := p.funcs[f.Name]; ok {
			return f.Name
		}
	case *ast.SelectorExpr:
		t := p.typeOf(f.X, sc)
		if t == "" {
			return ""
		}

		if _, ok := p.funcs[t+"."+f.Sel.Name]; ok {
			return t + "." + f.Sel.Name
		}

		if p.fields[t+"."+f.Sel.Name] == "func" {
			return "field:" + t + "." + f.Sel.Name
		}
	}

	return ""
}

type flow struct {
	sinks map[string]bool
	leaks []string
}

func newFlow() *flow { return &flow{sinks: map[string]bool{}} }

//nolint:gochecknoglobals
var primitive = map[string]string{
	"walletSessionManager.getSession":   "SkGet",
	"walletSessionManager.ownedByOther": "SkOther",
	"walletSessionManager.ownedBy":      "SkOwned",
	"field:contentStore.open":           "SkOpen",
	"newContentBasedVDR":                "SkSoft",
}

// follow: everything the token expression `tok` reaches from the body of function key
func (p *pkg) follow(key, tok string, out *flow, seen map[string]bool) {
	if seen[key+"|"+tok] {
		return
	}

	seen[key+"|"+tok] = true

	fd := p.funcs[key]
	if fd == nil || fd.Body == nil {
		return
	}

	sc := p.scopeOf(fd)

	ast.Inspect(fd.Body, func(n ast.Node) bool {
		c, ok := n.(*ast.CallExpr)
		if !ok {
			return true
		}

		for i, a := range c.Args {
			if p.str(a) != tok {
				continue
			}

			k := p.callee(c, sc)

			if s, ok := primitive[k]; ok {
				out.sinks[s] = true
				continue
			}

			if k == "" || strings.HasPrefix(k, "field:") {
				out.leaks = append(out.leaks, key+": "+p.str(c.Fun))
				continue
			}

			// the parameter of the callee that receives the token
			if name := paramName(p.funcs[k], i); name != "" {
				p.follow(k, name, out, seen)
			} else {
				out.leaks = append(out.leaks, key+": "+p.str(c.Fun)+" (variadic / unnamed parameter)")
			}
		}

		return true
	})

	// the token stored into a struct / captured otherwise is followed only for the content based VDR (a primitive)
}

func paramName(fd *ast.FuncDecl, i int) string {
	if fd == nil {
		return ""
	}

	k := 0

	for _, f := range fd.Type.Params.List {
		if _, variadic := f.Type.(*ast.Ellipsis); variadic {
			return ""
		}

		for _, n := range f.Names {
			if k == i {
				return n.Name
			}

			k++
		}
	}

	return ""
}

// tokenParam: the string parameter named authToken / auth
func tokenParam(fd *ast.FuncDecl) string {
	for _, f := range fd.Type.Params.List {
		if id, ok := f.Type.(*ast.Ident); !ok || id.Name != "string" {
			continue
		}

		for _, n := range f.Names {
			if n.Name == "authToken" || n.Name == "auth" {
				return n.Name
			}
		}
	}

	return ""
}

// firstGate: is the first statement `if err := X.checkAuth(a) / X.checkSession(a); err != nil { return ... }` ?
func (p *pkg) firstGate(fd *ast.FuncDecl, sc scope) (gate, arg string) {
	if fd.Body == nil || len(fd.Body.List) == 0 {
		return "GNone", ""
	}

	ifs, ok := fd.Body.List[0].(*ast.IfStmt)
	if !ok || ifs.Init == nil || ifs.Else != nil {
		return "GNone", ""
	}

	as, ok := ifs.Init.(*ast.AssignStmt)
	if !ok || len(as.Lhs) != 1 || len(as.Rhs) != 1 || p.str(as.Lhs[0]) != "err" {
		return "GNone", ""
	}

	c, ok := as.Rhs[0].(*ast.CallExpr)
	if !ok || len(c.Args) != 1 {
		return "GNone", ""
	}

	if p.str(ifs.Cond) != "err != nil" || len(ifs.Body.List) != 1 {
		return "GNone", ""
	}

	ret, ok := ifs.Body.List[0].(*ast.ReturnStmt)
	if !ok || len(ret.Results) == 0 || p.str(ret.Results[len(ret.Results)-1]) != "err" {
		return "GNone", ""
	}

	switch p.callee(c, sc) {
	case "Wallet.checkAuth":
		return "GAuth", p.str(c.Args[0])
	case "Wallet.checkSession":
		return "GSession", p.str(c.Args[0])
	}

	return "GNone", ""
}

func (p *pkg) inert(fd *ast.FuncDecl) bool {
	in := true

	ast.Inspect(fd.Body, func(n ast.Node) bool {
		if c, ok := n.(*ast.CallExpr); ok {
			if s := p.str(c.Fun); s != "fmt.Errorf" && s != "errors.New" {
				in = false
			}
		}

		return true
	})

	return in
}

func (p *pkg) usesState(fd *ast.FuncDecl, sc scope) bool {
	uses := false

	ast.Inspect(fd.Body, func(n ast.Node) bool {
		switch x := n.(type) {
		case *ast.SelectorExpr:
			if t := p.typeOf(x.X, sc); t == "Wallet" && (x.Sel.Name == "contents" || x.Sel.Name == "storeProvider") {
				uses = true
			}
		case *ast.CallExpr:
			if id, ok := x.Fun.(*ast.Ident); ok && (id.Name == "sessionManager" || id.Name == "storeManager" || id.Name == "keyManager") {
				uses = true
			}
		}

		return true
	})

	return uses
}

func coqBool(b bool) string {
	if b {
		return "true"
	}

	return "false"
}

func coqStr(s string) string { return `"` + strings.ReplaceAll(s, `"`, `""`) + `"` }

func sortedKeys(m map[string]bool) []string {
	var ks []string
	for k := range m {
		ks = append(ks, k)
	}

	sort.Strings(ks)

	return ks
}

func exportedMethods(p *pkg, recv string) []string {
	var ks []string

	for _, k := range p.order {
		if strings.HasPrefix(k, recv+".") && ast.IsExported(strings.TrimPrefix(k, recv+".")) {
			ks = append(ks, k)
		}
	}

	sort.Strings(ks)

	return ks
}

func main() {
	repo := flag.String("repo", "/repo", "repository root")
	out := flag.String("out", "", "output file")

	flag.Parse()

	if *out == "" {
		fail("-out required")
	}

	var b strings.Builder

	b.WriteString("(* GENERATED by harness/c19gen from pkg/wallet, pkg/client/vcwallet/client.go and\n" +
		"   pkg/controller/command/vcwallet/command.go — do not edit; regenerated on every run of bin/check C19. *)\n" +
		"From Coq Require Import List String Bool.\nImport ListNotations.\nFrom VF Require Import C19.GateTypes.\n" +
		"Local Open Scope string_scope.\n\n")

	// ---- package wallet ----
	w := load(filepath.Join(*repo, "pkg/wallet"))

	var leaks []string

	b.WriteString("Definition wallet_rows : list wrow := [\n")

	first := true

	for _, recv := range []string{"Wallet", "DidComm"} {
		for _, k := range exportedMethods(w, recv) {
			fd := w.funcs[k]
			sc := w.scopeOf(fd)
			tok := tokenParam(fd)
			gate, garg := w.firstGate(fd, sc)
			fl := newFlow()

			if tok != "" {
				w.follow(k, tok, fl, map[string]bool{})
			}

			leaks = append(leaks, fl.leaks...)

			if !first {
				b.WriteString(";\n")
			}

			first = false

			fmt.Fprintf(&b, "  {| w_recv := R%s; w_name := %s; w_tok := %s; w_gate := %s; w_gate_own := %s; w_sinks := [%s];\n"+
				"     w_leaks := %d; w_inert := %s; w_state := %s |}",
				recv, coqStr(strings.TrimPrefix(k, recv+".")), coqBool(tok != ""), gate, coqBool(tok != "" && garg == tok),
				strings.Join(sortedKeys(fl.sinks), "; "), len(fl.leaks), coqBool(w.inert(fd)), coqBool(w.usesState(fd, sc)))
		}
	}

	b.WriteString("\n].\n\n")

	// the content based VDR keeps the token in a field and presents it to the content store on every Resolve
	fl := newFlow()
	w.follow("walletVDR.Resolve", "v.auth", fl, map[string]bool{})
	leaks = append(leaks, fl.leaks...)
	fmt.Fprintf(&b, "Definition vdr_resolve_sinks : list sink := [%s].\n\n", strings.Join(sortedKeys(fl.sinks), "; "))

	// the two checks themselves
	for _, chk := range []string{"checkAuth", "checkSession"} {
		fl := newFlow()
		w.follow("Wallet."+chk, paramName(w.funcs["Wallet."+chk], 0), fl, map[string]bool{})
		fmt.Fprintf(&b, "Definition %s_sinks : list sink := [%s].\n", strings.ToLower(chk[:1])+chk[1:], strings.Join(sortedKeys(fl.sinks), "; "))

		// which user the check compares with
		user := ""
		ast.Inspect(w.funcs["Wallet."+chk].Body, func(n ast.Node) bool {
			if c, ok := n.(*ast.CallExpr); ok && len(c.Args) == 2 {
				user = w.str(c.Args[1])
			}

			return true
		})
		fmt.Fprintf(&b, "Definition %s_user : string := %s.\n", strings.ToLower(chk[:1])+chk[1:], coqStr(user))
	}

	b.WriteString("\n(* calls that receive the token but could not be followed:\n")

	for _, l := range leaks {
		b.WriteString("   " + l + "\n")
	}

	b.WriteString("*)\n\n")

	// ---- vcwallet.Client ----
	c := load(filepath.Join(*repo, "pkg/client/vcwallet"), "client.go")
	b.WriteString("Definition client_rows : list crow := [\n")

	first = true

	for _, k := range exportedMethods(c, "Client") {
		fd := c.funcs[k]
		authFirst := false

		if len(fd.Body.List) >= 2 {
			as, ok1 := fd.Body.List[0].(*ast.AssignStmt)
			ifs, ok2 := fd.Body.List[1].(*ast.IfStmt)

			if ok1 && ok2 && len(as.Lhs) == 2 && len(as.Rhs) == 1 && c.str(as.Lhs[0]) == "auth" && c.str(as.Lhs[1]) == "err" &&
				c.str(as.Rhs[0]) == "c.auth()" && c.str(ifs.Cond) == "err != nil" && len(ifs.Body.List) == 1 {
				if ret, ok := ifs.Body.List[0].(*ast.ReturnStmt); ok && len(ret.Results) > 0 && c.str(ret.Results[len(ret.Results)-1]) == "err" {
					authFirst = true
				}
			}
		}

		// calls into the wallet / didcomm objects
		var targets []string

		tokOK := true

		ast.Inspect(fd.Body, func(n ast.Node) bool {
			call, ok := n.(*ast.CallExpr)
			if !ok {
				return true
			}

			sel, ok := call.Fun.(*ast.SelectorExpr)
			if !ok {
				return true
			}

			x := c.str(sel.X)
			if x != "c.wallet" && x != "c.didComm" {
				return true
			}

			targets = append(targets, strings.TrimPrefix(x, "c.")+"."+sel.Sel.Name)

			if len(call.Args) == 0 || c.str(call.Args[0]) != "auth" {
				tokOK = false
			}

			return true
		})

		if !first {
			b.WriteString(";\n")
		}

		first = false

		fmt.Fprintf(&b, "  {| c_name := %s; c_auth_first := %s; c_targets := [%s]; c_tok_is_auth := %s; c_sets_auth := %s |}",
			coqStr(strings.TrimPrefix(k, "Client.")), coqBool(authFirst), quoteAll(targets), coqBool(tokOK && len(targets) > 0),
			coqStr(assignedAuth(c, fd)))
	}

	b.WriteString("\n].\n\n")

	// ---- command controller ----
	h := load(filepath.Join(*repo, "pkg/controller/command/vcwallet"), "command.go")
	b.WriteString("Definition command_rows : list hrow := [\n")

	first = true

	for _, k := range exportedMethods(h, "Command") {
		fd := h.funcs[k]
		// handlers have the signature (rw io.Writer, req io.Reader) command.Error
		if fd.Type.Params == nil || len(fd.Type.Params.List) != 2 || h.str(fd.Type.Params.List[1].Type) != "io.Reader" {
			continue
		}

		var users, calls, toks []string

		ast.Inspect(fd.Body, func(n ast.Node) bool {
			call, ok := n.(*ast.CallExpr)
			if !ok {
				return true
			}

			sel, ok := call.Fun.(*ast.SelectorExpr)
			if !ok {
				return true
			}

			switch h.str(sel.X) {
			case "wallet":
				switch sel.Sel.Name {
				case "New", "CreateProfile", "UpdateProfile", "ProfileExists", "CreateDataVaultKeyPairs":
					if len(call.Args) > 0 {
						users = append(users, h.str(call.Args[0]))
					}

					if sel.Sel.Name != "New" {
						calls = append(calls, "wallet."+sel.Sel.Name)
					}
				}
			case "vcWallet":
				calls = append(calls, sel.Sel.Name)

				if len(call.Args) > 0 {
					toks = append(toks, h.str(call.Args[0]))
				} else {
					toks = append(toks, "")
				}
			}

			return true
		})

		if !first {
			b.WriteString(";\n")
		}

		first = false

		fmt.Fprintf(&b, "  {| h_name := %s; h_users := [%s]; h_calls := [%s]; h_toks := [%s] |}",
			coqStr(strings.TrimPrefix(k, "Command.")), quoteAll(users), quoteAll(calls), quoteAll(toks))
	}

	b.WriteString("\n].\n")

	if err := os.WriteFile(*out, []byte(b.String()), 0o644); err != nil { //nolint:gosec
		fail(err.Error())
	}
}

// assignedAuth: what the method assigns to c.auth ("" none, "noAuth", "token of wallet.Open", "other")
func assignedAuth(p *pkg, fd *ast.FuncDecl) string {
	res := ""

	ast.Inspect(fd.Body, func(n ast.Node) bool {
		as, ok := n.(*ast.AssignStmt)
		if !ok || len(as.Lhs) != 1 || p.str(as.Lhs[0]) != "c.auth" {
			return true
		}

		switch r := as.Rhs[0].(type) {
		case *ast.Ident:
			res = r.Name
		case *ast.FuncLit:
			res = "other"

			if len(r.Body.List) == 1 {
				if ret, ok := r.Body.List[0].(*ast.ReturnStmt); ok && len(ret.Results) == 2 && p.str(ret.Results[1]) == "nil" {
					res = "closure returning " + p.str(ret.Results[0])
				}
			}
		default:
			res = "other"
		}

		return true
	})

	return res
}

func quoteAll(l []string) string {
	q := make([]string, len(l))
	for i, s := range l {
		q[i] = coqStr(s)
	}

	return strings.Join(q, "; ")
}
