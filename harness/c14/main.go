// c14: routed messages.
//
// Wrap cases: the real outbound dispatcher of a sender (real packager over the sender's own KMS) sends a message to a
// destination with 0..4 routing keys; the bytes it hands to the transport are given, level by level, to the packager
// of EVERY party (one KMS each); a party that obtains a forward decodes it the way the mediator service does and —
// in "via mediator" cases — relays it through its real mediator service (route store lookup) and real outbound
// dispatcher (Forward), whose transport bytes become the next level.
//
// Route cases: histories of keylist updates from several clients and forwards on the real mediator service
// (synchronous verif entry), recording what it hands to its outbound dispatcher and to the pickup service.
package main

import (
	"bytes"
	"crypto/ed25519"
	"crypto/elliptic"
	"encoding/base64"
	"encoding/json"
	"errors"
	"fmt"
	"math/big"
	"os"
	"path/filepath"
	"sort"
	"strings"
	"time"

	"github.com/btcsuite/btcutil/base58"

	"github.com/hyperledger/aries-framework-go/component/kmscrypto/doc/util/fingerprint"
	"github.com/hyperledger/aries-framework-go/component/models/did"
	"github.com/hyperledger/aries-framework-go/component/storageutil/mem"
	"github.com/hyperledger/aries-framework-go/pkg/common/log"
	commonmodel "github.com/hyperledger/aries-framework-go/pkg/common/model"
	"github.com/hyperledger/aries-framework-go/pkg/didcomm/common/model"
	"github.com/hyperledger/aries-framework-go/pkg/didcomm/common/service"
	"github.com/hyperledger/aries-framework-go/pkg/didcomm/dispatcher/outbound"
	"github.com/hyperledger/aries-framework-go/pkg/didcomm/packager"
	"github.com/hyperledger/aries-framework-go/pkg/didcomm/protocol/mediator"
	"github.com/hyperledger/aries-framework-go/pkg/didcomm/protocol/messagepickup"
	"github.com/hyperledger/aries-framework-go/pkg/didcomm/transport"
	mockprovider "github.com/hyperledger/aries-framework-go/pkg/mock/provider"
	mockvdr "github.com/hyperledger/aries-framework-go/pkg/mock/vdr"
	"github.com/hyperledger/aries-framework-go/pkg/store/connection"
	spilog "github.com/hyperledger/aries-framework-go/spi/log"
	vdrspi "github.com/hyperledger/aries-framework-go/spi/vdr"

	env "verifharness/c14env"
	"verifharness/hx"
)

// ---------------------------------------------------------------- shared pieces

type capT struct {
	got  [][]byte
	fail bool
}

func (c *capT) Start(transport.Provider) error { return nil }
func (c *capT) Send(d []byte, _ *service.Destination) (string, error) {
	if c.fail {
		return "", errors.New("verif: injected transport failure")
	}

	c.got = append(c.got, append([]byte{}, d...))

	return "", nil
}
func (c *capT) AcceptRecipient([]string) bool { return false }
func (c *capT) Accept(string) bool            { return true }

type obProv struct {
	*mockprovider.Provider
	ts []transport.OutboundTransport
}

func (p *obProv) OutboundTransports() []transport.OutboundTransport { return p.ts }
func (p *obProv) TransportReturnRoute() string                      { return "" }

const (
	nParties = 6
	nSlots   = 2
)

var profiles = map[string]string{ // profile string -> model family
	transport.LegacyDIDCommV1Profile:                         "PIndy",
	transport.MediaTypeRFC0019EncryptedEnvelope:              "PLegacy",
	transport.MediaTypeProfileDIDCommAIP1:                    "PLegacy",
	transport.MediaTypeAIP2RFC0019Profile:                    "PLegacy",
	transport.MediaTypeV1PlaintextPayload:                    "PJweV1",
	transport.MediaTypeDIDCommV2Profile:                      "PV2",
	transport.MediaTypeAIP2RFC0587Profile:                    "PV2",
	transport.MediaTypeV2EncryptedEnvelope:                   "PV2",
	transport.MediaTypeV2PlaintextPayload:                    "PV2",
	transport.MediaTypeV2EncryptedEnvelopeV1PlaintextPayload: "PV2",
}

func profileNames() []string {
	var s []string
	for k := range profiles {
		s = append(s, k)
	}

	sort.Strings(s)

	return s
}

func legacyFamily(p string) bool { return profiles[p] == "PIndy" || profiles[p] == "PLegacy" }

type pool struct {
	w    *env.World
	keys map[string][][]*env.Key
	vdr  *mockvdr.MockVDRegistry
	meds map[int]*med
	docs map[string]*did.Doc // DID documents handed out as the SAME object on every resolution (a caching VDR)
	seqN int
	// set by a SendToDID sender for the wrapOn call that follows
	lastTodid *todidObs
}

func newPool() *pool {
	p := &pool{w: env.NewWorld(nParties), keys: map[string][][]*env.Key{}, meds: map[int]*med{}, docs: map[string]*did.Doc{}}

	for _, kt := range append(append([]string{}, env.KTs...), env.Ed25519) {
		tab := make([][]*env.Key, nParties)
		for pa := 0; pa < nParties; pa++ {
			for s := 0; s < nSlots; s++ {
				tab[pa] = append(tab[pa], p.w.NewKey(pa, kt))
			}
		}

		p.keys[kt] = tab
	}

	p.vdr = &mockvdr.MockVDRegistry{ResolveFunc: p.resolve}

	return p
}

// did:example:client<N>: the agent N as a mediator's client (destination of relayed messages); everything else
// is the C01 world's directory.
func (p *pool) resolve(id string, o ...vdrspi.DIDMethodOption) (*did.DocResolution, error) {
	if d, ok := p.docs[id]; ok {
		return &did.DocResolution{DIDDocument: d}, nil
	}

	if strings.HasPrefix(id, "did:example:client") {
		n := strings.TrimPrefix(id, "did:example:client")

		return &did.DocResolution{DIDDocument: &did.Doc{ID: id, Service: []did.Service{{
			ID: id + "#svc", Type: "did-communication", ServiceEndpoint: commonmodel.NewDIDCommV1Endpoint("http://client" + n),
			RecipientKeys: []string{"did:key:z6Mkclient" + n},
		}}}}, nil
	}

	return p.w.VDR.Resolve(id, o...)
}

func clientOfDest(d *service.Destination) int {
	uri, err := d.ServiceEndpoint.URI()
	if err != nil || !strings.HasPrefix(uri, "http://client") {
		return -1
	}

	n := 0
	if _, e := fmt.Sscanf(strings.TrimPrefix(uri, "http://client"), "%d", &n); e != nil {
		return -1
	}

	return n
}

func clientOfDID(s string) int {
	n := 0
	if _, e := fmt.Sscanf(s, "did:example:client%d", &n); e != nil || fmt.Sprintf("did:example:client%d", n) != s {
		return -1
	}

	return n
}

func (p *pool) partyKeys(pa int) []int {
	var ks []int

	for _, k := range p.w.Keys {
		if k.Owner == pa {
			ks = append(ks, k.Name)
		}
	}

	return ks
}

// ---------------------------------------------------------------- mediator instances

// recOut is the outbound dispatcher given to a mediator service: Forward goes to the real dispatcher (fwd != nil) or
// is recorded; SendToDID is recorded.
type recOut struct {
	real      *outbound.Dispatcher
	failSend  bool
	forwards  []fwdRec
	responses []respRec
}

type fwdRec struct {
	msg    []byte
	client int
	ok     bool
}

type respRec struct {
	msg      map[string]interface{}
	theirDID string
}

func (r *recOut) Send(interface{}, string, *service.Destination) error {
	return errors.New("unexpected Send")
}

func (r *recOut) SendToDID(msg interface{}, _, theirDID string) error {
	b, _ := json.Marshal(msg)
	m := map[string]interface{}{}
	_ = json.Unmarshal(b, &m)
	r.responses = append(r.responses, respRec{m, theirDID})

	if r.failSend {
		return errors.New("verif: injected send failure")
	}

	return nil
}

func (r *recOut) Forward(msg interface{}, d *service.Destination) error {
	b, _ := msg.([]byte)
	rec := fwdRec{msg: b, client: clientOfDest(d), ok: !r.failSend}

	if r.real != nil && !r.failSend {
		if err := r.real.Forward(msg, d); err != nil {
			rec.ok = false
		}
	}

	r.forwards = append(r.forwards, rec)

	if !rec.ok {
		return errors.New("verif: injected forward failure")
	}

	return nil
}

// recPickup taps the mediator's calls of the pickup service and hands them on to the REAL message pickup service
// (when wired), whose store holds the inboxes.
type recPickup struct {
	held []heldRec
	real messagepickup.ProtocolService
}

type heldRec struct {
	msg      []byte
	theirDID string
}

func (r *recPickup) AddMessage(m []byte, theirDID string) error {
	r.held = append(r.held, heldRec{append([]byte{}, m...), theirDID})

	if r.real != nil {
		return r.real.AddMessage(m, theirDID)
	}

	return nil
}

// pickRec is the outbound dispatcher of the pickup service: records the batches it sends.
type pickRec struct {
	sent []respRec
}

func (r *pickRec) Send(interface{}, string, *service.Destination) error {
	return errors.New("unexpected Send")
}
func (r *pickRec) Forward(interface{}, *service.Destination) error {
	return errors.New("unexpected Forward")
}
func (r *pickRec) SendToDID(msg interface{}, _, theirDID string) error {
	b, _ := json.Marshal(msg)
	m := map[string]interface{}{}
	_ = json.Unmarshal(b, &m)
	r.sent = append(r.sent, respRec{m, theirDID})

	return nil
}

// ---- quiescence barrier for the asynchronous path: Service.HandleInbound runs the handler in a goroutine whose
// last act is a log line "action=[processMessage]" (success or error); the harness installs the logger.
var procDone = make(chan struct{}, 256)

type barrierLogger struct{}

func (barrierLogger) note(msg string, args []interface{}) {
	if strings.Contains(msg, "action=[%s]") && len(args) > 1 {
		if a, ok := args[1].(string); ok && a == "processMessage" {
			select {
			case procDone <- struct{}{}:
			default:
			}
		}
	}
}
func (l barrierLogger) Panicf(msg string, args ...interface{}) { panic(fmt.Sprintf(msg, args...)) }
func (l barrierLogger) Fatalf(msg string, args ...interface{}) { panic(fmt.Sprintf(msg, args...)) }
func (l barrierLogger) Errorf(msg string, args ...interface{}) { l.note(msg, args) }
func (l barrierLogger) Warnf(string, ...interface{})           {}
func (l barrierLogger) Infof(string, ...interface{})           {}
func (l barrierLogger) Debugf(msg string, args ...interface{}) { l.note(msg, args) }

type barrierProvider struct{}

func (barrierProvider) GetLogger(string) spilog.Logger { return barrierLogger{} }

func drainBarrier() {
	for {
		select {
		case <-procDone:
		default:
			return
		}
	}
}

func awaitBarrier() bool {
	select {
	case <-procDone:
		return true
	case <-time.After(30 * time.Second):
		return false
	}
}

type med struct {
	svc     *mediator.Service
	out     *recOut
	pick    *recPickup
	cap     *capT
	rec     *hx.RecProvider
	nPut    int
	fPut    int
	fGet    bool
	myDID   string
	tracks  bool
	pickSvc *messagepickup.Service
	pickOut *pickRec
	proto   *mem.Provider
	party   int
	fRes    bool
}

func (p *pool) newMed(party int, realDispatcher bool) *med {
	m := &med{out: &recOut{}, pick: &recPickup{}, cap: &capT{}, fPut: -1, myDID: fmt.Sprintf("did:example:med%d", party)}
	m.rec = hx.NewRecProvider(mem.NewProvider())
	m.rec.Record = false
	m.rec.Before = func(c *hx.Call) error {
		if c.Store != mediator.Coordination {
			return nil
		}

		switch c.Op {
		case "Put":
			m.nPut++
			if m.nPut-1 == m.fPut {
				return hx.ErrInjected
			}
		case "Get":
			if m.fGet {
				return hx.ErrInjected
			}
		}

		return nil
	}

	if realDispatcher {
		pk, err := p.w.Parties[party].Packager("XC20P")
		if err != nil {
			panic(err)
		}

		o, err := outbound.NewOutbound(&obProv{&mockprovider.Provider{PackagerValue: pk, KMSValue: p.w.Parties[party].KMS,
			VDRegistryValue: p.vdr, StorageProviderValue: mem.NewProvider(), ProtocolStateStorageProviderValue: mem.NewProvider(),
			MediaTypeProfilesValue: []string{transport.MediaTypeDIDCommV2Profile}}, []transport.OutboundTransport{m.cap}})
		if err != nil {
			panic(err)
		}

		m.out.real = o
	}

	m.party, m.proto, m.pickOut = party, mem.NewProvider(), &pickRec{}
	m.start(p)

	return m
}

// start creates the service instances (mediator + real message pickup) over the med's stores: called once, and again
// for a restart of the mediator process (routes and inboxes persist in the stores).
func (m *med) start(p *pool) {
	ps, err := messagepickup.New(&mockprovider.Provider{StorageProviderValue: m.rec, ProtocolStateStorageProviderValue: m.proto,
		OutboundDispatcherValue: m.pickOut})
	if err != nil {
		panic(err)
	}

	m.pickSvc, m.pick.real = ps, ps
	vdr := &mockvdr.MockVDRegistry{ResolveFunc: func(id string, o ...vdrspi.DIDMethodOption) (*did.DocResolution, error) {
		if m.fRes {
			return nil, errors.New("verif: injected DID resolution failure")
		}

		return p.resolve(id, o...)
	}}

	svc, err := mediator.New(&mockprovider.Provider{
		StorageProviderValue: m.rec, ProtocolStateStorageProviderValue: m.proto,
		OutboundDispatcherValue: m.out, VDRegistryValue: vdr, KMSValue: p.w.Parties[m.party].KMS,
		ServiceMap:             map[string]interface{}{messagepickup.MessagePickup: m.pick},
		MediaTypeProfilesValue: []string{transport.MediaTypeDIDCommV2Profile},
	})
	if err != nil {
		panic(err)
	}

	m.svc = svc
}

func msgMap(v interface{}) service.DIDCommMsgMap {
	b, err := json.Marshal(v)
	if err != nil {
		panic(err)
	}

	m, err := service.ParseDIDCommMsgMap(b)
	if err != nil {
		panic(err)
	}

	return m
}

// ---------------------------------------------------------------- wrap cases

// KeyRef names a key of the pool.
type KeyRef struct {
	KT    string `json:"kt"`
	Party int    `json:"party"`
	Slot  int    `json:"slot"`
}

// WrapCase is one replayable wrap case.
type WrapCase struct {
	Profile  string   `json:"profile"`
	Enc      string   `json:"enc"`
	Style    string   `json:"style"` // didkey | diddoc | raw
	Auth     bool     `json:"auth"`
	V2EP     bool     `json:"v2ep"` // routing keys in a DIDComm V2 endpoint (else Destination.RoutingKeys)
	PayClass string   `json:"pay_class"`
	PaySeed  int      `json:"pay_seed"`
	Sender   KeyRef   `json:"sender"`
	Rcpts    []KeyRef `json:"rcpts"`
	Routing  []KeyRef `json:"routing"`
	ViaMed   bool     `json:"via_mediator"`
	// Accept is the destination's list of media type profiles (empty: [Profile]); Default the sender framework's
	// default profile (empty: Profile).  Profile is the profile the dispatcher is expected to select from them.
	Accept  []string `json:"accept,omitempty"`
	Default string   `json:"default,omitempty"`
	// Primary: the primary packer of the sender's packager ("jwe-auth", "jwe-anon", "leg-auth", "leg-anon"; empty: the
	// usual packager, JWE authcrypt first).  It packs everything when the selected profile has no packer of its own
	// (application/didcomm-enc-env).
	Primary string `json:"primary,omitempty"`
}

var primCoq = map[string]string{"jwe-auth": "JweAuth", "jwe-anon": "JweAnon", "leg-auth": "LegAuth", "leg-anon": "LegAnon"}

// usesPrimary: the selected profile is one the packager has no packer for.
func (c WrapCase) usesPrimary() bool { return c.Primary != "" && c.Profile == transport.MediaTypeV1EncryptedEnvelope }

// expectFail is the harness's own statement: an authcrypt primary packer cannot pack a forward (no sender key), nor a
// message without a sender key.
func (c WrapCase) expectFail() bool {
	return c.usesPrimary() && strings.HasSuffix(c.Primary, "auth") && (len(c.Routing) > 0 || !c.Auth)
}

var mtpCoq = map[string]string{
	transport.MediaTypeV1PlaintextPayload:                    "M_V1Plain",
	transport.MediaTypeRFC0019EncryptedEnvelope:              "M_RFC19",
	transport.MediaTypeAIP2RFC0019Profile:                    "M_AIP2RFC19",
	transport.MediaTypeProfileDIDCommAIP1:                    "M_AIP1",
	transport.LegacyDIDCommV1Profile:                         "M_Indy",
	transport.MediaTypeV2EncryptedEnvelopeV1PlaintextPayload: "M_V2EncV1Plain",
	transport.MediaTypeAIP2RFC0587Profile:                    "M_AIP2RFC587",
	transport.MediaTypeV2EncryptedEnvelope:                   "M_V2Enc",
	transport.MediaTypeV2PlaintextPayload:                    "M_V2Plain",
	transport.MediaTypeDIDCommV2Profile:                      "M_DIDCommV2",
	transport.MediaTypeV1EncryptedEnvelope:                   "M_V1Enc",
}

func coqMtp(s string) string {
	if c, ok := mtpCoq[s]; ok {
		return c
	}

	return "M_Other"
}

// effective states the documented priority independently of the code's loop: a DIDComm v2 media type wins wherever it
// stands (the first one); else the last of {v2 envelope with v1 payload, aip2;env=rfc587}; else the first v1/legacy
// one; else the framework default.
func effective(accept []string, dflt string) string {
	for _, a := range accept {
		switch a {
		case transport.MediaTypeV2EncryptedEnvelope, transport.MediaTypeV2PlaintextPayload, transport.MediaTypeDIDCommV2Profile:
			return a
		}
	}

	for i := len(accept) - 1; i >= 0; i-- {
		switch accept[i] {
		case transport.MediaTypeV2EncryptedEnvelopeV1PlaintextPayload, transport.MediaTypeAIP2RFC0587Profile,
			transport.MediaTypeV1EncryptedEnvelope:
			return accept[i]
		}
	}

	for _, a := range accept {
		switch a {
		case transport.MediaTypeV1PlaintextPayload, transport.MediaTypeRFC0019EncryptedEnvelope, transport.MediaTypeAIP2RFC0019Profile,
			transport.MediaTypeProfileDIDCommAIP1, transport.LegacyDIDCommV1Profile:
			return a
		}
	}

	return dflt
}

func (c WrapCase) accept() []string {
	if len(c.Accept) == 0 {
		return []string{c.Profile}
	}

	return c.Accept
}

func (c WrapCase) dflt() string {
	if c.Default == "" {
		return c.Profile
	}

	return c.Default
}

func (p *pool) key(r KeyRef) *env.Key { return p.keys[r.KT][r.Party][r.Slot] }

func payload(class string, seed int) []byte {
	r := hx.NewRng(uint64(seed) + 1414)

	switch class {
	case "small":
		return []byte(fmt.Sprintf(`{"@id":"%d","@type":"https://didcomm.org/x/1.0/y","v":[1,"a",null]}`, seed))
	case "v2":
		return []byte(fmt.Sprintf(`{"body":{"n":%d},"id":"%d","type":"https://didcomm.org/x/2.0/y"}`, seed, seed))
	case "escapes":
		return []byte(fmt.Sprintf(`{"@id":"%d","@type":"https://didcomm.org/x/1.0/y","s":"<>&é世\" ~?>>>","t":"\\"}`, seed))
	case "fwdlike":
		// a user message that is itself a forward (addressed to the final recipient as if it were a mediator)
		return []byte(fmt.Sprintf(`{"@id":"%d","@type":"https://didcomm.org/routing/1.0/forward","msg":{"protected":"x"},"to":"did:key:z6Mkother"}`, seed))
	case "large":
		return []byte(fmt.Sprintf(`{"@id":"%d","@type":"https://didcomm.org/x/1.0/y","blob":"%s"}`, seed,
			base64.RawURLEncoding.EncodeToString(r.Bytes(40000+seed%17))))
	}

	return []byte(fmt.Sprintf(`{"@id":"%d","@type":"%s"}`, seed, class))
}

func compact(b []byte) []byte {
	var buf bytes.Buffer
	if err := json.Compact(&buf, b); err != nil {
		return b
	}

	return buf.Bytes()
}

func coqKT(kt string) string { return kt }

func coqStyle(s string) string {
	switch s {
	case "diddoc":
		return "DidDoc"
	case "raw":
		return "RawKey"
	}

	return "DidKey"
}

func (p *pool) coqTref(s string) string {
	k := p.w.ByRef(s)
	n := 0

	if k != nil {
		n = k.Name
	}

	switch {
	case strings.HasPrefix(s, "did:key:"):
		return fmt.Sprintf("(TDidKey %d)", n)
	case strings.Contains(s, "#"):
		return fmt.Sprintf("(TDoc %d)", n)
	}

	return fmt.Sprintf("(TB58 %d)", n)
}

// registered is the key string a client of this profile registers with its mediator for the key.
func registered(c WrapCase, k *env.Key) string {
	if profiles[c.Profile] == "PIndy" && k.KT == env.Ed25519 {
		return base58.Encode(k.Bytes)
	}

	return k.Ref(c.Style)
}

type levelObs struct {
	Party int    `json:"party"`
	Out   string `json:"out"` // fwd | msg | rej | panic
	V2    bool   `json:"v2,omitempty"`
	To    string `json:"to,omitempty"`
	From  int    `json:"from,omitempty"`
	ToKey int    `json:"to_key,omitempty"`
	Pay   int    `json:"pay,omitempty"`
	Err   string `json:"err,omitempty"`
}

func (p *pool) runWrap(kind string, c WrapCase, tr *hx.Trace) {
	p.wrapOn(kind, c, p.freshSender(c), map[string]interface{}{"wrap": c}, "", tr)
}

// sender performs one Send for the case's destination: returns the transport captures of this send, the plaintext the
// recipient must obtain, the error, and a description of any change the call made to the caller's objects.
type sender func(c WrapCase, pay []byte, senderKey string) (got [][]byte, expect []byte, err error, mutated string)

func (p *pool) refs(c WrapCase) (rcptRefs, routeRefs []string) {
	for _, r := range c.Rcpts {
		rcptRefs = append(rcptRefs, p.key(r).Ref(c.Style))
	}

	for _, r := range c.Routing {
		routeRefs = append(routeRefs, p.key(r).Ref(c.Style))
	}

	return
}

func (p *pool) newDispatcher(party int, enc, dflt string, cap *capT) *outbound.Dispatcher {
	o, _ := p.newDispatcherL(party, enc, []string{dflt}, cap)

	return o
}

// newDispatcherL: a dispatcher with a list of default profiles, and a connection recorder over the dispatcher's stores.
func (p *pool) newDispatcherL(party int, enc string, dflts []string, cap *capT) (*outbound.Dispatcher, *connection.Recorder) {
	return p.newDispatcherP(party, enc, "", dflts, cap)
}

func (p *pool) newDispatcherP(party int, enc, prim string, dflts []string, cap *capT) (*outbound.Dispatcher, *connection.Recorder) {
	var (
		pk  *packager.Packager
		err error
	)

	if prim == "" {
		pk, err = p.w.Parties[party].Packager(enc)
	} else {
		pk, err = p.w.Parties[party].PackagerPrim(enc, prim)
	}

	if err != nil {
		panic(err)
	}

	prov := &mockprovider.Provider{PackagerValue: pk, KMSValue: p.w.Parties[party].KMS,
		VDRegistryValue: p.vdr, StorageProviderValue: mem.NewProvider(), ProtocolStateStorageProviderValue: mem.NewProvider(),
		MediaTypeProfilesValue: dflts}

	o, err := outbound.NewOutbound(&obProv{prov, []transport.OutboundTransport{cap}})
	if err != nil {
		panic(err)
	}

	rec, err := connection.NewRecorder(prov)
	if err != nil {
		panic(err)
	}

	return o, rec
}

func (p *pool) newDest(c WrapCase) *service.Destination {
	rcptRefs, routeRefs := p.refs(c)

	dest := &service.Destination{RecipientKeys: rcptRefs}
	if c.V2EP {
		dest.ServiceEndpoint = commonmodel.NewDIDCommV2Endpoint([]commonmodel.DIDCommV2Endpoint{{
			URI: "http://dest", RoutingKeys: routeRefs, Accept: c.accept()}})
	} else {
		dest.ServiceEndpoint = commonmodel.NewDIDCommV1Endpoint("http://dest")
		dest.RoutingKeys = routeRefs
		dest.MediaTypeProfiles = c.accept()
	}

	return dest
}

// destState is everything of a destination a Send must leave alone (slices compared over their full capacity: a
// write past len is how a later append of the caller would be corrupted)
func destState(d *service.Destination) string {
	rk, _ := d.ServiceEndpoint.RoutingKeys()
	acc, _ := d.ServiceEndpoint.Accept()
	uri, _ := d.ServiceEndpoint.URI()

	return fmt.Sprintf("recipientKeys=%q routingKeys=%q endpointRoutingKeys=%q accept=%q mediaTypeProfiles=%q uri=%q",
		d.RecipientKeys[:cap(d.RecipientKeys)], d.RoutingKeys[:cap(d.RoutingKeys)], rk, acc,
		d.MediaTypeProfiles[:cap(d.MediaTypeProfiles)], uri)
}

// sendOn sends through the dispatcher to the (possibly re-used) destination object.
func sendOn(o *outbound.Dispatcher, cap *capT, dest *service.Destination) sender {
	return func(_ WrapCase, pay []byte, senderKey string) (got [][]byte, expect []byte, err error, mutated string) {
		before := destState(dest)
		cap.got = nil

		func() {
			defer func() {
				if r := recover(); r != nil {
					err = fmt.Errorf("panic: %v", r)
				}
			}()

			err = o.Send(json.RawMessage(pay), senderKey, dest)
		}()

		if after := destState(dest); after != before {
			mutated = "Send changed the caller's destination: before " + before + " after " + after
		}

		return cap.got, pay, err, mutated
	}
}

func (p *pool) freshSender(c WrapCase) sender {
	cap := &capT{}

	o, _ := p.newDispatcherP(c.Sender.Party, c.Enc, c.Primary, []string{c.dflt()}, cap)

	return sendOn(o, cap, p.newDest(c))
}

func (p *pool) wrapOn(kind string, c WrapCase, snd sender, caseJSON interface{}, classExtra string, tr *hx.Trace) {
	// the dispatcher sends json.Marshal(msg): for a RawMessage the compacted text with <, >, & escaped (same JSON value)
	pay, merr := json.Marshal(json.RawMessage(compact(payload(c.PayClass, c.PaySeed))))
	if merr != nil {
		panic(merr)
	}

	// the payload's NAME in the model: chosen apart from every other name of a case (key names 1..60, header constants
	// < 1000, randomness 100000.. 304000, the 'other bytes' marker 999999), as the Dolev-Yao check of Corr.opaque_case requires
	payID := c.PaySeed%1000 + 500001
	sk := p.key(c.Sender)
	sparty := c.Sender.Party

	var (
		rcptNames []int
		hops      []string
	)

	for _, r := range c.Rcpts {
		rcptNames = append(rcptNames, p.key(r).Name)
	}

	for _, r := range c.Routing {
		k := p.key(r)
		hops = append(hops, fmt.Sprintf("mkhop %d %s", k.Name, coqKT(k.KT)))
	}

	senderKey := ""
	senderName := 0

	if c.Auth {
		senderKey = sk.Ref(c.Style)
		if c.Style == "raw" {
			senderKey = sk.DidKey // (a raw base58 sender key is not a form the packager accepts)
		}

		senderName = sk.Name
	}

	coqSender := senderName
	if c.usesPrimary() && strings.HasSuffix(c.Primary, "anon") {
		senderName = 0 // an anoncrypt primary packer ignores the sender key: the recipient learns no sender
	}

	p.lastTodid = nil
	got, expect, sendErr, mutated := snd(c, pay, senderKey)
	pay = expect
	td := p.lastTodid
	p.lastTodid = nil

	sent := sendErr == nil && len(got) == 1

	var (
		levels  [][]levelObs
		oracle  = "ok"
		sig     string
		details []string
	)

	fail := func(s, d string) {
		oracle = "fail"

		if sig == "" {
			sig = s
		}

		details = append(details, d)
	}

	if sendErr != nil && strings.HasPrefix(sendErr.Error(), "panic") {
		fail("send-panic", sendErr.Error())
	}

	if mutated != "" {
		fail("caller-objects-changed", mutated)
	}

	// expected chain: level i is opened by the party owning routing key n-1-i only; the last level by the recipients
	if sent {
		cur := got[0]

		for depth := 0; depth < 8; depth++ {
			var (
				lv      []levelObs
				next    []byte
				nextSet bool
			)

			for pa := 0; pa < nParties; pa++ {
				ob := levelObs{Party: pa}

				pkp, e := p.w.Parties[pa].Packager(c.Enc)
				if e != nil {
					panic(e)
				}

				var envl *transport.Envelope

				u := env.Fence(func() env.Unpacked {
					var ue error
					envl, ue = pkp.UnpackMessage(cur)

					return p.w.Project(envl, ue)
				})

				switch u.Out {
				case "panic":
					ob.Out, ob.Err = "panic", u.Err
					fail("unpack-panic", fmt.Sprintf("level %d party %d: %s", depth, pa, u.Err))
				case "err":
					ob.Out, ob.Err = "rej", u.Err
				default:
					ob.From, ob.ToKey = u.From, u.To

					if bytes.Equal(u.Message, pay) {
						ob.Out, ob.Pay = "msg", payID
						break
					}

					mm, pe := service.ParseDIDCommMsgMap(u.Message)
					if pe != nil || (mm.Type() != service.ForwardMsgType && mm.Type() != service.ForwardMsgTypeV2) {
						ob.Out, ob.Pay = "msg", 999999
						break
					}

					fw := &model.Forward{}
					if de := mm.Decode(fw); de != nil {
						ob.Out, ob.Err = "rej", "forward decode: "+de.Error()
						break
					}

					ob.Out, ob.V2, ob.To = "fwd", mm.Type() == service.ForwardMsgTypeV2, fw.To

					if leak := p.hopLeak(c, depth, u.Message, pay); leak != "" {
						fail("hop-leak", fmt.Sprintf("level %d: the forward read by party %d %s", depth, pa, leak))
					}

					if !nextSet {
						nextSet = true
						next = fw.Msg

						if c.ViaMed {
							next = p.relay(c, pa, mm, depth)
							if next == nil {
								fail("not-relayed", fmt.Sprintf("level %d: the mediator of party %d did not relay the forward to the client owning the next key", depth, pa))
							}
						}
					}
				}

				lv = append(lv, ob)
			}

			levels = append(levels, lv)

			if !nextSet || next == nil {
				break
			}

			cur = next
		}
	}

	// ---- direct oracle
	n := len(c.Routing)

	if !sent {
		if !c.expectFail() {
			fail("send-failed", fmt.Sprintf("Send failed: %v", sendErr))
		}
	} else {
		if c.expectFail() {
			fail("send-not-refused", "a send that needs a sender key for a forward / an authcrypt pack without one went out")
		}

		if len(levels) != n+1 {
			fail("chain-length", fmt.Sprintf("%d levels, expected %d", len(levels), n+1))
		}

		for i, lv := range levels {
			for _, ob := range lv {
				if i < n && i < len(levels) {
					hopKey := p.key(c.Routing[n-1-i])
					var nextKey *env.Key
					if n-1-i == 0 {
						nextKey = p.key(c.Rcpts[0])
					} else {
						nextKey = p.key(c.Routing[n-2-i])
					}

					if ob.Party == hopKey.Owner {
						wantTo := registered(c, nextKey)
						if ob.Out != "fwd" || ob.From != 0 || ob.To != wantTo ||
							ob.V2 != (profiles[c.Profile] == "PV2") {
							fail("hop-view", fmt.Sprintf("level %d: mediator %d obtained %+v, expected forward to %s", i, ob.Party, ob, wantTo))
						}
					} else if ob.Out != "rej" {
						fail("layer-open", fmt.Sprintf("level %d: party %d (not the addressed mediator) obtained %+v", i, ob.Party, ob))
					}
				} else if i == n {
					owns := false
					for _, r := range c.Rcpts {
						if r.Party == ob.Party {
							owns = true
						}
					}

					if owns {
						if ob.Out != "msg" || ob.Pay != payID || ob.From != senderName {
							fail("final-delivery", fmt.Sprintf("recipient party %d obtained %+v", ob.Party, ob))
						}
					} else if ob.Out != "rej" {
						fail("inner-open", fmt.Sprintf("party %d (not a recipient) obtained %+v from the inner envelope", ob.Party, ob))
					}
				}
			}
		}
	}

	// ---- Coq case
	var lvs []string

	for _, lv := range levels {
		var items []string

		for _, ob := range lv {
			var o string

			switch ob.Out {
			case "fwd":
				if ob.From != 0 {
					o = fmt.Sprintf("OFwdFrom %s %s %d", hx.CoqBool(ob.V2), p.coqTref(ob.To), nz(ob.From))
				} else {
					o = fmt.Sprintf("OFwd %s %s", hx.CoqBool(ob.V2), p.coqTref(ob.To))
				}
			case "msg":
				o = fmt.Sprintf("OMsg %d %d %d", ob.Pay, nz(ob.From), nz(ob.ToKey))
			default:
				o = "ORej"
			}

			items = append(items, fmt.Sprintf("(%s, %s)", hx.CoqNList(p.partyKeys(ob.Party)), o))
		}

		lvs = append(lvs, hx.CoqList(items))
	}

	var acc []string
	for _, a := range c.accept() {
		acc = append(acc, coqMtp(a))
	}

	coqAuth := c.Auth
	if td != nil {
		coqAuth = true // SendToDID has the sender key at hand; whether it uses it is the model's to say
	}

	prim := "JweAuth"
	if c.Enc == "A256GCM" {
		prim = "JweAnon"
	}

	if c.Primary != "" {
		prim = primCoq[c.Primary]
	}

	coq := fmt.Sprintf("CW {| w_todid := %s; w_primary := "+prim+"; w_accept := %s; w_default := %s; w_auth := %s; w_kt := %s; w_enc := %s; w_style := %s; "+
		"w_spar := %s; w_payload := %d; w_sender := %d; w_rcpts := %s; w_routing := %s; w_sent := %s; w_levels := %s |}",
		td.coq(), hx.CoqList(acc), coqMtp(c.dflt()), hx.CoqBool(coqAuth), coqKT(sk.KT), c.Enc, coqStyle(c.Style),
		hx.CoqNList(p.partyKeys(sparty)), payID, coqSender,
		hx.CoqNList(rcptNames), hx.CoqList(hops), hx.CoqBool(sent), hx.CoqList(lvs))

	tr.Put(&hx.Record{Kind: kind, Coq: coq, Case: caseJSON,
		Observed: map[string]interface{}{"sent": sent, "send_err": errStr(sendErr), "levels": levels},
		Oracle:   oracle, Sig: sig, Detail: strings.Join(details, "; "),
		Class: fmt.Sprintf("wrap|%s|%s|%s|%s|auth=%v|v2ep=%v|r%d|h%d|med=%v|%s", profiles[c.Profile], sk.KT, c.Enc, c.Style,
			c.Auth, c.V2EP, len(c.Rcpts), n, c.ViaMed, c.PayClass) + classExtra,
		Trivial: !sent,
		Dist: []string{"kind:wrap", "profile:" + c.Profile, "kt:" + sk.KT, "enc:" + c.Enc, "style:" + c.Style,
			fmt.Sprintf("auth:%v", c.Auth), fmt.Sprintf("rcpts:%d", len(c.Rcpts)), fmt.Sprintf("hops:%d", n),
			fmt.Sprintf("via_mediator:%v", c.ViaMed), "payload:" + c.PayClass, fmt.Sprintf("accept_len:%d", len(c.accept()))}})
}

// hopLeak inspects the plaintext a hop obtained: a forward has the members type, id, to, msg only, and its text
// names no key of the route other than the next hop's (the wrapped envelope is base64 inside), nor the payload.
func (p *pool) hopLeak(c WrapCase, depth int, plain, pay []byte) string {
	var members map[string]json.RawMessage
	if err := json.Unmarshal(plain, &members); err != nil {
		return "is not a JSON object"
	}

	for k := range members {
		switch k {
		case "@type", "@id", "to", "msg", "type", "id":
		default:
			return "has the extra member " + k
		}
	}

	n := len(c.Routing)
	if depth >= n {
		return ""
	}

	allowed := map[*env.Key]bool{p.key(c.Routing[n-1-depth]): true}
	if n-1-depth == 0 {
		allowed[p.key(c.Rcpts[0])] = true
	} else {
		allowed[p.key(c.Routing[n-2-depth])] = true
	}

	keys := []*env.Key{p.key(c.Sender)}
	for _, r := range append(append([]KeyRef{}, c.Rcpts...), c.Routing...) {
		keys = append(keys, p.key(r))
	}

	// the text outside the wrapped envelope
	delete(members, "msg")

	rest, _ := json.Marshal(members)

	for _, k := range keys {
		if allowed[k] {
			continue
		}

		for _, form := range []string{k.DidKey, base58.Encode(k.Bytes), k.DocRef, k.KMSKID} {
			if form != "" && bytes.Contains(rest, []byte(form)) {
				return fmt.Sprintf("names key %d (%s), which is neither this hop's nor the next hop's", k.Name, form)
			}
		}
	}

	if len(pay) > 8 && bytes.Contains(plain, pay) {
		return "contains the payload in the clear"
	}

	return ""
}

func nzs(ns []int) []int {
	out := make([]int, len(ns))
	for i, n := range ns {
		out[i] = nz(n)
	}

	return out
}

func nz(n int) int {
	if n < 0 {
		return 999999
	}

	return n
}

func errStr(e error) string {
	if e == nil {
		return ""
	}

	return e.Error()
}

// relay hands the forward to the party's real mediator service.  The route table holds what the clients registered:
// the key the next hop is known by (registered()) -> a client DID per party.  Returns the bytes the mediator's real
// outbound dispatcher gave to its transport (nil: nothing relayed).
func (p *pool) relay(c WrapCase, party int, fwd service.DIDCommMsgMap, depth int) []byte {
	m := p.meds[party]
	if m == nil {
		m = p.newMed(party, true)
		p.meds[party] = m
	}

	// every key of the case is registered by the client that owns it (as its agent would have done)
	all := append(append([]KeyRef{}, c.Rcpts...), c.Routing...)

	for _, r := range all {
		k := p.key(r)
		m.fPut = -1
		_ = m.svc.VerifHandleKeylistUpdate(msgMap(map[string]interface{}{"@id": "u", "@type": mediator.KeylistUpdateMsgType,
			"updates": []map[string]string{{"recipient_key": registered(c, k), "action": "add"}}}),
			m.myDID, fmt.Sprintf("did:example:client%d", k.Owner))
	}

	m.cap.got = nil
	m.out.forwards = nil
	m.pick.held = nil

	if err := m.svc.VerifHandleForward(fwd); err != nil {
		return nil
	}

	n := len(c.Routing)
	nextOwner := -1

	if depth < n {
		if n-1-depth == 0 {
			nextOwner = c.Rcpts[0].Party
		} else {
			nextOwner = c.Routing[n-2-depth].Party
		}
	}

	if len(m.cap.got) != 1 || len(m.out.forwards) != 1 || m.out.forwards[0].client != nextOwner || len(m.pick.held) != 0 {
		return nil
	}

	return m.cap.got[0]
}

// ---------------------------------------------------------------- sequences of sends

// SeqSend is one send of a sequence.
type SeqSend struct {
	Dest     int    `json:"dest"`
	PayClass string `json:"pay_class"`
	PaySeed  int    `json:"pay_seed"`
}

// SeqCase is a history of sends of ONE agent: one dispatcher instance, destinations that are re-used as objects
// (mode "send": the same *service.Destination; mode "todid": SendToDID over a VDR that returns the same DID document
// object on every resolution, the same connection record).
type SeqCase struct {
	Mode  string     `json:"mode"`
	Dests []WrapCase `json:"dests"`
	Sends []SeqSend  `json:"sends"`
	// mode todid: the dispatcher's default media type profiles (first = the default) and, per destination, the
	// connection record that exists before the first send (nil: none).  The destination's WrapCase.Accept is then the
	// accept list of its DID document.
	Defaults []string   `json:"defaults,omitempty"`
	Conns    []*ConnPre `json:"conns,omitempty"`
}

// ConnPre is a connection record saved before the sends.
type ConnPre struct {
	Profiles    []string `json:"profiles"`
	PeerInitial bool     `json:"peer_initial"`
}

// todidObs is what the harness read from the dispatcher's store around one SendToDID.
type todidObs struct {
	found, after *ConnPre
	defaults     []string
	v2msg        bool
}

func coqConn(c *ConnPre) string {
	if c == nil {
		return "None"
	}

	var ps []string
	for _, x := range c.Profiles {
		ps = append(ps, coqMtp(x))
	}

	return fmt.Sprintf("(Some (mkconn %s %s))", hx.CoqList(ps), hx.CoqBool(c.PeerInitial))
}

func (t *todidObs) coq() string {
	if t == nil {
		return "None"
	}

	var ds []string
	for _, x := range t.defaults {
		ds = append(ds, coqMtp(x))
	}

	return fmt.Sprintf("(Some {| td_found := %s; td_defaults := %s; td_v2msg := %s; td_after := %s |})",
		coqConn(t.found), hx.CoqList(ds), hx.CoqBool(t.v2msg), coqConn(t.after))
}

// the four profiles for which SendToDID keeps the sender key although the own peer DID travels with the message
// (stated here independently of the code's switch)
func keepsSender(mtp string) bool {
	switch mtp {
	case transport.MediaTypeV1PlaintextPayload, transport.MediaTypeV1EncryptedEnvelope,
		transport.MediaTypeRFC0019EncryptedEnvelope, transport.MediaTypeAIP2RFC0019Profile:
		return true
	}

	return false
}

func docState(d *did.Doc) string {
	var parts []string

	for i := range d.Service {
		sv := &d.Service[i]
		parts = append(parts, fmt.Sprintf("service %s recipientKeys=%q routingKeys=%q accept=%q", sv.ID,
			sv.RecipientKeys[:cap(sv.RecipientKeys)], sv.RoutingKeys[:cap(sv.RoutingKeys)], sv.Accept[:cap(sv.Accept)]))
	}

	return strings.Join(parts, "; ")
}

func (p *pool) runSeq(kind string, sc SeqCase, tr *hx.Trace) {
	if len(sc.Dests) == 0 {
		return
	}

	p.seqN++
	first := sc.Dests[0]
	cap := &capT{}
	dflts := sc.Defaults
	if len(dflts) == 0 {
		dflts = []string{first.dflt()}
	}

	o, recorder := p.newDispatcherL(first.Sender.Party, first.Enc, dflts, cap)
	snds := make([]sender, len(sc.Dests))
	// the connection record the harness EXPECTS per destination (its own statement of getOrCreateConnection, for the
	// direct oracle; the model gets the records read from the store)
	expRec := make([]*ConnPre, len(sc.Dests))
	readRec := func(myDID, theirDID string) *ConnPre {
		r, e := recorder.GetConnectionRecordByDIDs(myDID, theirDID)
		if e != nil {
			return nil
		}

		return &ConnPre{Profiles: append([]string{}, r.MediaTypeProfiles...), PeerInitial: r.PeerDIDInitialState != ""}
	}
	myDIDOf := ""

	switch sc.Mode {
	case "todid":
		myDID := fmt.Sprintf("did:example:seqme%d", p.seqN)
		p.docs[myDID] = &did.Doc{ID: myDID, Service: []did.Service{{ID: myDID + "#svc", Type: "did-communication",
			ServiceEndpoint: commonmodel.NewDIDCommV1Endpoint("http://me"), RecipientKeys: []string{p.key(first.Sender).DidKey},
			Accept: []string{first.Profile}}}}

		defer delete(p.docs, myDID)

		myDIDOf = myDID

		for i, c := range sc.Dests {
			theirDID := fmt.Sprintf("did:example:seqdest%d-%d", p.seqN, i)
			rcptRefs, routeRefs := p.refs(c)
			doc := &did.Doc{ID: theirDID, Service: []did.Service{{ID: theirDID + "#svc", Type: "did-communication",
				ServiceEndpoint: commonmodel.NewDIDCommV1Endpoint("http://dest"), RecipientKeys: rcptRefs, RoutingKeys: routeRefs,
				Accept: append([]string{}, c.accept()...)}}}
			p.docs[theirDID] = doc

			defer delete(p.docs, theirDID)

			if i < len(sc.Conns) && sc.Conns[i] != nil {
				pre := sc.Conns[i]
				state := ""

				if pre.PeerInitial {
					state = "eyJpbml0aWFsIjoic3RhdGUifQ"
				}

				if e := recorder.SaveConnectionRecord(&connection.Record{ConnectionID: fmt.Sprintf("seqconn%d-%d", p.seqN, i),
					MyDID: myDID, TheirDID: theirDID, State: connection.StateNameCompleted, Namespace: connection.MyNSPrefix,
					MediaTypeProfiles: append([]string{}, pre.Profiles...), PeerDIDInitialState: state}); e != nil {
					panic(e)
				}

				expRec[i] = &ConnPre{Profiles: append([]string{}, pre.Profiles...), PeerInitial: pre.PeerInitial}
			}

			snds[i] = func(_ WrapCase, pay []byte, _ string) (got [][]byte, expect []byte, err error, mutated string) {
				before := docState(doc)
				cap.got = nil

				m, e := service.ParseDIDCommMsgMap(pay)
				if e != nil {
					panic(e)
				}

				obs := &todidObs{found: readRec(myDID, theirDID), defaults: dflts}
				obs.v2msg, _ = service.IsDIDCommV2(&m)

				// what the recipient must obtain: the message; when the own peer DID is shared, with the 'from' member
				// naming it and its initial state; a DIDComm v2 message without 'from' gets the own DID
				mm := m.Clone()
				if obs.found != nil && obs.found.PeerInitial {
					mm["from"] = myDID + "?initialState=eyJpbml0aWFsIjoic3RhdGUifQ"
				} else if _, has := mm["from"]; obs.v2msg && !has {
					mm["from"] = myDID
				}

				expect, _ = json.Marshal(&mm)

				defer func() {
					obs.after = readRec(myDID, theirDID)
					p.lastTodid = obs
				}()

				func() {
					defer func() {
						if r := recover(); r != nil {
							err = fmt.Errorf("panic: %v", r)
						}
					}()

					err = o.SendToDID(m, myDID, theirDID)
				}()

				if after := docState(doc); after != before {
					mutated = "SendToDID changed the resolved DID document: before " + before + " after " + after
				}

				return cap.got, expect, err, mutated
			}
		}
	default:
		for i, c := range sc.Dests {
			snds[i] = sendOn(o, cap, p.newDest(c))
		}
	}

	for i, sd := range sc.Sends {
		if sd.Dest < 0 || sd.Dest >= len(sc.Dests) {
			continue
		}

		c := sc.Dests[sd.Dest]
		c.PayClass, c.PaySeed, c.ViaMed = sd.PayClass, sd.PaySeed, false
		nth := i

		if sc.Mode == "todid" && myDIDOf != "" {
			// the harness's own statement of SendToDID: the record of the pair (created on the first send: the sender's
			// defaults for a v1 message, no profiles for a v2 message) decides the accept list and the packing mode
			v2 := sd.PayClass == "v2"

			if expRec[sd.Dest] == nil {
				expRec[sd.Dest] = &ConnPre{}
				if !v2 {
					expRec[sd.Dest].Profiles = dflts
				}
			}

			acc := c.accept()
			if len(expRec[sd.Dest].Profiles) > 0 {
				acc = expRec[sd.Dest].Profiles
			}

			c.Accept, c.Default = c.accept(), dflts[0]
			c.Profile = effective(acc, dflts[0])
			c.Auth = !(expRec[sd.Dest].PeerInitial && !keepsSender(c.Profile))
		}

		if nth > 2 {
			nth = 2
		}

		p.wrapOn(kind, c, snds[sd.Dest], map[string]interface{}{"seq": sc, "index": i},
			fmt.Sprintf("|%s-send%d", sc.Mode, nth), tr)
	}
}

func (p *pool) randSeq(r *hx.Rng) SeqCase {
	sc := SeqCase{Mode: []string{"send", "todid"}[r.Intn(2)]}
	names := profileNames()
	base := p.randWrap(r, false)
	base.Accept, base.Default = nil, ""
	base.Profile = names[r.Intn(len(names))]
	base.Enc = []string{"XC20P", "A256CBC512"}[r.Intn(2)]
	leg := legacyFamily(base.Profile)
	kt := env.Ed25519

	if !leg {
		kt = env.KTs[r.Intn(len(env.KTs))]
	}

	base.Sender = KeyRef{kt, 0, r.Intn(nSlots)}
	base.Style = "didkey"
	nd := 1 + r.Intn(3)

	// profiles of the same packer family (the key type of a sequence is fixed)
	var same []string

	for _, n := range names {
		if legacyFamily(n) == leg {
			same = append(same, n)
		}
	}

	pickList := func(min, max int) []string {
		l := []string{}
		for k := min + r.Intn(max-min+1); k > 0; k-- {
			l = append(l, same[r.Intn(len(same))])
		}

		return l
	}

	if sc.Mode == "todid" {
		// SendToDID: the dispatcher's defaults, the documents' accept lists and the connection records differ
		sc.Defaults = pickList(1, 3)
	}

	for d := 0; d < nd; d++ {
		c := base
		c.Rcpts, c.Routing = nil, nil

		if sc.Mode == "todid" {
			// SendToDID: authcrypt with the first recipient key of the own document; the connection record's profiles
			// (the dispatcher's defaults) replace the destination's; routing keys of the V1 service block
			c.Auth, c.V2EP = true, false
			c.Accept = pickList(1, 2)

			var pre *ConnPre
			if r.Bool() {
				pre = &ConnPre{Profiles: pickList(0, 2), PeerInitial: r.Intn(3) == 0}
			}

			sc.Conns = append(sc.Conns, pre)
		} else {
			c.Auth, c.V2EP = r.Intn(3) == 0, r.Bool()

			if r.Intn(3) == 0 { // destinations of one agent may differ in profile
				c.Profile = names[r.Intn(len(names))]
				if legacyFamily(c.Profile) != leg {
					c.Profile = base.Profile
				}
			}
		}

		nr := 2 + r.Intn(2)
		if r.Intn(5) == 0 {
			nr = 1
		}

		for i := 0; i < nr; i++ {
			pa := 1
			if i > 0 && r.Bool() {
				pa = 5
			}

			c.Rcpts = append(c.Rcpts, KeyRef{kt, pa, (i + d) % nSlots})
		}

		nh := 1 + r.Intn(3)
		if r.Intn(6) == 0 {
			nh = 0
		}

		for i := 0; i < nh; i++ {
			c.Routing = append(c.Routing, KeyRef{kt, 2 + r.Intn(3), r.Intn(nSlots)})
		}

		sc.Dests = append(sc.Dests, c)
	}

	ns := 3 + r.Intn(4)
	classes := []string{"small", "escapes", "fwdlike", "large"}

	if sc.Mode == "todid" {
		classes = append(classes, "v2") // a DIDComm v2 message: a new connection record gets no profiles
	}

	for i := 0; i < ns; i++ {
		cl := classes[r.Intn(len(classes))]
		if cl == "large" && r.Intn(3) != 0 {
			cl = "small"
		}

		sc.Sends = append(sc.Sends, SeqSend{Dest: r.Intn(nd), PayClass: cl, PaySeed: r.Intn(100000)})
	}

	return sc
}

// ---------------------------------------------------------------- route cases

// RouteOp is one operation of a route history.
type RouteOp struct {
	Op     string   `json:"op"` // update | forward
	Client int      `json:"client,omitempty"`
	Ups    [][2]int `json:"ups,omitempty"` // (action 0 add / 1 remove / 2 other, key index)
	FPut   int      `json:"fput"`          // -1 none
	SendOK bool     `json:"send_ok"`
	To     int      `json:"to,omitempty"`
	Msg    int      `json:"msg,omitempty"`
	FGet   bool     `json:"fget,omitempty"`
	Form   string   `json:"form,omitempty"`  // object | string
	FRes   bool     `json:"fres,omitempty"`  // the registrant's DID does not resolve
	N      int      `json:"n,omitempty"`     // pickup: batch size
	Async  bool     `json:"async,omitempty"` // through Service.HandleInbound (handler goroutine) instead of the sync entry
}

// key strings of the route cases, with the notation each is in the model (rkey).  Related keys on purpose: the same 32
// bytes as an Ed25519 did:key, as an X25519 did:key and in raw base58; the P-256 points (x, y) and (x, -y); a key with a
// fragment appended, in lower case, without its last character; independent keys; DID URLs one a prefix of the other.
var (
	routeKeys   []string
	routeKeyCoq []string
)

func init() {
	add := func(s, coq string) {
		routeKeys = append(routeKeys, s)
		routeKeyCoq = append(routeKeyCoq, coq)
	}

	seed := func(b byte) []byte {
		x := make([]byte, 32)
		for i := range x {
			x[i] = b + byte(i)*7
		}

		return x
	}

	x1 := []byte(ed25519.NewKeyFromSeed(seed(14)).Public().(ed25519.PublicKey))
	x2 := []byte(ed25519.NewKeyFromSeed(seed(41)).Public().(ed25519.PublicKey))
	ed1, fp1 := fingerprint.CreateDIDKeyByCode(fingerprint.ED25519PubKeyMultiCodec, x1)
	xk1, _ := fingerprint.CreateDIDKeyByCode(fingerprint.X25519PubKeyMultiCodec, x1)
	ed2, _ := fingerprint.CreateDIDKeyByCode(fingerprint.ED25519PubKeyMultiCodec, x2)

	px, py := elliptic.P256().ScalarBaseMult(seed(99))
	ny := new(big.Int).Sub(elliptic.P256().Params().P, py)
	p1, _ := fingerprint.CreateDIDKeyByCode(fingerprint.P256PubKeyMultiCodec, elliptic.MarshalCompressed(elliptic.P256(), px, py))
	p2, _ := fingerprint.CreateDIDKeyByCode(fingerprint.P256PubKeyMultiCodec, elliptic.MarshalCompressed(elliptic.P256(), px, ny))
	sign := func(y *big.Int) int { return 2 + int(y.Bit(0)) }

	add(ed1, "(RDidKey 237 1 0)")
	add(xk1, "(RDidKey 236 1 0)")
	add(base58.Encode(x1), "(RB58 1)")
	add(p1, fmt.Sprintf("(RDidKey 4608 2 %d)", sign(py)))
	add(p2, fmt.Sprintf("(RDidKey 4608 2 %d)", sign(ny)))
	add(ed1+"#"+fp1, "(RStr 1)")
	add(strings.ToLower(ed1), "(RStr 2)")
	add(ed1[:len(ed1)-1], "(RStr 3)")
	add(ed2, "(RDidKey 237 3 0)")
	add(base58.Encode(x2), "(RB58 3)")
	add("did:example:c1#key-1", "(RStr 4)")
	add("did:example:c1#key-11", "(RStr 5)")
}

func coqRKey(i int) string {
	if i < 1 || i > len(routeKeyCoq) {
		return "(RStr 0)" // a string that is none of the alphabet's
	}

	return routeKeyCoq[i-1]
}

var routeClients = []int{1, 2, 11}

var actionNames = []string{"add", "remove", "update"}

type routeOut struct {
	Kind    string   `json:"kind"` // resp | relay | held | drop | multi
	Client  int      `json:"client"`
	Msg     int      `json:"msg,omitempty"`
	Entries [][3]int `json:"entries,omitempty"` // key, action, result (0 success 1 server_error)
	Sent    bool     `json:"sent,omitempty"`
	Note    string   `json:"note,omitempty"`
	Msgs    []int    `json:"msgs,omitempty"`
}

func routeMsgBytes(id int, form string) (interface{}, []byte) {
	if form == "string" {
		b := []byte(fmt.Sprintf("eyJhbGciOiJ4In0.m%d.iv.ct.tag", id))
		return base64.StdEncoding.EncodeToString(b), b
	}

	return map[string]interface{}{"protected": fmt.Sprintf("m%d", id), "iv": "aXY", "ciphertext": "Y3Q", "tag": "dGFn",
		"recipients": []interface{}{map[string]interface{}{"encrypted_key": "ZWs"}}}, nil
}

func routeMsgID(b []byte) int {
	id := -1

	if bytes.HasPrefix(b, []byte("{")) {
		var e struct {
			Protected  string        `json:"protected"`
			Recipients []interface{} `json:"recipients"`
		}

		if json.Unmarshal(b, &e) != nil || len(e.Recipients) != 1 {
			return -1
		}

		if _, err := fmt.Sscanf(e.Protected, "m%d", &id); err != nil {
			return -1
		}

		return id
	}

	if _, err := fmt.Sscanf(string(b), "eyJhbGciOiJ4In0.m%d.iv.ct.tag", &id); err != nil {
		return -1
	}

	return id
}

func keyIndex(s string) int {
	for i, k := range routeKeys {
		if k == s {
			return i + 1
		}
	}

	return 0
}

func (p *pool) runRoute(kind string, ops []RouteOp, tr *hx.Trace) {
	m := p.newMed(0, false)

	var (
		outs    []routeOut
		oracle  = "ok"
		sig     string
		details []string
		reg     = map[int]int{}   // key -> client, maintained from the observed responses (direct oracle)
		heldFor = map[int][]int{} // client -> messages observed as held for it and not yet picked up
		nFwd    int
	)

	fail := func(s, d string) {
		oracle = "fail"

		if sig == "" {
			sig = s
		}

		details = append(details, d)
	}

	for i, op := range ops {
		m.out.forwards, m.out.responses, m.pick.held = nil, nil, nil
		m.nPut, m.fPut, m.fGet, m.fRes = 0, -1, false, false
		m.out.failSend = !op.SendOK
		m.pickOut.sent = nil

		var o routeOut

		func() {
			defer func() {
				if r := recover(); r != nil {
					o = routeOut{Kind: "panic", Note: fmt.Sprint(r)}
					fail("mediator-panic", fmt.Sprintf("op %d: %v", i, r))
				}
			}()

			switch op.Op {
			case "update":
				m.fPut = op.FPut

				var ups []map[string]string
				for _, u := range op.Ups {
					ups = append(ups, map[string]string{"recipient_key": routeKeys[u[1]-1], "action": actionNames[u[0]]})
				}

				um := msgMap(map[string]interface{}{"@id": fmt.Sprintf("u%d", i),
					"@type": mediator.KeylistUpdateMsgType, "updates": ups})

				if op.Async {
					drainBarrier()

					if _, e := m.svc.HandleInbound(um, service.NewDIDCommContext(m.myDID, fmt.Sprintf("did:example:client%d", op.Client), nil)); e != nil || !awaitBarrier() {
						fail("async-stuck", fmt.Sprintf("op %d: HandleInbound(keylist-update): %v / handler did not finish", i, e))
					}
				} else {
					_ = m.svc.VerifHandleKeylistUpdate(um, m.myDID, fmt.Sprintf("did:example:client%d", op.Client))
				}

				if len(m.out.responses) != 1 || len(m.out.forwards) != 0 || len(m.pick.held) != 0 {
					o = routeOut{Kind: "multi", Note: fmt.Sprintf("%d responses %d forwards %d held", len(m.out.responses),
						len(m.out.forwards), len(m.pick.held))}
					fail("update-effects", fmt.Sprintf("op %d: %s", i, o.Note))

					return
				}

				r := m.out.responses[0]
				o = routeOut{Kind: "resp", Client: clientOfDID(r.theirDID), Sent: op.SendOK, Entries: [][3]int{}}

				upd, _ := r.msg["updated"].([]interface{})
				for _, e := range upd {
					em, _ := e.(map[string]interface{})
					ks, _ := em["recipient_key"].(string)
					as, _ := em["action"].(string)
					rs, _ := em["result"].(string)
					a, res := 2, 1

					for j, an := range actionNames {
						if an == as {
							a = j
						}
					}

					if rs == "success" {
						res = 0
					}

					o.Entries = append(o.Entries, [3]int{keyIndex(ks), a, res})

					if a == 0 && res == 0 {
						reg[keyIndex(ks)] = o.Client
					}
				}

				if o.Client != op.Client {
					fail("response-to-other", fmt.Sprintf("op %d: response sent to client %d", i, o.Client))
				}
			case "forward":
				nFwd++
				m.fGet = op.FGet
				body, raw := routeMsgBytes(op.Msg, op.Form)

				m.fRes = op.FRes
				fm := msgMap(map[string]interface{}{"@id": fmt.Sprintf("f%d", i),
					"@type": service.ForwardMsgType, "to": routeKeys[op.To-1], "msg": body})

				var err error

				if op.Async {
					drainBarrier()

					if _, e := m.svc.HandleInbound(fm, service.NewDIDCommContext(m.myDID, "did:example:unknownsender", nil)); e != nil || !awaitBarrier() {
						fail("async-stuck", fmt.Sprintf("op %d: HandleInbound(forward): %v / handler did not finish", i, e))
					}
				} else {
					err = m.svc.VerifHandleForward(fm)
				}

				type dl struct{ client, msg int }

				var ds []dl

				for _, f := range m.out.forwards {
					if f.ok {
						ds = append(ds, dl{f.client, routeMsgID(f.msg)})
						o = routeOut{Kind: "relay", Client: f.client, Msg: routeMsgID(f.msg)}

						if raw != nil && !bytes.Equal(raw, f.msg) {
							fail("relay-bytes", fmt.Sprintf("op %d: relayed bytes differ from the forwarded ones", i))
						}
					}
				}

				for _, h := range m.pick.held {
					ds = append(ds, dl{clientOfDID(h.theirDID), routeMsgID(h.msg)})
					o = routeOut{Kind: "held", Client: clientOfDID(h.theirDID), Msg: routeMsgID(h.msg)}
				}

				if len(m.out.responses) != 0 || len(ds) > 1 || len(m.out.forwards) > 1 {
					o = routeOut{Kind: "multi", Note: fmt.Sprintf("%d deliveries %d forward attempts %d responses", len(ds),
						len(m.out.forwards), len(m.out.responses))}
				}

				if len(ds) == 0 && o.Kind == "" {
					o = routeOut{Kind: "drop", Note: errStr(err)}
				}

				// direct oracle: exactly the registrant, exactly this message, nobody else
				want, has := reg[op.To]
				if op.FGet || op.FRes {
					has = false
				}

				if o.Kind == "held" {
					heldFor[o.Client] = append(heldFor[o.Client], o.Msg)
				}

				switch {
				case has && (len(ds) != 1 || ds[0].client != want || ds[0].msg != op.Msg):
					fail("misrouted", fmt.Sprintf("op %d: forward for key %d (registrant client %d) delivered as %+v", i, op.To, want, ds))
				case !has && len(ds) != 0:
					fail("delivered-unregistered", fmt.Sprintf("op %d: forward for a key nobody registered delivered as %+v", i, ds))
				}

				for _, f := range m.out.forwards {
					if f.client != want || !has {
						fail("offered-to-other", fmt.Sprintf("op %d: forward offered to the destination of client %d", i, f.client))
					}
				}
			case "restart":
				m.start(p)
				o = routeOut{Kind: "xrestarted"}
			case "pickup":
				_ = m.pickSvc.VerifHandleSync(msgMap(map[string]interface{}{"@id": fmt.Sprintf("p%d", i),
					"@type": messagepickup.BatchPickupMsgType, "batch_size": op.N, "~thread": map[string]interface{}{"thid": "t"}}),
					m.myDID, fmt.Sprintf("did:example:client%d", op.Client))

				if len(m.out.forwards) != 0 || len(m.out.responses) != 0 || len(m.pickOut.sent) > 1 {
					o = routeOut{Kind: "multi", Note: "pickup had other effects"}
					fail("pickup-effects", fmt.Sprintf("op %d: %d forwards %d responses %d batches", i, len(m.out.forwards),
						len(m.out.responses), len(m.pickOut.sent)))

					return
				}

				if len(m.pickOut.sent) == 0 {
					o = routeOut{Kind: "noinbox", Client: op.Client}

					if len(heldFor[op.Client]) > 0 {
						fail("held-lost", fmt.Sprintf("op %d: client %d has held messages %v but got no batch", i, op.Client, heldFor[op.Client]))
					}

					return
				}

				bt := m.pickOut.sent[0]
				o = routeOut{Kind: "batch", Client: clientOfDID(bt.theirDID), Msgs: []int{}}

				att, _ := bt.msg["messages~attach"].([]interface{})
				for _, a := range att {
					am, _ := a.(map[string]interface{})
					b64, _ := am["msg"].(string)
					raw, _ := base64.StdEncoding.DecodeString(b64)
					o.Msgs = append(o.Msgs, routeMsgID(raw))
				}

				// direct oracle: the batch goes to the requesting client and is the head of what was held for it
				k := op.N
				if k > len(heldFor[op.Client]) {
					k = len(heldFor[op.Client])
				}

				if k < 0 {
					k = 0
				}

				wantMs := heldFor[op.Client][:k]
				if o.Client != op.Client || fmt.Sprint(o.Msgs) != fmt.Sprint(append([]int{}, wantMs...)) {
					fail("pickup-foreign", fmt.Sprintf("op %d: client %d asked for %d and the batch %v went to client %d; held for it: %v",
						i, op.Client, op.N, o.Msgs, o.Client, heldFor[op.Client]))
				}

				heldFor[op.Client] = heldFor[op.Client][k:]
			}
		}()

		outs = append(outs, o)
	}

	var cops, couts []string

	for i, op := range ops {
		switch op.Op {
		case "update":
			var ups []string
			for _, u := range op.Ups {
				ups = append(ups, fmt.Sprintf("(%s, %s)", []string{"AAdd", "ARemove", "AOther"}[u[0]], coqRKey(u[1])))
			}

			f := "None"
			if op.FPut >= 0 {
				f = fmt.Sprintf("(Some %d%%nat)", op.FPut)
			}

			cops = append(cops, fmt.Sprintf("RUpdate %d %s %s %s", op.Client, hx.CoqList(ups), f, hx.CoqBool(op.SendOK)))
		case "pickup":
			n := op.N
			if n < 0 {
				n = 0
			}

			cops = append(cops, fmt.Sprintf("RPickup %d %d%%nat", op.Client, n))
		case "restart":
			cops = append(cops, "RRestart")
		default:
			cops = append(cops, fmt.Sprintf("RForward %s %d %s %s %s", coqRKey(op.To), op.Msg, hx.CoqBool(op.SendOK),
				hx.CoqBool(op.FGet), hx.CoqBool(op.FRes)))
		}

		o := outs[i]

		switch o.Kind {
		case "resp":
			var es []string
			for _, e := range o.Entries {
				es = append(es, fmt.Sprintf("(%s, %s, %s)", coqRKey(e[0]), []string{"AAdd", "ARemove", "AOther"}[e[1]],
					[]string{"RSuccess", "RServerError"}[e[2]]))
			}

			couts = append(couts, fmt.Sprintf("OResp %d %s %s", nz(o.Client), hx.CoqList(es), hx.CoqBool(o.Sent)))
		case "relay":
			couts = append(couts, fmt.Sprintf("ORelay %d %d", nz(o.Client), nz(o.Msg)))
		case "held":
			couts = append(couts, fmt.Sprintf("OHeld %d %d", nz(o.Client), nz(o.Msg)))
		case "drop":
			couts = append(couts, "ODrop")
		case "batch":
			couts = append(couts, fmt.Sprintf("OBatch %d %s", nz(o.Client), hx.CoqNList(nzs(o.Msgs))))
		case "noinbox":
			couts = append(couts, fmt.Sprintf("ONoInbox %d", nz(o.Client)))
		case "xrestarted":
			couts = append(couts, "ORestarted")
		default:
			couts = append(couts, "ORelay 999999 999999") // several effects / panic: never what the model predicts
		}
	}

	var cls []string
	for i, op := range ops {
		cls = append(cls, op.Op[:1]+outs[i].Kind[:1])
	}

	tr.Put(&hx.Record{Kind: kind, Coq: fmt.Sprintf("CR {| r_ops := %s; r_obs := %s |}", hx.CoqList(cops), hx.CoqList(couts)),
		Case: map[string]interface{}{"route": ops}, Observed: outs, Oracle: oracle, Sig: sig, Detail: strings.Join(details, "; "),
		Class: "route|" + strings.Join(cls, ""), Trivial: nFwd == 0,
		Dist: []string{"kind:route", fmt.Sprintf("route_len:%d", len(ops))}})
}

// ---------------------------------------------------------------- generators

func (p *pool) randWrap(r *hx.Rng, viaMed bool) WrapCase {
	names := profileNames()
	c := WrapCase{Profile: names[r.Intn(len(names))], ViaMed: viaMed, V2EP: r.Bool()}

	if r.Intn(2) == 0 {
		// a destination that lists several media type profiles (and ones the dispatcher does not know); the sender's
		// default is used when none is known
		// ("application/didcomm-enc-env" takes part in the selection; when it would be selected the packager falls back
		// to the framework's primary packer, which is configuration, so such lists get a later type that overrides it)
		pool := append(append([]string{}, names...), "application/unknown", "didcomm/v3", transport.MediaTypeV1EncryptedEnvelope,
			transport.MediaTypeV1EncryptedEnvelope)
		na := r.Intn(5)
		c.Accept = []string{}

		for i := 0; i < na; i++ {
			c.Accept = append(c.Accept, pool[r.Intn(len(pool))])
		}

		c.Default = names[r.Intn(len(names))]
		c.Profile = effective(c.Accept, c.Default)

		if c.Profile == transport.MediaTypeV1EncryptedEnvelope {
			if r.Bool() {
				// selected: everything is packed by the primary packer of the sender's packager
				c.Primary = []string{"jwe-auth", "jwe-anon", "jwe-anon", "leg-auth", "leg-anon", "leg-anon"}[r.Intn(6)]
			} else {
				c.Accept = append(c.Accept, []string{transport.MediaTypeAIP2RFC0587Profile, transport.MediaTypeDIDCommV2Profile,
					transport.MediaTypeV2EncryptedEnvelopeV1PlaintextPayload}[r.Intn(3)])
				c.Profile = effective(c.Accept, c.Default)
			}
		}

		if len(c.Accept) == 0 {
			c.Accept = []string{"application/unknown"}
		}
	}
	leg := legacyFamily(c.Profile)
	if c.Primary != "" {
		leg = strings.HasPrefix(c.Primary, "leg")
	}

	kt := env.Ed25519

	if !leg {
		kt = env.KTs[r.Intn(len(env.KTs))]
	}

	c.Auth = r.Intn(3) == 0
	if c.Primary != "" {
		c.Auth = r.Bool()
	}

	c.Enc = []string{"XC20P", "A256GCM", "A256CBC512", "A128CBC"}[r.Intn(4)]

	if (c.Auth || c.Primary == "jwe-auth") && c.Enc == "A256GCM" {
		c.Enc = "XC20P"
	}

	c.Style = "didkey"

	switch {
	case !leg && r.Intn(3) == 0:
		c.Style = "diddoc"
	case profiles[c.Profile] == "PIndy" && r.Intn(3) == 0:
		c.Style = "raw"
	}

	c.PayClass = []string{"small", "small", "v2", "escapes", "fwdlike", "large"}[r.Intn(6)]
	c.PaySeed = r.Intn(100000)
	// parties: sender 0; recipients among parties 1 (and 5); mediators parties 2..4 (a party may serve two hops)
	c.Sender = KeyRef{kt, 0, r.Intn(nSlots)}
	nr := 1 + r.Intn(3)

	for i := 0; i < nr; i++ {
		pa := 1
		if i > 0 && r.Bool() {
			pa = 5
		}

		c.Rcpts = append(c.Rcpts, KeyRef{kt, pa, (i + r.Intn(2)) % nSlots})
	}

	nh := r.Intn(5)
	if c.Primary != "" && strings.HasSuffix(c.Primary, "auth") && r.Intn(3) != 0 {
		nh = 0 // (a routed send through an authcrypt primary packer is refused: keep those a minority)
	}

	for i := 0; i < nh; i++ {
		hkt := kt
		if !leg && r.Intn(3) == 0 {
			hkt = env.KTs[r.Intn(len(env.KTs))]
		}

		c.Routing = append(c.Routing, KeyRef{hkt, 2 + r.Intn(3), r.Intn(nSlots)})
	}

	return c
}

func randRoute(r *hx.Rng, n int) []RouteOp {
	var ops []RouteOp

	// a working set of 2..4 key strings of the alphabet per history (so that registrations and forwards meet), half of
	// the time starting at a related group (keys 1..5: same bytes / same X)
	nk := 2 + r.Intn(3)
	set := make([]int, 0, nk)
	start := r.Intn(len(routeKeys))

	if r.Bool() {
		start = r.Intn(4)
	}

	for j := 0; j < nk; j++ {
		set = append(set, 1+(start+j*(1+r.Intn(2)))%len(routeKeys))
	}

	pickKey := func() int { return set[r.Intn(len(set))] }

	for i := 0; i < n; i++ {
		if r.Intn(5) < 2 {
			op := RouteOp{Op: "update", Client: routeClients[r.Intn(len(routeClients))], FPut: -1, SendOK: r.Intn(6) != 0}
			nu := 1 + r.Intn(3)

			for j := 0; j < nu; j++ {
				a := 0
				if x := r.Intn(8); x == 0 {
					a = 1
				} else if x == 1 {
					a = 2
				}

				op.Ups = append(op.Ups, [2]int{a, pickKey()})
			}

			if r.Intn(6) == 0 {
				op.FPut = r.Intn(nu)
			}

			op.Async = r.Intn(4) == 0

			ops = append(ops, op)
		} else if x := r.Intn(12); x == 0 {
			ops = append(ops, RouteOp{Op: "restart", FPut: -1, SendOK: true})
		} else if x <= 3 {
			cl := routeClients[r.Intn(len(routeClients))]

			if r.Intn(4) != 0 { // mostly the client something was probably held for (the others must get nothing)
			search:
				for j := len(ops) - 1; j >= 0; j-- {
					if ops[j].Op != "forward" || ops[j].SendOK || r.Intn(4) == 0 {
						continue
					}

					for i2 := j - 1; i2 >= 0; i2-- {
						if ops[i2].Op != "update" {
							continue
						}

						for _, u := range ops[i2].Ups {
							if u[0] == 0 && u[1] == ops[j].To {
								cl = ops[i2].Client
								break search
							}
						}
					}
				}
			}

			ops = append(ops, RouteOp{Op: "pickup", Client: cl, N: []int{0, 1, 2, 10}[r.Intn(4)], FPut: -1, SendOK: true})
		} else {
			ops = append(ops, RouteOp{Op: "forward", To: pickKey(), Msg: 1 + r.Intn(50), SendOK: r.Intn(2) != 0,
				FGet: r.Intn(12) == 0, FRes: r.Intn(12) == 0, FPut: -1, Form: []string{"object", "string"}[r.Intn(2)],
				Async: r.Intn(4) == 0})
		}
	}

	return ops
}

// all histories of the given length over a small alphabet (2 clients, 2 related keys: an Ed25519 and an X25519
// did:key over the same bytes)
func enumRoutes(n int, f func([]RouteOp)) {
	var alpha []RouteOp

	for _, cl := range []int{1, 2} {
		for _, k := range []int{1, 2} {
			alpha = append(alpha, RouteOp{Op: "update", Client: cl, Ups: [][2]int{{0, k}}, FPut: -1, SendOK: true})
		}
	}

	alpha = append(alpha,
		RouteOp{Op: "update", Client: 1, Ups: [][2]int{{0, 1}}, FPut: 0, SendOK: true},
		RouteOp{Op: "update", Client: 2, Ups: [][2]int{{1, 1}}, FPut: -1, SendOK: false},
		RouteOp{Op: "forward", To: 1, Msg: 7, SendOK: true, FPut: -1, Form: "object"},
		RouteOp{Op: "forward", To: 1, Msg: 8, SendOK: false, FPut: -1, Form: "string"},
		RouteOp{Op: "forward", To: 2, Msg: 9, SendOK: false, FPut: -1, Form: "string", Async: true},
		RouteOp{Op: "pickup", Client: 1, N: 1, FPut: -1, SendOK: true},
		RouteOp{Op: "pickup", Client: 2, N: 10, FPut: -1, SendOK: true},
		RouteOp{Op: "restart", FPut: -1, SendOK: true})

	var rec func(prefix []RouteOp)
	rec = func(prefix []RouteOp) {
		if len(prefix) == n {
			f(append([]RouteOp{}, prefix...))
			return
		}

		for _, a := range alpha {
			rec(append(prefix, a))
		}
	}

	rec(nil)
}

func (p *pool) systematicWraps(tr *hx.Trace) {
	// every profile x {anon, auth} x {1, 2 recipients} x hops 0..2, did:key style, directly and through real mediators
	for _, prof := range profileNames() {
		leg := legacyFamily(prof)
		kt := env.Ed25519

		if !leg {
			kt = env.X25519
		}

		for _, auth := range []bool{false, true} {
			for _, nr := range []int{1, 2} {
				for nh := 0; nh <= 2; nh++ {
					c := WrapCase{Profile: prof, Enc: "XC20P", Style: "didkey", Auth: auth, V2EP: nh == 2, PayClass: "small",
						PaySeed: nh + 10*nr, Sender: KeyRef{kt, 0, 0}, ViaMed: nh > 0 && nr == 1}

					for i := 0; i < nr; i++ {
						c.Rcpts = append(c.Rcpts, KeyRef{kt, 1, i})
					}

					for i := 0; i < nh; i++ {
						c.Routing = append(c.Routing, KeyRef{kt, 2 + i, 0})
					}

					p.runWrap("systematic", c, tr)
				}
			}
		}
	}
}

// systematicPrimary: application/didcomm-enc-env selected (accept list [JWM/1.0 or v1 plaintext, enc-env]), every
// primary packer x {no sender key, sender key} x {1, 2 recipients} x hops 0..2, directly and through real mediators.
func (p *pool) systematicPrimary(tr *hx.Trace) {
	for _, prim := range []string{"jwe-auth", "jwe-anon", "leg-auth", "leg-anon"} {
		leg := strings.HasPrefix(prim, "leg")
		kt, low := env.Ed25519, transport.MediaTypeRFC0019EncryptedEnvelope

		if !leg {
			kt, low = env.X25519, transport.MediaTypeV1PlaintextPayload
		}

		for _, auth := range []bool{false, true} {
			for _, nr := range []int{1, 2} {
				for nh := 0; nh <= 2; nh++ {
					c := WrapCase{Profile: transport.MediaTypeV1EncryptedEnvelope, Primary: prim, Enc: "XC20P", Style: "didkey",
						Accept: []string{low, transport.MediaTypeV1EncryptedEnvelope, "application/unknown"}, Default: low,
						Auth: auth, V2EP: nh == 2, PayClass: "small", PaySeed: 100 + nh + 10*nr, Sender: KeyRef{kt, 0, 1},
						ViaMed: nh > 0 && nr == 1 && strings.HasSuffix(prim, "anon")}

					for i := 0; i < nr; i++ {
						c.Rcpts = append(c.Rcpts, KeyRef{kt, 1, i})
					}

					for i := 0; i < nh; i++ {
						c.Routing = append(c.Routing, KeyRef{kt, 2 + i, 1})
					}

					p.runWrap("systematic", c, tr)
				}
			}
		}
	}
}

// systematicTodid: SendToDID over a connection record that exists before the first send, for every profile as the
// record's only profile x {own peer DID shared, not}: two sends each (a v1 and a v2 message), one routing key; and over
// no record, the document listing the profile, with another default of the same packer family.
func (p *pool) systematicTodid(tr *hx.Trace) {
	for _, prof := range profileNames() {
		leg := legacyFamily(prof)
		kt, other := env.Ed25519, transport.MediaTypeProfileDIDCommAIP1

		if !leg {
			kt, other = env.X25519, transport.MediaTypeV1PlaintextPayload
		}

		for k := 0; k < 3; k++ {
			d := WrapCase{Profile: prof, Enc: "XC20P", Style: "didkey", Auth: true, PayClass: "small", Sender: KeyRef{kt, 0, 0},
				Rcpts: []KeyRef{{kt, 1, 0}, {kt, 5, 1}}, Routing: []KeyRef{{kt, 3, 0}}}
			sc := SeqCase{Mode: "todid", Dests: []WrapCase{d}, Defaults: []string{other},
				Sends: []SeqSend{{Dest: 0, PayClass: "small", PaySeed: 200 + k}, {Dest: 0, PayClass: "v2", PaySeed: 210 + k}}}

			switch k {
			case 0:
				sc.Dests[0].Accept = []string{other}
				sc.Conns = []*ConnPre{{Profiles: []string{prof}, PeerInitial: true}}
			case 1:
				sc.Dests[0].Accept = []string{other}
				sc.Conns = []*ConnPre{{Profiles: []string{prof}}}
			default:
				sc.Dests[0].Accept = []string{prof}
				sc.Sends[0], sc.Sends[1] = sc.Sends[1], sc.Sends[0] // a v2 message first: the new record carries no profiles
			}

			p.runSeq("systematic", sc, tr)
		}
	}
}

func corpus(p *pool, dir string, tr *hx.Trace) {
	if dir == "" {
		return
	}

	files, _ := filepath.Glob(filepath.Join(dir, "*.json"))
	sort.Strings(files)

	for _, f := range files {
		b, err := os.ReadFile(f)
		if err != nil {
			continue
		}

		replayBytes(p, "corpus", b, tr)
	}
}

func replayBytes(p *pool, kind string, b []byte, tr *hx.Trace) {
	var c struct {
		Case struct {
			Wrap  *WrapCase `json:"wrap"`
			Route []RouteOp `json:"route"`
			Seq   *SeqCase  `json:"seq"`
		} `json:"case"`
		Wrap  *WrapCase `json:"wrap"`
		Route []RouteOp `json:"route"`
		Seq   *SeqCase  `json:"seq"`
	}

	if err := json.Unmarshal(b, &c); err != nil {
		fmt.Fprintln(os.Stderr, "replay:", err)
		return
	}

	if c.Case.Wrap != nil {
		c.Wrap = c.Case.Wrap
	}

	if c.Case.Route != nil {
		c.Route = c.Case.Route
	}

	if c.Case.Seq != nil {
		c.Seq = c.Case.Seq
	}

	if c.Wrap != nil {
		p.runWrap(kind, *c.Wrap, tr)
	}

	if c.Seq != nil {
		p.runSeq(kind, *c.Seq, tr)
	}

	if c.Route != nil {
		p.runRoute(kind, c.Route, tr)
	}
}

func main() {
	args := hx.ParseArgs()
	tr := hx.NewTrace(args.Out)

	defer tr.Close()

	root := "."
	if exe, err := os.Executable(); err == nil {
		root = filepath.Dir(filepath.Dir(filepath.Dir(exe)))
	}

	log.Initialize(barrierProvider{})
	log.SetLevel("", spilog.CRITICAL)
	log.SetLevel("aries-framework/route/service", spilog.DEBUG)

	p := newPool()

	if args.Replay != "" {
		b, err := os.ReadFile(args.Replay)
		if err != nil {
			fmt.Fprintln(os.Stderr, err)
			os.Exit(2)
		}

		replayBytes(p, "replay", b, tr)

		return
	}

	dir := args.Extra
	if dir != "" && !filepath.IsAbs(dir) {
		if _, err := os.Stat(dir); err != nil {
			dir = filepath.Join(root, dir)
		}
	}

	corpus(p, dir, tr)

	rng := hx.NewRng(args.Seed)
	nWrap, nWrapMed, nRoute, depth, nSeq := 330, 200, 900, 3, 70

	if args.Tier == "thorough" {
		nWrap, nWrapMed, nRoute, depth, nSeq = 4000, 2000, 30000, 4, 1200
	}

	p.systematicWraps(tr)
	p.systematicPrimary(tr)
	p.systematicTodid(tr)

	for i := 0; i < nWrap; i++ {
		p.runWrap("random", p.randWrap(rng.Fork(uint64(i)), false), tr)
	}

	for i := 0; i < nWrapMed; i++ {
		p.runWrap("random-mediated", p.randWrap(rng.Fork(uint64(500_000+i)), true), tr)
	}

	// histories of sends of one agent (one dispatcher, destinations / DID documents re-used as objects)
	for i := 0; i < nSeq; i++ {
		p.runSeq("sequence", p.randSeq(rng.Fork(uint64(2_000_000+i))), tr)
	}

	for n := 1; n <= depth; n++ {
		enumRoutes(n, func(ops []RouteOp) { p.runRoute("exhaustive", ops, tr) })
	}

	for i := 0; i < nRoute; i++ {
		r := rng.Fork(uint64(1_000_000 + i))
		p.runRoute("random", randRoute(r, 3+r.Intn(12)), tr)
	}
}
