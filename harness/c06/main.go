// c06: drives the real localkms (real local secret lock, real kms store wrapper over a recorded mem provider
// that can be frozen after the k-th mutation) through operation histories with crash points and reopening,
// and records what it did for comparison with the Coq model (coq/C06).
package main

import (
	"bytes"
	"crypto/ecdsa"
	"crypto/ed25519"
	"crypto/elliptic"
	"crypto/sha256"
	"crypto/x509"
	"encoding/base64"
	"encoding/binary"
	"encoding/json"
	"fmt"
	"math/big"
	"os"
	"path/filepath"
	"sort"
	"strings"

	"github.com/btcsuite/btcd/btcec"
	"github.com/btcsuite/btcutil/base58"
	"github.com/google/tink/go/insecurecleartextkeyset"
	"github.com/google/tink/go/keyset"

	"github.com/hyperledger/aries-framework-go/component/kmscrypto/crypto/primitive/bbs12381g2pub"
	"github.com/hyperledger/aries-framework-go/component/kmscrypto/crypto/tinkcrypto"
	"github.com/hyperledger/aries-framework-go/component/kmscrypto/doc/jose/kidresolver"
	"github.com/hyperledger/aries-framework-go/component/kmscrypto/doc/util/jwkkid"
	"github.com/hyperledger/aries-framework-go/component/kmscrypto/doc/util/kmsdidkey"
	compkms "github.com/hyperledger/aries-framework-go/component/kmscrypto/kms"
	"github.com/hyperledger/aries-framework-go/component/kmscrypto/kms/localkms"
	"github.com/hyperledger/aries-framework-go/component/kmscrypto/secretlock/local"
	"github.com/hyperledger/aries-framework-go/component/storageutil/mem"
	vdrkey "github.com/hyperledger/aries-framework-go/component/vdr/key"
	cryptoapi "github.com/hyperledger/aries-framework-go/spi/crypto"
	kmsapi "github.com/hyperledger/aries-framework-go/spi/kms"
	"github.com/hyperledger/aries-framework-go/spi/secretlock"
	"github.com/hyperledger/aries-framework-go/spi/storage"

	"verifharness/hx"
)

// ---------- key types (the harness's own classification, independent of the generated table) ----------

type ktInfo struct {
	name   string
	class  string // aead | mac | sig | bbs | kw
	asym   bool
	imp    string // "", ed, ec, bbs : importable from which Go key
	curve  string // P-256 P-384 P-521 SECP256K1 Ed25519 X25519 Bls12381g2
	create bool
}

var ktypes = []ktInfo{
	{"AES128GCM", "aead", false, "", "", true},
	{"AES256GCMNoPrefix", "aead", false, "", "", true},
	{"AES256GCM", "aead", false, "", "", true},
	{"ChaCha20Poly1305", "aead", false, "", "", true},
	{"XChaCha20Poly1305", "aead", false, "", "", true},
	{"HMACSHA256Tag256", "mac", false, "", "", true},
	{"ECDSAP256DER", "sig", true, "ec", "P-256", true},
	{"ECDSAP384DER", "sig", true, "ec", "P-384", true},
	{"ECDSAP521DER", "sig", true, "ec", "P-521", true},
	{"ECDSAP256IEEEP1363", "sig", true, "ec", "P-256", true},
	{"ECDSAP384IEEEP1363", "sig", true, "ec", "P-384", true},
	{"ECDSAP521IEEEP1363", "sig", true, "ec", "P-521", true},
	{"ECDSASecp256k1IEEEP1363", "sig", true, "ec", "SECP256K1", true},
	{"ED25519", "sig", true, "ed", "Ed25519", true},
	{"NISTP256ECDHKW", "kw", true, "ec", "P-256", true},
	{"NISTP384ECDHKW", "kw", true, "ec", "P-384", true},
	{"NISTP521ECDHKW", "kw", true, "ec", "P-521", true},
	{"X25519ECDHKW", "kw", true, "", "X25519", true},
	{"BLS12381G2", "bbs", true, "bbs", "Bls12381g2", true},
}

// key types outside the main generators: import-only (secp256k1 with DER signatures: no key template use in Create, no
// export) — sampled by their own sweep
var extraTypes = []ktInfo{
	{"ECDSASecp256k1DER", "sig", true, "ec", "SECP256K1", false},
}

func ktByName(n string) *ktInfo {
	for i := range ktypes {
		if ktypes[i].name == n {
			return &ktypes[i]
		}
	}

	for i := range extraTypes {
		if extraTypes[i].name == n {
			return &extraTypes[i]
		}
	}

	return nil
}

func goCurve(name string) elliptic.Curve {
	switch name {
	case "P-256":
		return elliptic.P256()
	case "P-384":
		return elliptic.P384()
	case "P-521":
		return elliptic.P521()
	case "SECP256K1":
		return btcec.S256()
	}

	return nil
}

func coordLen(curve string) int {
	switch curve {
	case "P-256", "SECP256K1", "Ed25519", "X25519":
		return 32
	case "P-384":
		return 48
	case "P-521":
		return 66
	case "Bls12381g2":
		return 96
	}

	return 0
}

func pad(b []byte, n int) []byte {
	if len(b) >= n {
		return b
	}

	return append(make([]byte, n-len(b)), b...)
}

// pubCoords parses what ExportPubKeyBytes returned, independently of jwkkid: fixed-length x (and y).
func pubCoords(kt *ktInfo, pub []byte) (x, y []byte, err error) {
	n := coordLen(kt.curve)

	switch {
	case kt.class == "sig" && strings.HasSuffix(kt.name, "DER"):
		k, e := x509.ParsePKIXPublicKey(pub)
		if e != nil {
			return nil, nil, e
		}

		ek, ok := k.(*ecdsa.PublicKey)
		if !ok {
			return nil, nil, fmt.Errorf("not an EC key")
		}

		return pad(ek.X.Bytes(), n), pad(ek.Y.Bytes(), n), nil
	case kt.class == "sig" && strings.HasSuffix(kt.name, "IEEEP1363"):
		if len(pub) != 1+2*n || pub[0] != 4 {
			return nil, nil, fmt.Errorf("not an uncompressed point of %d bytes", 1+2*n)
		}

		return pub[1 : 1+n], pub[1+n:], nil
	case kt.name == "ED25519" || kt.name == "BLS12381G2":
		if len(pub) != n {
			return nil, nil, fmt.Errorf("raw key of %d bytes, want %d", len(pub), n)
		}

		return pub, nil, nil
	case kt.class == "kw":
		var pk cryptoapi.PublicKey
		if e := json.Unmarshal(pub, &pk); e != nil {
			return nil, nil, e
		}

		if kt.curve == "X25519" {
			return pad(pk.X, n), nil, nil
		}

		return pad(pk.X, n), pad(pk.Y, n), nil
	}

	return nil, nil, fmt.Errorf("no public key form for %s", kt.name)
}

func b64u(b []byte) string { return base64.RawURLEncoding.EncodeToString(b) }

// refPreimage is RFC 7638's canonical JSON for the key (the harness's own statement of the thumbprint input).
func refPreimage(curve string, x, y []byte) string {
	switch curve {
	case "P-256", "P-384", "P-521", "SECP256K1":
		return `{"crv":"` + curve + `","kty":"EC","x":"` + b64u(x) + `","y":"` + b64u(y) + `"}`
	default:
		return `{"crv":"` + curve + `","kty":"OKP","x":"` + b64u(x) + `"}`
	}
}

func refKID(curve string, x, y []byte) string {
	h := sha256.Sum256([]byte(refPreimage(curve, x, y)))
	return b64u(h[:])
}

// ---------- the world: one store, one master key, key managers opened over them ----------

type provider struct {
	store kmsapi.Store
	lock  secretlock.Service
}

func (p *provider) StorageProvider() kmsapi.Store  { return p.store }
func (p *provider) SecretLock() secretlock.Service { return p.lock }

// the primary key URI a key manager is opened with: the local secret lock ignores it and nothing stored may depend on it
func keyURI(n int) string { return fmt.Sprintf("local-lock://verif/c06/agent-%d/primary", n) }

type idInfo struct {
	str   string
	model string // Gallina term
}

type world struct {
	raw       *mem.Provider
	rec       *hx.RecProvider
	masterKey []byte
	kms       *localkms.LocalKMS // the working instance (recorded, crashable)
	crypto    *tinkcrypto.Crypto

	limit  int // mutations allowed before the freeze (-1: no crash)
	muts   int
	frozen bool
	faultMode, hit bool
	failAt, ncalls int
	uri, obsN      int

	// several long-lived working key managers over the same data (op "switch"), opened through different storage
	// wrapper stacks: 0 = a fresh kms.NewAriesProviderWrapper per key manager, 1 = ONE wrapper object shared by every key
	// manager that uses this stack, 2 = an application's own kms.Store adapter straight over the "kmsdb" store
	insts  map[int]*localkms.LocalKMS
	cur    int
	stack  int
	shared kmsapi.Store

	idTab    []idInfo          // every id string seen, in order of first appearance
	idModel  map[string]string // id string -> Gallina term
	matAtom  map[string]int    // key material bytes -> atom
	pubAtom  map[string]int    // exported public key bytes -> atom
	origKH   map[int]*keyset.Handle
	atomKT   map[int]string
	idKTm    map[string]string
	resolved map[string]string

	panicked      string // the last importbad call panicked with this
	curImportAtom int // atom of the key being imported by the current op, -1 otherwise
	returned []string // ids returned by successful create/import/rotate, in order (ops refer to them by index)
}

func newWorld(r *hx.Rng) *world {
	w := &world{limit: -1, idModel: map[string]string{}, matAtom: map[string]int{}, pubAtom: map[string]int{},
		origKH: map[int]*keyset.Handle{}, atomKT: map[int]string{}, idKTm: map[string]string{}}
	w.raw = mem.NewProvider()
	w.rec = hx.NewRecProvider(w.raw)
	w.masterKey = r.Bytes(32)
	w.rec.Before = func(c *hx.Call) error {
		if c.Store != compkms.AriesWrapperStoreName {
			return nil
		}

		if c.Op == "Get" || c.Op == "Put" || c.Op == "Delete" {
			w.ncalls++

			if !w.frozen && w.failAt > 0 && w.ncalls == w.failAt {
				w.hit = true

				if c.Op != "Get" {
					w.muts++
				}

				return hx.ErrInjected
			}
		}

		if c.Op == "Put" || c.Op == "Delete" {
			if w.frozen {
				return hx.ErrInjected
			}

			if w.limit >= 0 && w.muts == w.limit {
				if w.faultMode {
					// a single failing store call: later calls of the same operation are served
					w.hit = true
					w.muts++

					return hx.ErrInjected
				}

				w.frozen = true

				return hx.ErrInjected
			}

			w.muts++
		}

		return nil
	}

	c, err := tinkcrypto.New()
	if err != nil {
		panic(err)
	}

	w.crypto = c
	w.kms = mustOpen(w, true)
	w.insts = map[int]*localkms.LocalKMS{0: w.kms}

	return w
}

func openKMS(w *world, recorded bool, mk []byte) (*localkms.LocalKMS, error) {
	// the working key manager uses the URI of its last (re)opening; every observing key manager another one
	uri := keyURI(w.uri)
	if !recorded {
		w.obsN++
		uri = keyURI(100 + w.obsN%7)
	}

	var (
		st  kmsapi.Store
		err error
	)

	if recorded {
		switch w.stack % 3 {
		case 1:
			if w.shared == nil {
				w.shared, err = compkms.NewAriesProviderWrapper(w.rec)
			}

			st = w.shared
		case 2:
			var s storage.Store

			if s, err = w.rec.OpenStore(compkms.AriesWrapperStoreName); err == nil {
				st = &directStore{s}
			}
		default:
			st, err = compkms.NewAriesProviderWrapper(w.rec)
		}
	} else {
		st, err = compkms.NewAriesProviderWrapper(w.raw)
	}

	if err != nil {
		return nil, err
	}

	// the master key as the masterlock tooling hands it over: base64url text
	lock, err := local.NewService(bytes.NewReader([]byte(base64.URLEncoding.EncodeToString(mk))), nil)
	if err != nil {
		return nil, err
	}

	return localkms.New(uri, &provider{store: st, lock: lock})
}

// directStore is a kms.Store an application could write itself over the same "kmsdb" data.
type directStore struct{ s storage.Store }

func (d *directStore) Put(id string, v []byte) error { return d.s.Put(id, v) }
func (d *directStore) Delete(id string) error        { return d.s.Delete(id) }
func (d *directStore) Get(id string) ([]byte, error) {
	v, err := d.s.Get(id)
	if err != nil {
		if strings.Contains(err.Error(), storage.ErrDataNotFound.Error()) {
			return nil, fmt.Errorf("no keyset %q: %w", id, compkms.ErrKeyNotFound)
		}

		return nil, err
	}

	return v, nil
}

func mustOpen(w *world, recorded bool) *localkms.LocalKMS {
	k, err := openKMS(w, recorded, w.masterKey)
	if err != nil {
		panic(err)
	}

	return k
}

// material returns the serialized key material of every key of a handle (oldest first) and the primary's index.
func material(kh *keyset.Handle) (mats []string, primary int) {
	mw := &keyset.MemReaderWriter{}
	if err := insecurecleartextkeyset.Write(kh, mw); err != nil || mw.Keyset == nil {
		return nil, -1
	}

	primary = -1

	for i, k := range mw.Keyset.Key {
		mats = append(mats, string(k.KeyData.Value))

		if k.KeyId == mw.Keyset.PrimaryKeyId {
			primary = i
		}
	}

	return mats, primary
}

const unknownAtom = 999999

func (w *world) atomsOf(kh *keyset.Handle) (atoms []int, primary int) {
	mats, pi := material(kh)
	primary = unknownAtom

	for i, m := range mats {
		a, ok := w.matAtom[m]
		if !ok {
			a = unknownAtom
		}

		atoms = append(atoms, a)

		if i == pi {
			primary = a
		}
	}

	if atoms == nil {
		atoms = []int{}
	}

	return atoms, primary
}

// ---------- operations ----------

// Op is one operation of a history.
type Op struct {
	Kind  string `json:"op"`            // create | createx | import | rotate | get | export | reopen
	KT    string `json:"kt,omitempty"`  // create/createx/import
	UID   int    `json:"uid,omitempty"` // import: 0 = no requested id, n = caller-chosen id "user-id-n"
	Key   int    `json:"key,omitempty"` // import: which key of the pool of this key type
	Ref   int    `json:"ref"`           // rotate/get/export: index into the ids returned so far; -1 = an id never issued
	Crash int    `json:"crash"`         // -1 none; k = the call is interrupted at its (k+1)-th store mutation: ...
	Fault bool   `json:"fault,omitempty"` // ... false: the process dies there (store frozen, key manager reopened); true: only that store call fails

	// FailAt k >= 1: the k-th call (Get, Put or Delete) this operation makes on the storage provider UNDERNEATH the
	// kms store wrapper fails once with an I/O error; 0 = none
	FailAt int `json:"failat,omitempty"`
	// RotKT: rotate with this key type instead of the keyset's own (direct oracle only: outside the model)
	RotKT string `json:"rotkt,omitempty"`
	// URI: reopen: number of the primary key URI the fresh key manager is opened with
	URI int `json:"uri,omitempty"`
	// Stack: reopen / switch (when the instance is opened by it): the storage wrapper stack (see world.stack)
	Stack int `json:"stack,omitempty"`
	// IDForm: import / importbad with a requested id: which spelling of "user-id-<uid>" is requested (see userIDf)
	IDForm int `json:"idform,omitempty"`
	// Bad: importbad: the EC private key handed to ImportPrivateKey is not on the key type's curve: "curve" = a valid key
	// of another curve, "offcurve" = the right curve's key with its point moved off the curve
	Bad string `json:"bad,omitempty"`
	// Inst: switch: the working key manager instance the caller goes on with (kept alive across other instances' calls)
	Inst int `json:"inst,omitempty"`

	seq int
}

// Obs is what the implementation did for one op.
type Obs struct {
	Calls []string   `json:"calls"` // "Get <id>" ...
	Out   string     `json:"out"`
	ID    string     `json:"id,omitempty"`
	Atom  int        `json:"atom,omitempty"`
	Keys  []int      `json:"keys,omitempty"`
	Snap  []SnapItem `json:"snap"`

	coqCalls []string
	coqOut   string
}

// SnapItem is what a fresh key manager reads under one id.
type SnapItem struct {
	ID      string `json:"id"`
	Present bool   `json:"present"`
	Keys    []int  `json:"keys,omitempty"`
}

func userID(n int) string { return fmt.Sprintf("user-id-%d", n) }

// caller-chosen ids come in SPELLINGS: strings a careless layer may take for one another (blanks around, another case,
// a trailing line end or slash, an escaped character).  To the key manager an id is an opaque exact string: the id it
// checks, the id it stores under and the id it returns are the caller's string, and two spellings are two ids.
const nIDForms = 9

func userIDf(n, form int) string {
	s := userID(n)

	switch form % nIDForms {
	case 1:
		return s + " "
	case 2:
		return " " + s
	case 3:
		return strings.ToUpper(s)
	case 4:
		return s + "\n"
	case 5:
		return s + "/"
	case 6:
		return "\t" + s + "\t"
	case 7:
		return strings.Replace(s, "-", "%2D", 1)
	case 8:
		return s + "\x00"
	}

	return s
}

// userNum: the model's number of a caller-chosen id (exact string), -1 for any other string.
func userNum(id string) int {
	for n := 0; n <= 9; n++ {
		for f := 0; f < nIDForms; f++ {
			if id == userIDf(n, f) {
				return n + 100*f
			}
		}
	}

	return -1
}

const bogusID = "id-never-issued"

// pool of keys to import: atom = 1000 + 10*index(kt) + j
type poolKey struct {
	atom int
	priv interface{}
	x, y []byte
}

var pool = map[string][]poolKey{}

func buildPool(r *hx.Rng) {
	for i, kt := range append(append([]ktInfo{}, ktypes...), extraTypes...) {
		if kt.imp == "" {
			continue
		}

		for j := 0; j < 2; j++ {
			pk := poolKey{atom: 1000 + 10*i + j}
			seed := r.Bytes(80)

			switch kt.imp {
			case "ed":
				priv := ed25519.NewKeyFromSeed(seed[:32])
				pk.priv = priv
				pk.x = []byte(priv.Public().(ed25519.PublicKey))
			case "ec":
				c := goCurve(kt.curve)
				n := c.Params().N
				d := new(big.Int).SetBytes(seed[:coordLen(kt.curve)])
				d.Mod(d, new(big.Int).Sub(n, big.NewInt(1)))
				d.Add(d, big.NewInt(1))
				priv := &ecdsa.PrivateKey{D: d}
				priv.Curve = c
				priv.X, priv.Y = c.ScalarBaseMult(d.Bytes())
				pk.priv = priv
				pk.x, pk.y = pad(priv.X.Bytes(), coordLen(kt.curve)), pad(priv.Y.Bytes(), coordLen(kt.curve))
			case "bbs":
				pub, priv, err := bbs12381g2pub.GenerateKeyPair(sha256.New, seed[:32])
				if err != nil {
					panic(err)
				}

				pk.priv = priv
				pk.x, _ = pub.Marshal()
			}

			pool[kt.name] = append(pool[kt.name], pk)
		}
	}
}

// edge keys, built on purpose (seeded): EC keys whose X / Y coordinate has a leading zero byte, Ed25519 keys whose
// public key starts with 0x00 / 0x30 ('0', the DER SEQUENCE tag) / 0x7b ('{') / 0x04 / 0x02.
type edgeKey struct {
	label string
	priv  interface{}
}

var edgeCache = map[string][]edgeKey{}

func edgeKeys(kt *ktInfo, r *hx.Rng) []edgeKey {
	key := kt.imp + "/" + kt.curve
	if ks, ok := edgeCache[key]; ok {
		return ks
	}

	var out []edgeKey

	switch kt.imp {
	case "ed":
		want := map[byte]string{0x00: "first-byte-00", 0x30: "first-byte-30", 0x7b: "first-byte-7b", 0x04: "first-byte-04", 0x02: "first-byte-02"}
		seed := r.Bytes(32)

		for i := 0; len(want) > 0 && i < 20000; i++ {
			h := sha256.Sum256(append(append([]byte{}, seed...), byte(i), byte(i>>8)))
			priv := ed25519.NewKeyFromSeed(h[:])
			pub := priv.Public().(ed25519.PublicKey)

			if l, ok := want[pub[0]]; ok {
				out = append(out, edgeKey{l, priv})
				delete(want, pub[0])
			}
		}
	case "ec":
		c := goCurve(kt.curve)
		n := coordLen(kt.curve)
		d := new(big.Int).SetBytes(r.Bytes(n - 1))
		d.Add(d, big.NewInt(2))
		x, y := c.ScalarBaseMult(d.Bytes())
		gx, gy := c.Params().Gx, c.Params().Gy
		need := map[string]bool{"x-leading-zero": true, "y-leading-zero": true}

		for i := 0; len(need) > 0 && i < 20000; i++ {
			for _, l := range []string{"x-leading-zero", "y-leading-zero"} {
				v := x
				if l[0] == 'y' {
					v = y
				}

				if need[l] && len(v.Bytes()) < n {
					priv := &ecdsa.PrivateKey{D: new(big.Int).Set(d)}
					priv.Curve, priv.X, priv.Y = c, new(big.Int).Set(x), new(big.Int).Set(y)
					out = append(out, edgeKey{l, priv})
					delete(need, l)
				}
			}

			x, y = c.Add(x, y, gx, gy)
			d.Add(d, big.NewInt(1))
		}
	}

	sort.Slice(out, func(i, j int) bool { return out[i].label < out[j].label })
	edgeCache[key] = out

	return out
}

func (w *world) refID(ref int) string {
	if ref >= 0 && ref < len(w.returned) {
		return w.returned[ref]
	}

	return bogusID
}

// modelID gives the Gallina term of an id string, registering it on first sight.
//   - caller-chosen ids and the never-issued id are KUser n
//   - an id under which a keyset is stored and that equals the harness's own thumbprint of the stored primary key's
//     public coordinates is KThumb (atom of that key)
//   - any other id is KRand pos (drawn in the operation at position pos); ids never stored are classified by their
//     length (43 characters = a SHA-256 thumbprint)
func (w *world) modelID(id string, pos int, obsv *localkms.LocalKMS) string {
	defAtom := pos
	if w.curImportAtom >= 0 {
		defAtom = w.curImportAtom
	}

	if m, ok := w.idModel[id]; ok {
		return m
	}

	m := ""

	if n := userNum(id); n >= 0 {
		m = fmt.Sprintf("(KUser %d)", n)
	} else if id == bogusID {
		m = "(KUser 99)"
	} else {
		m = fmt.Sprintf("(KRand %d)", pos)

		if len(id) == 43 {
			m = fmt.Sprintf("(KThumb %d)", defAtom)
		}

		if kh, err := obsv.Get(id); err == nil {
			_, prim := w.atomsOf(kh.(*keyset.Handle))
			m = fmt.Sprintf("(KRand %d)", pos)

			if pub, kts, e := obsv.ExportPubKeyBytes(id); e == nil {
				if kt := ktByName(string(kts)); kt != nil {
					if x, y, e2 := pubCoords(kt, pub); e2 == nil && refKID(kt.curve, x, y) == id {
						m = fmt.Sprintf("(KThumb %d)", prim)
					}
				}
			}
		}
	}

	w.idModel[id] = m
	w.idTab = append(w.idTab, idInfo{id, m})

	return m
}

// register learns the key material first stored by this op and the public key bytes exported under each new id.
func (w *world) register(pos int, op Op, putIDs []string, obsv *localkms.LocalKMS) {
	for _, id := range putIDs {
		kh, err := obsv.Get(id)
		if err != nil {
			continue
		}

		// the key type of what is stored under id now (also when the call was interrupted after its Put and the
		// caller never got the id back): a later Rotate by the harness uses the keyset's own type
		switch op.Kind {
		case "create", "createx", "import", "importbad":
			w.idKT(id, op.KT)
		case "rotate":
			w.idKT(id, w.ktOfID(w.refID(op.Ref)))
		}

		h := kh.(*keyset.Handle)
		mats, _ := material(h)

		for _, m := range mats {
			if _, ok := w.matAtom[m]; !ok {
				a := pos
				if op.Kind == "import" {
					a = w.poolKey(op).atom
				}

				if op.Kind == "importbad" {
					a = 3000 + pos
				}

				w.matAtom[m] = a
			}
		}

		_, prim := w.atomsOf(h)

		func() {
			defer func() { _ = recover() }() // (a keyset with a point off its curve makes the export panic)

			if pub, _, e := obsv.ExportPubKeyBytes(id); e == nil {
				w.pubAtom[string(pub)] = prim
			}
		}()
	}
}

// badKey: an EC private key that is not on the curve of key type kt.
func badKey(kt *ktInfo, bad string, key int) interface{} {
	if bad == "offcurve" {
		k, _ := pool[kt.name][key%2].priv.(*ecdsa.PrivateKey)
		off := *k
		off.PublicKey.Y = new(big.Int).Add(k.Y, big.NewInt(1))

		return &off
	}

	other := map[string]string{"P-256": "ECDSAP384DER", "P-384": "ECDSAP521IEEEP1363", "P-521": "NISTP256ECDHKW", "SECP256K1": "ECDSAP256DER"}

	if key%2 == 1 {
		other = map[string]string{"P-256": "ECDSASecp256k1IEEEP1363", "P-384": "NISTP256ECDHKW", "P-521": "ECDSAP384DER", "SECP256K1": "NISTP521ECDHKW"}
	}

	return pool[other[kt.curve]][key%2].priv
}

func (w *world) poolKey(op Op) poolKey {
	ks := pool[op.KT]
	if len(ks) == 0 {
		return poolKey{atom: unknownAtom}
	}

	return ks[op.Key%len(ks)]
}

func (w *world) apply(pos int, op Op) Obs {
	w.limit, w.muts, w.frozen, w.faultMode, w.hit = op.Crash, 0, false, op.Fault, false
	w.failAt, w.ncalls = op.FailAt, 0
	w.rec.Reset()

	w.curImportAtom = -1
	if op.Kind == "import" {
		w.curImportAtom = w.poolKey(op).atom
	}

	var (
		obs   Obs
		id    string
		kh    interface{}
		pub   []byte
		err   error
		isPub bool
	)

	switch op.Kind {
	case "create":
		id, kh, err = w.kms.Create(kmsapi.KeyType(op.KT))
	case "createx":
		id, pub, err = w.kms.CreateAndExportPubKeyBytes(kmsapi.KeyType(op.KT))
		isPub = true
	case "import":
		var opts []kmsapi.PrivateKeyOpts
		if op.UID > 0 {
			opts = append(opts, kmsapi.WithKeyID(userIDf(op.UID, op.IDForm)))
		}

		id, kh, err = w.kms.ImportPrivateKey(w.poolKey(op).priv, kmsapi.KeyType(op.KT), opts...)
	case "importbad":
		var opts []kmsapi.PrivateKeyOpts
		if op.UID > 0 {
			opts = append(opts, kmsapi.WithKeyID(userIDf(op.UID, op.IDForm)))
		}

		func() {
			defer func() {
				if p := recover(); p != nil {
					err = fmt.Errorf("panic: %v", p)
					w.panicked = fmt.Sprint(p)
				}
			}()

			id, kh, err = w.kms.ImportPrivateKey(badKey(ktByName(op.KT), op.Bad, op.Key), kmsapi.KeyType(op.KT), opts...)
		}()
	case "rotate":
		old := w.refID(op.Ref)
		kt := w.ktOfID(old)

		if op.RotKT != "" {
			kt = op.RotKT
		}

		id, kh, err = w.kms.Rotate(kmsapi.KeyType(kt), old)
	case "get":
		kh, err = w.kms.Get(w.refID(op.Ref))
	case "export":
		func() {
			defer func() {
				if p := recover(); p != nil {
					err = fmt.Errorf("panic: %v", p)
				}
			}()

			pub, _, err = w.kms.ExportPubKeyBytes(w.refID(op.Ref))
		}()

		isPub = true
	case "reopen":
		w.uri, w.stack = op.URI, op.Stack
		w.kms = mustOpen(w, true)
		w.insts[w.cur] = w.kms
	case "switch":
		w.cur = op.Inst

		if k, ok := w.insts[w.cur]; ok {
			w.kms = k // the instance opened earlier, as it is
		} else {
			w.uri, w.stack = op.Inst, op.Stack
			w.kms = mustOpen(w, true)
			w.insts[w.cur] = w.kms
		}
	}

	// interrupted: the process died, or a store call failed and the operation gave up with an error (an operation
	// that SUCCEEDS although one of its store calls failed is reported with what it returned)
	crashed := w.frozen || (w.hit && err != nil)
	w.limit, w.frozen, w.hit, w.failAt = -1, false, false, 0

	calls := w.rec.Snapshot()
	w.rec.Reset()

	// everything below observes through a separate, unrecorded, fresh key manager over the same store and master key
	w.rec.Record = false
	obsv := mustOpen(w, false)

	var putIDs []string

	for _, c := range calls {
		if c.Store != compkms.AriesWrapperStoreName || c.Inject {
			continue
		}

		switch c.Op {
		case "Put":
			if !c.Failed {
				putIDs = append(putIDs, c.Key)
			}
		case "Get", "Delete":
		default:
			continue
		}
	}

	w.register(pos, op, putIDs, obsv)

	for _, c := range calls {
		if c.Store != compkms.AriesWrapperStoreName || c.Inject {
			continue
		}

		var cn string

		switch c.Op {
		case "Put":
			cn = "CPut"
		case "Get":
			cn = "CGet"
		case "Delete":
			cn = "CDel"
		default:
			continue
		}

		obs.Calls = append(obs.Calls, c.Op+" "+c.Key)
		obs.coqCalls = append(obs.coqCalls, cn+" "+w.modelID(c.Key, pos, obsv))
	}

	switch {
	case crashed:
		obs.Out, obs.coqOut = "crashed", "OCrashed"
	case op.Kind == "reopen" || op.Kind == "switch":
		obs.Out, obs.coqOut = "done", "ODone"
	case err != nil:
		obs.Out, obs.coqOut = "err", "OErr"
	case op.Kind == "get":
		obs.Keys, _ = w.atomsOf(kh.(*keyset.Handle))
		obs.Out, obs.coqOut = "keys", "OKeys "+hx.CoqNList(obs.Keys)
	case op.Kind == "export":
		obs.Atom = w.atomOfPub(pub)
		obs.Out, obs.coqOut = "pub", fmt.Sprintf("OPub %d", obs.Atom)
	case isPub:
		obs.ID, obs.Atom = id, w.atomOfPub(pub)
		obs.Out, obs.coqOut = "idpub", fmt.Sprintf("OIdPub %s %d", w.modelID(id, pos, obsv), obs.Atom)
	default:
		h, _ := kh.(*keyset.Handle)
		_, obs.Atom = w.atomsOf(h)
		obs.ID = id
		obs.Out, obs.coqOut = "id", fmt.Sprintf("OId %s %d", w.modelID(id, pos, obsv), obs.Atom)

		if _, ok := w.origKH[obs.Atom]; !ok {
			w.origKH[obs.Atom] = h
		}
	}

	if obs.Out == "id" || obs.Out == "idpub" {
		w.returned = append(w.returned, id)
		w.atomKT[obs.Atom] = op.KT

		if op.Kind == "rotate" {
			w.atomKT[obs.Atom] = w.ktOfID(w.refID(op.Ref))
		}

		w.idKT(id, w.atomKT[obs.Atom])
	}

	// caller-chosen and bogus ids enter the table even when nothing was stored under them
	if (op.Kind == "import" || op.Kind == "importbad") && op.UID > 0 {
		w.modelID(userIDf(op.UID, op.IDForm), pos, obsv)
	}

	if w.refID(op.Ref) == bogusID && (op.Kind == "get" || op.Kind == "rotate" || op.Kind == "export") {
		w.modelID(bogusID, pos, obsv)
	}

	// the surviving store as a fresh key manager sees it
	for _, e := range w.idTab {
		it := SnapItem{ID: e.str}

		if h, e2 := obsv.Get(e.str); e2 == nil {
			it.Present = true
			it.Keys, _ = w.atomsOf(h.(*keyset.Handle))
		}

		obs.Snap = append(obs.Snap, it)
	}

	w.rec.Record = true

	if op.Crash >= 0 && !op.Fault {
		// the process died (or was restarted right after the call): a fresh key manager takes over (another URI)
		// (every instance of the dead process is gone)
		w.uri = (w.uri + 1) % 3
		w.kms = mustOpen(w, true)
		w.insts = map[int]*localkms.LocalKMS{w.cur: w.kms}
	}

	if obs.Calls == nil {
		obs.Calls = []string{}
	}

	return obs
}

func (w *world) idKT(id, kt string) { w.idKTm[id] = kt }

func (w *world) ktOfID(id string) string {
	if kt, ok := w.idKTm[id]; ok {
		return kt
	}

	return "AES256GCM"
}

func (w *world) atomOfPub(pub []byte) int {
	if a, ok := w.pubAtom[string(pub)]; ok {
		return a
	}

	return unknownAtom
}

// ---------- Coq printing ----------

func coqCrash(op Op) string {
	if op.FailAt > 0 {
		return fmt.Sprintf("(Some (ICall %d%%nat))", op.FailAt-1)
	}

	if op.Crash < 0 {
		return "None"
	}

	return fmt.Sprintf("(Some (IMut %d%%nat))", op.Crash)
}

func (w *world) coqOp(op Op) string {
	var o string

	switch op.Kind {
	case "create":
		o = "KCreate K_" + op.KT
	case "createx":
		o = "KCreateExport K_" + op.KT
	case "import":
		u := "None"
		if op.UID > 0 {
			u = fmt.Sprintf("(Some %d)", op.UID+100*(op.IDForm%nIDForms))
		}

		o = fmt.Sprintf("KImport K_%s %s %d", op.KT, u, w.poolKey(op).atom)
	case "importbad":
		u := "None"
		if op.UID > 0 {
			u = fmt.Sprintf("(Some %d)", op.UID+100*(op.IDForm%nIDForms))
		}

		o = fmt.Sprintf("KImportBad K_%s %s %d", op.KT, u, 3000+op.seq)
	case "rotate":
		o = "KRotate " + w.idModel[w.refIDAt(op)]
	case "get":
		o = "KGet " + w.idModel[w.refIDAt(op)]
	case "export":
		o = "KExport " + w.idModel[w.refIDAt(op)]
	case "switch":
		o = fmt.Sprintf("KSwitch %d", op.Inst)
	default:
		o = fmt.Sprintf("KReopen %d", op.URI)
	}

	return "(" + o + ", " + coqCrash(op) + ")"
}

func coqObs(o Obs, tab map[string]string) string {
	snap := make([]string, len(o.Snap))

	for i, it := range o.Snap {
		v := "None"
		if it.Present {
			v = "(Some " + hx.CoqNList(it.Keys) + ")"
		}

		snap[i] = "(" + tab[it.ID] + ", " + v + ")"
	}

	return "(" + hx.CoqList(o.coqCalls) + ", " + o.coqOut + ", " + hx.CoqList(snap) + ")"
}

// ---------- one history, with the direct oracle ----------

func eqInts(a, b []int) bool {
	if len(a) != len(b) {
		return false
	}

	for i := range a {
		if a[i] != b[i] {
			return false
		}
	}

	return true
}

// refIDAt: the id string an op referred to (resolved when the op ran).
func (w *world) refIDAt(op Op) string { return w.resolved[opKey(op)] }

func opKey(op Op) string { return fmt.Sprintf("%s/%d/%d", op.Kind, op.Ref, op.seq) }

func runHistory(kind string, ops []Op, seed *hx.Rng, tr *hx.Trace) {
	w := newWorld(seed)
	w.resolved = map[string]string{}
	rec := &hx.Record{Kind: kind, Case: ops, Oracle: "ok"}

	fail := func(sig, detail string) {
		if rec.Oracle == "ok" {
			rec.Oracle, rec.Sig, rec.Detail = "fail", sig, detail
		}
	}

	live := map[string][]int{} // id -> keys the caller was told are under it
	var (
		obs        []Obs
		coqOps     []string
		classParts []string
		nontrivial bool
	)

	for i := range ops {
		ops[i].seq = i
		op := ops[i]
		w.resolved[opKey(op)] = w.refID(op.Ref)
		old := w.refID(op.Ref)
		_, userWasLive := live[userIDf(op.UID, op.IDForm)]

		o := w.apply(i, op)
		obs = append(obs, o)
		coqOps = append(coqOps, w.coqOp(op))
		classParts = append(classParts, fmt.Sprintf("%s/%s/%d%v%d/%s", op.Kind, ktClass(op, w, old), op.Crash, op.Fault, op.FailAt, o.Out))

		kt := ktByName(op.KT)
		if op.Kind == "rotate" {
			kt = ktByName(w.ktOfID(old))
		}

		if op.Kind == "importbad" {
			if w.panicked != "" {
				fail("import:key-not-on-curve-panics", fmt.Sprintf("op %d: ImportPrivateKey(%s) of an EC key that is not on the key type's curve (%s) panicked: %s", i, op.KT, op.Bad, w.panicked))
				w.panicked = ""
			} else if o.Out == "id" {
				fail("import:key-not-on-curve-accepted", fmt.Sprintf("op %d: ImportPrivateKey(%s) accepted an EC key that is not on the key type's curve (%s) and returned id %q", i, op.KT, op.Bad, o.ID))
			}
		}

		switch o.Out {
		case "id", "idpub":
			thumb := strings.HasPrefix(w.idModel[o.ID], "(KThumb")

			// no thumbprint id is expected where the key manager cannot export the public key (ECDSASecp256k1DER), nor
			// from a Rotate with another key type than the keyset's (outside the model)
			if kt != nil && kt.asym && !thumb && kt.name != "ECDSASecp256k1DER" && op.RotKT == "" && op.Kind != "importbad" {
				if op.Kind == "import" {
					if op.UID == 0 {
						fail("kid:import-without-id-random", fmt.Sprintf("op %d: imported %s key got id %q, not the thumbprint of its public key", i, kt.name, o.ID))
					}
				} else {
					fail("kid:not-thumbprint:"+kt.name, fmt.Sprintf("op %d (%s): id %q is not the JWK thumbprint of the public key", i, op.Kind, o.ID))
				}
			}

			if op.Kind == "import" && op.UID > 0 {
				if o.ID != userIDf(op.UID, op.IDForm) {
					fail("import:requested-id-ignored", fmt.Sprintf("op %d: import of a %s key asked for id %q, got %q", i, op.KT, userIDf(op.UID, op.IDForm), o.ID))
				} else if userWasLive {
					fail("import:overwrite", fmt.Sprintf("op %d: import under the id %q that was in use succeeded", i, userIDf(op.UID, op.IDForm)))
				}
			}

			if op.Kind == "rotate" {
				if prev, told := live[old]; told {
					live[o.ID] = append(append([]int{}, prev...), o.Atom)
				} else {
					// the rotated entry was never returned to the caller (e.g. stored by an import that was interrupted
					// after its Put): no claim about its older keys; what is under the new id now is what must stay
					live[o.ID] = []int{o.Atom}

					for _, it := range o.Snap {
						if it.ID == o.ID && it.Present {
							live[o.ID] = append([]int{}, it.Keys...)
						}
					}
				}

				if o.ID != old {
					delete(live, old)
				}

				nontrivial = true
			} else {
				live[o.ID] = []int{o.Atom}
			}

			if op.Kind == "import" && o.Atom != w.poolKey(op).atom {
				fail("import:other-key", fmt.Sprintf("op %d: the imported handle holds key %d, imported %d", i, o.Atom, w.poolKey(op).atom))
			}
		case "keys":
			if exp, ok := live[old]; ok && !eqInts(exp, o.Keys) {
				fail("get:other-keys", fmt.Sprintf("op %d: Get(%q) holds keys %v, expected %v", i, old, o.Keys, exp))
			}
		case "pub":
			if exp, ok := live[old]; ok && len(exp) > 0 && exp[len(exp)-1] != o.Atom {
				fail("export:other-key", fmt.Sprintf("op %d: ExportPubKeyBytes(%q) gave the public key of %d, expected %d", i, old, o.Atom, exp[len(exp)-1]))
			}
		case "err":
			rotRefusedByDesign := op.Kind == "rotate" && (op.RotKT != "" || w.ktOfID(old) == "ECDSASecp256k1DER")
			if _, ok := live[old]; ok && (op.Kind == "get" || op.Kind == "rotate") && !rotRefusedByDesign {
				fail("durable:"+op.Kind+"-fails", fmt.Sprintf("op %d: %s on the live id %q failed", i, op.Kind, old))
			}
		case "crashed":
			nontrivial = true
		}

		// every id the caller holds must still read back, from a fresh key manager, with the keys it had
		snap := map[string]SnapItem{}
		for _, it := range o.Snap {
			snap[it.ID] = it
		}

		ids := make([]string, 0, len(live))
		for id := range live {
			ids = append(ids, id)
		}

		sort.Strings(ids)

		for _, id := range ids {
			it, ok := snap[id]
			if !ok || !it.Present || !eqInts(it.Keys, live[id]) {
				sig := "durable:" + op.Kind
				if o.Out == "crashed" {
					sig = "crash:" + op.Kind + "-loses-key"
					if op.Fault || op.FailAt > 0 {
						sig = "fault:" + op.Kind + "-loses-key"
					}
				}

				fail(sig, fmt.Sprintf("op %d (%+v, %s): id %q held keys %v; a fresh key manager now finds present=%v keys=%v",
					i, op, o.Out, id, live[id], it.Present, it.Keys))
			}
		}
	}

	// same-key behaviour across key managers (functional): what one signs/wraps/encrypts the other accepts
	mixed := false

	for _, op := range ops {
		if op.RotKT != "" {
			mixed = true // keysets of mixed key types have no single primitive: the functional check does not apply
		}
	}

	if rec.Oracle == "ok" && !mixed {
		ids := make([]string, 0, len(live))
		for id := range live {
			ids = append(ids, id)
		}

		sort.Strings(ids)

		for _, id := range ids {
			if e := w.sameKey(id, live[id]); e != nil {
				fail("samekey:"+w.ktOfID(id), fmt.Sprintf("id %q (%s): %v", id, w.ktOfID(id), e))
				break
			}
		}
	}

	coqObsL := make([]string, len(obs))
	for i, o := range obs {
		coqObsL[i] = coqObs(o, w.idModel)
	}

	rec.Coq = "CHist " + hx.CoqList(coqOps) + " " + hx.CoqList(coqObsL)

	for _, op := range ops {
		if op.RotKT != "" {
			rec.Coq = "" // Rotate with another key type than the keyset's: checked by the direct oracle only
		}
	}
	rec.Observed = obs
	rec.Class = strings.Join(classParts, ",")
	rec.Trivial = !nontrivial
	rec.Dist = []string{fmt.Sprintf("len=%d", len(ops))}

	for i, op := range ops {
		rec.Dist = append(rec.Dist, "op="+op.Kind, "out="+obs[i].Out)
		if op.KT != "" {
			rec.Dist = append(rec.Dist, "kt="+op.KT)
		}

		if op.Crash >= 0 && !op.Fault {
			rec.Dist = append(rec.Dist, fmt.Sprintf("crash=%d", op.Crash))
		}

		if op.Crash >= 0 && op.Fault {
			rec.Dist = append(rec.Dist, fmt.Sprintf("fault=%d", op.Crash))
		}

		if op.FailAt > 0 {
			rec.Dist = append(rec.Dist, fmt.Sprintf("failcall=%d", op.FailAt))
		}

		if op.Kind == "switch" || op.Kind == "reopen" {
			rec.Dist = append(rec.Dist, fmt.Sprintf("stack=%d", op.Stack%3))
		}
	}

	tr.Put(rec)
}

func ktClass(op Op, w *world, old string) string {
	if op.KT != "" {
		return op.KT
	}

	if op.Kind == "reopen" {
		return ""
	}

	if old == bogusID {
		return "noid"
	}

	return w.ktOfID(old)
}

func pubHandle(h *keyset.Handle) (*keyset.Handle, error) { return h.Public() }

// sameKey: a fresh key manager's handle for id and the handles the creating key managers returned are the same keys.
func (w *world) sameKey(id string, atoms []int) error {
	fresh := mustOpen(w, false)

	got, err := fresh.Get(id)
	if err != nil {
		return err
	}

	kh := got.(*keyset.Handle)
	kt := ktByName(w.ktOfID(id))

	if kt == nil || len(atoms) == 0 {
		return nil
	}

	prim := w.origKH[atoms[len(atoms)-1]]
	msg := []byte("verif c06 message")
	aad := []byte("aad")
	c := w.crypto

	// the reopened handle produces with its primary key; every original handle's output is accepted by the reopened one
	switch kt.class {
	case "sig":
		if prim != nil {
			sig, e := c.Sign(msg, kh)
			if e != nil {
				return fmt.Errorf("sign with reopened handle: %w", e)
			}

			p, e := pubHandle(prim)
			if e != nil {
				return e
			}

			if e = c.Verify(sig, msg, p); e != nil {
				return fmt.Errorf("signature of the reopened handle rejected by the original public key: %w", e)
			}
		}

		p, e := pubHandle(kh)
		if e != nil {
			return e
		}

		for _, a := range atoms {
			if o := w.origKH[a]; o != nil {
				sig, e2 := c.Sign(msg, o)
				if e2 != nil {
					return e2
				}

				if e2 = c.Verify(sig, msg, p); e2 != nil {
					return fmt.Errorf("signature of original key %d rejected by the reopened public keyset: %w", a, e2)
				}
			}
		}
	case "bbs":
		msgs := [][]byte{msg, aad}

		if prim != nil {
			sig, e := c.SignMulti(msgs, kh)
			if e != nil {
				return e
			}

			p, e := pubHandle(prim)
			if e != nil {
				return e
			}

			if e = c.VerifyMulti(msgs, sig, p); e != nil {
				return fmt.Errorf("BBS+ signature of the reopened handle rejected by the original public key: %w", e)
			}
		}
	case "aead":
		if prim != nil {
			ct, nonce, e := c.Encrypt(msg, aad, kh)
			if e != nil {
				return e
			}

			pt, e := c.Decrypt(ct, aad, nonce, prim)
			if e != nil || !bytes.Equal(pt, msg) {
				return fmt.Errorf("ciphertext of the reopened handle not opened by the original handle: %v", e)
			}
		}

		for _, a := range atoms {
			if o := w.origKH[a]; o != nil {
				ct, nonce, e := c.Encrypt(msg, aad, o)
				if e != nil {
					return e
				}

				pt, e := c.Decrypt(ct, aad, nonce, kh)
				if e != nil || !bytes.Equal(pt, msg) {
					return fmt.Errorf("ciphertext of original key %d not opened by the reopened handle: %v", a, e)
				}
			}
		}
	case "mac":
		for _, a := range atoms {
			if o := w.origKH[a]; o != nil {
				m, e := c.ComputeMAC(msg, o)
				if e != nil {
					return e
				}

				if e = c.VerifyMAC(m, msg, kh); e != nil {
					return fmt.Errorf("MAC of original key %d rejected by the reopened handle: %w", a, e)
				}
			}
		}
	case "kw":
		if prim != nil {
			pub, _, e := fresh.ExportPubKeyBytes(id)
			if e != nil {
				return e
			}

			var pk cryptoapi.PublicKey
			if e = json.Unmarshal(pub, &pk); e != nil {
				return e
			}

			cek := bytes.Repeat([]byte{7}, 32)

			wk, e := c.WrapKey(cek, []byte("apu"), []byte("apv"), &pk)
			if e != nil {
				return fmt.Errorf("wrap to the reopened public key: %w", e)
			}

			// the original handle and the reopened one must unwrap alike; a one-key keyset must unwrap.
			// (tinkcrypto unwraps with the FIRST key of a keyset while the export gives the PRIMARY one, so after a
			// rotation neither handle unwraps: that is the crypto service's matter, not the key manager's.)
			out1, e1 := c.UnwrapKey(wk, prim)
			out2, e2 := c.UnwrapKey(wk, kh)

			if (e1 == nil) != (e2 == nil) || !bytes.Equal(out1, out2) {
				return fmt.Errorf("key wrapped to the exported public key: original handle: %v, reopened handle: %v", e1, e2)
			}

			if len(atoms) == 1 && (e2 != nil || !bytes.Equal(out2, cek)) {
				return fmt.Errorf("key wrapped to the exported public key not unwrapped by the reopened handle: %v", e2)
			}
		}
	}

	return nil
}

// ---------- key id cases: thumbprint pre-image and did:key round trip ----------

// encOf classifies the bytes found under the multicodec by their LENGTH first (a raw 32-byte key may begin with any
// byte, 0x30 or '{' included): 32/96 raw key; 33/49/67 compressed point; 65/97/133 uncompressed point; 91/120/158
// PKIX DER of a P-256/384/521 key.
func encOf(b []byte) string {
	switch len(b) {
	case 32, 96:
		return "ERaw"
	case 33, 49, 67:
		if b[0] == 2 || b[0] == 3 {
			return "ECompressed"
		}
	case 65, 97, 133:
		if b[0] == 4 {
			return "EUncompressed"
		}
	}

	switch {
	case len(b) > 2 && b[0] == 0x30:
		return "EPkixDer"
	case len(b) > 0 && b[0] == '{':
		return "ECompositeJSON"
	}

	return "ERaw"
}

func safeResolve(did string) (kid string, err error) {
	defer func() {
		if r := recover(); r != nil {
			err = fmt.Errorf("panic: %v", r)
		}
	}()

	pk, e := (&kidresolver.DIDKeyResolver{}).Resolve(did)
	if e != nil {
		return "", e
	}

	return pk.KID, nil
}

func vdrKID(did string, kt *ktInfo) (kid string, err error) {
	defer func() {
		if r := recover(); r != nil {
			err = fmt.Errorf("panic: %v", r)
		}
	}()

	res, e := vdrkey.New().Read(did)
	if e != nil {
		return "", e
	}

	if len(res.DIDDocument.VerificationMethod) == 0 {
		return "", fmt.Errorf("no verification method")
	}

	vm := res.DIDDocument.VerificationMethod[0]

	if j := vm.JSONWebKey(); j != nil {
		ek, ok := j.Key.(*ecdsa.PublicKey)
		if !ok {
			return "", fmt.Errorf("unexpected JWK key %T", j.Key)
		}

		n := coordLen(kt.curve)

		return refKID(kt.curve, pad(ek.X.Bytes(), n), pad(ek.Y.Bytes(), n)), nil
	}

	return refKID(kt.curve, vm.Value, nil), nil
}

// kidCase: key id and did:key form of one key: a key the KMS generates (priv == nil), or a key built on purpose for an
// encoding edge (leading zero byte in a coordinate, first byte of a raw key that looks like another encoding) and
// imported without a requested id.
func kidCase(kt *ktInfo, seed *hx.Rng, priv interface{}, edge string, tr *hx.Trace) {
	w := newWorld(seed)
	rec := &hx.Record{Kind: "kid", Oracle: "ok", Class: "kid/" + kt.name, Dist: []string{"kt=" + kt.name}}

	if priv != nil {
		rec.Kind, rec.Class = "kid-edge", "kid-edge/"+kt.name+"/"+edge
		rec.Dist = append(rec.Dist, "edge="+edge)
	}

	fail := func(sig, detail string) {
		if rec.Oracle == "ok" {
			rec.Oracle, rec.Sig, rec.Detail = "fail", sig, detail
		}
	}

	var (
		id  string
		pub []byte
		err error
	)

	if priv == nil {
		id, pub, err = w.kms.CreateAndExportPubKeyBytes(kmsapi.KeyType(kt.name))
	} else {
		id, _, err = w.kms.ImportPrivateKey(priv, kmsapi.KeyType(kt.name))
		if err == nil {
			pub, _, err = w.kms.ExportPubKeyBytes(id)
		}
	}

	if err != nil {
		rec.Case = map[string]string{"kt": kt.name, "edge": edge}
		fail("kid:create-fails:"+kt.name, err.Error())
		tr.Put(rec)

		return
	}

	x, y, err := pubCoords(kt, pub)
	if err != nil {
		fail("kid:export-unreadable:"+kt.name, err.Error())
	}

	pre := refPreimage(kt.curve, x, y)
	rec.Case = map[string]string{"kt": kt.name, "pub": base64.StdEncoding.EncodeToString(pub), "id": id, "edge": edge}
	obsd := map[string]interface{}{"id": id, "preimage": pre}

	if refKID(kt.curve, x, y) != id {
		fail("kid:not-thumbprint:"+kt.name, fmt.Sprintf("id %q is not base64url(SHA-256(%s))", id, pre))
	}

	// another party derives the id from the exported bytes
	if other, e := jwkkid.CreateKID(pub, kmsapi.KeyType(kt.name)); e != nil || other != id {
		fail("kid:export-derivation:"+kt.name, fmt.Sprintf("CreateKID(exported) = %q, %v; KMS id %q", other, e, id))
	}

	// a second key manager over the same store exports the same bytes and the same key under the same id
	pub2, _, err := mustOpen(w, false).ExportPubKeyBytes(id)
	if err != nil || !bytes.Equal(pub, pub2) {
		fail("kid:reopen-export:"+kt.name, fmt.Sprintf("reopened key manager exports %x, %v", pub2, err))
	}

	rec.Coq = fmt.Sprintf("CKid K_%s %s %s %s", kt.name, hx.CoqString(b64u(x)), hx.CoqString(b64u(y)), hx.CoqString(pre))
	rec.Observed = obsd
	tr.Put(rec)

	// did:key form
	did, err := kmsdidkey.BuildDIDKeyByKeyType(pub, kmsapi.KeyType(kt.name))
	if err != nil {
		return // no did:key form for this key type (secp256k1)
	}

	rec2 := &hx.Record{Kind: "didkey", Oracle: "ok", Class: "didkey/" + kt.name + "/" + edge, Dist: []string{"kt=" + kt.name},
		Case: map[string]string{"kt": kt.name, "pub": base64.StdEncoding.EncodeToString(pub), "id": id, "didkey": did, "edge": edge}}

	if priv != nil {
		rec2.Kind = "didkey-edge"
	}

	raw := base58.Decode(strings.TrimPrefix(did, "did:key:z"))
	codec, n := binary.Uvarint(raw)
	body := raw
	if n > 0 {
		body = raw[n:]
	}

	k1, e1 := safeResolve(did)
	k2, e2 := vdrKID(did, kt)
	readable := (e1 == nil && k1 == id) || (e2 == nil && k2 == id)
	rec2.Observed = map[string]interface{}{"codec": codec, "enc": encOf(body), "kidresolver": k1, "kidresolver_err": errStr(e1),
		"vdrkey": k2, "vdrkey_err": errStr(e2)}

	switch {
	case (e1 == nil && k1 != id) || (e2 == nil && k2 != id):
		rec2.Oracle, rec2.Sig = "fail", "didkey:wrong-id:"+kt.name
		rec2.Detail = fmt.Sprintf("did:key %s read back with id %q / %q, KMS id %q", did, k1, k2, id)
	case !readable:
		rec2.Oracle, rec2.Sig = "fail", "didkey:unreadable:"+kt.name
		rec2.Detail = fmt.Sprintf("did:key %s of a %s key is read by no resolver: kidresolver: %v; vdr/key: %v", did, kt.name, e1, e2)
	}

	rec2.Coq = fmt.Sprintf("CDid K_%s %d %s %s", kt.name, codec, encOf(body), hx.CoqBool(readable))
	tr.Put(rec2)
}

func errStr(e error) string {
	if e == nil {
		return ""
	}

	s := e.Error()
	if len(s) > 160 {
		s = s[:160]
	}

	return s
}

// ---------- generators ----------

func refsFor(kinds []string, crashes []int, faults bool) []Op {
	var a []Op

	for _, k := range kinds {
		for _, ref := range []int{0, 1, -1} {
			cs := []int{-1}
			if k == "rotate" {
				cs = crashes
			}

			for _, c := range cs {
				a = append(a, Op{Kind: k, Ref: ref, Crash: c})
				if c >= 0 && faults {
					a = append(a, Op{Kind: k, Ref: ref, Crash: c, Fault: true})
				}
			}

			if faults {
				n := 1
				if k == "rotate" {
					n = 4
				}

				for f := 1; f <= n; f++ {
					a = append(a, Op{Kind: k, Ref: ref, Crash: -1, FailAt: f})
				}
			}
		}
	}

	return a
}

func alphabet(kts []string, full bool) []Op {
	var a []Op

	crashes := []int{-1, 0, 1}
	if full {
		crashes = []int{-1, 0, 1, 2}
	}

	for _, kt := range kts {
		info := ktByName(kt)

		for _, c := range []int{-1, 0} {
			a = append(a, Op{Kind: "create", KT: kt, Crash: c, Ref: -1})
		}

		if full {
			a = append(a, Op{Kind: "createx", KT: kt, Crash: -1, Ref: -1},
				Op{Kind: "create", KT: kt, Crash: -1, Ref: -1, FailAt: 1}, Op{Kind: "createx", KT: kt, Crash: -1, Ref: -1, FailAt: 3})
		}

		if info.imp != "" {
			for _, uid := range []int{0, 1} {
				a = append(a, Op{Kind: "import", KT: kt, UID: uid, Crash: -1, Ref: -1})
			}

			if full {
				a = append(a, Op{Kind: "import", KT: kt, UID: 1, Key: 1, Crash: -1, Ref: -1},
					Op{Kind: "import", KT: kt, UID: 2, Crash: 0, Ref: -1})

				for f := 1; f <= 3; f++ {
					a = append(a, Op{Kind: "import", KT: kt, UID: 1, Key: 1, Crash: -1, Ref: -1, FailAt: f})
				}

				a = append(a, Op{Kind: "import", KT: kt, UID: 1, Key: 1, IDForm: 1, Crash: -1, Ref: -1},
					Op{Kind: "import", KT: kt, UID: 1, Key: 1, IDForm: 3, Crash: -1, Ref: -1})
			}
		}
	}

	a = append(a, refsFor([]string{"rotate", "get"}, crashes, full)...)
	if full {
		a = append(a, refsFor([]string{"export"}, crashes, full)...)
	}

	a = append(a, Op{Kind: "reopen", Crash: -1, Ref: -1, URI: 1, Stack: 2})
	a = append(a, Op{Kind: "switch", Crash: -1, Ref: -1, Inst: 1, Stack: 1}, Op{Kind: "switch", Crash: -1, Ref: -1, Inst: 0})

	return a
}

func enumerate(alpha []Op, maxLen int, f func([]Op)) {
	var rec func(prefix []Op)

	rec = func(prefix []Op) {
		if len(prefix) > 0 {
			f(append([]Op{}, prefix...))
		}

		if len(prefix) == maxLen {
			return
		}

		for _, o := range alpha {
			// an op that refers to the n-th issued id needs n+1 issuing ops before it (otherwise it is the same as ref -1)
			if o.Ref >= 0 && o.Ref >= issued(prefix) {
				continue
			}

			rec(append(append([]Op{}, prefix...), o))
		}
	}

	rec(nil)
}

func issued(ops []Op) int {
	n := 0

	for _, o := range ops {
		switch o.Kind {
		case "create", "createx", "import", "rotate":
			n++
		}
	}

	return n
}

func randomHistory(r *hx.Rng, n int) []Op {
	var ops []Op

	multi := r.Intn(3) == 0

	for len(ops) < n {
		var o Op

		switch x := r.Intn(100); {
		case x < 25 || issued(ops) == 0:
			kt := ktypes[r.Intn(len(ktypes))]
			o = Op{Kind: "create", KT: kt.name, Ref: -1, Crash: -1}

			if r.Intn(4) == 0 {
				o.Kind = "createx"
			}
		case x < 40:
			var imp []ktInfo
			for _, k := range ktypes {
				if k.imp != "" {
					imp = append(imp, k)
				}
			}

			kt := imp[r.Intn(len(imp))]
			o = Op{Kind: "import", KT: kt.name, UID: r.Intn(4), Key: r.Intn(2), Ref: -1, Crash: -1}

			if o.UID > 0 && r.Intn(2) == 0 {
				o.UID, o.IDForm = 1+r.Intn(2), r.Intn(nIDForms) // several spellings of few ids meet in one store
			}

			if kt.imp == "ec" && r.Intn(5) == 0 {
				o.Kind, o.Bad = "importbad", []string{"curve", "offcurve"}[r.Intn(2)]
			}
		case x < 70:
			o = Op{Kind: "rotate", Ref: r.Intn(issued(ops) + 1), Crash: -1}
			if r.Intn(8) == 0 {
				o.Ref = -1
			}
		case x < 82:
			o = Op{Kind: "get", Ref: r.Intn(issued(ops) + 1), Crash: -1}
		case x < 92:
			o = Op{Kind: "export", Ref: r.Intn(issued(ops) + 1), Crash: -1}
		case x < 95:
			o = Op{Kind: "reopen", Ref: -1, Crash: -1, URI: r.Intn(3), Stack: r.Intn(3)}
		default:
			o = Op{Kind: "switch", Ref: -1, Crash: -1, Inst: r.Intn(4), Stack: r.Intn(3)}
		}

		if multi && r.Intn(3) == 0 {
			// a history served by several long-lived key managers: any call may be preceded by a change of instance
			ops = append(ops, Op{Kind: "switch", Ref: -1, Crash: -1, Inst: r.Intn(4), Stack: r.Intn(3)})
		}

		plain := o.Kind == "reopen" || o.Kind == "switch"

		if !plain && o.Kind != "get" && o.Kind != "export" && r.Intn(3) == 0 {
			o.Crash = r.Intn(3)
			o.Fault = r.Intn(3) == 0
		} else if !plain && r.Intn(4) == 0 {
			o.FailAt = 1 + r.Intn(4)
		}

		ops = append(ops, o)
	}

	return ops
}

func corpus(dir string, rng *hx.Rng, tr *hx.Trace) {
	files, _ := filepath.Glob(filepath.Join(dir, "*.json"))
	sort.Strings(files)

	for i, f := range files {
		b, err := os.ReadFile(f)
		if err != nil {
			continue
		}

		var c struct {
			Ops []Op `json:"ops"`
		}

		if json.Unmarshal(b, &c) != nil || len(c.Ops) == 0 {
			fmt.Fprintln(os.Stderr, "bad corpus file", f)
			os.Exit(2)
		}

		runHistory("corpus:"+filepath.Base(f), c.Ops, rng.Fork(uint64(900_000+i)), tr)
	}
}

func main() {
	args := hx.ParseArgs()
	tr := hx.NewTrace(args.Out)

	defer tr.Close()

	rng := hx.NewRng(args.Seed)
	buildPool(rng.Fork(77))

	if args.Replay != "" {
		b, err := os.ReadFile(args.Replay)
		if err != nil {
			fmt.Fprintln(os.Stderr, err)
			os.Exit(2)
		}

		var c struct {
			Case json.RawMessage `json:"case"`
			Ops  []Op            `json:"ops"`
		}

		_ = json.Unmarshal(b, &c)

		var ops []Op
		if json.Unmarshal(c.Case, &ops) == nil && len(ops) > 0 {
			runHistory("replay", ops, rng.Fork(1), tr)
			return
		}

		if len(c.Ops) > 0 {
			runHistory("replay", c.Ops, rng.Fork(1), tr)
			return
		}

		var kc map[string]string
		if json.Unmarshal(c.Case, &kc) == nil && kc["kt"] != "" {
			if kt := ktByName(kc["kt"]); kt != nil {
				for i := 0; i < 5; i++ {
					kidCase(kt, rng.Fork(uint64(i)), nil, "", tr)
				}
			}
		}

		return
	}

	corpus(args.Extra, rng, tr)

	n := uint64(0)
	next := func() *hx.Rng { n++; return rng.Fork(n) }

	// key ids: thumbprint pre-image, derivation by another party, did:key round trip, for every asymmetric key type
	nKid := 6
	if args.Tier == "thorough" {
		nKid = 60
	}

	for i := range ktypes {
		if ktypes[i].asym {
			for j := 0; j < nKid; j++ {
				kidCase(&ktypes[i], next(), nil, "", tr)
			}
		}
	}

	// edge keys imported on purpose, every importable asymmetric key type: id = thumbprint, did:key round trip
	edgeRng := rng.Fork(4242)

	for i := range ktypes {
		if ktypes[i].asym && (ktypes[i].imp == "ec" || ktypes[i].imp == "ed") {
			for _, ek := range edgeKeys(&ktypes[i], edgeRng.Fork(uint64(i))) {
				kidCase(&ktypes[i], next(), ek.priv, ek.label, tr)
			}
		}
	}

	// every key type: create / import, rotate with every crash point, rotate again, read back
	for _, kt := range ktypes {
		for _, first := range []string{"create", "import"} {
			if first == "import" && kt.imp == "" {
				continue
			}

			for c1 := -1; c1 <= 2; c1++ {
				for c2 := -1; c2 <= 2; c2++ {
					if c1 >= 0 && c2 >= 0 && c1 != c2 {
						continue
					}

					for _, flt := range []bool{false, true} {
						if flt && c1 < 0 && c2 < 0 {
							continue
						}

						runHistory("sweep", []Op{
							{Kind: first, KT: kt.name, UID: 1, Ref: -1, Crash: -1},
							{Kind: "rotate", Ref: 0, Crash: c1, Fault: flt},
							{Kind: "rotate", Ref: 1, Crash: c2, Fault: flt},
							{Kind: "rotate", Ref: 0, Crash: -1},
							{Kind: "reopen", Ref: -1, Crash: -1, URI: 2},
							{Kind: "get", Ref: 2, Crash: -1},
							{Kind: "export", Ref: 1, Crash: -1},
						}, next(), tr)
					}
				}
			}
		}
	}

	// failing storage calls underneath the kms store wrapper, every position: an import under an id in use, a rotation;
	// and, on ONE key manager instance: import under id x, Get, Rotate, import another key under x again, Get
	for _, kt := range ktypes {
		for f := 1; f <= 4; f++ {
			if kt.imp == "" {
				runHistory("sweep-failcall", []Op{
					{Kind: "create", KT: kt.name, Ref: -1, Crash: -1},
					{Kind: "rotate", Ref: 0, Crash: -1, FailAt: f},
					{Kind: "get", Ref: 0, Crash: -1}, {Kind: "get", Ref: 1, Crash: -1},
				}, next(), tr)

				continue
			}

			runHistory("sweep-failcall", []Op{
				{Kind: "import", KT: kt.name, UID: 1, Key: 0, Ref: -1, Crash: -1},
				{Kind: "get", Ref: 0, Crash: -1},
				{Kind: "import", KT: kt.name, UID: 1, Key: 1, Ref: -1, Crash: -1, FailAt: f},
				{Kind: "get", Ref: 0, Crash: -1},
				{Kind: "import", KT: kt.name, UID: 1, Key: 1, Ref: -1, Crash: -1},
				{Kind: "rotate", Ref: 0, Crash: -1},
				{Kind: "import", KT: kt.name, UID: 1, Key: 1, Ref: -1, Crash: -1},
				{Kind: "get", Ref: 2, Crash: -1},
				{Kind: "export", Ref: 2, Crash: -1},
				{Kind: "rotate", Ref: 2, Crash: -1, FailAt: f},
				{Kind: "get", Ref: 2, Crash: -1},
			}, next(), tr)
		}
	}

	// several long-lived key managers over one store, each through another storage wrapper stack: what one creates /
	// imports / rotates the others (opened BEFORE that) must find; a rotated id must be gone for all of them; an id
	// re-used by an import after a rotation must give every instance the new key; with an interruption in between
	for _, kt := range ktypes {
		first := Op{Kind: "create", KT: kt.name, Ref: -1, Crash: -1}
		if kt.imp != "" {
			first = Op{Kind: "import", KT: kt.name, UID: 1, Key: 0, Ref: -1, Crash: -1}
		}

		for _, c := range []int{-1, 1} {
			for _, flt := range []bool{true, false} {
				if c < 0 && !flt {
					continue
				}

				sw := func(i int) Op { return Op{Kind: "switch", Ref: -1, Crash: -1, Inst: i, Stack: i} }
				ops := []Op{
					sw(1), sw(2), sw(0), first, {Kind: "get", Ref: 0, Crash: -1},
					sw(1), {Kind: "get", Ref: 0, Crash: -1}, {Kind: "export", Ref: 0, Crash: -1},
					{Kind: "rotate", Ref: 0, Crash: c, Fault: flt}, {Kind: "rotate", Ref: 0, Crash: -1},
					sw(0), {Kind: "get", Ref: 0, Crash: -1}, {Kind: "get", Ref: 1, Crash: -1},
					sw(2), {Kind: "get", Ref: 0, Crash: -1}, {Kind: "rotate", Ref: 1, Crash: -1},
				}

				if kt.imp != "" {
					ops = append(ops, sw(1), Op{Kind: "import", KT: kt.name, UID: 1, Key: 1, Ref: -1, Crash: -1},
						sw(0), Op{Kind: "get", Ref: 3, Crash: -1}, Op{Kind: "export", Ref: 3, Crash: -1},
						sw(2), Op{Kind: "get", Ref: 3, Crash: -1}, Op{Kind: "import", KT: kt.name, UID: 1, Key: 0, Ref: -1, Crash: -1})
				}

				ops = append(ops, sw(1), Op{Kind: "get", Ref: 2, Crash: -1}, sw(0), Op{Kind: "get", Ref: 2, Crash: -1})
				runHistory("sweep-instances", ops, next(), tr)
			}
		}
	}

	// EC private keys that are not on the key type's curve (another curve's key, a point off the curve), every EC key
	// type, with and without a requested id, with ordinary imports under the same id around them
	for _, kt := range append(append([]ktInfo{}, ktypes...), extraTypes...) {
		if kt.imp != "ec" {
			continue
		}

		for _, bad := range []string{"curve", "offcurve"} {
			for _, uid := range []int{0, 1} {
				for key := 0; key < 2; key++ {
					runHistory("sweep-importbad", []Op{
						{Kind: "create", KT: "ED25519", Ref: -1, Crash: -1},
						{Kind: "importbad", KT: kt.name, UID: uid, Key: key, Bad: bad, Ref: -1, Crash: -1},
						{Kind: "get", Ref: 0, Crash: -1},
						{Kind: "import", KT: kt.name, UID: uid, Key: key, Ref: -1, Crash: -1},
						{Kind: "importbad", KT: kt.name, UID: uid, Key: 1 - key, Bad: bad, Ref: -1, Crash: -1, FailAt: 1},
						{Kind: "get", Ref: 1, Crash: -1},
					}, next(), tr)
				}
			}
		}
	}

	// spellings of one caller-chosen id, every importable key type x every spelling, in both orders: an import under a
	// spelling of an id in use is an import under ANOTHER id (stored under exactly that string, returned as that string,
	// the first entry untouched); importing under either spelling again is refused
	for _, kt := range append(append([]ktInfo{}, ktypes...), extraTypes...) {
		if kt.imp == "" {
			continue
		}

		for f := 1; f < nIDForms; f++ {
			for _, order := range [][2]int{{0, f}, {f, 0}} {
				runHistory("sweep-idspelling", []Op{
					{Kind: "import", KT: kt.name, UID: 1, IDForm: order[0], Key: 0, Ref: -1, Crash: -1},
					{Kind: "import", KT: kt.name, UID: 1, IDForm: order[1], Key: 1, Ref: -1, Crash: -1},
					{Kind: "get", Ref: 0, Crash: -1}, {Kind: "get", Ref: 1, Crash: -1},
					{Kind: "import", KT: kt.name, UID: 1, IDForm: order[1], Key: 0, Ref: -1, Crash: -1},
					{Kind: "import", KT: kt.name, UID: 1, IDForm: order[0], Key: 1, Ref: -1, Crash: -1},
					{Kind: "reopen", Ref: -1, Crash: -1, URI: 1},
					{Kind: "get", Ref: 0, Crash: -1}, {Kind: "get", Ref: 1, Crash: -1},
				}, next(), tr)
			}
		}
	}

	// import-only type ECDSASecp256k1DER: import (with / without id), read, export (fails), rotate (fails), reopen, read
	for _, uid := range []int{0, 1} {
		for _, c := range []int{-1, 0} {
			runHistory("sweep-secp256k1der", []Op{
				{Kind: "import", KT: "ECDSASecp256k1DER", UID: uid, Key: 0, Ref: -1, Crash: -1},
				{Kind: "get", Ref: 0, Crash: -1},
				{Kind: "export", Ref: 0, Crash: -1},
				{Kind: "rotate", Ref: 0, Crash: c},
				{Kind: "import", KT: "ECDSASecp256k1DER", UID: uid, Key: 1, Ref: -1, Crash: -1},
				{Kind: "reopen", Ref: -1, Crash: -1, URI: 2},
				{Kind: "get", Ref: 0, Crash: -1},
			}, next(), tr)
		}
	}

	// key types the key manager cannot create / import (verification-only, CL types of the ursa build): refused, no store call
	for _, kt := range []string{"ECDSASecp256k1DER", "RSARS256", "RSAPS256", "CLCredDef", "CLMasterSecret"} {
		runHistory("sweep-unsupported", []Op{
			{Kind: "create", KT: "ED25519", Ref: -1, Crash: -1},
			{Kind: "create", KT: kt, Ref: -1, Crash: -1},
			{Kind: "createx", KT: kt, Ref: -1, Crash: -1},
			{Kind: "get", Ref: 0, Crash: -1},
		}, next(), tr)
	}

	for _, kt := range []string{"AES256GCM", "X25519ECDHKW", "HMACSHA256Tag256", "RSARS256", "CLCredDef"} {
		runHistory("sweep-unsupported", []Op{
			{Kind: "import", KT: kt, UID: 1, Ref: -1, Crash: -1},
			{Kind: "import", KT: "ED25519", UID: 1, Ref: -1, Crash: -1},
			{Kind: "get", Ref: 0, Crash: -1},
		}, next(), tr)
	}

	// Rotate with ANOTHER key type than the keyset's (outside the model; direct oracle only: whatever it does, every
	// id the caller holds keeps its keys or moves them under the returned id), every pair of a small type set, with crashes
	mix := []string{"AES256GCM", "HMACSHA256Tag256", "ED25519", "ECDSAP256DER", "NISTP256ECDHKW", "X25519ECDHKW", "BLS12381G2"}

	for _, a := range mix {
		for _, b := range mix {
			if a == b {
				continue
			}

			for _, c := range []int{-1, 0, 1} {
				runHistory("rotate-mismatch", []Op{
					{Kind: "create", KT: a, Ref: -1, Crash: -1},
					{Kind: "rotate", Ref: 0, Crash: c, RotKT: b},
					{Kind: "get", Ref: 0, Crash: -1},
					{Kind: "get", Ref: 1, Crash: -1},
				}, next(), tr)
			}
		}
	}

	// exhaustive: all histories up to length 2 over a five-type alphabet with every crash point, up to 3 over a two-type one
	five := []string{"AES256GCM", "ED25519", "ECDSAP256IEEEP1363", "X25519ECDHKW"}
	enumerate(alphabet(five, true), 2, func(ops []Op) { runHistory("exhaustive-2", ops, next(), tr) })

	deep, nRandom := 3, 700
	small := []string{"AES256GCM", "ED25519"}

	if args.Tier == "thorough" {
		deep, nRandom = 3, 15000
	}

	enumerate(alphabet(small, false), deep, func(ops []Op) {
		if len(ops) > 2 {
			runHistory("exhaustive-small", ops, next(), tr)
		}
	})

	for i := 0; i < nRandom; i++ {
		r := next()
		runHistory("random", randomHistory(r, 3+r.Intn(10)), r, tr)
	}
}
