package main

// BBS+ through the two representations of "the message": the message LIST of SignMulti / VerifyMulti with elements of
// every shape (empty, white space only, padded, containing line breaks, long, zero bytes), and the TEXT interface
// (kmssigner.KMSSigner with MultiMsg signs the lines of a text; signature/verifier's BBS+ verifier splits the text
// again): the signer's and the verifier's view of which messages a text / a list consists of must be the same one.

import (
	"bytes"
	"fmt"
	"strings"

	ml "github.com/IBM/mathlib"
	"github.com/google/tink/go/keyset"

	"github.com/hyperledger/aries-framework-go/component/kmscrypto/crypto/primitive/bbs12381g2pub"
	"github.com/hyperledger/aries-framework-go/component/kmscrypto/doc/util/kmssigner"
	sigverifier "github.com/hyperledger/aries-framework-go/component/models/signature/verifier"
	"github.com/hyperledger/aries-framework-go/spi/kms"

	"verifharness/hx"
)

// identity classes of the REAL generators h0, h_1..h_n of a key
func bbsClasses(pb []byte, n int) ([]int, error) {
	h0, hs, err := bbs12381g2pub.VerifGenerators(pb, n)
	if err != nil {
		return nil, err
	}

	first := map[string]int{}
	classes := make([]int, 0, n+1)

	for i, g := range append([]*ml.G1{h0}, hs...) {
		k := string(g.Bytes())
		if f, ok := first[k]; ok {
			classes = append(classes, f)
		} else {
			first[k] = i
			classes = append(classes, i)
		}
	}

	return classes, nil
}

// message identities by CONTENT (equal bytes = equal identity, anything else another identity)
type idTable map[string]int

func (t idTable) of(m []byte) int {
	if v, ok := t[string(m)]; ok {
		return v
	}

	t[string(m)] = len(t) + 10

	return t[string(m)]
}

func (t idTable) vec(ms [][]byte) []int {
	out := make([]int, len(ms))
	for i, m := range ms {
		out[i] = t.of(m)
	}

	return out
}

func coqZVec(v []int) string {
	xs := []string{"1%Z"}
	for _, x := range v {
		xs = append(xs, fmt.Sprintf("%d%%Z", x))
	}

	return hx.CoqList(xs)
}

func coqNatVec(v []int) string {
	xs := make([]string, len(v))
	for i, x := range v {
		xs[i] = fmt.Sprintf("%d%%nat", x)
	}

	return hx.CoqList(xs)
}

func eqInts(a, b []int) bool {
	if len(a) != len(b) {
		return false
	}

	for i := range a {
		if a[i] != b[i] {
			return false
		}
	}

	return true
}

// shaped returns a message of one of the shape classes
func shaped(r *hx.Rng, shape int) []byte {
	core := append([]byte("m"), []byte(fmt.Sprintf("%x", r.Bytes(3)))...)

	switch shape {
	case 0:
		return []byte{}
	case 1:
		return []byte(" ")
	case 2:
		return []byte("\t")
	case 3:
		return []byte("\r\n")
	case 4:
		return append([]byte(" "), core...)
	case 5:
		return append(core, ' ')
	case 6:
		return append(core, '\r')
	case 7:
		return append([]byte("\t"), append(core, '\t', ' ')...)
	case 8:
		return append(append(append([]byte{}, core...), '\n'), core...)
	case 9:
		return r.Bytes(1024)
	case 10:
		return []byte{0, 0, 0}
	case 11:
		return []byte{core[1]}
	}

	return core
}

const nShapes = 13

// white-space variants of a message (the "same" message to a normalising reader, other bytes to the signature)
func wsVariants(m []byte) [][]byte {
	out := [][]byte{
		bytes.TrimSpace(m),
		append([]byte(" "), m...),
		append(append([]byte{}, m...), ' '),
		append(append([]byte{}, m...), '\r'),
		append([]byte("\t"), m...),
		bytes.TrimRight(m, " \t\r\n"),
		bytes.TrimLeft(m, " \t\r\n"),
	}

	return out
}

func (e *env) runBbsShapes(kind string) {
	kt := kms.BLS12381G2
	a, b := &party{newKMS()}, &party{newKMS()}
	r := e.rng.Fork(17777)

	fail := func(sig, detail string) {
		e.tr.Put(&hx.Record{Kind: kind, Oracle: "fail", Sig: sig, Detail: detail, Case: Case{Group: "bbsshape", KT: kt}, Class: "bbsshape/fail/" + sig})
	}

	kid, h, err := a.kms.Create(kms.KeyType(kt))
	if err != nil {
		fail("bbs:create", err.Error())
		return
	}

	pb, _, err := a.kms.ExportPubKeyBytes(kid)
	if err != nil {
		fail("bbs:export", err.Error())
		return
	}

	ih, err := b.kms.PubKeyBytesToHandle(pb, kms.KeyType(kt))
	if err != nil {
		fail("bbs:import", err.Error())
		return
	}

	own, _ := h.(*keyset.Handle).Public() //nolint:forcetypeassert

	nVec := 6
	if e.tier == "thorough" {
		nVec = 40
	}

	for vi := 0; vi < nVec; vi++ {
		// every vector: a few plain messages and 2-5 shaped ones at random places; vector 0 holds every shape once
		var msgs [][]byte

		if vi == 0 {
			for s := 0; s < nShapes; s++ {
				msgs = append(msgs, shaped(r, s))
			}
		} else {
			n := 1 + r.Intn(7)
			for i := 0; i < n; i++ {
				s := nShapes - 1
				if r.Intn(2) == 0 {
					s = r.Intn(nShapes)
				}

				msgs = append(msgs, shaped(r, s))
			}
		}

		ids := idTable{}
		signed := ids.vec(msgs)

		classes, err := bbsClasses(pb, len(msgs)+1)
		if err != nil {
			fail("bbs:generators", err.Error())
			return
		}

		sig, err := e.crypto.SignMulti(msgs, h)
		if err != nil {
			// a list the signer refuses is not a violation by itself (nothing was produced); record it
			e.tr.Put(&hx.Record{Kind: kind, Oracle: "ok", Case: Case{Group: "bbsshape", KT: kt, Variant: fmt.Sprintf("%d/sign-refused", vi)},
				Observed: map[string]interface{}{"err": err.Error()}, Class: "bbsshape/sign-refused", Dist: []string{"group=bbsshape", "bbs=sign-refused"}})

			continue
		}

		probe := func(what string, pm [][]byte, vh *keyset.Handle) {
			pids := ids.vec(pm)
			verr := e.crypto.VerifyMulti(pm, sig, vh)
			acc := verr == nil
			same := eqInts(pids, signed)

			rec := &hx.Record{Kind: kind, Oracle: "ok",
				Case:     Case{Group: "bbsshape", KT: kt, Variant: fmt.Sprintf("%d/%s", vi, what)},
				Observed: map[string]interface{}{"accepted": acc, "messages": len(msgs), "err": fmt.Sprint(verr)},
				Class:    fmt.Sprintf("bbsshape/%s/%v/%v", strings.SplitN(what, "@", 2)[0], same, acc),
				Trivial:  false,
				Dist:     []string{"group=bbsshape", "bbs=" + strings.SplitN(what, "@", 2)[0], fmt.Sprintf("accepted=%v", acc)},
			}

			if len(pids) <= len(classes)-1 {
				rec.Coq = fmt.Sprintf("CBbs %s %s %s %s", coqNatVec(classes), coqZVec(signed), coqZVec(pids), hx.CoqBool(acc))
			}

			if acc != same {
				w := "accepts-other-messages"
				if same {
					w = "rejects-genuine"
				}

				rec.Oracle, rec.Sig = "fail", "bbs:"+w
				rec.Detail = fmt.Sprintf("SignMulti over %q, VerifyMulti of %s = %q: accepted=%v (%v)", msgs, what, pm, acc, verr)
			}

			e.tr.Put(rec)
		}

		probe("genuine", msgs, own)
		probe("genuine-import", msgs, ih.(*keyset.Handle)) //nolint:forcetypeassert

		for pos := range msgs {
			for wi, v := range wsVariants(msgs[pos]) {
				if bytes.Equal(v, msgs[pos]) || (vi > 0 && r.Intn(3) != 0) {
					continue
				}

				pm := append([][]byte{}, msgs...)
				pm[pos] = v
				probe(fmt.Sprintf("ws-variant%d@%d", wi, pos), pm, ih.(*keyset.Handle)) //nolint:forcetypeassert
			}

			if len(bytes.TrimSpace(msgs[pos])) == 0 && len(msgs) > 1 {
				pm := append(append([][]byte{}, msgs[:pos]...), msgs[pos+1:]...)
				probe(fmt.Sprintf("drop-blank@%d", pos), pm, own)
			}
		}

		at := r.Intn(len(msgs) + 1)
		for _, ins := range [][]byte{{}, []byte(" ")} {
			pm := append(append(append([][]byte{}, msgs[:at]...), ins), msgs[at:]...)
			probe(fmt.Sprintf("insert-blank@%d", at), pm, own)
		}
	}
}

// the lines a text consists of for BBS+ signing: split at line feeds, lines of white space only are no lines, every
// other line is a message AS IT IS (the reading both the signer and the verifier of the unchanged code implement; the
// harness's own copy is tied to the real signer below)
func textLines(t string) [][]byte {
	var out [][]byte

	for _, l := range strings.Split(t, "\n") {
		if strings.TrimSpace(l) != "" {
			out = append(out, []byte(l))
		}
	}

	return out
}

func (e *env) runBbsText(kind string) {
	kt := kms.BLS12381G2
	a := &party{newKMS()}
	r := e.rng.Fork(17778)

	fail := func(sig, detail string) {
		e.tr.Put(&hx.Record{Kind: kind, Oracle: "fail", Sig: sig, Detail: detail, Case: Case{Group: "bbstext", KT: kt}, Class: "bbstext/fail/" + sig})
	}

	kid, h, err := a.kms.Create(kms.KeyType(kt))
	if err != nil {
		fail("bbs:create", err.Error())
		return
	}

	pb, _, err := a.kms.ExportPubKeyBytes(kid)
	if err != nil {
		fail("bbs:export", err.Error())
		return
	}

	own, _ := h.(*keyset.Handle).Public() //nolint:forcetypeassert
	signer := &kmssigner.KMSSigner{KeyType: kms.KeyType(kt), KeyHandle: h, Crypto: e.crypto, MultiMsg: true}
	pkv := sigverifier.NewPublicKeyVerifier(sigverifier.NewBBSG2SignatureVerifier())
	pk := &sigverifier.PublicKey{Type: "Bls12381G2Key2020", Value: pb}

	nTexts := 5
	if e.tier == "thorough" {
		nTexts = 40
	}

	for ti := 0; ti < nTexts; ti++ {
		// a text of 2-7 lines; lines are plain statements, or padded with blanks / tabs / CR, or blank
		var lines []string

		n := 2 + r.Intn(6)
		for i := 0; i < n; i++ {
			core := fmt.Sprintf("<urn:s%d> <urn:p> \"%x\" .", i, r.Bytes(3))

			switch s := r.Intn(8); {
			case ti == 0 || s >= 5:
				lines = append(lines, core)
			case s == 0:
				lines = append(lines, "  "+core)
			case s == 1:
				lines = append(lines, core+" \t")
			case s == 2:
				lines = append(lines, core+"\r")
			case s == 3:
				lines = append(lines, "")
			case s == 4:
				lines = append(lines, "\t"+core+"  ")
			}
		}

		text := strings.Join(lines, "\n")
		if r.Intn(2) == 0 {
			text += "\n"
		}

		want := textLines(text)
		if len(want) == 0 {
			continue
		}

		ids := idTable{}
		signed := ids.vec(want)

		classes, err := bbsClasses(pb, len(want)+2)
		if err != nil {
			fail("bbs:generators", err.Error())
			return
		}

		sig, err := signer.Sign([]byte(text))
		if err != nil {
			fail("bbs:text-sign", err.Error())
			continue
		}

		// tie of the harness's reading to the REAL signer: its signature is one over exactly these lines
		if verr := e.crypto.VerifyMulti(want, sig, own); verr != nil {
			fail("bbs:signer-lines", fmt.Sprintf("KMSSigner signed %q; VerifyMulti over its lines %q: %v", text, want, verr))
			continue
		}

		probe := func(what, t string) {
			got := textLines(t)
			pids := ids.vec(got)
			same := eqInts(pids, signed)
			verr := pkv.Verify(pk, []byte(t), sig)
			acc := verr == nil

			rec := &hx.Record{Kind: kind, Oracle: "ok",
				Case:     Case{Group: "bbstext", KT: kt, Variant: fmt.Sprintf("%d/%s", ti, what)},
				Observed: map[string]interface{}{"accepted": acc, "lines": len(got), "err": fmt.Sprint(verr)},
				Class:    fmt.Sprintf("bbstext/%s/%v/%v", strings.SplitN(what, "@", 2)[0], same, acc),
				Trivial:  false,
				Dist:     []string{"group=bbstext", "bbs=" + strings.SplitN(what, "@", 2)[0], fmt.Sprintf("accepted=%v", acc), fmt.Sprintf("same-lines=%v", same)},
			}

			if len(pids) <= len(classes)-1 {
				rec.Coq = fmt.Sprintf("CBbs %s %s %s %s", coqNatVec(classes), coqZVec(signed), coqZVec(pids), hx.CoqBool(acc))
			}

			if acc != same {
				w := "accepts-other-text"
				if same {
					w = "rejects-genuine-text"
				}

				rec.Oracle, rec.Sig = "fail", "bbs:"+w
				rec.Detail = fmt.Sprintf("KMSSigner signed %q (lines %q); PublicKeyVerifier on %s %q (lines %q): accepted=%v (%v)", text, want, what, t, got, acc, verr)
			}

			e.tr.Put(rec)
		}

		probe("genuine", text)

		// single-position alterations of the text: a byte inserted (white space of every kind, a letter), deleted or
		// substituted at the start / the end of a line, inside a line, at the ends of the text
		var positions []int

		off := 0
		for _, l := range strings.Split(text, "\n") {
			positions = append(positions, off, off+len(l))
			if len(l) > 2 {
				positions = append(positions, off+1+r.Intn(len(l)-1))
			}

			off += len(l) + 1
		}

		for _, p := range positions {
			if p > len(text) {
				continue
			}

			for _, c := range []byte{' ', '\t', '\r', '\n', 'x'} {
				if ti > 0 && r.Intn(3) != 0 {
					continue
				}

				probe(fmt.Sprintf("ins%q@%d", c, p), text[:p]+string(c)+text[p:])
			}

			if p < len(text) {
				probe(fmt.Sprintf("del@%d", p), text[:p]+text[p+1:])
				probe(fmt.Sprintf("sub@%d", p), text[:p]+string(differentByte(text[p], byte(r.Intn(255))))+text[p+1:])
			}
		}

		// the same text with CRLF line ends / every line trimmed / every line padded: other messages, unless nothing changes
		probe("crlf", strings.ReplaceAll(text, "\n", "\r\n"))

		var tr, pd []string
		for _, l := range strings.Split(text, "\n") {
			tr = append(tr, strings.TrimSpace(l))
			pd = append(pd, " "+l)
		}

		probe("all-trimmed", strings.Join(tr, "\n"))
		probe("all-padded", strings.Join(pd, "\n"))
	}
}
