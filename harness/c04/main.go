// c04: drives the real KMS (localkms, one per party) and the real crypto service (tinkcrypto) over every key type,
// and the real signature codecs (secp256k1 subtle through the verif hook, Tink's subtle codec used for the NIST
// curves), recording what they did for comparison with the Coq model (coq/C04).
package main

import (
	"crypto/ecdsa"
	"crypto/ed25519"
	"crypto/elliptic"
	"crypto/rand"
	"crypto/sha256"
	"crypto/sha512"
	"crypto/x509"
	"encoding/asn1"
	"encoding/binary"
	"encoding/hex"
	"encoding/json"
	"fmt"
	"go/ast"
	"go/parser"
	"go/token"
	"hash"
	"math/big"
	"os"
	"path/filepath"
	"sort"
	"strconv"
	"strings"

	ml "github.com/IBM/mathlib"
	"github.com/btcsuite/btcd/btcec"
	tinkaead "github.com/google/tink/go/aead"
	aeadsubtle "github.com/google/tink/go/aead/subtle"
	"github.com/google/tink/go/keyset"
	tinkpb "github.com/google/tink/go/proto/tink_go_proto"
	tinksubtle "github.com/google/tink/go/signature/subtle"
	"golang.org/x/crypto/chacha20poly1305"

	"github.com/hyperledger/aries-framework-go/component/kmscrypto/crypto/primitive/bbs12381g2pub"
	"github.com/hyperledger/aries-framework-go/component/kmscrypto/crypto/tinkcrypto"
	secpsubtle "github.com/hyperledger/aries-framework-go/component/kmscrypto/crypto/tinkcrypto/primitive/secp256k1/subtle"
	"github.com/hyperledger/aries-framework-go/component/kmscrypto/doc/jose/jwk/jwksupport"
	"github.com/hyperledger/aries-framework-go/component/kmscrypto/kms/localkms"
	sigverifier "github.com/hyperledger/aries-framework-go/component/models/signature/verifier"
	"github.com/hyperledger/aries-framework-go/component/storageutil/mem"
	mockkms "github.com/hyperledger/aries-framework-go/pkg/mock/kms"
	"github.com/hyperledger/aries-framework-go/pkg/secretlock/noop"
	spicrypto "github.com/hyperledger/aries-framework-go/spi/crypto"
	"github.com/hyperledger/aries-framework-go/spi/kms"

	"verifharness/hx"
)

// ---------- plumbing ----------

func newKMS() *localkms.LocalKMS {
	p, err := mockkms.NewProviderForKMS(mem.NewProvider(), &noop.NoLock{})
	if err != nil {
		panic(err)
	}

	k, err := localkms.New("local-lock://x", p)
	if err != nil {
		panic(err)
	}

	return k
}

// keyTypeNames: same enumeration as the translator (order = row index of the generated table).
func keyTypeNames(repo string) []string {
	fs := token.NewFileSet()

	f, err := parser.ParseFile(fs, filepath.Join(repo, "spi/kms/kms.go"), nil, 0)
	if err != nil {
		panic(err)
	}

	strs := map[string]string{}

	var order []string

	for _, d := range f.Decls {
		g, ok := d.(*ast.GenDecl)
		if !ok || g.Tok != token.CONST {
			continue
		}

		for _, s := range g.Specs {
			vs := s.(*ast.ValueSpec) //nolint:forcetypeassert
			for i, n := range vs.Names {
				if i >= len(vs.Values) {
					continue
				}

				switch v := vs.Values[i].(type) {
				case *ast.BasicLit:
					if v.Kind == token.STRING {
						u, _ := strconv.Unquote(v.Value)
						strs[n.Name] = u
					}
				case *ast.CallExpr:
					if id, ok := v.Fun.(*ast.Ident); ok && id.Name == "KeyType" && len(v.Args) == 1 {
						if a, ok := v.Args[0].(*ast.Ident); ok {
							if val, ok := strs[a.Name]; ok {
								order = append(order, val)
							}
						}
					}
				}
			}
		}
	}

	return order
}

func coqBytes(b []byte) string {
	var sb strings.Builder

	sb.WriteByte('[')

	for i, x := range b {
		if i > 0 {
			sb.WriteByte(';')
		}

		sb.WriteString(strconv.Itoa(int(x)))
	}

	sb.WriteByte(']')

	return sb.String()
}

func coqBig(z *big.Int) string { return "(" + z.String() + ")%Z" }

func coqOptBytes(b []byte, ok bool) string {
	if !ok {
		return "None"
	}

	return "(Some " + coqBytes(b) + ")"
}

func coqOptRS(r, s *big.Int, ok bool) string {
	if !ok {
		return "None"
	}

	return "(Some (" + coqBig(r) + ", " + coqBig(s) + "))"
}

// Alt is a single-position alteration: sub (another byte at pos), ins (byte d inserted before pos), del (byte pos removed).
type Alt struct {
	Kind string
	Pos  int
	D    byte
}

func (a Alt) on() bool { return a.Kind != "" }

func (a Alt) coq() string {
	switch a.Kind {
	case "sub":
		return fmt.Sprintf("(SSub %d%%nat %d)", a.Pos, a.D)
	case "ins":
		return fmt.Sprintf("(SIns %d%%nat %d)", a.Pos, a.D)
	case "del":
		return fmt.Sprintf("(SDel %d%%nat)", a.Pos)
	}

	return "SNone"
}

// apply performs the alteration the way the model's `alter` does (positions modulo the length).
func (a Alt) apply(b []byte) []byte {
	o := append([]byte{}, b...)

	switch a.Kind {
	case "sub":
		if len(o) == 0 {
			return []byte{a.D}
		}

		q := a.Pos % len(o)
		o[q] = differentByte(o[q], a.D)
	case "ins":
		q := a.Pos % (len(o) + 1)
		o = append(append(append([]byte{}, b[:q]...), a.D), b[q:]...)
	case "del":
		if len(o) == 0 {
			return o
		}

		q := a.Pos % len(o)
		o = append(append([]byte{}, b[:q]...), b[q+1:]...)
	}

	return o
}

// edits returns the single-position alterations tried on a byte string of length n: every (full) or a sample of the
// substitutions, plus insertions/deletions at the ends, in the middle and at random places.
func edits(r *hx.Rng, n int, full bool) []Alt {
	var out []Alt

	for pos := 0; pos < n; pos++ {
		if !full && r.Intn(12) != 0 && pos != 0 && pos != n-1 && pos != n/2 {
			continue
		}

		out = append(out, Alt{"sub", pos, byte(r.Intn(255))})
	}

	for _, pos := range []int{0, n / 2, n - 1, r.Intn(n + 1)} {
		if pos < 0 {
			continue
		}

		out = append(out, Alt{"del", pos, 0}, Alt{"ins", pos, byte(r.Intn(256))})
	}

	out = append(out, Alt{"ins", n, byte(r.Intn(256))}, Alt{"ins", n, 0}) // appended byte

	return out
}

func coqPT(t tinkpb.OutputPrefixType) string {
	if t == tinkpb.OutputPrefixType_RAW {
		return "PRaw"
	}

	return "PTink"
}

// differentByte returns a byte different from old, the way the model's `alter` computes it.
func differentByte(old, d byte) byte { return byte((int(old) + 1 + int(d)%255) % 256) }

type env struct {
	tr     *hx.Trace
	rng    *hx.Rng
	names  []string
	crypto *tinkcrypto.Crypto
	tier   string
}

// Case is the replayable description of a case.
type Case struct {
	Group   string `json:"group"` // codec | decode | sig | aead | mac
	KT      string `json:"kt,omitempty"`
	Variant string `json:"variant,omitempty"`
	Hex     string `json:"hex,omitempty"`
	R       string `json:"r,omitempty"`
	S       string `json:"s,omitempty"`
	Enc     string `json:"enc,omitempty"`
}

// ---------- codecs ----------

type codec struct {
	name   string // secp-p1363 | secp-der | tink-p1363-N | tink-der
	coqEnc string
	n      int
	encode func(r, s *big.Int) ([]byte, error)
	decode func(b []byte) (*big.Int, *big.Int, error)
}

func codecs() []codec {
	tinkEnc := func(enc, curve string) func(r, s *big.Int) ([]byte, error) {
		return func(r, s *big.Int) ([]byte, error) {
			return tinksubtle.NewECDSASignature(r, s).EncodeECDSASignature(enc, curve)
		}
	}
	tinkDec := func(enc string) func(b []byte) (*big.Int, *big.Int, error) {
		return func(b []byte) (*big.Int, *big.Int, error) {
			sig, err := tinksubtle.DecodeECDSASignature(b, enc)
			if err != nil {
				return nil, nil, err
			}

			return sig.R, sig.S, nil
		}
	}

	return []codec{
		{"secp-p1363", "(EncP1363 32)", 32, func(r, s *big.Int) ([]byte, error) {
			return secpsubtle.VerifIEEEP1363Encode(r, s, btcec.S256().Params().Name)
		}, secpsubtle.VerifIEEEP1363Decode},
		{"secp-der", "EncDer", 0, secpsubtle.VerifASN1Encode, secpsubtle.VerifASN1Decode},
		{"tink-p1363-32", "(EncP1363 32)", 32, tinkEnc("IEEE_P1363", elliptic.P256().Params().Name), tinkDec("IEEE_P1363")},
		{"tink-p1363-48", "(EncP1363 48)", 48, tinkEnc("IEEE_P1363", elliptic.P384().Params().Name), tinkDec("IEEE_P1363")},
		{"tink-p1363-66", "(EncP1363 66)", 66, tinkEnc("IEEE_P1363", elliptic.P521().Params().Name), tinkDec("IEEE_P1363")},
		{"tink-der", "EncDer", 0, tinkEnc("DER", elliptic.P256().Params().Name), tinkDec("DER")},
	}
}

func (e *env) randScalar(r *hx.Rng, n int) *big.Int {
	// n bytes; with bias towards leading zero bytes, high bit set, tiny and extreme values
	b := r.Bytes(n)
	if n < 4 {
		return new(big.Int).SetBytes(b)
	}

	switch r.Intn(10) {
	case 0:
		b[0] = 0
	case 1:
		b[0], b[1] = 0, 0
	case 2:
		b[0], b[1], b[2] = 0, 0, byte(r.Intn(2))
	case 3:
		b[0] |= 0x80
	case 4:
		b[0] = 0
		b[1] |= 0x80
	case 5:
		for i := range b {
			b[i] = 0xff
		}
	case 6:
		for i := 0; i < n-1; i++ {
			b[i] = 0
		}
	case 7:
		b[0] &= 0x7f
	}

	return new(big.Int).SetBytes(b)
}

func (e *env) codecCase(c codec, r, s *big.Int, kind string) {
	out, err := c.encode(r, s)
	rec := &hx.Record{Kind: kind, Oracle: "ok",
		Case:  Case{Group: "codec", Enc: c.name, R: r.String(), S: s.String()},
		Coq:   fmt.Sprintf("CCodec %s %s %s %s", c.coqEnc, coqBig(r), coqBig(s), coqOptBytes(out, err == nil)),
		Class: fmt.Sprintf("codec/%s/%d/%d/%d", c.name, len(r.Bytes()), len(s.Bytes()), len(out)),
		Dist:  []string{"group=codec", "codec=" + c.name, fmt.Sprintf("rlen=%d", len(r.Bytes()))},
	}
	rec.Observed = map[string]interface{}{"enc": hex.EncodeToString(out), "err": err != nil}

	// direct oracle: what was produced decodes to exactly (r,s); P1363 outputs have the fixed size
	if err == nil {
		r2, s2, derr := c.decode(out)
		if derr != nil || r2.Cmp(r) != 0 || s2.Cmp(s) != 0 {
			if c.n == 0 || (len(r.Bytes()) <= c.n && len(s.Bytes()) <= c.n) {
				rec.Oracle, rec.Sig, rec.Detail = "fail", "codec-roundtrip:"+c.name, fmt.Sprintf("(%v,%v) -> %x -> (%v,%v,%v)", r, s, out, r2, s2, derr)
			}
		}

		if c.n != 0 && len(out) != 2*c.n {
			rec.Oracle, rec.Sig, rec.Detail = "fail", "codec-size:"+c.name, fmt.Sprintf("len %d", len(out))
		}
	}

	e.tr.Put(rec)
}

func (e *env) decodeCase(c codec, b []byte, kind, why string) {
	r, s, err := c.decode(b)
	rec := &hx.Record{Kind: kind, Oracle: "ok",
		Case:  Case{Group: "decode", Enc: c.name, Hex: hex.EncodeToString(b), Variant: why},
		Coq:   fmt.Sprintf("CDecode %s %s %s", c.coqEnc, coqBytes(b), coqOptRS(r, s, err == nil)),
		Class: fmt.Sprintf("decode/%s/%s/%v", c.name, why, err == nil),
		Dist:  []string{"group=decode", "codec=" + c.name, "mut=" + why, fmt.Sprintf("accepted=%v", err == nil)},
	}
	rec.Observed = map[string]interface{}{"ok": err == nil}

	// direct oracle (strictness): an accepted DER string is the encoding of what it decoded to
	if err == nil && c.n == 0 {
		back, e2 := c.encode(r, s)
		if e2 != nil || hex.EncodeToString(back) != hex.EncodeToString(b) {
			rec.Oracle, rec.Sig, rec.Detail = "fail", "der-not-strict:"+c.name, fmt.Sprintf("%x accepted, canonical %x", b, back)
		}
	}

	e.tr.Put(rec)
}

func (e *env) runCodecs(nPer int) {
	for ci, c := range codecs() {
		for i := 0; i < nPer; i++ {
			r := e.rng.Fork(uint64(1000*ci + i))
			n := c.n

			if n == 0 {
				n = []int{32, 48, 66, 1, 20, 70}[r.Intn(6)]
			}

			x, y := e.randScalar(r, n), e.randScalar(r, n)
			if c.n != 0 && r.Intn(25) == 0 {
				// too large for the field: what does the encoder do?
				x = new(big.Int).Lsh(x, uint(8*(1+r.Intn(3))))
			}

			e.codecCase(c, x, y, "codec")

			// mutations of the valid encoding, fed to the decoder
			out, err := c.encode(x, y)
			if err != nil {
				continue
			}

			muts := map[string][]byte{
				"asis":     out,
				"trailing": append(append([]byte{}, out...), byte(r.Intn(256))),
				"drop":     out[:len(out)-1],
				"flip":     flipAt(out, r.Intn(len(out)), byte(1+r.Intn(255))),
				"empty":    {},
			}

			if c.n == 0 && len(out) > 4 {
				// DER specific: non-minimal length, leading zero / 0xff in an integer, long form for a short length
				lz := append([]byte{}, out...)
				muts["len+1"] = flipAt(out, 1, 1)

				if out[1] < 0x80 {
					muts["longform"] = append([]byte{0x30, 0x81, out[1]}, out[2:]...)
					// prepend 0x00 to r
					if out[2] == 2 {
						rl := int(out[3])
						nr := append([]byte{0x30, out[1] + 1, 2, byte(rl + 1), 0}, lz[4:]...)
						muts["r-leading-zero"] = nr
					}

					muts["inner-extra"] = append(append([]byte{0x30, out[1] + 1}, out[2:]...), 0)
				}

				muts["neg"] = flipAt(out, firstIntContent(out), 0x80)
				muts["tag"] = flipAt(out, 0, 1)
			}

			if c.n != 0 {
				muts["pad-halves"] = append(append(append([]byte{0}, out[:len(out)/2]...), 0), out[len(out)/2:]...)
				muts["long"] = append(append([]byte{}, out...), make([]byte, 134-len(out))...)
			}

			keys := make([]string, 0, len(muts))
			for k := range muts {
				keys = append(keys, k)
			}

			sort.Strings(keys)

			for _, k := range keys {
				e.decodeCase(c, muts[k], "decode", k)
			}
		}
	}
}

func firstIntContent(der []byte) int {
	// 30 L 02 l c...  (short or 0x81 long form of L)
	i := 2
	if der[1] >= 0x80 {
		i = 2 + int(der[1]&0x7f)
	}

	return i + 2
}

func flipAt(b []byte, pos int, x byte) []byte {
	o := append([]byte{}, b...)
	if pos < len(o) {
		o[pos] ^= x
	}

	return o
}

// ---------- signatures ----------

type ecInfo struct {
	curve elliptic.Curve
	hash  func() hash.Hash
	der   bool
	n     int
}

func ecOf(kt string) *ecInfo {
	switch kt {
	case kms.ECDSAP256DER:
		return &ecInfo{elliptic.P256(), sha256.New, true, 32}
	case kms.ECDSAP384DER:
		return &ecInfo{elliptic.P384(), sha512.New384, true, 48}
	case kms.ECDSAP521DER:
		return &ecInfo{elliptic.P521(), sha512.New, true, 66}
	case kms.ECDSAP256IEEEP1363:
		return &ecInfo{elliptic.P256(), sha256.New, false, 32}
	case kms.ECDSAP384IEEEP1363:
		return &ecInfo{elliptic.P384(), sha512.New384, false, 48}
	case kms.ECDSAP521IEEEP1363:
		return &ecInfo{elliptic.P521(), sha512.New, false, 66}
	case kms.ECDSASecp256k1IEEEP1363:
		return &ecInfo{btcec.S256(), sha256.New, false, 32}
	case kms.ECDSASecp256k1DER:
		return &ecInfo{btcec.S256(), sha256.New, true, 32}
	}

	return nil
}

func parsePub(ei *ecInfo, pb []byte) *ecdsa.PublicKey {
	if ei.der {
		k, err := x509.ParsePKIXPublicKey(pb)
		if err != nil {
			return nil
		}

		pk, _ := k.(*ecdsa.PublicKey)

		return pk
	}

	x, y := elliptic.Unmarshal(ei.curve, pb)
	if x == nil {
		return nil
	}

	return &ecdsa.PublicKey{Curve: ei.curve, X: x, Y: y}
}

// splitRS decodes (r,s) with math/big only, independently of the codecs under test.
func splitRS(ei *ecInfo, sig []byte) (*big.Int, *big.Int, bool) {
	if ei.der {
		var v struct{ R, S *big.Int }

		rest, err := asn1.Unmarshal(sig, &v)
		if err != nil || len(rest) != 0 {
			return nil, nil, false
		}

		return v.R, v.S, true
	}

	if len(sig) != 2*ei.n {
		return nil, nil, false
	}

	return new(big.Int).SetBytes(sig[:ei.n]), new(big.Int).SetBytes(sig[ei.n:]), true
}

func primaryInfo(kh *keyset.Handle) (uint32, tinkpb.OutputPrefixType) {
	info := kh.KeysetInfo()
	for _, ki := range info.KeyInfo {
		if ki.KeyId == info.PrimaryKeyId {
			return ki.KeyId, ki.OutputPrefixType
		}
	}

	return 0, tinkpb.OutputPrefixType_RAW
}

func prefixBytes(id uint32, pt tinkpb.OutputPrefixType) []byte {
	if pt == tinkpb.OutputPrefixType_RAW {
		return nil
	}

	b := make([]byte, 5)
	b[0] = 1
	binary.BigEndian.PutUint32(b[1:], id)

	return b
}

type party struct {
	kms *localkms.LocalKMS
}

type sigKey struct {
	kh      *keyset.Handle
	pubSame *keyset.Handle
	pubImp  *keyset.Handle // nil if export/import is not possible
	impErr  string
	pubRaw  []byte
	created bool
}

func (e *env) makeSigKey(a, b *party, kt string, created bool) (*sigKey, error) {
	var (
		kid string
		h   interface{}
		err error
	)

	if created {
		kid, h, err = a.kms.Create(kms.KeyType(kt))
	} else {
		ei := ecOf(kt)

		switch {
		case ei != nil:
			priv, e2 := ecdsa.GenerateKey(ei.curve, rand.Reader)
			if e2 != nil {
				return nil, e2
			}

			kid, h, err = a.kms.ImportPrivateKey(priv, kms.KeyType(kt))
		case kt == kms.ED25519:
			_, priv, e2 := ed25519.GenerateKey(rand.Reader)
			if e2 != nil {
				return nil, e2
			}

			kid, h, err = a.kms.ImportPrivateKey(priv, kms.KeyType(kt))
		default:
			return nil, fmt.Errorf("no private import for %s", kt)
		}
	}

	if err != nil {
		return nil, err
	}

	kh := h.(*keyset.Handle) //nolint:forcetypeassert
	sk := &sigKey{kh: kh, created: created}

	sk.pubSame, err = kh.Public()
	if err != nil {
		return nil, err
	}

	pb, ekt, err := a.kms.ExportPubKeyBytes(kid)
	if err != nil {
		sk.impErr = "export: " + err.Error()
		return sk, nil
	}

	sk.pubRaw = pb

	ih, err := b.kms.PubKeyBytesToHandle(pb, ekt)
	if err != nil {
		sk.impErr = "import: " + err.Error()
		return sk, nil
	}

	sk.pubImp = ih.(*keyset.Handle) //nolint:forcetypeassert

	return sk, nil
}

func (e *env) sign(kt string, kh *keyset.Handle, msg []byte) ([]byte, error) {
	if kt == kms.BLS12381G2 {
		return e.crypto.SignMulti(splitMsgs(msg), kh)
	}

	return e.crypto.Sign(msg, kh)
}

func (e *env) verify(kt string, kh *keyset.Handle, sig, msg []byte) error {
	if kt == kms.BLS12381G2 {
		return e.crypto.VerifyMulti(splitMsgs(msg), sig, kh)
	}

	return e.crypto.Verify(sig, msg, kh)
}

// splitMsgs: a BBS+ multi-message list derived from the message bytes (1..3 messages).
func splitMsgs(msg []byte) [][]byte {
	if len(msg) < 3 {
		return [][]byte{append([]byte{'m'}, msg...)}
	}

	k := len(msg) / 3

	return [][]byte{msg[:k], msg[k : 2*k], msg[2*k:]}
}

type sigProbe struct {
	vm         string // same | import | pkv
	okey, omsg bool
	alt        Alt
}

// pkvVerify verifies with signature/verifier.PublicKeyVerifier on the exported public key bytes.
func pkvVerify(kt string, pubRaw, msg, sig []byte) (error, bool) {
	var sv sigverifier.SignatureVerifier

	pk := &sigverifier.PublicKey{Type: "JsonWebKey2020", Value: pubRaw}

	switch kt {
	case kms.ECDSAP256DER, kms.ECDSAP256IEEEP1363:
		sv = sigverifier.NewECDSAES256SignatureVerifier()
	case kms.ECDSAP384DER, kms.ECDSAP384IEEEP1363:
		sv = sigverifier.NewECDSAES384SignatureVerifier()
	case kms.ECDSAP521DER, kms.ECDSAP521IEEEP1363:
		sv = sigverifier.NewECDSAES521SignatureVerifier()
	case kms.ECDSASecp256k1IEEEP1363:
		sv = sigverifier.NewECDSASecp256k1SignatureVerifier()
	case kms.ED25519:
		sv = sigverifier.NewEd25519SignatureVerifier()
	default:
		return nil, false
	}

	if ei := ecOf(kt); ei != nil {
		pub := parsePub(ei, pubRaw)
		if pub == nil {
			return fmt.Errorf("cannot parse exported public key"), true
		}

		j, err := jwksupport.JWKFromKey(pub)
		if err != nil {
			return err, true
		}

		pk = &sigverifier.PublicKey{Type: "JsonWebKey2020", JWK: j}
	}

	return sigverifier.NewPublicKeyVerifier(sv).Verify(pk, msg, sig), true
}

func (e *env) sigCase(kind string, ktIdx int, kt string, sk, other *sigKey, msg, sig []byte, p sigProbe, constructed bool) {
	id, pt := primaryInfo(sk.kh)
	ei := ecOf(kt)
	vk := sk
	pl := len(prefixBytes(id, pt))

	if p.okey {
		vk = other
	}

	m := msg
	if p.omsg {
		m = append(append([]byte{}, msg...), 'x')
	}

	var err error

	switch p.vm {
	case "pkv":
		var ok bool

		err, ok = pkvVerify(kt, vk.pubRaw, m, p.alt.apply(sig[pl:]))
		if !ok {
			return
		}
	case "import":
		err = e.verify(kt, vk.pubImp, p.alt.apply(sig), m)
	default:
		err = e.verify(kt, vk.pubSame, p.alt.apply(sig), m)
	}

	acc := err == nil
	want := !p.okey && !p.omsg && !p.alt.on()

	rec := &hx.Record{Kind: kind, Oracle: "ok",
		Case:     Case{Group: "sig", KT: kt, Variant: fmt.Sprintf("%s/created=%v/okey=%v/omsg=%v/alt=%s@%d", p.vm, sk.created, p.okey, p.omsg, p.alt.Kind, p.alt.Pos)},
		Observed: map[string]interface{}{"accepted": acc, "siglen": len(sig), "prefix": coqPT(pt), "err": fmt.Sprint(err)},
		Class:    fmt.Sprintf("sig/%s/%s/%v/%v/%v/%s/%v/%d", kt, p.vm, sk.created, p.okey, p.omsg, p.alt.Kind, acc, len(sig)),
		Dist: []string{"group=sig", "kt=" + kt, "verifier=" + p.vm, fmt.Sprintf("accepted=%v", acc), "alt=" + p.alt.Kind,
			fmt.Sprintf("msglen=%d", len(msg))},
	}

	if acc != want {
		what := "accepts-altered"
		if want {
			what = "rejects-genuine"
		}

		rec.Oracle = "fail"
		rec.Sig = fmt.Sprintf("sig:%s:%s:%s", kt, p.vm, what)

		if p.alt.Kind == "ins" && p.alt.Pos >= len(sig)-pl && p.vm == "pkv" {
			rec.Sig = fmt.Sprintf("sig:%s:pkv:accepts-trailing-byte", kt)
		}

		rec.Detail = fmt.Sprintf("%s verifier=%s created=%v otherkey=%v othermsg=%v alteration=%s@%d: accepted=%v (%v), signature %d bytes prefix %s",
			kt, p.vm, sk.created, p.okey, p.omsg, p.alt.Kind, p.alt.Pos, acc, err, len(sig), coqPT(pt))
	}

	// independent check of the genuine signature with math/big + crypto/ecdsa
	rsStr := "None"

	if ei != nil && !p.alt.on() {
		r, s, ok := splitRS(ei, sig[pl:])
		pub := parsePub(ei, sk.pubRaw)

		if ok && pub != nil {
			h := ei.hash()
			h.Write(msg)

			if !ecdsa.Verify(pub, h.Sum(nil), r, s) && rec.Oracle == "ok" && !constructed {
				rec.Oracle, rec.Sig, rec.Detail = "fail", "sig:"+kt+":not-ecdsa-valid", "crypto/ecdsa rejects (r,s) split from the produced signature"
			}

			rsStr = coqOptRS(r, s, true)
		} else if rec.Oracle == "ok" {
			rec.Oracle, rec.Sig, rec.Detail = "fail", "sig:"+kt+":shape", fmt.Sprintf("produced signature (%d bytes after prefix %d) has not the shape of its encoding", len(sig)-pl, pl)
		}
	}

	switch p.vm {
	case "pkv":
		if ei != nil {
			rec.Coq = fmt.Sprintf("CPkv %d%%nat %s %s %s %s %s %s %s", ei.n, hx.CoqBool(ei.der), hx.CoqBool(p.okey), hx.CoqBool(p.omsg), p.alt.coq(),
				coqBytes(sig[pl:]), rsStr, hx.CoqBool(acc))
		}
	default:
		vm := "VSame"
		if p.vm == "import" {
			vm = "VImport"
		}

		rec.Coq = fmt.Sprintf("CSig %d%%nat %s %d %s %s %s %s %s %s %s %s", ktIdx, hx.CoqBool(sk.created), id, coqPT(pt), vm,
			hx.CoqBool(p.okey), hx.CoqBool(p.omsg), p.alt.coq(), coqBytes(sig), rsStr, hx.CoqBool(acc))
	}

	e.tr.Put(rec)
}

func (e *env) msgOf(r *hx.Rng) []byte {
	return r.Bytes([]int{0, 1, 32, 200, 1024}[r.Intn(5)])
}

func (e *env) runSig(kind string, ktIdx int, kt string, nKeys int, full bool) {
	a, b := &party{newKMS()}, &party{newKMS()}

	for ki := 0; ki < nKeys; ki++ {
		r := e.rng.Fork(uint64(7000 + 100*ktIdx + ki))
		created := ki%2 == 0 // every second key is an imported private key (where possible)

		sk, err := e.makeSigKey(a, b, kt, created)
		if err != nil && !created {
			created = true
			sk, err = e.makeSigKey(a, b, kt, true)
		}

		if err != nil {
			e.tr.Put(&hx.Record{Kind: kind, Oracle: "fail", Sig: "sig:" + kt + ":create", Detail: err.Error(), Case: Case{Group: "sig", KT: kt}, Class: "sig/create-fail/" + kt})
			return
		}

		other, err := e.makeSigKey(a, b, kt, true)
		if err != nil {
			return
		}

		msg := e.msgOf(r)

		sig, err := e.sign(kt, sk.kh, msg)
		if err != nil {
			e.tr.Put(&hx.Record{Kind: kind, Oracle: "fail", Sig: "sig:" + kt + ":sign", Detail: err.Error(), Case: Case{Group: "sig", KT: kt}, Class: "sig/sign-fail/" + kt})
			return
		}

		modes := []string{"same"}
		if sk.pubImp != nil && other.pubImp != nil {
			modes = append(modes, "import")
		} else if ecOf(kt) != nil || kt == kms.ED25519 || kt == kms.BLS12381G2 {
			e.tr.Put(&hx.Record{Kind: kind, Oracle: "fail", Sig: "sig:" + kt + ":export-import", Detail: sk.impErr + other.impErr, Case: Case{Group: "sig", KT: kt}, Class: "sig/export-fail/" + kt})
		}

		if sk.pubRaw != nil && other.pubRaw != nil {
			modes = append(modes, "pkv")
		}

		for _, vm := range modes {
			e.sigCase(kind, ktIdx, kt, sk, other, msg, sig, sigProbe{vm: vm}, false)
			e.sigCase(kind, ktIdx, kt, sk, other, msg, sig, sigProbe{vm: vm, okey: true}, false)
			e.sigCase(kind, ktIdx, kt, sk, other, msg, sig, sigProbe{vm: vm, omsg: true}, false)

			// single-position alterations: every position for the first key (import and pkv verifiers), sampled otherwise
			for _, al := range edits(r, len(sig), full && ((ki == 0 && vm == "import") || (ki == 1 && vm == "pkv"))) {
				e.sigCase(kind, ktIdx, kt, sk, other, msg, sig, sigProbe{vm: vm, alt: al}, false)
			}
		}
	}

	// constructed signatures with short r or s (leading zero bytes), made with crypto/ecdsa on an imported private key,
	// encoded with the real codec and verified through the service by the re-imported public key
	ei := ecOf(kt)
	if ei == nil {
		return
	}

	priv, err := ecdsa.GenerateKey(ei.curve, rand.Reader)
	if err != nil {
		return
	}

	kid, h, err := a.kms.ImportPrivateKey(priv, kms.KeyType(kt))
	if err != nil {
		return
	}

	sk := &sigKey{kh: h.(*keyset.Handle), created: false} //nolint:forcetypeassert
	sk.pubSame, _ = sk.kh.Public()

	pb, ekt, err := a.kms.ExportPubKeyBytes(kid)
	if err != nil {
		return
	}

	sk.pubRaw = pb

	ih, err := b.kms.PubKeyBytesToHandle(pb, ekt)
	if err != nil {
		return
	}

	sk.pubImp = ih.(*keyset.Handle) //nolint:forcetypeassert

	found := 0
	msg := []byte("short scalar probe")

	for try := 0; try < 4000 && found < 2; try++ {
		m := append(append([]byte{}, msg...), byte(try), byte(try>>8))
		hh := ei.hash()
		hh.Write(m)

		r, s, err := ecdsa.Sign(rand.Reader, priv, hh.Sum(nil))
		if err != nil {
			continue
		}

		if len(r.Bytes()) >= ei.n && len(s.Bytes()) >= ei.n {
			continue
		}

		var sig []byte

		switch {
		case ei.der:
			sig, err = tinksubtle.NewECDSASignature(r, s).EncodeECDSASignature("DER", ei.curve.Params().Name)
		case kt == kms.ECDSASecp256k1IEEEP1363:
			sig, err = secpsubtle.VerifIEEEP1363Encode(r, s, ei.curve.Params().Name)
		default:
			sig, err = tinksubtle.NewECDSASignature(r, s).EncodeECDSASignature("IEEE_P1363", ei.curve.Params().Name)
		}

		if err != nil {
			continue
		}

		found++

		e.sigCase(kind+"-short", ktIdx, kt, sk, sk, m, sig, sigProbe{vm: "import"}, true)
		e.sigCase(kind+"-short", ktIdx, kt, sk, sk, m, sig, sigProbe{vm: "same"}, true)
		e.sigCase(kind+"-short", ktIdx, kt, sk, sk, m, sig, sigProbe{vm: "pkv"}, true)
		e.sigCase(kind+"-short", ktIdx, kt, sk, sk, m, sig, sigProbe{vm: "import", alt: Alt{"sub", 0, 0}}, true)
		e.sigCase(kind+"-short", ktIdx, kt, sk, sk, m, sig, sigProbe{vm: "pkv", alt: Alt{"ins", len(sig), 0}}, true)
	}
}

// ---------- AEAD ----------

type ksDesc struct {
	kh   *keyset.Handle
	desc string // Coq keyset
}

func primOf(kh *keyset.Handle) map[uint32]string {
	out := map[uint32]string{}

	ps, err := kh.Primitives()
	if err != nil {
		return out
	}

	for _, es := range ps.Entries {
		for _, en := range es {
			p := "PGcm"

			switch en.Primitive.(type) {
			case *aeadsubtle.ChaCha20Poly1305:
				p = "PChacha"
			case *aeadsubtle.XChaCha20Poly1305:
				p = "PXChacha"
			case *aeadsubtle.EncryptThenAuthenticate:
				p = "PCbcHmac"
			}

			out[en.KeyID] = p
		}
	}

	return out
}

// nonceConst: nonce size of the primitive of key id, from the primitives' own constants.
func nonceConst(kh *keyset.Handle, id uint32) int {
	switch primOf(kh)[id] {
	case "PGcm":
		return aeadsubtle.AESGCMIVSize
	case "PChacha":
		return chacha20poly1305.NonceSize
	case "PXChacha":
		return chacha20poly1305.NonceSizeX
	case "PCbcHmac":
		return 16
	}

	return 0
}

func coqKeyset(kh *keyset.Handle) string {
	info := kh.KeysetInfo()
	prims := primOf(kh)

	var es []string

	primary := 0

	for i, ki := range info.KeyInfo {
		if ki.KeyId == info.PrimaryKeyId {
			primary = i
		}

		es = append(es, fmt.Sprintf("{| e_id := %d; e_pt := %s; e_prim := %s; e_mat := %d |}", ki.KeyId, coqPT(ki.OutputPrefixType), prims[ki.KeyId], ki.KeyId))
	}

	return fmt.Sprintf("{| ks_entries := %s; ks_primary := %d%%nat |}", hx.CoqList(es), primary)
}

func hasKey(kh *keyset.Handle, id uint32) bool {
	for _, ki := range kh.KeysetInfo().KeyInfo {
		if ki.KeyId == id {
			return true
		}
	}

	return false
}

func (e *env) aeadCase(kind, kt string, enc, dec *keyset.Handle, alt string, ed Alt, msg, aad []byte, sameLineage bool) {
	pos := ed.Pos

	ct, nonce, err := e.crypto.Encrypt(msg, aad, enc)
	if err != nil {
		e.tr.Put(&hx.Record{Kind: kind, Oracle: "fail", Sig: "aead:" + kt + ":encrypt", Detail: err.Error(), Case: Case{Group: "aead", KT: kt}, Class: "aead/enc-fail/" + kt})
		return
	}

	id, pt := primaryInfo(enc)
	joined := append(append(append([]byte{}, prefixBytes(id, pt)...), nonce...), ct...)

	c2, n2, a2 := append([]byte{}, ct...), append([]byte{}, nonce...), aad
	coqAltS := "ANone"

	switch alt {
	case "cipher":
		c2 = ed.apply(c2)
		coqAltS = "(ACipher " + ed.coq() + ")"
	case "nonce":
		n2 = ed.apply(n2)
		coqAltS = "(ANonce " + ed.coq() + ")"
	case "aad":
		a2 = append(append([]byte{}, aad...), 'x')
		coqAltS = "AAad"
	case "otherkeys":
		coqAltS = "AOtherKeys"
	}

	pt2, derr := e.crypto.Decrypt(c2, a2, n2, dec)
	acc := derr == nil && string(pt2) == string(msg)
	want := alt == "" && sameLineage && hasKey(dec, id)

	rec := &hx.Record{Kind: kind, Oracle: "ok",
		Case:     Case{Group: "aead", KT: kt, Variant: fmt.Sprintf("alt=%s/%s@%d/enc=%d keys/dec=%d keys", alt, ed.Kind, pos, len(enc.KeysetInfo().KeyInfo), len(dec.KeysetInfo().KeyInfo))},
		Observed: map[string]interface{}{"accepted": acc, "noncelen": len(nonce), "cipherlen": len(ct), "msglen": len(msg), "err": fmt.Sprint(derr)},
		Class:    fmt.Sprintf("aead/%s/%s%s/%d/%d/%v/%d", kt, alt, ed.Kind, len(enc.KeysetInfo().KeyInfo), len(dec.KeysetInfo().KeyInfo), acc, len(msg)),
		Dist: []string{"group=aead", "kt=" + kt, "alt=" + alt + ed.Kind, fmt.Sprintf("accepted=%v", acc), fmt.Sprintf("enckeys=%d", len(enc.KeysetInfo().KeyInfo)),
			fmt.Sprintf("deckeys=%d", len(dec.KeysetInfo().KeyInfo)), fmt.Sprintf("msglen=%d", len(msg))},
	}

	if derr == nil && string(pt2) != string(msg) {
		rec.Oracle, rec.Sig, rec.Detail = "fail", "aead:"+kt+":wrong-plaintext", "decrypt returned a different plaintext"
	} else if acc != want {
		what := "accepts-altered"
		if want {
			what = "rejects-genuine"
		}

		rec.Oracle, rec.Sig = "fail", "aead:"+kt+":"+what
		rec.Detail = fmt.Sprintf("%s alt=%s/%s@%d enc keyset %v dec keyset %v: accepted=%v (%v)", kt, alt, ed.Kind, pos, enc.KeysetInfo(), dec.KeysetInfo(), acc, derr)
	}

	// the returned nonce is exactly the nonce of the primary's primitive (its Go constant)
	if want := nonceConst(enc, id); want != 0 && len(nonce) != want && rec.Oracle == "ok" {
		rec.Oracle, rec.Sig = "fail", "aead:"+kt+":nonce-size"
		rec.Detail = fmt.Sprintf("Encrypt returned a %d byte nonce, the primary primitive uses %d", len(nonce), want)
	}

	// the returned pair, re-joined with the primary's prefix, must be a ciphertext real Tink accepts directly
	if ta, e2 := tinkaead.New(enc); e2 == nil {
		if p3, e3 := ta.Decrypt(joined, aad); (e3 != nil || string(p3) != string(msg)) && rec.Oracle == "ok" {
			rec.Oracle, rec.Sig, rec.Detail = "fail", "aead:"+kt+":layout", fmt.Sprintf("prefix++nonce++cipher is not a Tink ciphertext: %v", e3)
		}
	}

	rec.Coq = fmt.Sprintf("CAead %s %s %s %s %s %d%%nat %s %s", coqKeyset(enc), coqKeyset(dec), coqAltS, coqBytes(nonce), coqBytes(ct), len(msg),
		coqBytes(joined), hx.CoqBool(acc))
	e.tr.Put(rec)
}

func (e *env) runAead(kind, kt string, nLineages int, aeadTypes []string) {
	a := &party{newKMS()}

	for li := 0; li < nLineages; li++ {
		r := e.rng.Fork(uint64(9000 + li))

		kid, h, err := a.kms.Create(kms.KeyType(kt))
		if err != nil {
			e.tr.Put(&hx.Record{Kind: kind, Oracle: "fail", Sig: "aead:" + kt + ":create", Detail: err.Error(), Case: Case{Group: "aead", KT: kt}, Class: "aead/create-fail/" + kt})
			return
		}

		stages := []*keyset.Handle{h.(*keyset.Handle)} //nolint:forcetypeassert
		rot := 1 + r.Intn(3)

		for i := 0; i < rot; i++ {
			rkt := kt
			if li%2 == 1 && len(aeadTypes) > 1 {
				// keys of different types in one keyset (different nonce sizes / prefix types); the first rotation of
				// such a lineage always changes the key type
				rkt = aeadTypes[r.Intn(len(aeadTypes))]
				for i == 0 && rkt == kt {
					rkt = aeadTypes[r.Intn(len(aeadTypes))]
				}
			}

			nid, nh, e2 := a.kms.Rotate(kms.KeyType(rkt), kid)
			if e2 != nil {
				e.tr.Put(&hx.Record{Kind: kind, Oracle: "fail", Sig: "aead:" + kt + ":rotate", Detail: e2.Error(), Case: Case{Group: "aead", KT: kt}, Class: "aead/rotate-fail/" + kt})
				return
			}

			kid = nid
			stages = append(stages, nh.(*keyset.Handle)) //nolint:forcetypeassert
		}

		_, oh, err := a.kms.Create(kms.KeyType(kt))
		if err != nil {
			return
		}

		other := oh.(*keyset.Handle) //nolint:forcetypeassert
		aad := r.Bytes(r.Intn(20))

		for i, enc := range stages {
			msg := r.Bytes([]int{0, 1, 17, 300}[r.Intn(4)])

			for j, dec := range stages {
				_ = j
				e.aeadCase(kind, kt, enc, dec, "", Alt{}, msg, aad, true)
			}

			e.aeadCase(kind, kt, enc, other, "otherkeys", Alt{}, msg, aad, false)

			dec := stages[len(stages)-1]
			e.aeadCase(kind, kt, enc, dec, "aad", Alt{}, msg, aad, true)

			if i == 0 {
				for _, al := range edits(r, 12, true) {
					e.aeadCase(kind, kt, enc, dec, "nonce", al, msg, aad, true)
				}

				for _, al := range edits(r, len(msg)+16, len(msg) <= 20) {
					e.aeadCase(kind, kt, enc, dec, "cipher", al, msg, aad, true)
				}
			}
		}
	}
}

// ---------- MAC ----------

// coqIDPts prints the keys of a handle as a Coq list of (Tink key id, prefix type).
func coqIDPts(kh *keyset.Handle) string {
	var es []string
	for _, ki := range kh.KeysetInfo().KeyInfo {
		es = append(es, fmt.Sprintf("(%d, %s)", ki.KeyId, coqPT(ki.OutputPrefixType)))
	}

	return hx.CoqList(es)
}

// rotations creates a key of type kt and rotates it n times; it returns the handle of every stage.
func rotations(k *localkms.LocalKMS, kt string, n int) ([]*keyset.Handle, string, error) {
	kid, h, err := k.Create(kms.KeyType(kt))
	if err != nil {
		return nil, "", err
	}

	stages := []*keyset.Handle{h.(*keyset.Handle)} //nolint:forcetypeassert

	for i := 0; i < n; i++ {
		nid, nh, e2 := k.Rotate(kms.KeyType(kt), kid)
		if e2 != nil {
			return nil, "", fmt.Errorf("rotate: %w", e2)
		}

		kid = nid
		stages = append(stages, nh.(*keyset.Handle)) //nolint:forcetypeassert
	}

	return stages, kid, nil
}

// runMac: lineages of HMAC keys with 0..3 rotations; a MAC computed under every stage is verified under every stage.
func (e *env) runMac(kind, kt string, nKeys int) {
	a := &party{newKMS()}

	for ki := 0; ki < nKeys; ki++ {
		r := e.rng.Fork(uint64(11000 + ki))

		stages, _, err := rotations(a.kms, kt, 1+r.Intn(3))
		if err != nil {
			e.tr.Put(&hx.Record{Kind: kind, Oracle: "fail", Sig: "mac:" + kt + ":create", Detail: err.Error(), Case: Case{Group: "mac", KT: kt}, Class: "mac/create-fail"})
			return
		}

		_, h2, _ := a.kms.Create(kms.KeyType(kt))
		okh := h2.(*keyset.Handle) //nolint:forcetypeassert

		for si, kh := range stages {
			data := e.msgOf(r)

			tag, err := e.crypto.ComputeMAC(data, kh)
			if err != nil {
				e.tr.Put(&hx.Record{Kind: kind, Oracle: "fail", Sig: "mac:" + kt + ":compute", Detail: err.Error(), Case: Case{Group: "mac", KT: kt}, Class: "mac/compute-fail"})
				return
			}

			id, pt := primaryInfo(kh)

			probe := func(vh *keyset.Handle, vname string, odata bool, al Alt) {
				dd, tg := data, al.apply(tag)
				if odata {
					dd = append(append([]byte{}, data...), 'x')
				}

				verr := e.crypto.VerifyMAC(tg, dd, vh)
				acc := verr == nil
				want := hasKey(vh, id) && !odata && !al.on()

				rec := &hx.Record{Kind: kind, Oracle: "ok",
					Case:     Case{Group: "mac", KT: kt, Variant: fmt.Sprintf("stage=%d/verifier=%s/odata=%v/alt=%s@%d", si, vname, odata, al.Kind, al.Pos)},
					Observed: map[string]interface{}{"accepted": acc, "taglen": len(tag), "err": fmt.Sprint(verr)},
					Class:    fmt.Sprintf("mac/%d/%s/%v/%s/%v/%d", si, vname, odata, al.Kind, acc, len(data)),
					Dist:     []string{"group=mac", "kt=" + kt, fmt.Sprintf("accepted=%v", acc), "alt=" + al.Kind, "verifier=" + vname},
					Coq: fmt.Sprintf("CMac (%d, %s) %s %s %s %s %s", id, coqPT(pt), coqIDPts(vh), hx.CoqBool(odata), al.coq(), coqBytes(tag),
						hx.CoqBool(acc)),
				}

				if acc != want {
					what := "accepts-altered"
					if want {
						what = "rejects-genuine"
					}

					rec.Oracle, rec.Sig = "fail", "mac:"+kt+":"+what
					rec.Detail = fmt.Sprintf("MAC of stage %d verified by %s (%d keys) odata=%v alt=%s@%d: accepted=%v (%v)", si, vname,
						len(vh.KeysetInfo().KeyInfo), odata, al.Kind, al.Pos, acc, verr)
				}

				e.tr.Put(rec)
			}

			for sj, vh := range stages {
				probe(vh, fmt.Sprintf("stage%d", sj), false, Alt{})
			}

			last := stages[len(stages)-1]
			probe(okh, "otherkey", false, Alt{})
			probe(last, "last", true, Alt{})

			if si == 0 || si == len(stages)-1 {
				for _, al := range edits(r, len(tag), si == 0) {
					probe(last, "last", false, al)
				}
			}
		}
	}
}

// runSigRot: a signing key rotated 1-2 times: signatures of every stage verify with the public handle of every later
// stage and with nothing that lacks the key.
func (e *env) runSigRot(kind string, ktIdx int, kt string) {
	a := &party{newKMS()}
	r := e.rng.Fork(uint64(15000 + ktIdx))

	stages, _, err := rotations(a.kms, kt, 1+r.Intn(2))
	if err != nil {
		e.tr.Put(&hx.Record{Kind: kind, Oracle: "fail", Sig: "sig:" + kt + ":rotate", Detail: err.Error(), Case: Case{Group: "sigrot", KT: kt}, Class: "sigrot/rotate-fail/" + kt})
		return
	}

	for si, kh := range stages {
		msg := e.msgOf(r)

		sig, err := e.sign(kt, kh, msg)
		if err != nil {
			e.tr.Put(&hx.Record{Kind: kind, Oracle: "fail", Sig: "sig:" + kt + ":sign-rotated", Detail: err.Error(), Case: Case{Group: "sigrot", KT: kt}, Class: "sigrot/sign-fail/" + kt})
			return
		}

		id, pt := primaryInfo(kh)

		probe := func(sj int, omsg bool, al Alt) {
			pub, perr := stages[sj].Public()
			if perr != nil {
				return
			}

			m := msg
			if omsg {
				m = append(append([]byte{}, msg...), 'x')
			}

			verr := e.verify(kt, pub, al.apply(sig), m)
			acc := verr == nil
			want := hasKey(pub, id) && !omsg && !al.on()

			rec := &hx.Record{Kind: kind, Oracle: "ok",
				Case:     Case{Group: "sigrot", KT: kt, Variant: fmt.Sprintf("signed=stage%d/verified=stage%d/omsg=%v/alt=%s@%d", si, sj, omsg, al.Kind, al.Pos)},
				Observed: map[string]interface{}{"accepted": acc, "err": fmt.Sprint(verr)},
				Class:    fmt.Sprintf("sigrot/%s/%d/%d/%v/%s/%v", kt, si, sj, omsg, al.Kind, acc),
				Dist:     []string{"group=sigrot", "kt=" + kt, fmt.Sprintf("accepted=%v", acc), "alt=" + al.Kind},
				Coq: fmt.Sprintf("CSigKs %d%%nat (%d, %s) %s %s %s %s %s", ktIdx, id, coqPT(pt), coqIDPts(pub), hx.CoqBool(omsg), al.coq(),
					coqBytes(sig), hx.CoqBool(acc)),
			}

			if acc != want {
				what := "accepts-altered"
				if want {
					what = "rejects-genuine"
				}

				rec.Oracle, rec.Sig = "fail", "sig:"+kt+":rotated:"+what
				rec.Detail = fmt.Sprintf("%s signature of stage %d verified with the public keyset of stage %d omsg=%v alt=%s@%d: accepted=%v (%v)",
					kt, si, sj, omsg, al.Kind, al.Pos, acc, verr)
			}

			e.tr.Put(rec)
		}

		for sj := range stages {
			probe(sj, false, Alt{})
		}

		probe(len(stages)-1, true, Alt{})

		for _, al := range edits(r, len(sig), false) {
			probe(len(stages)-1, false, al)
		}
	}
}

// ---------- BBS+ multi-message signatures over long message vectors ----------

func (e *env) runBbs(kind string, nMsgs int, nGen int) {
	kt := kms.BLS12381G2
	a, b := &party{newKMS()}, &party{newKMS()}
	r := e.rng.Fork(17000 + uint64(nMsgs))

	fail := func(sig, detail string) {
		e.tr.Put(&hx.Record{Kind: kind, Oracle: "fail", Sig: sig, Detail: detail, Case: Case{Group: "bbs", KT: kt, Variant: strconv.Itoa(nMsgs)}, Class: "bbs/fail/" + sig})
	}

	kid, h, err := a.kms.Create(kms.KeyType(kt))
	if err != nil {
		fail("bbs:create", err.Error())
		return
	}

	pb, _, err := a.kms.ExportPubKeyBytes(kid)
	if err != nil {
		fail("bbs:export", err.Error())
		return
	}

	ih, err := b.kms.PubKeyBytesToHandle(pb, kms.KeyType(kt))
	if err != nil {
		fail("bbs:import", err.Error())
		return
	}

	// the REAL generators h0, h_1..h_n of this key (verif hook): identity classes, and pairwise distinctness
	classesOf := func(n int) ([]int, int) {
		h0, hs, gerr := bbs12381g2pub.VerifGenerators(pb, n)
		if gerr != nil {
			fail("bbs:generators", gerr.Error())
			return nil, 0
		}

		first := map[string]int{}
		classes := make([]int, 0, n+1)
		repeats := 0

		for i, g := range append([]*ml.G1{h0}, hs...) {
			k := string(g.Bytes())
			if f, ok := first[k]; ok {
				classes = append(classes, f)
				repeats++
			} else {
				first[k] = i
				classes = append(classes, i)
			}
		}

		return classes, repeats
	}

	if nGen > nMsgs {
		_, rep := classesOf(nGen)
		rec := &hx.Record{Kind: kind, Oracle: "ok", Case: Case{Group: "bbs", KT: kt, Variant: fmt.Sprintf("generators/%d", nGen)},
			Observed: map[string]interface{}{"generators": nGen + 1, "repeats": rep}, Class: fmt.Sprintf("bbs/generators/%d/%d", nGen, rep),
			Dist: []string{"group=bbs", "bbs=generators"}}

		if rep != 0 {
			rec.Oracle, rec.Sig, rec.Detail = "fail", "bbs:generators-repeat", fmt.Sprintf("%d of the %d generators h0,h_1.. of a key equal an earlier one", rep, nGen+1)
		}

		e.tr.Put(rec)
	}

	classes, rep := classesOf(nMsgs)
	if classes == nil {
		return
	}

	if rep != 0 {
		fail("bbs:generators-repeat", fmt.Sprintf("%d of the %d generators h0,h_1.. of a key equal an earlier one", rep, nMsgs+1))
	}

	// messages: distinct, except that positions 2 and 5 carry the same message
	msgs := make([][]byte, nMsgs)
	ids := make([]int, nMsgs)

	for i := range msgs {
		msgs[i] = append([]byte(fmt.Sprintf("msg-%d-", i)), r.Bytes(4)...)
		ids[i] = i + 10
	}

	if nMsgs > 5 {
		msgs[5], ids[5] = msgs[2], ids[2]
	}

	sig, err := e.crypto.SignMulti(msgs, h)
	if err != nil {
		fail("bbs:sign", err.Error())
		return
	}

	coqVec := func(v []int) string {
		xs := make([]string, 0, len(v)+1)
		xs = append(xs, "1%Z") // the blinding factor s at position 0

		for _, x := range v {
			xs = append(xs, fmt.Sprintf("%d%%Z", x))
		}

		return hx.CoqList(xs)
	}

	coqNats := func(v []int) string {
		xs := make([]string, len(v))
		for i, x := range v {
			xs[i] = fmt.Sprintf("%d%%nat", x)
		}

		return hx.CoqList(xs)
	}

	probe := func(what string, pm [][]byte, pids []int, useImport bool) {
		vh := ih.(*keyset.Handle) //nolint:forcetypeassert
		if !useImport {
			vh, _ = h.(*keyset.Handle).Public() //nolint:forcetypeassert
		}

		verr := e.crypto.VerifyMulti(pm, sig, vh)
		acc := verr == nil
		same := len(pids) == len(ids)

		for i := 0; same && i < len(ids); i++ {
			same = pids[i] == ids[i]
		}

		rec := &hx.Record{Kind: kind, Oracle: "ok",
			Case:     Case{Group: "bbs", KT: kt, Variant: fmt.Sprintf("%d/%s", nMsgs, what)},
			Observed: map[string]interface{}{"accepted": acc, "messages": nMsgs, "err": fmt.Sprint(verr)},
			Class:    fmt.Sprintf("bbs/%d/%s/%v", nMsgs, strings.SplitN(what, "@", 2)[0], acc),
			Trivial:  what == "genuine",
			Dist:     []string{"group=bbs", "bbs=" + strings.SplitN(what, "@", 2)[0], fmt.Sprintf("accepted=%v", acc), fmt.Sprintf("messages=%d", nMsgs)},
		}

		if len(pids) == len(ids) && nMsgs <= 2000 {
			rec.Coq = fmt.Sprintf("CBbs %s %s %s %s", coqNats(classes), coqVec(ids), coqVec(pids), hx.CoqBool(acc))
		}

		if acc != same {
			w := "accepts-other-messages"
			if same {
				w = "rejects-genuine"
			}

			rec.Oracle, rec.Sig = "fail", "bbs:"+w
			rec.Detail = fmt.Sprintf("SignMulti over %d messages, VerifyMulti of the list with %s: accepted=%v (%v)", nMsgs, what, acc, verr)
		}

		e.tr.Put(rec)
	}

	swapped := func(i, j int) ([][]byte, []int) {
		pm, pi := append([][]byte{}, msgs...), append([]int{}, ids...)
		pm[i], pm[j] = pm[j], pm[i]
		pi[i], pi[j] = pi[j], pi[i]

		return pm, pi
	}

	probe("genuine", msgs, ids, true)

	if nMsgs <= 5000 {
		probe("genuine", msgs, ids, false)
	}

	// exchanged positions: neighbours, far apart, equal messages (2,5), positions congruent modulo 256 and 65536, random
	var pairs [][2]int

	add := func(i, j int) {
		if i >= 0 && j >= 0 && i < nMsgs && j < nMsgs && i != j {
			pairs = append(pairs, [2]int{i, j})
		}
	}

	add(0, 1)
	add(2, 5)
	add(0, nMsgs-1)
	add(nMsgs-2, nMsgs-1)

	for _, m := range []int{256, 255, 257, 65536} {
		add(0, m)
		add(1, 1+m)

		if nMsgs > m {
			k := r.Intn(nMsgs - m)
			add(k, k+m)
		}
	}

	for t := 0; t < 4; t++ {
		add(r.Intn(nMsgs), r.Intn(nMsgs))
	}

	huge := nMsgs > 5000
	if huge {
		pairs = nil
		add(0, 65536)
		add(1, 257)
	}

	for pi, pr := range pairs {
		pm, pids := swapped(pr[0], pr[1])
		probe(fmt.Sprintf("swap@%d,%d", pr[0], pr[1]), pm, pids, pi%2 == 0)
	}

	// one message replaced (first, last, beyond 256), dropped, appended
	for _, pos := range []int{0, nMsgs - 1, nMsgs / 2, 256, 300} {
		if pos >= nMsgs || (huge && pos != nMsgs-1) {
			continue
		}

		pm, pids := append([][]byte{}, msgs...), append([]int{}, ids...)
		pm[pos], pids[pos] = []byte("another message"), 7
		probe(fmt.Sprintf("replace@%d", pos), pm, pids, pos%2 == 0)
	}

	if huge {
		return
	}

	if nMsgs > 1 {
		probe("drop-last", msgs[:nMsgs-1], ids[:nMsgs-1], true)
	}

	probe("append", append(append([][]byte{}, msgs...), []byte("extra")), append(append([]int{}, ids...), 8), true)
}

// ---------- argument aliasing: every crypto-service call with its arguments as adjacent sub-slices of ONE buffer ----------

// arena lays byte strings out adjacently, in the given order, in one backing array that has spare capacity behind the
// last one; every part is handed out as buf[off:off+len], i.e. with len < cap and the following parts (or the spare
// bytes) directly behind it.
type arena struct {
	buf, snap []byte
	parts     [][]byte
}

func newArena(r *hx.Rng, parts [][]byte, order []int) *arena {
	total := 0
	for _, p := range parts {
		total += len(p)
	}

	spare := 24 + r.Intn(64)
	a := &arena{buf: make([]byte, total+spare), parts: make([][]byte, len(parts))}
	off := 0

	for _, i := range order {
		copy(a.buf[off:], parts[i])
		a.parts[i] = a.buf[off : off+len(parts[i])]
		off += len(parts[i])
	}

	for i := off; i < len(a.buf); i++ {
		a.buf[i] = byte(0xA0 + i%7)
	}

	a.snap = append([]byte{}, a.buf...)

	return a
}

func (a *arena) intact() bool { return string(a.buf) == string(a.snap) }

func permutations(n int) [][]int {
	if n == 1 {
		return [][]int{{0}}
	}

	var out [][]int

	for _, p := range permutations(n - 1) {
		for pos := 0; pos <= len(p); pos++ {
			q := append(append(append([]int{}, p[:pos]...), n-1), p[pos:]...)
			out = append(out, q)
		}
	}

	return out
}

func exactCopies(parts [][]byte) [][]byte {
	out := make([][]byte, len(parts))
	for i, p := range parts {
		out[i] = make([]byte, len(p))
		copy(out[i], p)
	}

	return out
}

// aliasCheck runs call with separately allocated arguments, then twice with every adjacent layout of the same VALUES in
// one buffer: the verdict must be the same and the caller's buffer (spare capacity included) must be unchanged.
func (e *env) aliasCheck(r *hx.Rng, op, kt string, names []string, parts [][]byte, call func(args [][]byte) string) {
	want := call(exactCopies(parts))

	for _, order := range permutations(len(parts)) {
		ar := newArena(r, parts, order)
		layout := make([]string, len(order))

		for i, o := range order {
			layout[i] = names[o]
		}

		rec := &hx.Record{Kind: "alias", Oracle: "ok",
			Case:  Case{Group: "alias", KT: kt, Variant: op + "/" + strings.Join(layout, "|")},
			Class: fmt.Sprintf("alias/%s/%s/%s", op, kt, strings.Join(layout, "|")),
			Dist:  []string{"group=alias", "op=" + op, "kt=" + kt},
		}

		for round := 1; round <= 2 && rec.Oracle == "ok"; round++ {
			got := call(ar.parts)

			switch {
			case got != want:
				rec.Oracle, rec.Sig = "fail", fmt.Sprintf("alias:%s:%s:result-depends-on-argument-layout", op, kt)
				rec.Detail = fmt.Sprintf("%s with arguments laid out %s in one buffer, call %d: %.80s; with separately allocated arguments: %.80s",
					op, strings.Join(layout, "|"), round, got, want)
			case !ar.intact():
				rec.Oracle, rec.Sig = "fail", fmt.Sprintf("alias:%s:%s:caller-buffer-modified", op, kt)
				rec.Detail = fmt.Sprintf("%s with arguments laid out %s in one buffer modified the caller's memory (call %d)", op, strings.Join(layout, "|"), round)
			}
		}

		rec.Observed = map[string]interface{}{"verdict": fmt.Sprintf("%.40s", want), "intact": ar.intact()}
		e.tr.Put(rec)
	}
}

func verdict(b []byte, err error) string {
	if err != nil {
		return "err"
	}

	return "ok:" + hex.EncodeToString(b)
}

func (e *env) runAlias(sigs, aeads, macs []int) {
	a, b := &party{newKMS()}, &party{newKMS()}
	r := e.rng.Fork(19000)

	for _, i := range sigs {
		kt := e.names[i]

		sk, err := e.makeSigKey(a, b, kt, true)
		if err != nil {
			continue
		}

		msg := r.Bytes(1 + r.Intn(60))

		sig, err := e.sign(kt, sk.kh, msg)
		if err != nil {
			continue
		}

		// Sign is randomised for ECDSA: the verdict is whether what it produced verifies
		e.aliasCheck(r, "Sign", kt, []string{"msg"}, [][]byte{msg}, func(p [][]byte) string {
			s2, e2 := e.sign(kt, sk.kh, p[0])
			if e2 != nil {
				return "err"
			}

			return fmt.Sprint("verifies=", e.verify(kt, sk.pubSame, s2, msg) == nil)
		})

		vh := sk.pubSame
		if sk.pubImp != nil {
			vh = sk.pubImp
		}

		for _, variant := range []string{"genuine", "altered"} {
			sg := sig
			if variant == "altered" {
				sg = Alt{"sub", r.Intn(len(sig)), 3}.apply(sig)
			}

			e.aliasCheck(r, "Verify-"+variant, kt, []string{"sig", "msg"}, [][]byte{sg, msg}, func(p [][]byte) string {
				return fmt.Sprint(e.verify(kt, vh, p[0], p[1]) == nil)
			})

			if _, ok := pkvVerify(kt, sk.pubRaw, msg, sg); ok {
				_, pt := primaryInfo(sk.kh)
				if pt == tinkpb.OutputPrefixType_RAW {
					e.aliasCheck(r, "PublicKeyVerifier-"+variant, kt, []string{"sig", "msg"}, [][]byte{sg, msg}, func(p [][]byte) string {
						verr, _ := pkvVerify(kt, sk.pubRaw, p[1], p[0])
						return fmt.Sprint(verr == nil)
					})
				}
			}
		}
	}

	aeadNames := make([]string, 0, len(aeads))
	for _, i := range aeads {
		aeadNames = append(aeadNames, e.names[i])
	}

	for _, kt := range aeadNames {
		for _, rot := range []int{0, 2} {
			stages, _, err := rotations(a.kms, kt, rot)
			if err != nil {
				continue
			}

			kh := stages[len(stages)-1]
			msg, aad := r.Bytes(1+r.Intn(80)), r.Bytes(1+r.Intn(30))
			op := fmt.Sprintf("rot%d", rot)

			e.aliasCheck(r, "Encrypt-"+op, kt, []string{"msg", "aad"}, [][]byte{msg, aad}, func(p [][]byte) string {
				c, n, e2 := e.crypto.Encrypt(p[0], p[1], kh)
				if e2 != nil {
					return "err"
				}

				return verdict(e.crypto.Decrypt(c, aad, n, kh))
			})

			// ciphertext made under the FIRST stage, decrypted under the last one
			ct, nonce, err := e.crypto.Encrypt(msg, aad, stages[0])
			if err != nil {
				continue
			}

			for _, variant := range []string{"genuine", "altered"} {
				c2 := ct
				if variant == "altered" {
					c2 = Alt{"sub", r.Intn(len(ct)), 5}.apply(ct)
				}

				e.aliasCheck(r, "Decrypt-"+variant+"-"+op, kt, []string{"nonce", "aad", "cipher"}, [][]byte{nonce, aad, c2}, func(p [][]byte) string {
					return verdict(e.crypto.Decrypt(p[2], p[1], p[0], kh))
				})
			}
		}
	}

	for _, i := range macs {
		kt := e.names[i]

		stages, _, err := rotations(a.kms, kt, 1)
		if err != nil {
			continue
		}

		data := r.Bytes(1 + r.Intn(60))

		tag, err := e.crypto.ComputeMAC(data, stages[0])
		if err != nil {
			continue
		}

		e.aliasCheck(r, "ComputeMAC", kt, []string{"data"}, [][]byte{data}, func(p [][]byte) string {
			return verdict(e.crypto.ComputeMAC(p[0], stages[1]))
		})

		for _, variant := range []string{"genuine", "altered"} {
			tg := tag
			if variant == "altered" {
				tg = Alt{"sub", r.Intn(len(tag)), 9}.apply(tag)
			}

			e.aliasCheck(r, "VerifyMAC-"+variant, kt, []string{"mac", "data"}, [][]byte{tg, data}, func(p [][]byte) string {
				return fmt.Sprint(e.crypto.VerifyMAC(p[0], p[1], stages[1]) == nil)
			})
		}
	}

	for _, kt := range []string{kms.NISTP256ECDHKW, kms.X25519ECDHKW} {
		if e.idx(kt) < 0 {
			continue
		}

		kid, _, err := a.kms.Create(kms.KeyType(kt))
		if err != nil {
			continue
		}

		pb, _, err := a.kms.ExportPubKeyBytes(kid)
		if err != nil {
			continue
		}

		pk := &spicrypto.PublicKey{}
		if json.Unmarshal(pb, pk) != nil {
			continue
		}

		kh, _ := a.kms.Get(kid)
		cek, apu, apv := r.Bytes(32), r.Bytes(8), r.Bytes(8)

		e.aliasCheck(r, "WrapKey", kt, []string{"cek", "apu", "apv"}, [][]byte{cek, apu, apv}, func(p [][]byte) string {
			wk, e2 := e.crypto.WrapKey(p[0], p[1], p[2], pk)
			if e2 != nil {
				return "err"
			}

			w2 := *wk
			w2.APU, w2.APV = apu, apv

			return verdict(e.crypto.UnwrapKey(&w2, kh))
		})

		wk, err := e.crypto.WrapKey(cek, apu, apv, pk)
		if err != nil {
			continue
		}

		e.aliasCheck(r, "UnwrapKey", kt, []string{"encryptedcek", "apu", "apv"}, [][]byte{wk.EncryptedCEK, apu, apv}, func(p [][]byte) string {
			w2 := *wk
			w2.EncryptedCEK, w2.APU, w2.APV = p[0], p[1], p[2]

			return verdict(e.crypto.UnwrapKey(&w2, kh))
		})
	}
}

// ---------- driver ----------

func (e *env) kinds() (sigs, aeads, macs []int) {
	a := &party{newKMS()}

	for i, n := range e.names {
		_, h, err := a.kms.Create(kms.KeyType(n))
		if err != nil {
			continue
		}

		kh, ok := h.(*keyset.Handle)
		if !ok {
			continue
		}

		if _, err := e.crypto.Sign([]byte("x"), kh); err == nil {
			sigs = append(sigs, i)
			continue
		}

		if _, err := e.crypto.SignMulti([][]byte{[]byte("x")}, kh); err == nil {
			sigs = append(sigs, i)
			continue
		}

		if _, _, err := e.crypto.Encrypt([]byte("x"), nil, kh); err == nil {
			aeads = append(aeads, i)
			continue
		}

		if _, err := e.crypto.ComputeMAC([]byte("x"), kh); err == nil {
			macs = append(macs, i)
		}
	}

	return
}

func (e *env) idx(kt string) int {
	for i, n := range e.names {
		if n == kt {
			return i
		}
	}

	return -1
}

func (e *env) runGroup(kind string, c Case) {
	switch c.Group {
	case "sig":
		e.runSig(kind, e.idx(c.KT), c.KT, 2, true)
	case "aead":
		e.runAead(kind, c.KT, 4, nil)
	case "mac":
		e.runMac(kind, c.KT, 2)
	case "kw":
		e.runKW(kind, c.KT, 1)
	case "alias":
		sg, ae, mc := e.kinds()
		e.runAlias(sg, ae, mc)
	case "sigrot":
		e.runSigRot(kind, e.idx(c.KT), c.KT)
	case "bbsshape":
		e.runBbsShapes(kind)
	case "bbstext":
		e.runBbsText(kind)
	case "bbs":
		n, _ := strconv.Atoi(strings.SplitN(c.Variant, "/", 2)[0])
		if n <= 0 {
			n = 260
		}

		e.runBbs(kind, n, 0)
	case "codec", "decode":
		for _, cd := range codecs() {
			if cd.name != c.Enc {
				continue
			}

			if c.Group == "codec" {
				r, _ := new(big.Int).SetString(c.R, 10)
				s, _ := new(big.Int).SetString(c.S, 10)
				e.codecCase(cd, r, s, kind)
			} else {
				b, _ := hex.DecodeString(c.Hex)
				e.decodeCase(cd, b, kind, c.Variant)
			}
		}
	}
}

func main() {
	args := hx.ParseArgs()
	tr := hx.NewTrace(args.Out)

	defer tr.Close()

	repo := os.Getenv("VERIF_REPO")
	if repo == "" {
		repo = "/repo"
	}

	c, err := tinkcrypto.New()
	if err != nil {
		panic(err)
	}

	e := &env{tr: tr, rng: hx.NewRng(args.Seed), names: keyTypeNames(repo), crypto: c, tier: args.Tier}

	if args.Replay != "" {
		b, err := os.ReadFile(args.Replay)
		if err != nil {
			fmt.Fprintln(os.Stderr, err)
			os.Exit(2)
		}

		var f struct {
			Case Case `json:"case"`
		}

		_ = json.Unmarshal(b, &f)
		e.runGroup("replay", f.Case)

		return
	}

	// corpus first
	files, _ := filepath.Glob(filepath.Join(args.Extra, "*.json"))
	sort.Strings(files)

	for _, f := range files {
		b, err := os.ReadFile(f)
		if err != nil {
			continue
		}

		var cf struct {
			Case Case `json:"case"`
		}

		if json.Unmarshal(b, &cf) != nil || cf.Case.Group == "" {
			fmt.Fprintln(os.Stderr, "bad corpus file", f)
			os.Exit(2)
		}

		e.runGroup("corpus:"+filepath.Base(f), cf.Case)
	}

	nCodec, nSigKeys, nLin, nMac := 30, 2, 4, 2
	if args.Tier == "thorough" {
		nCodec, nSigKeys, nLin, nMac = 600, 40, 40, 30
	}

	e.runCodecs(nCodec)

	sigs, aeads, macs := e.kinds()

	var aeadNames []string
	for _, i := range aeads {
		aeadNames = append(aeadNames, e.names[i])
	}

	for _, i := range sigs {
		e.runSig("sig", i, e.names[i], nSigKeys, true)
		e.runSigRot("sigrot", i, e.names[i])
	}

	// BBS+ multi-message signatures: short vectors and vectors longer than 256 (thorough: longer than 65536)
	bbsSizes, bbsGen := []int{1, 3, 8, 258 + int(e.rng.Fork(17).U64()%40)}, 1100
	if args.Tier == "thorough" {
		bbsSizes, bbsGen = append(bbsSizes, 513+int(e.rng.Fork(18).U64()%100), 65538), 66000
	}

	if e.idx(kms.BLS12381G2) >= 0 {
		for bi, n := range bbsSizes {
			g := 0
			if bi == 0 {
				g = bbsGen
			}

			e.runBbs("bbs", n, g)
		}

		e.runBbsShapes("bbsshape")
		e.runBbsText("bbstext")
	}

	for _, i := range aeads {
		e.runAead("aead", e.names[i], nLin, aeadNames)
	}

	for _, i := range macs {
		e.runMac("mac", e.names[i], nMac)
	}

	for _, n := range []string{kms.NISTP256ECDHKW, kms.NISTP384ECDHKW, kms.NISTP521ECDHKW, kms.X25519ECDHKW} {
		if e.idx(n) >= 0 {
			e.runKW("kw", n, nMac)
		}
	}

	e.runAlias(sigs, aeads, macs)
}
