package main

// Key wrapping (WrapKey / UnwrapKey) of the ECDH-KW key types: ECDH-ES and ECDH-1PU (sender handle + tag), AES-KW and
// XC20P-KW, NIST-P and X25519 recipient keys, recipient and sender handles after 0-2 rotations, every field of the
// wrapped key altered at one position.  Every probe is also a case of the Coq model (coq/C04/ModelKW.v).

import (
	"bytes"
	"encoding/base64"
	"encoding/json"
	"fmt"
	"math/big"

	"github.com/google/tink/go/keyset"

	spicrypto "github.com/hyperledger/aries-framework-go/spi/crypto"
	"github.com/hyperledger/aries-framework-go/spi/kms"

	"verifharness/hx"
)

type kwType struct{ typ, crv string }

func kwTypeOf(kt string) kwType {
	switch kt {
	case kms.NISTP256ECDHKW:
		return kwType{"TEC", "C256"}
	case kms.NISTP384ECDHKW:
		return kwType{"TEC", "C384"}
	case kms.NISTP521ECDHKW:
		return kwType{"TEC", "C521"}
	case kms.X25519ECDHKW:
		return kwType{"TOKP", "C25519"}
	}

	return kwType{"TOther", "COther"}
}

// what the Curve string of a public key denotes (hybrid.GetCurve's table)
func crvOfName(n string) string {
	switch n {
	case "NIST_P256", "P-256", "secp256r1":
		return "C256"
	case "NIST_P384", "P-384", "secp384r1":
		return "C384"
	case "NIST_P521", "P-521", "secp521r1":
		return "C521"
	case "X25519", "CURVE25519":
		return "C25519"
	}

	return "COther"
}

func algCoq(a string) string {
	switch a {
	case "ECDH-ES+A256KW":
		return "EsA256"
	case "ECDH-ES+XC20PKW":
		return "EsXC"
	case "ECDH-1PU+A128KW":
		return "PuA128"
	case "ECDH-1PU+A192KW":
		return "PuA192"
	case "ECDH-1PU+A256KW":
		return "PuA256"
	case "ECDH-1PU+XC20PKW":
		return "PuXC"
	}

	return "AlgOther"
}

var kwAlgs = []string{"ECDH-ES+A256KW", "ECDH-ES+XC20PKW", "ECDH-1PU+A128KW", "ECDH-1PU+A192KW", "ECDH-1PU+A256KW",
	"ECDH-1PU+XC20PKW", "ECDH-ES+A128KW"}

// samePoint: do two encodings of a coordinate denote the same value for the derivation (EC: big.Int.SetBytes;
// X25519: copied into 32 bytes, top bit of the last byte ignored)?  Computed independently of the implementation.
func samePoint(okp bool, a, b []byte) bool {
	if !okp {
		return new(big.Int).SetBytes(a).Cmp(new(big.Int).SetBytes(b)) == 0
	}

	if len(a) > 32 || len(b) > 32 {
		return false
	}

	x, y := make([]byte, 32), make([]byte, 32)
	copy(x, a)
	copy(y, b)
	x[31] &= 0x7f
	y[31] &= 0x7f

	return bytes.Equal(x, y)
}

// the alterations of a coordinate the symbolic model is told about; `same` = the one that keeps the point
func coordAlts(r *hx.Rng, okp bool, n int) []Alt {
	out := []Alt{
		{"sub", r.Intn(n), byte(r.Intn(255))},
		{"sub", 0, byte(r.Intn(255))},
		{"ins", n, byte(r.Intn(256))},             // appended byte
		{"ins", 1 + r.Intn(n), byte(r.Intn(256))}, // inserted inside
		{"del", r.Intn(n), 0},
		{"del", n - 1, 0},
	}

	if okp {
		out = append(out, Alt{"sub", 31, 127}, Alt{"sub", 31, byte(r.Intn(127))}) // top bit only / another change of the last byte
	} else {
		out = append(out, Alt{"ins", 0, 0}, Alt{"ins", 0, 1 + byte(r.Intn(255))}) // leading zero / another leading byte
	}

	return out
}

func designatedSame(okp bool, a Alt) bool {
	if okp {
		return a.Kind == "sub" && a.Pos == 31 && a.D == 127
	}

	return a.Kind == "ins" && a.Pos == 0 && a.D == 0
}

type kwStage struct {
	kh  *keyset.Handle
	pub *keyset.Handle
	pk  *spicrypto.PublicKey
}

func (e *env) kwLineage(p *party, kt string, n int) ([]kwStage, error) {
	kid, _, err := p.kms.Create(kms.KeyType(kt))
	if err != nil {
		return nil, err
	}

	var out []kwStage

	for i := 0; ; i++ {
		pb, _, err := p.kms.ExportPubKeyBytes(kid)
		if err != nil {
			return nil, fmt.Errorf("export: %w", err)
		}

		pk := &spicrypto.PublicKey{}
		if err := json.Unmarshal(pb, pk); err != nil {
			return nil, fmt.Errorf("export-format: %w", err)
		}

		h, err := p.kms.Get(kid)
		if err != nil {
			return nil, err
		}

		kh := h.(*keyset.Handle)

		pub, err := kh.Public()
		if err != nil {
			return nil, err
		}

		out = append(out, kwStage{kh, pub, pk})

		if i == n {
			return out, nil
		}

		nk, _, err := p.kms.Rotate(kms.KeyType(kt), kid)
		if err != nil {
			return nil, fmt.Errorf("rotate: %w", err)
		}

		kid = nk
	}
}

func clonePK(p *spicrypto.PublicKey) *spicrypto.PublicKey {
	q := *p
	q.X = append([]byte{}, p.X...)
	q.Y = append([]byte{}, p.Y...)

	return &q
}

type kwProbe struct {
	what   string
	coq    string // kwalt term ("" = not a case of the model)
	w      *spicrypto.RecipientWrappedKey
	tag    []byte
	sender interface{} // nil, *PublicKey or public handle
	rcp    *keyset.Handle
	accept bool // the property's expectation
	strict bool // the expectation is part of the direct oracle (false: the model alone decides)
}

func (e *env) runKW(kind, kt string, nKeys int) {
	a, b := &party{newKMS()}, &party{newKMS()}
	ty := kwTypeOf(kt)
	okp := ty.typ == "TOKP"

	fail := func(sig, detail string) {
		e.tr.Put(&hx.Record{Kind: kind, Oracle: "fail", Sig: sig, Detail: detail, Case: Case{Group: "kw", KT: kt}, Class: "kw/fail/" + sig})
	}

	otherType := kms.X25519ECDHKW
	if okp {
		otherType = kms.NISTP256ECDHKW
	} else if kt == kms.NISTP256ECDHKW {
		otherType = kms.NISTP384ECDHKW
	}

	for ki := 0; ki < nKeys; ki++ {
		r := e.rng.Fork(uint64(13000 + ki))

		rl, err := e.kwLineage(a, kt, 2)
		if err != nil {
			fail("kw:"+kt+":lineage", err.Error())
			return
		}

		sl, err := e.kwLineage(b, kt, 2)
		if err != nil {
			fail("kw:"+kt+":lineage", err.Error())
			return
		}

		ol, err1 := e.kwLineage(a, kt, 0)
		os2, err2 := e.kwLineage(b, kt, 0)
		ot, err3 := e.kwLineage(a, otherType, 0)

		if err1 != nil || err2 != nil || err3 != nil {
			fail("kw:"+kt+":lineage", fmt.Sprint(err1, err2, err3))
			return
		}

		otTy := kwTypeOf(otherType)

		for _, pu := range []bool{false, true} {
			for _, xc := range []bool{false, true} {
				// stages: mostly the same at wrap and unwrap time; sometimes a key that was rotated out since
				rw := r.Intn(3)
				ru := rw
				if r.Intn(4) == 0 {
					ru = r.Intn(3)
				}

				sw := r.Intn(3)
				su := sw
				if pu && r.Intn(5) == 0 {
					su = r.Intn(3)
				}

				// not 0: go-jose's AES key wrap of an EMPTY key is the constant IV block, independent of the kek (RFC 3394 is defined
				// for n >= 2 blocks) - every context "unwraps" it to the empty key; outside the ideal key wrap's domain
				lens := []int{16, 32, 64, 8, 24, 33, 40}
				if pu && !xc {
					lens = []int{32, 48, 64, 32, 48, 64, 16, 40}
				}

				if xc {
					lens = []int{32, 16, 64, 33, 1, 32}
				}

				ceklen := lens[r.Intn(len(lens))]
				defapu := r.Intn(4) == 0

				e.kwOne(kind, kt, ty, r, pu, xc, ceklen, defapu, rw, ru, sw, su, Alt{}, rl, sl, ol[0], os2[0], ot[0], otTy, true)

				// the recipient's exported key altered before WrapKey
				if r.Intn(2) == 0 {
					alts := coordAlts(r, okp, len(rl[rw].pk.X))
					e.kwOne(kind, kt, ty, r, pu, xc, 32, false, rw, rw, sw, sw, alts[r.Intn(len(alts))], rl, sl, ol[0], os2[0], ot[0], otTy, false)
				}
			}
		}
	}
}

// kwOne: one WrapKey, then UnwrapKey under every alteration (all == true) or only the genuine unwrap.
func (e *env) kwOne(kind, kt string, ty kwType, r *hx.Rng, pu, xc bool, ceklen int, defapu bool, rw, ru, sw, su int, walt Alt,
	rl, sl []kwStage, otherR, otherS, otherT kwStage, otTy kwType, all bool) {
	okp := ty.typ == "TOKP"
	cek := r.Bytes(ceklen)
	apu, apv, tag := r.Bytes(2+r.Intn(9)), r.Bytes(1+r.Intn(9)), r.Bytes(1+r.Intn(16))

	if defapu {
		apu = nil
	}

	var wopts []spicrypto.WrapKeyOpts
	if xc {
		wopts = append(wopts, spicrypto.WithXC20PKW())
	}

	if pu {
		wopts = append(wopts, spicrypto.WithSender(sl[sw].kh), spicrypto.WithTag(tag))
	}

	rcp := clonePK(rl[rw].pk)
	waltSame := true

	if walt.on() {
		rcp.X = walt.apply(rcp.X)
		waltSame = samePoint(okp, rcp.X, rl[rw].pk.X)
	}

	variant := fmt.Sprintf("pu=%v/xc=%v/cek=%d/defapu=%v/r=%d,%d/s=%d,%d/walt=%s%d,%d", pu, xc, ceklen, defapu, rw, ru, sw, su, walt.Kind, walt.Pos, walt.D)
	head := fmt.Sprintf("CKw %s %s %v %v %d%%nat %v %d%%nat %d%%nat %d%%nat %d%%nat %s", ty.typ, ty.crv, pu, xc, ceklen, defapu, rw, ru, sw, su, walt.coq())

	mkRec := func(what string) *hx.Record {
		return &hx.Record{Kind: kind, Oracle: "ok", Case: Case{Group: "kw", KT: kt, Variant: variant + "/" + what}}
	}

	var wk *spicrypto.RecipientWrappedKey

	werr, wpanic := func() (err error, p interface{}) {
		defer func() { p = recover() }()

		wk, err = e.crypto.WrapKey(cek, apu, apv, rcp, wopts...)

		return
	}()

	// is this cek length valid for the mode?  (the property's expectation for WrapKey itself)
	validLen := ceklen%8 == 0
	if xc {
		validLen = true
	}

	if pu && !xc {
		validLen = ceklen == 32 || ceklen == 48 || ceklen == 64
	}

	if wpanic != nil || werr != nil {
		rec := mkRec("wrap")
		code := 1

		if wpanic != nil {
			code = 2
			rec.Oracle, rec.Sig = "fail", "kw:"+kt+":wrap-panic"
			rec.Detail = fmt.Sprintf("WrapKey %s panicked: %v", variant, wpanic)
		} else if validLen && (!walt.on() || (okp && len(rcp.X) <= 32)) {
			rec.Oracle, rec.Sig = "fail", "kw:"+kt+":wrap"
			rec.Detail = fmt.Sprintf("WrapKey %s: %v", variant, werr)
		}

		rec.Observed = map[string]interface{}{"wrap": fmt.Sprint(werr, wpanic)}
		rec.Class = fmt.Sprintf("kw/%s/wrap-fails/%v/%v/%d/%s/%d", kt, pu, xc, ceklen, walt.Kind, code)
		rec.Dist = []string{"group=kw", "kt=" + kt, "kw=wrap-fails", fmt.Sprintf("pu=%v", pu), fmt.Sprintf("xc=%v", xc)}

		if !walt.on() || waltSame == designatedSame(okp, walt) {
			rec.Coq = fmt.Sprintf("%s KNone %s %d%%nat %d%%nat", head, "AlgOther", 0, code)
		}

		e.tr.Put(rec)

		return
	}

	if !validLen {
		rec := mkRec("wrap")
		rec.Oracle, rec.Sig = "fail", "kw:"+kt+":wrap-accepts-bad-cek-size"
		rec.Detail = fmt.Sprintf("WrapKey %s succeeded", variant)
		e.tr.Put(rec)

		return
	}

	// the wrapped key's own fields
	if defapu {
		want := base64.RawURLEncoding.EncodeToString(wk.EPK.X)
		if string(wk.APU) != want {
			rec := mkRec("wrap-default-apu")
			rec.Oracle, rec.Sig = "fail", "kw:"+kt+":default-apu"
			rec.Detail = fmt.Sprintf("apu %q, base64url(epk.X) %q", wk.APU, want)
			e.tr.Put(rec)
		}
	} else if !bytes.Equal(wk.APU, apu) {
		rec := mkRec("wrap-apu")
		rec.Oracle, rec.Sig = "fail", "kw:"+kt+":apu-changed"
		e.tr.Put(rec)
	}

	if !bytes.Equal(wk.APV, apv) || wk.KID != rcp.KID || wk.EPK.Type != rcp.Type || crvOfName(wk.EPK.Curve) != ty.crv {
		rec := mkRec("wrap-fields")
		rec.Oracle, rec.Sig = "fail", "kw:"+kt+":wrapped-key-fields"
		rec.Detail = fmt.Sprintf("apv %x/%x kid %q/%q type %q/%q curve %q", wk.APV, apv, wk.KID, rcp.KID, wk.EPK.Type, rcp.Type, wk.EPK.Curve)
		e.tr.Put(rec)
	}

	var spk interface{}
	if pu {
		spk = sl[su].pk
	}

	genuine := !walt.on() || waltSame
	addressed := rw == ru && (!pu || sw == su)

	probes := []kwProbe{{what: "genuine", coq: "KNone", w: wk, tag: tag, sender: spk, rcp: rl[ru].kh, accept: genuine && addressed, strict: addressed}}

	if pu && all {
		// the sender's key handed over as a public keyset handle instead of a PublicKey
		probes = append(probes, kwProbe{what: "genuine-sender-handle", coq: "KNone", w: wk, tag: tag, sender: sl[su].pub, rcp: rl[ru].kh, accept: genuine && addressed, strict: addressed})
	}

	if all && addressed {
		mod := func(f func(w *spicrypto.RecipientWrappedKey)) *spicrypto.RecipientWrappedKey {
			w := *wk
			w.EPK = *clonePK(&wk.EPK)
			f(&w)

			return &w
		}

		add := func(what, coq string, w *spicrypto.RecipientWrappedKey, tg []byte, s interface{}, h *keyset.Handle, accept bool) {
			probes = append(probes, kwProbe{what: what, coq: coq, w: w, tag: tg, sender: s, rcp: h, accept: accept, strict: true})
		}

		for _, al := range edits(r, len(wk.EncryptedCEK), false) {
			al := al
			add("enc-"+al.Kind, "(KEnc "+al.coq()+")", mod(func(w *spicrypto.RecipientWrappedKey) { w.EncryptedCEK = al.apply(wk.EncryptedCEK) }), tag, spk, rl[ru].kh, false)
		}

		for _, al := range []Alt{{"sub", r.Intn(len(wk.APU)), byte(r.Intn(255))}, {"ins", len(wk.APU), byte(r.Intn(256))}, {"del", r.Intn(len(wk.APU)), 0}} {
			al := al
			add("apu-"+al.Kind, "(KApu "+al.coq()+")", mod(func(w *spicrypto.RecipientWrappedKey) { w.APU = al.apply(wk.APU) }), tag, spk, rl[ru].kh, false)
		}

		for _, al := range []Alt{{"sub", r.Intn(len(apv)), byte(r.Intn(255))}, {"ins", r.Intn(len(apv) + 1), byte(r.Intn(256))}, {"del", r.Intn(len(apv)), 0}} {
			al := al
			add("apv-"+al.Kind, "(KApv "+al.coq()+")", mod(func(w *spicrypto.RecipientWrappedKey) { w.APV = al.apply(wk.APV) }), tag, spk, rl[ru].kh, false)
		}

		for _, alg := range kwAlgs {
			alg := alg
			if alg == wk.Alg {
				continue
			}

			add("alg", "(KAlg "+algCoq(alg)+")", mod(func(w *spicrypto.RecipientWrappedKey) { w.Alg = alg }), tag, spk, rl[ru].kh, false)
		}

		for _, al := range coordAlts(r, okp, len(wk.EPK.X)) {
			al := al
			x := al.apply(wk.EPK.X)
			same := samePoint(okp, x, wk.EPK.X)
			coq := "(KEpkX " + al.coq() + ")"

			if same != designatedSame(okp, al) {
				coq = ""
			}

			add("epk.x-"+al.Kind, coq, mod(func(w *spicrypto.RecipientWrappedKey) { w.EPK.X = x }), tag, spk, rl[ru].kh, same)
		}

		if !okp {
			for _, al := range coordAlts(r, false, len(wk.EPK.Y))[:4] {
				al := al
				y := al.apply(wk.EPK.Y)
				add("epk.y-"+al.Kind, "(KEpkY "+al.coq()+")", mod(func(w *spicrypto.RecipientWrappedKey) { w.EPK.Y = y }), tag, spk, rl[ru].kh, samePoint(false, y, wk.EPK.Y))
			}

			for _, cn := range []string{"P-256", "P-384", "P-521", "X25519", "P-257"} {
				cn := cn
				add("epk.curve", "(KEpkCrv "+crvOfName(cn)+")", mod(func(w *spicrypto.RecipientWrappedKey) { w.EPK.Curve = cn }), tag, spk, rl[ru].kh, crvOfName(cn) == ty.crv)
			}
		}

		for _, tn := range []struct{ n, c string }{{"EC", "TEC"}, {"OKP", "TOKP"}, {"oct", "TOther"}} {
			tn := tn
			add("epk.type", "(KEpkTyp "+tn.c+")", mod(func(w *spicrypto.RecipientWrappedKey) { w.EPK.Type = tn.n }), tag, spk, rl[ru].kh, tn.c == ty.typ)
		}

		add("other-recipient", "KOtherRcp", wk, tag, spk, otherR.kh, false)
		add("other-type-recipient", fmt.Sprintf("(KOtherTypeRcp %s %s)", otTy.typ, otTy.crv), wk, tag, spk, otherT.kh, false)

		if pu {
			for _, al := range []Alt{{"sub", r.Intn(len(tag)), byte(r.Intn(255))}, {"ins", len(tag), byte(r.Intn(256))}, {"del", r.Intn(len(tag)), 0}} {
				add("tag-"+al.Kind, "(KTag "+al.coq()+")", wk, al.apply(tag), spk, rl[ru].kh, false)
			}

			add("other-sender", "KOtherSender", wk, tag, otherS.pk, rl[ru].kh, false)
			add("no-sender", "KNoSender", wk, tag, nil, rl[ru].kh, false)

			for _, al := range coordAlts(r, okp, len(sl[su].pk.X)) {
				s2 := clonePK(sl[su].pk)
				s2.X = al.apply(s2.X)
				same := samePoint(okp, s2.X, sl[su].pk.X)
				coq := "(KSenderX " + al.coq() + ")"

				if same != designatedSame(okp, al) {
					coq = ""
				}

				add("sender.x-"+al.Kind, coq, wk, tag, s2, rl[ru].kh, same)
			}
		}
	}

	enclen := len(wk.EncryptedCEK)

	for _, p := range probes {
		var uopts []spicrypto.WrapKeyOpts
		if xc {
			uopts = append(uopts, spicrypto.WithXC20PKW())
		}

		if p.sender != nil {
			uopts = append(uopts, spicrypto.WithSender(p.sender))
		}

		if pu {
			uopts = append(uopts, spicrypto.WithTag(p.tag))
		}

		var out []byte

		uerr, upanic := func() (err error, pn interface{}) {
			defer func() { pn = recover() }()

			out, err = e.crypto.UnwrapKey(p.w, p.rcp, uopts...)

			return
		}()

		code := 1

		switch {
		case upanic != nil:
			code = 2
		case uerr == nil && bytes.Equal(out, cek):
			code = 0
		case uerr == nil:
			code = 3
		}

		rec := mkRec(p.what)
		rec.Observed = map[string]interface{}{"code": code, "err": fmt.Sprint(uerr), "panic": fmt.Sprint(upanic)}
		rec.Class = fmt.Sprintf("kw/%s/%s/%v/%v/%d/%d,%d/%d", kt, p.what, pu, xc, ceklen, rw, ru, code)
		rec.Trivial = p.what == "genuine" && rw == 0 && ru == 0 && !pu && !xc
		rec.Dist = []string{"group=kw", "kt=" + kt, "kw=" + p.what, fmt.Sprintf("pu=%v", pu), fmt.Sprintf("xc=%v", xc),
			fmt.Sprintf("rotations=%d,%d", rw, ru), fmt.Sprintf("code=%d", code)}

		switch {
		case code == 2:
			rec.Oracle, rec.Sig = "fail", "kw:"+kt+":panic"
			rec.Detail = fmt.Sprintf("UnwrapKey %s %s panicked: %v", variant, p.what, upanic)
		case code == 3:
			rec.Oracle, rec.Sig = "fail", "kw:"+kt+":unwraps-to-another-key"
			rec.Detail = fmt.Sprintf("UnwrapKey %s %s returned %x, wrapped %x", variant, p.what, out, cek)
		case p.strict && p.accept && code != 0:
			rec.Oracle, rec.Sig = "fail", "kw:"+kt+":rejects-genuine"
			rec.Detail = fmt.Sprintf("%s %s %s: %v", kt, variant, p.what, uerr)
		case p.strict && !p.accept && code == 0:
			rec.Oracle, rec.Sig = "fail", "kw:"+kt+":accepts-altered"
			rec.Detail = fmt.Sprintf("%s %s %s: unwrapped", kt, variant, p.what)
		}

		if p.coq != "" && (!walt.on() || waltSame == designatedSame(okp, walt)) {
			rec.Coq = fmt.Sprintf("%s %s %s %d%%nat %d%%nat", head, p.coq, algCoq(wk.Alg), enclen, code)
		}

		e.tr.Put(rec)
	}
}
