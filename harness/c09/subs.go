package main

// Several subscribers of the StateMsg stream.  Channel 0 is the harness' own (buffered) observer; channels 1.. are
// unbuffered and served by ONE dispatcher goroutine, so while a subscriber "handles" a message (appends it to its
// stream and performs its scripted reaction: unregister another channel, register a new one) the service is blocked on
// the send to the next subscriber: the interleaving is fixed, no timing involved.  A reaction of the last recipient
// is completed before the service takes its next snapshot by a token the service's middleware pushes through the
// dispatcher (reactions are scripted on PreState messages only: the middleware runs between PreState and PostState).

import (
	"fmt"
	"reflect"
	"sync"

	"github.com/hyperledger/aries-framework-go/pkg/didcomm/common/service"

	"verifharness/hx"
)

// Reaction is what subscriber Sub does on the K-th PreState message it receives.
type Reaction struct {
	Sub  int    `json:"sub"`
	K    int    `json:"k"`
	Kind string `json:"kind"` // unreg | reg
	J    int    `json:"j"`
}

type sEvent struct {
	Pre   bool
	State string
}

type subscriber struct {
	ch     chan service.StateMsg
	stream []sEvent
	pre    int
}

type dispatcher struct {
	w      *world
	mu     sync.Mutex
	subs   []*subscriber // index = subscriber id - 1
	script []Reaction
	syncCh chan struct{}
	quit   chan struct{}
	added  chan struct{}
}

func (w *world) enableSubs(n int, script []Reaction) {
	d := &dispatcher{w: w, script: script, syncCh: make(chan struct{}), quit: make(chan struct{})}
	w.disp = d

	for i := 0; i < n; i++ {
		d.addSub()
	}

	go d.loop()
}

func (d *dispatcher) addSub() *subscriber {
	s := &subscriber{ch: make(chan service.StateMsg)}
	d.subs = append(d.subs, s)
	must(d.w.regEv(s.ch))

	return s
}

func (d *dispatcher) loop() {
	for {
		d.mu.Lock()
		cases := []reflect.SelectCase{
			{Dir: reflect.SelectRecv, Chan: reflect.ValueOf(d.quit)},
			{Dir: reflect.SelectRecv, Chan: reflect.ValueOf(d.syncCh)},
		}

		for _, s := range d.subs {
			cases = append(cases, reflect.SelectCase{Dir: reflect.SelectRecv, Chan: reflect.ValueOf(s.ch)})
		}
		d.mu.Unlock()

		i, v, _ := reflect.Select(cases)

		switch i {
		case 0:
			return
		case 1:
			continue
		}

		m, _ := v.Interface().(service.StateMsg) //nolint:errcheck
		id := i - 1                              // subscriber id

		d.mu.Lock()
		s := d.subs[id-1]
		s.stream = append(s.stream, sEvent{Pre: m.Type == service.PreState, State: m.StateID})

		if m.Type == service.PreState {
			s.pre++

			for _, r := range d.script {
				if r.Sub != id || r.K != s.pre {
					continue
				}

				switch r.Kind {
				case "unreg":
					if r.J >= 1 && r.J <= len(d.subs) {
						must(d.w.unregEv(d.subs[r.J-1].ch))
					}
				case "reg":
					if r.J == len(d.subs)+1 {
						d.addSub()
					}
				}
			}
		}
		d.mu.Unlock()
	}
}

// sync returns once the dispatcher has finished everything it received before.
func (w *world) sync() {
	if w.disp != nil {
		w.disp.syncCh <- struct{}{}
	}
}

func (w *world) closeSubs() {
	if w.disp != nil {
		close(w.disp.quit)
	}
}

func coqSEvents(n *numbering, evs []sEvent) string {
	var l []string
	for _, e := range evs {
		l = append(l, fmt.Sprintf("(%s, %d)", hx.CoqBool(e.Pre), n.st(e.State)))
	}

	return hx.CoqList(l)
}

func coqScript(sc []Reaction) string {
	var l []string

	for _, r := range sc {
		k := "RUnreg"
		if r.Kind == "reg" {
			k = "RReg"
		}

		l = append(l, fmt.Sprintf("(%d%%nat, %d%%nat, %s %d%%nat)", r.Sub, r.K, k, r.J))
	}

	return hx.CoqList(l)
}

// subScripts lists the reaction scripts tried on a history with n0 channels (0 = the observer, 1..n0-1 scripted).
func subScripts(n0 int) [][]Reaction {
	var out [][]Reaction

	for i := 1; i < n0; i++ {
		for k := 1; k <= 2; k++ {
			for j := 1; j < n0; j++ {
				out = append(out, []Reaction{{Sub: i, K: k, Kind: "unreg", J: j}})
			}

			out = append(out, []Reaction{{Sub: i, K: k, Kind: "reg", J: n0}})
			out = append(out, []Reaction{{Sub: i, K: k, Kind: "unreg", J: 1 + i%(n0-1)}, {Sub: i, K: k, Kind: "reg", J: n0}})
		}
	}

	return out
}
