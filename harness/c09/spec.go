package main

import (
	"strings"

	"verifharness/hx"
)

// spec is the harness' copy of the PUBLISHED state graph of a protocol (coq/C09/Spec.v holds the reference;
// a SpecIs case emitted on every run makes Coq compare the two, so they cannot drift apart).
type spec struct {
	Edges    [][2]string
	Terminal []string
	Abandon  string
	Start    string
	Targets  []specTarget
}

type specTarget struct {
	Msg      string
	Outbound bool
	State    string
}

var specs = map[string]*spec{
	"ic": {
		Edges: [][2]string{
			{"start", "proposal-received"}, {"start", "offer-sent"}, {"start", "request-received"},
			{"proposal-received", "offer-sent"}, {"offer-sent", "proposal-received"}, {"offer-sent", "request-received"},
			{"request-received", "credential-issued"}, {"credential-issued", "done"},
			{"start", "proposal-sent"}, {"start", "offer-received"}, {"start", "request-sent"},
			{"proposal-sent", "offer-received"}, {"offer-received", "proposal-sent"}, {"offer-received", "request-sent"},
			{"request-sent", "credential-received"}, {"credential-received", "done"},
			{"abandoning", "done"},
		},
		Terminal: []string{"done"}, Abandon: "abandoning", Start: "start",
		Targets: []specTarget{
			{"propose", false, "proposal-received"}, {"propose", true, "proposal-sent"},
			{"offer", false, "offer-received"}, {"offer", true, "offer-sent"},
			{"request", false, "request-received"}, {"request", true, "request-sent"},
			{"issue", false, "credential-received"}, {"issue", true, "credential-received"},
			{"ack", false, "done"}, {"ack", true, "done"},
			{"problem-report", false, "abandoning"}, {"problem-report", true, "abandoning"},
		},
	},
	"pp": {
		Edges: [][2]string{
			{"start", "request-sent"}, {"start", "proposal-received"}, {"proposal-received", "request-sent"},
			{"request-sent", "presentation-received"}, {"request-sent", "proposal-received"},
			{"presentation-received", "done"},
			{"start", "proposal-sent"}, {"start", "request-received"}, {"proposal-sent", "request-received"},
			{"request-received", "presentation-sent"}, {"request-received", "proposal-sent"},
			{"presentation-sent", "done"},
		},
		Terminal: []string{"done", "abandoned"}, Abandon: "abandoned", Start: "start",
		Targets: []specTarget{
			{"propose", false, "proposal-received"}, {"propose", true, "proposal-sent"},
			{"request", false, "request-received"}, {"request", true, "request-sent"},
			{"presentation", false, "presentation-received"}, {"presentation", true, "presentation-received"},
			{"ack", false, "done"}, {"ack", true, "done"},
			{"problem-report", false, "abandoned"}, {"problem-report", true, "abandoned"},
		},
	},
	"intro": {
		Edges: [][2]string{
			{"start", "arranging"}, {"arranging", "arranging"}, {"arranging", "delivering"}, {"arranging", "done"},
			{"delivering", "confirming"}, {"delivering", "done"}, {"confirming", "done"},
			{"start", "requesting"}, {"start", "deciding"}, {"requesting", "deciding"}, {"requesting", "done"},
			{"deciding", "waiting"}, {"deciding", "done"}, {"waiting", "done"},
			{"abandoning", "done"},
		},
		Terminal: []string{"done"}, Abandon: "abandoning", Start: "start",
		Targets: []specTarget{
			{"proposal", false, "deciding"}, {"proposal", true, "arranging"},
			{"request", false, "arranging"}, {"request", true, "requesting"},
			{"response", false, "arranging"}, {"response", true, "arranging"},
			{"ack", false, "done"}, {"ack", true, "done"},
			{"problem-report", false, "abandoning"}, {"problem-report", true, "abandoning"},
		},
	},
}

func init() {
	chain := [][2]string{{"null", "invited"}, {"null", "requested"}, {"invited", "requested"}, {"requested", "responded"},
		{"responded", "completed"}}
	specs["didex"] = &spec{
		Edges: chain, Terminal: []string{"completed", "abandoned"}, Abandon: "abandoned", Start: "null",
		Targets: []specTarget{
			{"invitation", false, "invited"}, {"oob-invitation", false, "invited"}, {"request", false, "requested"},
			{"response", false, "responded"}, {"ack", false, "completed"}, {"complete", false, "completed"},
		},
	}
	specs["legacy"] = &spec{
		Edges: chain, Terminal: []string{"completed"}, Abandon: "abandoned", Start: "null",
		Targets: []specTarget{
			{"invitation", false, "invited"}, {"request", false, "requested"}, {"response", false, "responded"},
			{"ack", false, "completed"},
		},
	}
}

func (s *spec) terminal(a string) bool {
	for _, t := range s.Terminal {
		if t == a {
			return true
		}
	}

	return false
}

// edge is the published relation: a listed edge, or abandoning a non-terminal state.
func (s *spec) edge(a, b string) bool {
	for _, e := range s.Edges {
		if e[0] == a && e[1] == b {
			return true
		}
	}

	return b == s.Abandon && !s.terminal(a)
}

func (s *spec) target(msg string, outbound bool) string {
	for _, t := range s.Targets {
		if t.Msg == msg && t.Outbound == outbound {
			return t.State
		}
	}

	return ""
}

var coqProto = map[string]string{"ic": "PIC", "pp": "PPP", "intro": "PIntro", "didex": "PDidex", "legacy": "PLegacy"}

// coqSpecCase prints the SpecIs case of a protocol.
func coqSpecCase(p string) string {
	s := specs[p]

	var e, t, tg []string
	for _, x := range s.Edges {
		e = append(e, "("+hx.CoqString(x[0])+", "+hx.CoqString(x[1])+")")
	}

	for _, x := range s.Terminal {
		t = append(t, hx.CoqString(x))
	}

	for _, x := range s.Targets {
		tg = append(tg, "("+hx.CoqString(x.Msg)+", "+hx.CoqBool(x.Outbound)+", "+hx.CoqString(x.State)+")")
	}

	return "SpecIs " + coqProto[p] + " " + hx.CoqList(e) + " " + hx.CoqList(t) + " " + hx.CoqString(s.Abandon) + " " +
		hx.CoqString(s.Start) + " " + hx.CoqList(tg)
}

func join(l []string) string { return strings.Join(l, ",") }
