package main

// Driver for the service loops of DID Exchange and legacy Connection: two REAL frameworks (inviter A, invitee B;
// real KMS, VDR, packager, connection store) joined by an in-process transport that captures every packed
// message.  The harness is the scheduler: it delivers captured messages in any order and any number of times,
// invokes the action-event callbacks (Continue / Stop) and the API decisions (AcceptInvitation /
// AcceptExchangeRequest / AcceptConnectionRequest) at any time, also twice, after completion and after abandon,
// and records per op the announced states (StateMsg stream of the service) and the persisted state of the
// thread (connection record in the harness-owned protocol state store).

import (
	"encoding/json"
	"fmt"
	"strconv"
	"strings"
	"sync"
	"time"

	"github.com/hyperledger/aries-framework-go/component/storageutil/mem"
	dxclient "github.com/hyperledger/aries-framework-go/pkg/client/didexchange"
	lcclient "github.com/hyperledger/aries-framework-go/pkg/client/legacyconnection"
	"github.com/hyperledger/aries-framework-go/pkg/didcomm/common/service"
	"github.com/hyperledger/aries-framework-go/pkg/didcomm/protocol/didexchange"
	"github.com/hyperledger/aries-framework-go/pkg/didcomm/protocol/legacyconnection"
	"github.com/hyperledger/aries-framework-go/pkg/didcomm/transport"
	"github.com/hyperledger/aries-framework-go/pkg/framework/aries"
	"github.com/hyperledger/aries-framework-go/pkg/framework/context"
	connstore "github.com/hyperledger/aries-framework-go/pkg/store/connection"
	spilog "github.com/hyperledger/aries-framework-go/spi/log"
	"github.com/hyperledger/aries-framework-go/spi/storage"

	"verifharness/c09tab"
	"verifharness/hx"
)

// ---------- completion signal of the HandleInbound goroutines ----------
// didexchange/legacyconnection HandleInbound work in a goroutine that ends with the debug line
// `command=[..] action=[processMessage] .. msg=[success]` (also after a logged error).  A logger provider installed
// before anything is logged counts those lines: the harness waits for one line per accepted HandleInbound.

type doneCounter struct {
	mu   sync.Mutex
	cond *sync.Cond
	n    int
}

var inboundDone = func() *doneCounter {
	d := &doneCounter{}
	d.cond = sync.NewCond(&d.mu)

	return d
}()

type nullLogger struct{ count bool }

func (l *nullLogger) Panicf(msg string, args ...interface{}) { panic(fmt.Sprintf(msg, args...)) }
func (l *nullLogger) Fatalf(msg string, args ...interface{}) { panic(fmt.Sprintf(msg, args...)) }
func (l *nullLogger) Errorf(string, ...interface{})          {}
func (l *nullLogger) Warnf(string, ...interface{})           {}
func (l *nullLogger) Infof(string, ...interface{})           {}
func (l *nullLogger) Debugf(msg string, args ...interface{}) {
	if !l.count || !strings.HasPrefix(msg, "command=[%s] action=[%s]") || len(args) < 4 {
		return
	}

	if a, ok := args[1].(string); !ok || a != "processMessage" {
		return
	}

	if m, ok := args[3].(string); !ok || m != "success" {
		return
	}

	inboundDone.mu.Lock()
	inboundDone.n++
	inboundDone.cond.Broadcast()
	inboundDone.mu.Unlock()
}

type logProvider struct{}

const (
	modDidex  = "aries-framework/did-exchange/service"
	modLegacy = "aries-framework/legacyconnection/service"
)

func (logProvider) GetLogger(module string) spilog.Logger {
	return &nullLogger{count: module == modDidex || module == modLegacy}
}

// waitInbound waits until n HandleInbound goroutines have finished since the counter was at base.
func waitInbound(base, n int) bool {
	deadline := time.Now().Add(20 * time.Second)

	inboundDone.mu.Lock()
	defer inboundDone.mu.Unlock()

	for inboundDone.n < base+n {
		if time.Now().After(deadline) {
			return false
		}

		t := time.AfterFunc(50*time.Millisecond, inboundDone.cond.Broadcast)
		inboundDone.cond.Wait()
		t.Stop()
	}

	return true
}

func inboundBase() int {
	inboundDone.mu.Lock()
	defer inboundDone.mu.Unlock()

	return inboundDone.n
}

// ---------- in-process transport ----------

const connScheme = "http://c09-"

type connInbound struct {
	endpoint string
	prov     transport.Provider
}

func (i *connInbound) Start(prov transport.Provider) error { i.prov = prov; return nil }
func (i *connInbound) Stop() error                         { return nil }
func (i *connInbound) Endpoint() string                    { return i.endpoint }

type packet struct {
	To   string
	Data []byte
	Type string // short message name, peeked
	// thread identifiers of the message as captured ("" = absent)
	ID, Thid, Pthid string
}

type connOutbound struct{ w *connWorld }

func (o *connOutbound) Start(transport.Provider) error { return nil }
func (o *connOutbound) AcceptRecipient([]string) bool  { return false }
func (o *connOutbound) Accept(url string) bool         { return strings.HasPrefix(url, connScheme) }
func (o *connOutbound) Send(data []byte, dest *service.Destination) (string, error) {
	uri, err := dest.ServiceEndpoint.URI()
	if err != nil {
		return "", err
	}

	o.w.mu.Lock()
	o.w.packets = append(o.w.packets, &packet{To: uri, Data: append([]byte{}, data...)})
	o.w.mu.Unlock()

	return "", nil
}

var errStopped = fmt.Errorf("verif: the application stopped the protocol")

// ---------- agents ----------

type connSvc interface {
	RegisterActionEvent(chan<- service.DIDCommAction) error
	RegisterMsgEvent(chan<- service.StateMsg) error
	AcceptInvitation(connectionID, publicDID, label string, routerConnections []string) error
	VerifBarrier()
}

// connFault is the storage fault armed for one op on one agent's protocol state store:
// get = the first read fails; put<k> = the k-th write of the connection record (key conn_<id>) fails, writing nothing.
type connFault struct {
	kind  string
	k     int
	n     int
	fired bool
}

var errInjected = fmt.Errorf("verif: injected storage failure")

// faultProvider: the stores outlive the framework instance (Close is a no-op: mem drops a store on Close) and the
// protocol state store "didexchange" consults the agent's armed fault.
type faultProvider struct {
	storage.Provider
	a  *connAgent
	ps bool
}

func (p *faultProvider) Close() error { return nil }
func (p *faultProvider) OpenStore(name string) (storage.Store, error) {
	st, err := p.Provider.OpenStore(name)
	if err != nil {
		return nil, err
	}

	return &faultStore{Store: st, a: p.a, watch: p.ps && name == "didexchange"}, nil
}

type faultStore struct {
	storage.Store
	a     *connAgent
	watch bool
}

func (s *faultStore) Close() error { return nil }

func (s *faultStore) Put(k string, v []byte, tags ...storage.Tag) error {
	// a state write = the connection record with the state being executed (the record a request is registered with
	// before the state machine runs carries the state "null": not a state write)
	if s.watch && strings.HasPrefix(k, "conn_") && !strings.Contains(string(v), `"State":"null"`) {
		s.a.fmu.Lock()
		f := s.a.fault

		if f != nil && f.kind == "put" {
			hit := f.n == f.k
			f.n++

			if hit {
				f.fired = true
				s.a.fmu.Unlock()

				return errInjected
			}
		}

		s.a.fmu.Unlock()
	}

	return s.Store.Put(k, v, tags...)
}

func (s *faultStore) Get(k string) ([]byte, error) {
	if s.watch {
		s.a.fmu.Lock()
		f := s.a.fault

		if f != nil && f.kind == "get" && !f.fired {
			f.fired = true
			s.a.fmu.Unlock()

			return nil, errInjected
		}

		s.a.fmu.Unlock()
	}

	return s.Store.Get(k)
}

type connAgent struct {
	name    string
	thread  int
	index   int
	main    storage.Provider
	psProv  storage.Provider
	fmu     sync.Mutex
	fault   *connFault
	inbound *connInbound
	fw      *aries.Aries
	ctx     *context.Provider
	ps      storage.Store // protocol state store "didexchange" of the harness-owned provider
	svc     connSvc
	accept  func(connID string) error // the role's API decision
	actions chan service.DIDCommAction
	events  chan service.StateMsg
	connID  string
}

type connEvent struct {
	agent   *connAgent
	act     service.DIDCommAction
	connID  string
	used    bool // callback invoked, or an API decision was accepted
	gone    bool // the service that handed out the callback was stopped (restart)
	src     string
	msgName string
}

type connWorld struct {
	delivered map[int]int
	proto     string
	mu        sync.Mutex
	a, b      *connAgent
	packets   []*packet
	evs       []*connEvent
	dx        [2]*dxclient.Client
	lc        [2]*lcclient.Client
}

func newConnAgent(w *connWorld, name string, thread, index int) *connAgent {
	a := &connAgent{name: name, thread: thread, index: index, inbound: &connInbound{endpoint: connScheme + name}}
	a.main = &faultProvider{Provider: mem.NewProvider(), a: a}
	a.psProv = &faultProvider{Provider: mem.NewProvider(), a: a, ps: true}

	return a
}

// build starts a framework instance over the agent's stores (also used for a restart).
func (w *connWorld) build(ag *connAgent) {
	fw, err := aries.New(
		aries.WithStoreProvider(ag.main),
		aries.WithProtocolStateStoreProvider(ag.psProv),
		aries.WithInboundTransport(ag.inbound),
		aries.WithOutboundTransports(&connOutbound{w: w}),
	)
	must(err)

	ag.fw = fw
	ag.ctx, err = fw.Context()
	must(err)

	ag.ps, err = ag.psProv.(*faultProvider).Provider.OpenStore("didexchange")
	must(err)

	ag.actions = make(chan service.DIDCommAction, 16)
	ag.events = make(chan service.StateMsg, 256)
	i := ag.index

	switch w.proto {
	case "didex":
		s, err := ag.ctx.Service(didexchange.DIDExchange)
		must(err)

		svc := s.(*didexchange.Service) //nolint:forcetypeassert
		ag.svc = svc

		if i == 0 {
			ag.accept = func(id string) error { return svc.AcceptExchangeRequest(id, "", "", nil) }
		} else {
			ag.accept = func(id string) error { return svc.AcceptInvitation(id, "", "", nil) }
		}

		c, err := dxclient.New(ag.ctx)
		must(err)

		w.dx[i] = c
	case "legacy":
		s, err := ag.ctx.Service(legacyconnection.LegacyConnection)
		must(err)

		svc := s.(*legacyconnection.Service) //nolint:forcetypeassert
		ag.svc = svc

		if i == 0 {
			ag.accept = func(id string) error { return svc.AcceptConnectionRequest(id, "", "", nil) }
		} else {
			ag.accept = func(id string) error { return svc.AcceptInvitation(id, "", "", nil) }
		}

		c, err := lcclient.New(ag.ctx)
		must(err)

		w.lc[i] = c
	}

	must(ag.svc.RegisterActionEvent(ag.actions))
	must(ag.svc.RegisterMsgEvent(ag.events))
}

func newConnWorld(proto string) *connWorld {
	w := &connWorld{proto: proto}
	w.a = newConnAgent(w, "a", 1, 0)
	w.b = newConnAgent(w, "b", 2, 1)
	w.build(w.a)
	w.build(w.b)

	return w
}

// restart stops both framework instances and starts new ones over the same stores; the callbacks handed out before
// are gone with the services that made them.
func (w *connWorld) restart() {
	for _, ag := range []*connAgent{w.a, w.b} {
		ag.stopServices()
		_ = ag.fw.Close() //nolint:errcheck
		w.build(ag)
	}

	for _, e := range w.evs {
		e.gone = true
	}
}

// stopServices ends the listener goroutines of the framework instance's protocol services (aries.Close leaves them
// running and the services offer no way to stop them: verif hooks VerifStop), once the service in use is idle.
func (a *connAgent) stopServices() {
	a.svc.VerifBarrier()

	for _, svc := range a.ctx.AllServices() {
		switch x := svc.(type) {
		case interface{ VerifStop() }:
			x.VerifStop()
		case interface{ VerifStop() bool }:
			x.VerifStop()
		}
	}
}

func (a *connAgent) arm(f string) {
	a.fmu.Lock()
	defer a.fmu.Unlock()

	switch {
	case f == "get":
		a.fault = &connFault{kind: "get"}
	case strings.HasPrefix(f, "put"):
		k, _ := strconv.Atoi(f[3:]) //nolint:errcheck
		a.fault = &connFault{kind: "put", k: k}
	default:
		a.fault = nil
	}
}

// disarm removes the fault and says whether it fired.
func (a *connAgent) disarm() bool {
	a.fmu.Lock()
	defer a.fmu.Unlock()

	fired := a.fault != nil && a.fault.fired
	a.fault = nil

	return fired
}

func (w *connWorld) close() {
	for _, ag := range []*connAgent{w.a, w.b} {
		ag.stopServices()
		_ = ag.fw.Close() //nolint:errcheck

		// the case is over: drop the stores (mem frees a store's data on Close; goroutines the framework leaves behind
		// would otherwise keep every case's data alive)
		for _, pr := range []storage.Provider{ag.main, ag.psProv} {
			_ = pr.(*faultProvider).Provider.Close() //nolint:errcheck,forcetypeassert
		}
	}

	w.packets, w.evs = nil, nil
}

func (w *connWorld) agentAt(endpoint string) *connAgent {
	if endpoint == w.a.inbound.endpoint {
		return w.a
	}

	return w.b
}

// persisted reads the thread's state as the service itself will read it (protocol state store).
func (a *connAgent) persisted() string {
	if a.connID == "" {
		return "null"
	}

	b, err := a.ps.Get("conn_" + a.connID)
	if err != nil {
		return "null"
	}

	var r struct{ State string }
	if json.Unmarshal(b, &r) != nil || r.State == "" {
		return "null"
	}

	return r.State
}

// nextOfEvent reads the continuation the service stored with the action event.
func (a *connAgent) nextOfEvent() string {
	b, err := a.ps.Get("connevent_" + a.connID)
	if err != nil {
		return ""
	}

	var r struct{ NextStateName string }
	_ = json.Unmarshal(b, &r) //nolint:errcheck

	return r.NextStateName
}

type connIDer interface{ ConnectionID() string }

// drain collects the announced states of an agent: Pre/Post pairs, a lone Pre (the state failed), or the lone
// Post of `abandoned`.
func (a *connAgent) drain() (ann []string, failed []bool, bad string) {
	var evs []service.StateMsg

	for {
		select {
		case e := <-a.events:
			evs = append(evs, e)
			continue
		default:
		}

		break
	}

	for i := 0; i < len(evs); i++ {
		e := evs[i]
		// the record the thread is mapped to (a request that is accepted again after a failed write registers a new one)
		if p, ok := e.Properties.(connIDer); ok && p.ConnectionID() != "" {
			a.connID = p.ConnectionID()
		}

		switch {
		case e.Type == service.PreState && i+1 < len(evs) && evs[i+1].Type == service.PostState && evs[i+1].StateID == e.StateID:
			ann = append(ann, e.StateID)
			failed = append(failed, false)
			i++
		case e.Type == service.PreState:
			ann = append(ann, e.StateID)
			failed = append(failed, true)
		case e.Type == service.PostState && e.StateID == "abandoned":
			ann = append(ann, e.StateID)
			failed = append(failed, false)
		default:
			bad = fmt.Sprintf("unpaired state event %v %s", e.Type, e.StateID)
		}
	}

	if ann == nil {
		ann = []string{}
	}

	return ann, failed, bad
}

func (w *connWorld) drainActions(a *connAgent, src, msgName string) int {
	n := 0

	for {
		select {
		case act := <-a.actions:
			id := a.connID
			if p, ok := act.Properties.(connIDer); ok {
				id = p.ConnectionID()
			}

			w.evs = append(w.evs, &connEvent{agent: a, act: act, connID: id, src: src, msgName: msgName})
			n++

			continue
		default:
		}

		break
	}

	return n
}

var connShort = map[string]map[string]string{}

func initConnTypes() {
	connShort["didex"] = map[string]string{}
	for k, v := range didexchange.VerifMsgTypes() {
		connShort["didex"][v] = k
	}

	connShort["legacy"] = map[string]string{}
	for k, v := range legacyconnection.VerifMsgTypes() {
		connShort["legacy"][v] = k
	}
}

func (w *connWorld) peek(p *packet) {
	if p.Type != "" {
		return
	}

	ag := w.agentAt(p.To)

	env, err := ag.inbound.prov.Packager().UnpackMessage(p.Data)
	if err != nil {
		p.Type = "?"
		return
	}

	var m struct {
		Type   string `json:"@type"`
		ID     string `json:"@id"`
		Thread struct {
			Thid  string `json:"thid"`
			Pthid string `json:"pthid"`
		} `json:"~thread"`
	}

	_ = json.Unmarshal(env.Message, &m) //nolint:errcheck

	p.ID, p.Thid, p.Pthid = m.ID, m.Thread.Thid, m.Thread.Pthid

	p.Type = connShort[w.proto][m.Type]
	if p.Type == "" {
		p.Type = "?"
	}
}

// connShapes: the ways a captured message is delivered with re-written thread identifiers (id, thid, pthid of the
// captured message -> id, thid, pthid as delivered; "" = absent; F = an identifier nobody has seen).  Published
// threading rule: thid names the thread; without thid the message's own id does.
const nConnShapes = 7

func connShape(k int, id, thid, pthid string) (string, string, string) {
	const f = "c09-never-seen-id"

	switch k {
	case 1: // threaded on its parent thread
		if pthid == "" {
			return id, f, f
		}

		return id, pthid, pthid
	case 2: // a never-seen thread that is also given as parent
		return id, f, f
	case 3: // a new id, thread decorator kept
		return f, thid, pthid
	case 4: // a never-seen thread, id kept
		return id, f, pthid
	case 5: // no thid: the thread is the message's own id
		return id, "", pthid
	case 6: // a new id threaded explicitly on the captured thread (or on its captured id)
		if thid == "" {
			return f, id, pthid
		}

		return f, thid, pthid
	case 7: // id and thid swapped in meaning: the thread named by the parent, parent by the thread
		return id, pthid, thid
	}

	return id, thid, pthid
}

// reshape re-writes the thread identifiers of a plaintext message.
func reshape(msg []byte, id, thid, pthid string) ([]byte, error) {
	var m map[string]interface{}
	if err := json.Unmarshal(msg, &m); err != nil {
		return nil, err
	}

	if id == "" {
		delete(m, "@id")
	} else {
		m["@id"] = id
	}

	th := map[string]interface{}{}
	if old, ok := m["~thread"].(map[string]interface{}); ok {
		th = old
	}

	delete(th, "thid")
	delete(th, "pthid")

	if thid != "" {
		th["thid"] = thid
	}

	if pthid != "" {
		th["pthid"] = pthid
	}

	if len(th) > 0 {
		m["~thread"] = th
	} else {
		delete(m, "~thread")
	}

	return json.Marshal(m)
}

// threadState reads the persisted state of the thread (namespace, thread id) the way the service finds it: through
// the namespaced thread mapping of the protocol state store.
func (a *connAgent) threadState(my bool, thid string) string {
	if thid == "" {
		return "null"
	}

	prefix := connstore.TheirNSPrefix
	if my {
		prefix = connstore.MyNSPrefix
	}

	key, err := connstore.CreateNamespaceKey(prefix, thid)
	if err != nil {
		return "null"
	}

	id, err := a.ps.Get(key)
	if err != nil {
		return "null"
	}

	b, err := a.ps.Get("conn_" + string(id))
	if err != nil {
		return "null"
	}

	var r struct{ State string }
	if json.Unmarshal(b, &r) != nil || r.State == "" {
		return "null"
	}

	return r.State
}

// honestThread is the thread id of the exchange the two agents run (the @id of the first captured request).
func (w *connWorld) honestThread() string {
	for _, p := range w.packets {
		w.peek(p)

		if p.Type == "request" {
			return p.ID
		}
	}

	return ""
}

// ConnOp is one operation of a connection-protocol history.
// invite | deliver(Pkt) | continue(Ev) | stop(Ev) | accept(Ev)

func (w *connWorld) apply(op Op) (o Obs, bad string) {
	o.FiredAt = -1

	finish := func(a *connAgent, msgName string) {
		var failed []bool

		fired := a.disarm()
		o.Fired = fired

		o.Ann, failed, bad = a.drain()
		o.Thread = a.thread
		o.Post = a.persisted()

		if n := w.drainActions(a, o.Post, msgName); n > 0 && o.Res == "ok" {
			o.Res = "action"
		}

		// follow-up tape: what each executed non-terminal state was followed by
		sp := specs[w.proto]
		for i, c := range o.Ann {
			if sp.terminal(c) {
				continue
			}

			switch {
			case failed[i] && fired:
				// the state failed at the injected storage fault, not at its Execute
				o.Tape = append(o.Tape, "noop")
			case failed[i]:
				o.Tape = append(o.Tape, "!")
			case i+1 < len(o.Ann):
				o.Tape = append(o.Tape, o.Ann[i+1])
			case o.Res == "action":
				o.Tape = append(o.Tape, a.nextOfEvent())
			default:
				o.Tape = append(o.Tape, "noop")
			}
		}
	}

	switch op.Kind {
	case "restart":
		w.restart()

		o.Res, o.Ann, o.Thread = "ok", []string{}, -1

		return o, ""
	case "invite":
		o.Pre = w.b.persisted()
		base := inboundBase()

		var (
			id  string
			err error
		)

		if w.proto == "didex" {
			inv, e := w.dx[0].CreateInvitation("a")
			must(e)

			id, err = w.dx[1].HandleInvitation(inv)
		} else {
			inv, e := w.lc[0].CreateInvitation("a")
			must(e)

			id, err = w.lc[1].HandleInvitation(inv)
		}

		if err != nil {
			o.Res, o.Err = "reject", err.Error()
		} else {
			o.Res = "ok"
			w.b.connID = id

			if !waitInbound(base, 1) {
				bad = "HandleInbound goroutine did not finish"
			}
		}

		finish(w.b, "invitation")
	case "deliver":
		if op.Ev < 0 || op.Ev >= len(w.packets) {
			o.Res, o.Ann, o.Thread = "noevent", []string{}, -1
			return o, ""
		}

		p := w.packets[op.Ev]
		w.peek(p)

		if w.delivered == nil {
			w.delivered = map[int]int{}
		}

		w.delivered[op.Ev]++

		a := w.agentAt(p.To)
		o.Pre = a.persisted()
		base := inboundBase()

		env, err := a.inbound.prov.Packager().UnpackMessage(p.Data)

		var (
			shaped         bool
			my             bool
			specT, honestT string
			hpre           string
		)

		if err == nil && op.Shape > 0 {
			// the captured message with re-written thread identifiers; judged against the thread the PUBLISHED rule names
			id, thid, pthid := connShape(op.Shape, p.ID, p.Thid, p.Pthid)

			var nm []byte

			if nm, err = reshape(env.Message, id, thid, pthid); err == nil {
				env.Message = nm
				shaped, my = true, connTabs[w.proto].ns[p.Type]
				specT = thid

				if specT == "" {
					specT = id
				}

				honestT = w.honestThread()
				hpre = a.threadState(a.index == 1, honestT)
				o.Pre = a.threadState(my, specT)
				o.WireID, o.WireTh, o.WirePth = id, thid, pthid
			}
		}

		if shaped {
			defer func() {
				o.Post = a.threadState(my, specT)

				// the thread of the honest exchange is another thread unless the message names it
				if hpost := a.threadState(a.index == 1, honestT); hpost != hpre && !(specT == honestT && my == (a.index == 1)) {
					o.Written = []string{honestT + ": " + hpre + " -> " + hpost}
				}
			}()
		}

		if err == nil {
			a.arm(op.Fault)
			err = a.inbound.prov.InboundMessageHandler()(env)
		}

		if err != nil {
			o.Res, o.Err = "reject", err.Error()
		} else {
			o.Res = "ok"

			if !waitInbound(base, 1) {
				bad = "HandleInbound goroutine did not finish"
			}
		}

		finish(a, p.Type)
	case "continue", "stop", "accept":
		if op.Ev < 0 || op.Ev >= len(w.evs) {
			o.Res, o.Ann, o.Thread = "noevent", []string{}, -1
			return o, ""
		}

		e := w.evs[op.Ev]
		a := w.a
		if e.agent.index == 1 {
			a = w.b
		}

		if (e.used || e.gone) && op.Kind != "accept" {
			// the callback of an event is invoked at most once, and not after an accepted API decision;
			// after a restart the callback is gone with the service that made it
			o.Res, o.Ann, o.Thread = "noevent", []string{}, -1
			return o, ""
		}

		o.Pre = a.persisted()

		if op.Kind != "accept" {
			a.arm(op.Fault)
		}

		switch op.Kind {
		case "continue":
			e.used = true
			e.act.Continue(nil)
			a.svc.VerifBarrier()

			o.Res = "ok"
		case "stop":
			e.used = true
			// Stop(nil) is treated by these two services as Continue (msg.err stays nil): a reason is given
			e.act.Stop(errStopped)
			a.svc.VerifBarrier()

			o.Res = "ok"
		case "accept":
			err := a.accept(e.connID)

			switch {
			case err != nil && strings.Contains(err.Error(), "is different from expected state"):
				o.Res, o.Err = "reject", err.Error()
			case err != nil:
				o.Res, o.Err = "err", err.Error()
				e.used = true
			default:
				o.Res = "ok"
				e.used = true
			}
		}

		finish(a, e.msgName)
	}

	if o.Ann == nil {
		o.Ann = []string{}
	}

	return o, bad
}

// ---------- Coq printing ----------

type connTables struct {
	states []string
	ns     map[string]bool // message -> namespace is "my"
}

var connTabs = map[string]*connTables{}

func initConnTabs() {
	dx := didexchange.VerifGraph()
	t := &connTables{states: dx.States, ns: map[string]bool{}}

	for _, r := range dx.Targets {
		t.ns[r.Msg] = r.Namespace == "my"
	}

	connTabs["didex"] = t
	numberings["didex"] = &numbering{states: dx.States}

	lg := legacyconnection.VerifGraph()
	t = &connTables{states: lg.States, ns: map[string]bool{}}

	for _, r := range lg.Targets {
		t.ns[r.Msg] = r.Namespace == "my"
	}

	connTabs["legacy"] = t
	numberings["legacy"] = &numbering{states: lg.States}
}

// connModelOp is the model's view of an op (nil: the op has no counterpart, e.g. an unknown packet).
func coqConnCase(c *Case, obs []Obs, msgOf []string) string {
	n := numberings[c.Proto]
	tabs := connTabs[c.Proto]

	var ops, os []string

	for i, op := range c.Ops {
		// the machine predicts the follow-ups (generated table); the tape only says where an Execute failed on the
		// content of the message: every other entry is a placeholder the machine does not read
		var tl []string

		for _, x := range obs[i].Tape {
			if x == "!" {
				tl = append(tl, "None")
			} else {
				tl = append(tl, "Some 0")
			}
		}

		tape := hx.CoqList(tl)
		fault := coqFault(op, obs[i])

		if op.Kind == "deliver" && msgOf[i] == "" {
			continue
		}

		switch op.Kind {
		case "invite", "deliver":
			m := c09tab.Index(c09tab.Msgs[c.Proto], msgOf[i])
			ops = append(ops, fmt.Sprintf("Msg false %d %s false %d %s %s", m, hx.CoqBool(tabs.ns[msgOf[i]]), obs[i].Thread, fault, tape))
		case "continue":
			ops = append(ops, fmt.Sprintf("Continue %d%%nat 0 %s %s", op.Ev, fault, tape))
		case "stop":
			ops = append(ops, fmt.Sprintf("Stop %d%%nat %s %s", op.Ev, fault, tape))
		case "accept":
			ops = append(ops, fmt.Sprintf("Accept %d%%nat %s", op.Ev, tape))
		case "restart":
			ops = append(ops, "Restart")
		}

		var ann []string
		for _, a := range obs[i].Ann {
			ann = append(ann, fmt.Sprint(n.st(a)))
		}

		os = append(os, fmt.Sprintf("(%s, %s, %d)", coqRes(obs[i].Res), hx.CoqList(ann), n.st(obs[i].Post)))
	}

	return "Hist " + coqProto[c.Proto] + " " + hx.CoqList(ops) + " " + hx.CoqList(os)
}

// ---------- running a case ----------

// connState is what the scheduler knows after a history (used to enumerate the next ops).
type connState struct {
	key      string
	nPackets int
	evUsed   []bool
	evGone   []bool
}

func runConnCase(tr *hx.Trace, kind string, c *Case, withCoq bool) connState {
	w := newConnWorld(c.Proto)
	defer w.close()

	var (
		obs     []Obs
		msgOf   []string
		v       verdict
		classes []string
		dist    []string
		skipCoq bool
	)

	for _, op := range c.Ops {
		o, bad := w.apply(op)
		obs = append(obs, o)

		name := ""

		switch op.Kind {
		case "invite":
			name = "invitation"
		case "deliver":
			if op.Ev >= 0 && op.Ev < len(w.packets) {
				name = w.packets[op.Ev].Type
			}

			// a packet of a type outside the protocol's table has no counterpart in the model; a packet that does not
			// exist (yet) is no operation at all: it is left out of the model's history
			if name == "?" || op.Shape > 0 {
				// re-written thread identifiers: direct oracle only (the machine of the connection protocols has one thread
				// per agent)
				skipCoq = true
			}
		}

		msgOf = append(msgOf, name)

		jop := op
		jop.Msg = name

		if op.Kind == "invite" || op.Kind == "deliver" {
			jop.Kind = "msg"
		}

		if op.Kind != "restart" {
			if x := judge(c.Proto, jop, o, false, bad); x.fail && !v.fail {
				v = x
			}
		}

		if op.Shape > 0 {
			dist = append(dist, fmt.Sprintf("%s:shape%d:%s:%s", c.Proto, op.Shape, name, o.Res))
		}

		classes = append(classes, op.Kind+":"+name+":"+op.Fault+fmt.Sprint(op.Shape)+":"+o.Res+":"+o.Pre+">"+join(o.Ann)+">"+o.Post)
		dist = append(dist, c.Proto+":"+op.Kind+":"+o.Res)

		if op.Fault != "" {
			dist = append(dist, c.Proto+":fault:"+op.Fault+":fired="+fmt.Sprint(o.Fired))
		}
	}

	r := &hx.Record{Kind: kind, Case: c, Observed: obs, Class: c.Proto + "|" + strings.Join(classes, "|"), Dist: dist}
	if withCoq && !skipCoq {
		r.Coq = coqConnCase(c, obs, msgOf)
	}

	if v.fail {
		r.Oracle, r.Sig, r.Detail = "fail", v.sig, v.detail
	}

	tr.Put(r)

	st := connState{nPackets: len(w.packets)}
	key := []string{w.a.persisted(), w.b.persisted(), fmt.Sprint(len(w.packets))}

	for _, e := range w.evs {
		st.evUsed = append(st.evUsed, e.used)
		st.evGone = append(st.evGone, e.gone)
		key = append(key, fmt.Sprintf("e%s:%v:%v", e.agent.name, e.used, e.gone))
	}

	// which packets were delivered (once / more than once) is part of the scheduler-visible state
	for k := range w.packets {
		d := w.delivered[k]
		if d > 2 {
			d = 2
		}

		key = append(key, fmt.Sprintf("p%d", d))
	}

	st.key = strings.Join(key, ";")

	return st
}

func connCandidates(st connState) []Op {
	var ops []Op

	for k := 0; k < st.nPackets; k++ {
		ops = append(ops, Op{Kind: "deliver", Ev: k})
	}

	for e, used := range st.evUsed {
		// the callback of an event is invoked at most once and not after an accepted API decision (API contract);
		// the API decision may be taken at any time, any number of times
		if !used && !st.evGone[e] {
			ops = append(ops, Op{Kind: "continue", Ev: e}, Op{Kind: "stop", Ev: e})
		}

		ops = append(ops, Op{Kind: "accept", Ev: e})
	}

	// a restart of both agents: only worth a case of its own while a callback is still open
	for e, used := range st.evUsed {
		if !used && !st.evGone[e] {
			ops = append(ops, Op{Kind: "restart"})
			break
		}
	}

	return ops
}

// connFaults: the storage faults worth injecting into an op.
func connFaults(op Op) []string {
	switch op.Kind {
	case "deliver":
		return []string{"get", "put0", "put1"}
	case "continue", "stop":
		return []string{"put0", "put1"}
	}

	return nil
}

type connNode struct {
	ops []Op
	st  connState
}

// exploreConn: breadth-first over the scheduler-visible states; every (state, op) pair becomes a case.
func exploreConn(tr *hx.Trace, proto string, depth, maxCases, maxFault int) {
	root := &Case{Proto: proto, Ops: []Op{{Kind: "invite"}}}
	st := runConnCase(tr, "exhaustive", root, true)
	seen := map[string]bool{st.key: true}
	frontier := []connNode{{ops: root.Ops, st: st}}
	n := 1
	nodes := []connNode{frontier[0]}

	defer func() {
		// every captured message from every reached state again in every shape of thread identifiers
		for _, nd := range nodes {
			for k := 0; k < nd.st.nPackets; k++ {
				for sh := 1; sh <= nConnShapes; sh++ {
					runConnCase(tr, "exhaustive-wire", &Case{Proto: proto, Ops: append(append([]Op{}, nd.ops...), Op{Kind: "deliver", Ev: k, Shape: sh})}, false)
				}
			}
		}
	}()

	defer func() {
		// every op from every reached state again with every storage fault; the faulty op is followed by nothing
		nf := 0

		for _, nd := range nodes {
			for _, op := range connCandidates(nd.st) {
				for _, f := range connFaults(op) {
					if nf >= maxFault {
						return
					}

					fop := op
					fop.Fault = f
					runConnCase(tr, "exhaustive-fault", &Case{Proto: proto, Ops: append(append([]Op{}, nd.ops...), fop)}, true)
					nf++
				}
			}
		}
	}()

	for d := 1; d < depth && n < maxCases; d++ {
		var next []connNode

		for _, nd := range frontier {
			for _, op := range connCandidates(nd.st) {
				if n >= maxCases {
					break
				}

				c := &Case{Proto: proto, Ops: append(append([]Op{}, nd.ops...), op)}
				st := runConnCase(tr, "exhaustive", c, true)
				n++

				if seen[st.key] {
					continue
				}

				seen[st.key] = true
				next = append(next, connNode{ops: c.Ops, st: st})
				nodes = append(nodes, connNode{ops: c.Ops, st: st})
			}
		}

		frontier = next
	}
}

// randomConnCase: a random walk of the scheduler (the walk is re-run from scratch as one case).
func randomConnCase(tr *hx.Trace, rng *hx.Rng, proto string, maxLen int) {
	c := &Case{Proto: proto, Ops: []Op{{Kind: "invite"}}}
	nPk, nEv := 0, 1
	used := map[int]bool{}

	for i := 0; i < maxLen; i++ {
		switch x := rng.Intn(10); {
		case x < 5:
			// packets appear as the protocol proceeds: guess an index among the first few
			op := Op{Kind: "deliver", Ev: rng.Intn(nPk + 2)}
			if rng.Intn(5) == 0 {
				op.Fault = []string{"get", "put0", "put1"}[rng.Intn(3)]
			}

			c.Ops = append(c.Ops, op)
			nPk++
		case x < 7:
			e := rng.Intn(nEv + 1)
			if !used[e] {
				used[e] = true
				k := "continue"

				if rng.Intn(4) == 0 {
					k = "stop"
				}

				op := Op{Kind: k, Ev: e}
				if rng.Intn(4) == 0 {
					op.Fault = []string{"put0", "put1"}[rng.Intn(2)]
				}

				c.Ops = append(c.Ops, op)
				nEv++
			}
		case x < 8:
			c.Ops = append(c.Ops, Op{Kind: "restart"})
		default:
			e := rng.Intn(nEv + 1)
			c.Ops = append(c.Ops, Op{Kind: "accept", Ev: e})
			used[e] = true
		}

		if nPk > 3 {
			nPk = 3
		}

		if nEv > 1 {
			nEv = 1
		}
	}

	runConnCase(tr, "random", c, true)
}
