// c09: drives the real issue-credential, present-proof and introduce services of /repo through operation
// histories (inbound/outbound messages of every type, duplicated and out of order, on fresh and reused threads;
// Continue with every option kind / Stop on every action event) and records per op: result class, announced
// states (StateMsg stream), persisted state of the thread before and after (read from the harness-owned store).
// The direct oracle checks the property on that behaviour against the published graph (spec.go); the `coq`
// field carries the same history for the Coq model (coq/C09).
package main

import (
	"encoding/json"
	"errors"
	"fmt"
	"os"
	"path/filepath"
	"runtime"
	"runtime/pprof"
	"sort"
	"strconv"
	"strings"

	"github.com/hyperledger/aries-framework-go/component/storageutil/mem"
	"github.com/hyperledger/aries-framework-go/pkg/didcomm/common/service"
	"github.com/hyperledger/aries-framework-go/pkg/didcomm/protocol/introduce"
	ic "github.com/hyperledger/aries-framework-go/pkg/didcomm/protocol/issuecredential"
	pp "github.com/hyperledger/aries-framework-go/pkg/didcomm/protocol/presentproof"
	"github.com/hyperledger/aries-framework-go/spi/storage"

	arieslog "github.com/hyperledger/aries-framework-go/component/log"
	spilog "github.com/hyperledger/aries-framework-go/spi/log"

	"verifharness/c09tab"
	"verifharness/hx"
)

// Op is one operation of a history.
type Op struct {
	Kind string `json:"k"`             // msg | continue | stop
	Out  bool   `json:"out,omitempty"` // msg: outbound (HandleOutbound)
	Msg  string `json:"msg,omitempty"` // msg: short message type name
	Flag bool   `json:"flag,omitempty"`
	T    int    `json:"t,omitempty"`   // msg: thread number
	Ev   int    `json:"ev,omitempty"`  // continue/stop: index of the action event (order of arrival)
	Opt  string `json:"opt,omitempty"` // continue: option kind
	// Fault injected during the op: "" | get | tp | put<k> | send<k>
	// (state read fails | transitional payload write fails | k-th state write fails | k-th messenger call fails)
	Fault string `json:"fault,omitempty"`
	// wire identifiers of a msg (default: a unique id and thid = the name of thread T):
	// IDT: 0 = unique id, -1 = no id, k>0 = the id IS the name of thread k;  NoTh: no thid;  Pth: k>0 = pthid names thread k
	IDT  int  `json:"idt,omitempty"`
	NoTh bool `json:"noth,omitempty"`
	Pth  int  `json:"pth,omitempty"`
	// Alt: the message is of the OTHER protocol version than the case's (issue-credential / present-proof v2 <-> v3):
	// histories mix the two message families on one thread id
	Alt bool `json:"alt,omitempty"`
	// Shape (connection protocols, deliver): the captured message is delivered with re-written thread identifiers
	// (0 = as captured; see connShapes)
	Shape int `json:"shape,omitempty"`
}

// Case is a history for one protocol.
type Case struct {
	Proto string `json:"proto"`
	V3    bool   `json:"v3,omitempty"`
	Ops   []Op   `json:"ops"`
	Note  string `json:"note,omitempty"`
	// Subs: number of state-message channels registered at the start besides none (0 = only the harness' observer);
	// Script: what the scripted subscribers 1..Subs-1 do from inside their handling of a message
	Subs   int        `json:"subs,omitempty"`
	Script []Reaction `json:"script,omitempty"`
}

// Obs is what the implementation did for one op.
type Obs struct {
	Res    string   `json:"res"` // reject | action | ok | err | noevent
	Ann    []string `json:"ann"` // announced states (each as a Pre/Post pair)
	Pre    string   `json:"pre"`
	Post   string   `json:"post"`
	Thread int      `json:"thread"`
	// Key is the identifier of the protocol instance the op works on ("" = none: the message must be refused)
	Key string `json:"key"`
	// wire identifiers of the message as sent, and the other state keys written during the op
	WireID, WireTh, WirePth string
	Fresh                   string
	Repeated                bool
	MetaPIID                string
	Written                 []string `json:"written,omitempty"`
	Err                     string   `json:"err,omitempty"`
	Tape                    []string `json:"tape,omitempty"`
	// FiredAt: index (within the op) of the executed state whose network action failed (-1: no send failed)
	FiredAt int `json:"fired_at"`
	// Fired: the injected storage fault was reached (connection protocols)
	Fired bool `json:"fired,omitempty"`
}

type provider struct {
	m service.Messenger
	s storage.Provider
}

func (p *provider) Messenger() service.Messenger      { return p.m }
func (p *provider) StorageProvider() storage.Provider { return p.s }

// fakeOOB stands for the out-of-band service the introduce service subscribes to (never fires).
type fakeOOB struct {
	service.Action
	service.Message
}

type introProvider struct{ *provider }

func (p *introProvider) Service(string) (interface{}, error) { return &fakeOOB{}, nil }

type stateEv struct {
	typ service.StateMsgType
	id  string
}

// faultMessenger fails the k-th call made to it during the current op (mock messenger otherwise).
type faultMessenger struct {
	w       *world
	failAt  int
	n       int
	firedAt int
}

var errSend = errors.New("verif: injected send failure")

func (m *faultMessenger) call() error {
	k := m.n
	m.n++

	if k == m.failAt {
		// position: number of states announced so far in this op (each as a Pre/Post pair), minus one
		m.firedAt = len(m.w.events)/2 - 1
		return errSend
	}

	return nil
}

func (m *faultMessenger) ReplyTo(string, service.DIDCommMsgMap, ...service.Opt) error {
	return m.call()
}
func (m *faultMessenger) ReplyToMsg(_, _ service.DIDCommMsgMap, _, _ string, _ ...service.Opt) error {
	return m.call()
}
func (m *faultMessenger) Send(service.DIDCommMsgMap, string, string, ...service.Opt) error {
	return m.call()
}
func (m *faultMessenger) SendToDestination(service.DIDCommMsgMap, string, *service.Destination, ...service.Opt) error {
	return m.call()
}
func (m *faultMessenger) ReplyToNested(service.DIDCommMsgMap, *service.NestedReplyOpts) error {
	return m.call()
}

// world is one fresh service instance with its store and channels.
type world struct {
	msgr     *faultMessenger
	failGet  bool
	failTP   bool
	failPut  int
	nPut     int
	proto    string
	v3       bool
	store    storage.Store
	actions  chan service.DIDCommAction
	events   chan service.StateMsg
	pending  []service.DIDCommAction
	evThread []string
	clos     []bool
	prov     *provider
	payload  map[string]int
	actCont  func(piid string, opt interface{}) error
	actStop  func(piid string) error
	disp     *dispatcher
	regEv    func(chan<- service.StateMsg) error
	unregEv  func(chan<- service.StateMsg) error
	rawAll   []sEvent
	written  []string
	seenPIID []string
	evMsg    []string
	live     []bool
	stale    []bool
	inbound  func(m service.DIDCommMsgMap) error
	outbound func(m service.DIDCommMsgMap) error
	barrier  func()
	stop     func() // ends the listener goroutine of the current service instance (verif hook VerifStop)
	sp       storage.Provider
	optOf    func(kind string) interface{}
	msgTypes map[string][2]string
	seq      int
}

func newWorld(proto string, v3 bool) *world {
	w := &world{proto: proto, v3: v3}
	w.actions = make(chan service.DIDCommAction, 256)
	w.events = make(chan service.StateMsg, 1024)
	w.msgr = &faultMessenger{w: w, failAt: -1, firedAt: -1}
	w.failPut = -1
	sp := mem.NewProvider()
	rec := hx.NewRecProvider(sp)
	rec.Record = false
	rec.Before = func(c *hx.Call) error {
		state := strings.HasPrefix(c.Key, "state_name_") || strings.HasPrefix(c.Key, "internal_data_")
		if strings.HasSuffix(c.Key, "verif-barrier") {
			return nil
		}

		switch {
		case c.Op == "Get" && state && w.failGet:
			return hx.ErrInjected
		case c.Op == "Put" && state:
			w.written = append(w.written, strings.TrimPrefix(strings.TrimPrefix(c.Key, "state_name_"), "internal_data_"))
			w.nPut++
			if w.nPut-1 == w.failPut {
				return hx.ErrInjected
			}
		case c.Op == "Put" && strings.HasPrefix(c.Key, "transitionalPayload_"):
			w.seenPIID = append(w.seenPIID, strings.TrimPrefix(c.Key, "transitionalPayload_"))

			if w.failTP {
				return hx.ErrInjected
			}
		}

		return nil
	}

	w.prov = &provider{m: w.msgr, s: rec}
	w.sp = sp
	name := w.startService()

	st, err := sp.OpenStore(name)
	must(err)

	w.store = st

	return w
}

// startService creates a service instance over the world's stores and messenger (also used to RESTART the service).
func (w *world) startService() string {
	prov := w.prov
	proto := w.proto

	var name string

	switch proto {
	case "ic":
		svc, err := ic.New(prov)
		must(err)
		must(svc.RegisterActionEvent(w.actions))
		must(svc.RegisterMsgEvent(w.events))

		name = ic.Name
		w.msgTypes = ic.VerifMsgTypes()
		w.inbound = func(m service.DIDCommMsgMap) error {
			_, e := svc.HandleInbound(m, service.NewDIDCommContext("did:my", "did:their", nil))
			return e
		}
		w.outbound = func(m service.DIDCommMsgMap) error {
			_, e := svc.HandleOutbound(m, "did:my", "did:their")
			return e
		}
		w.barrier = svc.VerifBarrier
		w.stop = svc.VerifStop
		w.actCont = func(piid string, opt interface{}) error {
			if o, ok := opt.(ic.Opt); ok {
				return svc.ActionContinue(piid, o)
			}

			return svc.ActionContinue(piid)
		}
		w.actStop = func(piid string) error { return svc.ActionStop(piid, nil) }
		w.regEv, w.unregEv = svc.RegisterMsgEvent, svc.UnregisterMsgEvent
		svc.Use(func(next ic.Handler) ic.Handler {
			return ic.HandlerFunc(func(md ic.Metadata) error {
				w.sync()
				return next.Handle(md)
			})
		})
		w.optOf = func(kind string) interface{} {
			switch kind {
			case "propose":
				return ic.WithProposeCredential(&ic.ProposeCredentialParams{})
			case "offer":
				return ic.WithOfferCredential(&ic.OfferCredentialParams{})
			case "request":
				return ic.WithRequestCredential(&ic.RequestCredentialParams{})
			case "issue":
				return ic.WithIssueCredential(&ic.IssueCredentialParams{})
			}

			return nil
		}
	case "pp":
		svc, err := pp.New(prov)
		must(err)
		must(svc.RegisterActionEvent(w.actions))
		must(svc.RegisterMsgEvent(w.events))

		name = pp.Name
		w.msgTypes = pp.VerifMsgTypes()
		w.inbound = func(m service.DIDCommMsgMap) error {
			_, e := svc.HandleInbound(m, service.NewDIDCommContext("did:my", "did:their", nil))
			return e
		}
		w.outbound = func(m service.DIDCommMsgMap) error {
			_, e := svc.HandleOutbound(m, "did:my", "did:their")
			return e
		}
		w.barrier = svc.VerifBarrier
		w.stop = svc.VerifStop
		w.actCont = func(piid string, opt interface{}) error {
			if o, ok := opt.(pp.Opt); ok {
				return svc.ActionContinue(piid, o)
			}

			return svc.ActionContinue(piid)
		}
		w.actStop = func(piid string) error { return svc.ActionStop(piid, nil) }
		w.regEv, w.unregEv = svc.RegisterMsgEvent, svc.UnregisterMsgEvent
		svc.Use(func(next pp.Handler) pp.Handler {
			return pp.HandlerFunc(func(md pp.Metadata) error {
				w.sync()
				return next.Handle(md)
			})
		})
		w.optOf = func(kind string) interface{} {
			switch kind {
			case "propose":
				return pp.WithProposePresentation(&pp.ProposePresentationParams{})
			case "request":
				return pp.WithRequestPresentation(&pp.RequestPresentationParams{})
			case "presentation":
				return pp.WithPresentation(&pp.PresentationParams{})
			}

			return nil
		}
	case "intro":
		svc, err := introduce.New(&introProvider{prov})
		must(err)
		must(svc.RegisterActionEvent(w.actions))
		must(svc.RegisterMsgEvent(w.events))

		name = introduce.Introduce
		w.msgTypes = map[string][2]string{}

		for k, v := range introduce.VerifMsgTypes() {
			w.msgTypes[k] = [2]string{v, v}
		}

		w.inbound = func(m service.DIDCommMsgMap) error {
			_, e := svc.HandleInbound(m, service.NewDIDCommContext("did:my", "did:their", nil))
			return e
		}
		w.outbound = func(m service.DIDCommMsgMap) error {
			_, e := svc.HandleOutbound(m, "did:my", "did:their")
			return e
		}
		w.barrier = svc.VerifBarrier
		w.stop = func() { svc.VerifStop() }
		w.actCont = func(piid string, opt interface{}) error {
			o, _ := opt.(introduce.Opt) //nolint:errcheck
			return svc.ActionContinue(piid, o)
		}
		w.actStop = func(piid string) error { return svc.ActionStop(piid, nil) }
		w.optOf = func(kind string) interface{} {
			if kind == "recipients" {
				return introduce.WithRecipients(&introduce.To{Name: "carol"}, &introduce.Recipient{
					To: &introduce.To{Name: "bob"}, MyDID: "did:my", TheirDID: "did:carol",
				})
			}

			return nil
		}
	default:
		panic("unknown protocol " + proto)
	}

	return name
}

func must(err error) {
	if err != nil {
		panic(err)
	}
}

func thName(t int) string { return fmt.Sprintf("th-%d", t) }

// message builds the message of an op the way the inbound pipeline hands it to a service (parsed from bytes).
func (w *world) message(op Op) service.DIDCommMsgMap {
	b, err := json.Marshal(w.rawMessage(op))
	must(err)

	m, err := service.ParseDIDCommMsgMap(b)
	must(err)

	return m
}

// wireIDs gives the identifiers the message of an op carries ("" = absent).
func (w *world) wireIDs(op Op) (id, th, pth string) {
	switch {
	case op.IDT == 0:
		id = fmt.Sprintf("m-%d", w.seq)
	case op.IDT > 0:
		id = thName(op.IDT)
	}

	if !op.NoTh {
		th = thName(op.T)
	}

	if op.Pth > 0 {
		pth = thName(op.Pth)
	}

	return id, th, pth
}

func (w *world) rawMessage(op Op) service.DIDCommMsgMap {
	w.seq++
	vi := 0
	v3 := w.v3 != (op.Alt && w.proto != "intro")

	if v3 {
		vi = 1
	}

	typ := w.msgTypes[op.Msg][vi]
	id, th, pth := w.wireIDs(op)

	if v3 && w.proto != "intro" {
		body := map[string]interface{}{}
		if op.Flag {
			body["will_confirm"] = true
		}

		m := service.DIDCommMsgMap{"type": typ, "body": body}
		if id != "" {
			m["id"] = id
		}

		if th != "" {
			m["thid"] = th
		}

		if pth != "" {
			m["pthid"] = pth
		}

		return m
	}

	m := service.DIDCommMsgMap{"@type": typ}
	if id != "" {
		m["@id"] = id
	}

	thread := map[string]interface{}{}
	if th != "" {
		thread["thid"] = th
	}

	if pth != "" {
		thread["pthid"] = pth
	}

	if len(thread) > 0 {
		m["~thread"] = thread
	}

	if op.Flag {
		m["will_confirm"] = true
	}

	if w.proto == "intro" && op.Msg == "response" {
		m["approve"] = op.Flag
	}

	return m
}

// storedPIID reads the protocol instance id the introduce service stored with the metadata of the message's thread.
func (w *world) storedPIID(id, th string) string {
	tid := th
	if tid == "" {
		tid = id
	}

	if tid == "" {
		return ""
	}

	b, err := w.store.Get("metadata_" + tid)
	if err != nil {
		return ""
	}

	m := map[string]interface{}{}
	if json.Unmarshal(b, &m) != nil {
		return ""
	}

	v, _ := m[introduce.Introduce+"_pi_id"].(string) //nolint:errcheck

	return v
}

// specKey is the harness' copy of the published rule (coq/C09/Spec.v: *_resolve_spec; the generated rule of the code
// is proved equal to it in Coq): which identifier names the protocol instance.  ok=false: the message is refused.
// fresh=true: none, the service generates one.
func specKey(proto, msg string, out bool, id, th, pth string) (key string, fresh, ok bool) {
	rule := func() (string, bool, bool) {
		switch {
		case th != "" && id == "":
			return "", false, false
		case th != "":
			return th, false, true
		case id != "":
			return id, false, true
		}

		return "", true, true
	}

	switch proto {
	case "ic":
		if pth != "" {
			return pth, false, true
		}
	case "pp":
		if pth != "" && msg == "problem-report" {
			return pth, false, true
		}
	case "intro":
		if k, f, o := rule(); !out && (!o || f) {
			_ = k
			return "", false, false
		}

		if pth != "" {
			return pth, false, true
		}
	}

	return rule()
}

func (w *world) persisted(t int) string { return w.persistedKey(thName(t)) }

func (w *world) persistedKey(k string) string {
	var key string

	switch w.proto {
	case "pp":
		key = "internal_data_" + k
	default:
		key = "state_name_" + k
	}

	b, err := w.store.Get(key)
	if err != nil {
		return "start"
	}

	if w.proto == "pp" {
		var d struct{ StateName string }
		if e := json.Unmarshal(b, &d); e != nil {
			return "?" + string(b)
		}

		return d.StateName
	}

	return string(b)
}

// drain collects announced states; pairing problems are reported.
func (w *world) drain() (ann []string, bad string) {
	var evs []stateEv

	for {
		select {
		case e := <-w.events:
			evs = append(evs, stateEv{e.Type, e.StateID})
			w.rawAll = append(w.rawAll, sEvent{Pre: e.Type == service.PreState, State: e.StateID})

			continue
		default:
		}

		break
	}

	for i := 0; i < len(evs); i += 2 {
		if i+1 >= len(evs) || evs[i].typ != service.PreState || evs[i+1].typ != service.PostState || evs[i].id != evs[i+1].id {
			bad = fmt.Sprintf("unpaired state events %v", evs)
			break
		}

		ann = append(ann, evs[i].id)
	}

	if ann == nil {
		ann = []string{}
	}

	return ann, bad
}

func (w *world) drainActions(t string, msg string) int {
	n := 0

	for {
		select {
		case a := <-w.actions:
			w.pending = append(w.pending, a)
			w.evThread = append(w.evThread, t)
			w.evMsg = append(w.evMsg, msg)
			w.live = append(w.live, true)
			w.stale = append(w.stale, false)
			w.clos = append(w.clos, true)

			if w.payload == nil {
				w.payload = map[string]int{}
			}

			w.payload[t] = len(w.pending) - 1
			n++

			continue
		default:
		}

		break
	}

	return n
}

func (w *world) hasLive(t string) bool {
	for i := range w.pending {
		if w.live[i] && w.evThread[i] == t {
			return true
		}
	}

	return false
}

// apply runs one op on the real service, to quiescence.
func (w *world) arm(f string) {
	w.failGet, w.failTP, w.failPut, w.nPut = false, false, -1, 0
	w.msgr.failAt, w.msgr.n, w.msgr.firedAt = -1, 0, -1

	switch {
	case f == "get":
		w.failGet = true
	case f == "tp":
		w.failTP = true
	case strings.HasPrefix(f, "put"):
		w.failPut, _ = strconv.Atoi(f[3:])
	case strings.HasPrefix(f, "send"):
		w.msgr.failAt, _ = strconv.Atoi(f[4:])
	}
}

func (w *world) apply(op Op) (o Obs, staleEvent bool, bad string) {
	w.arm(op.Fault)

	defer func() {
		o.FiredAt = w.msgr.firedAt
		w.arm("")
	}()

	switch op.Kind {
	case "msg":
		w.written, w.seenPIID = nil, nil
		m := w.message(op)
		o.WireID, o.WireTh, o.WirePth = w.wireIDs(op)
		key, fresh, named := specKey(w.proto, op.Msg, op.Out, o.WireID, o.WireTh, o.WirePth)
		o.Thread = op.T

		// introduce: an inbound message belongs first of all to the protocol instance stored with its thread's metadata
		// (published precedence: stored instance id, then pthid, then thid); the stored value is read from the store
		if w.proto == "intro" && !op.Out && named && !fresh {
			if mp := w.storedPIID(o.WireID, o.WireTh); mp != "" {
				o.MetaPIID = mp
				key = mp
			}
		}

		if named && !fresh {
			o.Key = key
			o.Pre = w.persistedKey(key)
		} else {
			o.Pre = "start"
		}

		hadLive := o.Key != "" && w.hasLive(o.Key)

		var err error
		if op.Out {
			err = w.outbound(m)
		} else {
			err = w.inbound(m)
		}

		if named && fresh {
			// the identifier the service generated shows in the keys it wrote
			for _, k := range append(append([]string{}, w.written...), w.seenPIID...) {
				if !strings.HasPrefix(k, "th-") && !strings.HasPrefix(k, "m-") {
					o.Key, o.Fresh = k, k
				}
			}
		}

		n := w.drainActions(o.Key, op.Msg)

		switch {
		case err != nil && (strings.HasPrefix(err.Error(), "doHandle:") || strings.HasPrefix(err.Error(), "buildMetaData:") ||
			strings.HasPrefix(err.Error(), "populate metadata:") || strings.HasPrefix(err.Error(), "save transitional payload") ||
			strings.HasPrefix(err.Error(), "failed to obtain the message's threadID")):
			o.Res = "reject"
		case err != nil:
			o.Res = "err"
		case n > 0:
			o.Res = "action"
		default:
			o.Res = "ok"
		}

		if err != nil {
			o.Err = err.Error()
		}

		if o.Res != "reject" && hadLive {
			// accepted while an action event of the thread was open: every open event of the thread is stale now
			for i := range w.pending {
				if w.live[i] && w.evThread[i] == o.Key {
					w.stale[i] = true
				}
			}
		}
	case "restart":
		// a new service instance over the same stores; callbacks handed out before are gone (the old instance's
		// listener goroutine is ended once it is idle)
		w.barrier()
		w.stop()
		w.startService()

		for i := range w.clos {
			w.clos[i] = false
		}

		o.Res, o.Ann, o.Pre, o.Post = "ok", []string{}, "start", "start"

		return o, false, ""
	case "continuep", "stopp":
		key := thName(op.T)
		w.written, w.seenPIID = nil, nil
		o.Key = key
		o.Pre = w.persistedKey(key)

		var err error
		if op.Kind == "continuep" {
			err = w.actCont(key, w.optOf(op.Opt))
		} else {
			err = w.actStop(key)
		}

		switch {
		case err != nil && strings.Contains(err.Error(), "get transitional payload"):
			o.Res, o.Ann, o.Key, o.Post = "noevent", []string{}, "", o.Pre

			return o, false, ""
		case err != nil:
			o.Res, o.Err = "err", err.Error()
		default:
			if ev, ok := w.payload[key]; ok {
				staleEvent = w.stale[ev]
				o.Repeated = !w.live[ev] // the event was already decided through its callback (API contract broken)
				w.live[ev] = false
			}

			delete(w.payload, key)
			w.barrier()

			o.Res = "ok"
		}
	case "continue", "stop":
		if op.Ev < 0 || op.Ev >= len(w.pending) || !w.live[op.Ev] || !w.clos[op.Ev] {
			o.Res = "noevent"
			o.Ann = []string{}
			o.Thread = -1

			return o, false, ""
		}

		w.written, w.seenPIID = nil, nil
		t := w.evThread[op.Ev]
		o.Key = t
		o.Pre = w.persistedKey(t)
		staleEvent = w.stale[op.Ev]
		w.live[op.Ev] = false

		// the callbacks delete the stored transitional payload of the instance (introduce: only Continue does)
		if !(w.proto == "intro" && op.Kind == "stop") {
			delete(w.payload, t)
		}

		if op.Kind == "continue" {
			w.pending[op.Ev].Continue(w.optOf(op.Opt))
		} else {
			w.pending[op.Ev].Stop(nil)
		}

		w.barrier()

		o.Res = "ok"
	}

	w.sync()

	o.Ann, bad = w.drain()

	if o.Key != "" {
		o.Post = w.persistedKey(o.Key)
	} else {
		o.Post = o.Pre
	}

	for _, k := range w.written {
		if k != o.Key {
			o.Written = append(o.Written, k)
		}
	}

	return o, staleEvent, bad
}

// ---------- oracle ----------

type verdict struct {
	fail   bool
	sig    string
	detail string
}

// judge evaluates the property on one observed step.
func judge(proto string, op Op, o Obs, stale bool, bad string) verdict {
	sp := specs[proto]
	if o.Res == "noevent" || o.Repeated {
		// nothing to decide / the same action event decided a second time: outside the API contract
		return verdict{}
	}

	kind, detail := "", ""

	switch {
	case op.Kind == "msg" && o.Key == "" && o.Fresh == "" && o.Res != "reject" && !specNamed(proto, op, o):
		kind, detail = "accepted-malformed", fmt.Sprintf("%s with id=%q thid=%q pthid=%q names no protocol instance but was not refused (%s)",
			op.Msg, o.WireID, o.WireTh, o.WirePth, o.Res)
	case len(o.Written) > 0:
		kind, detail = "wrong-thread-written", fmt.Sprintf("the op works on instance %q but the state of %v was written", o.Key, o.Written)
	case bad != "":
		kind, detail = "events", bad
	case o.Res == "reject" && (len(o.Ann) != 0 || o.Post != o.Pre):
		kind, detail = "reject-changed-state", fmt.Sprintf("rejected %s but announced %v, persisted %s -> %s", op.Msg, o.Ann, o.Pre, o.Post)
	case op.Kind == "msg" && o.Res != "reject" && !sp.edge(o.Pre, sp.target(op.Msg, op.Out)):
		kind, detail = "accepted-disallowed", fmt.Sprintf("%s (outbound=%v) accepted in state %s", op.Msg, op.Out, o.Pre)
	default:
		seq := append([]string{o.Pre}, o.Ann...)
		for i := 0; i+1 < len(seq); i++ {
			if !sp.edge(seq[i], seq[i+1]) {
				kind, detail = "path", fmt.Sprintf("announced %s after %s (persisted %s before the step): not an edge", seq[i+1], seq[i], o.Pre)
				break
			}
		}

		if kind == "" {
			on := false
			for _, s := range seq {
				on = on || s == o.Post
			}

			if !on {
				kind, detail = "persisted-off-path", fmt.Sprintf("persisted %s is none of %v", o.Post, seq)
			}
		}

		if sp.terminal(o.Pre) && (len(o.Ann) != 0 || o.Post != o.Pre) {
			kind, detail = "terminal-left", fmt.Sprintf("terminal state %s: announced %v, persisted %s", o.Pre, o.Ann, o.Post)
		}
	}

	if kind == "" {
		return verdict{}
	}

	if stale && isDecision(op) && (kind == "path" || kind == "terminal-left") {
		return verdict{fail: true, sig: proto + ":stale-action-event", detail: detail}
	}

	// an injected fault made the listener abandon the thread after a terminal state had been announced
	if isDecision(op) && kind == "path" && op.Fault != "" {
		seq := append([]string{o.Pre}, o.Ann...)
		for i := 0; i+1 < len(seq); i++ {
			if !sp.edge(seq[i], seq[i+1]) {
				if i > 0 && sp.terminal(seq[i]) && seq[i+1] == sp.Abandon {
					class := "put"
					if strings.HasPrefix(op.Fault, "send") {
						class = "send"
					}

					return verdict{fail: true, sig: proto + ":" + class + "-fault-after-terminal", detail: detail}
				}

				break
			}
		}
	}

	return verdict{fail: true, sig: proto + ":" + kind, detail: detail}
}

func isDecision(op Op) bool {
	return op.Kind == "continue" || op.Kind == "stop" || op.Kind == "continuep" || op.Kind == "stopp"
}

func specNamed(proto string, op Op, o Obs) bool {
	_, _, ok := specKey(proto, op.Msg, op.Out, o.WireID, o.WireTh, o.WirePth)
	return ok
}

// ---------- Coq printing ----------

type numbering struct {
	states []string
}

func (n *numbering) st(name string) int {
	if name == "noop" {
		return 0
	}

	i := c09tab.Index(n.states, name)
	if i < 0 {
		return 999
	}

	return i + 1
}

var numberings = map[string]*numbering{}

func initNumberings() {
	numberings["ic"] = &numbering{states: ic.VerifGraph().States}
	numberings["pp"] = &numbering{states: pp.VerifGraph().States}
	numberings["intro"] = &numbering{states: introduce.VerifGraph().States}
}

func coqTape(n *numbering, tape []string) string {
	var l []string

	for _, x := range tape {
		if x == "!" {
			l = append(l, "None")
		} else {
			l = append(l, fmt.Sprintf("Some %d", n.st(x)))
		}
	}

	return hx.CoqList(l)
}

func coqFault(op Op, o Obs) string {
	get, tp, put, act := "false", "false", "None", "None"

	switch {
	case op.Fault == "get":
		get = "true"
	case op.Fault == "tp":
		tp = "true"
	case strings.HasPrefix(op.Fault, "put"):
		put = "(Some " + op.Fault[3:] + "%nat)"
	}

	if o.FiredAt >= 0 {
		act = fmt.Sprintf("(Some %d%%nat)", o.FiredAt)
	}

	if get == "false" && tp == "false" && put == "None" && act == "None" {
		return "nofault"
	}

	return "{| f_get := " + get + "; f_tp := " + tp + "; f_put := " + put + "; f_act := " + act + " |}"
}

func coqRes(r string) string {
	return map[string]string{"reject": "RReject", "action": "RAction", "ok": "ROk", "err": "RErr", "noevent": "RNoEvent"}[r]
}

// threadNo numbers the instance identifiers of a case: th-k -> k, anything else 1000, 1001, ... in order of appearance.
type threadNo struct{ m map[string]int }

func (t *threadNo) of(k string) int {
	if k == "" {
		return 0
	}

	if strings.HasPrefix(k, "th-") {
		n, _ := strconv.Atoi(k[3:])
		return n
	}

	if t.m == nil {
		t.m = map[string]int{}
	}

	if _, ok := t.m[k]; !ok {
		t.m[k] = 1000 + len(t.m)
	}

	return t.m[k]
}

func (t *threadNo) opt(k string) string {
	if k == "" {
		return "None"
	}

	return fmt.Sprintf("(Some %d)", t.of(k))
}

func coqCase(c *Case, obs []Obs) string {
	n := numberings[c.Proto]
	tn := &threadNo{}

	var ops, os []string

	for i, op := range c.Ops {
		tape := coqTape(n, obs[i].Tape)

		switch op.Kind {
		case "msg":
			fresh := 999999
			if obs[i].Fresh != "" {
				fresh = tn.of(obs[i].Fresh)
			}

			ops = append(ops, fmt.Sprintf("Wire %s %d %s %s %s %s %s %d %s %s", hx.CoqBool(op.Out), c09tab.Index(c09tab.Msgs[c.Proto], op.Msg),
				hx.CoqBool(c.V3 != (op.Alt && c.Proto != "intro")), hx.CoqBool(op.Flag), tn.opt(obs[i].WireID), tn.opt(obs[i].WireTh), tn.opt(obs[i].WirePth), fresh,
				coqFault(op, obs[i]), tape))
		case "continue":
			ops = append(ops, fmt.Sprintf("Continue %d%%nat %d %s %s", op.Ev, c09tab.Index(c09tab.Opts[c.Proto], op.Opt),
				coqFault(op, obs[i]), tape))
		case "stop":
			ops = append(ops, fmt.Sprintf("Stop %d%%nat %s %s", op.Ev, coqFault(op, obs[i]), tape))
		case "continuep":
			ops = append(ops, fmt.Sprintf("ContinueP %d %d %s %s", op.T, c09tab.Index(c09tab.Opts[c.Proto], op.Opt), coqFault(op, obs[i]), tape))
		case "stopp":
			ops = append(ops, fmt.Sprintf("StopP %d %s %s", op.T, coqFault(op, obs[i]), tape))
		case "restart":
			ops = append(ops, "Restart")
		}

		var ann []string
		for _, a := range obs[i].Ann {
			ann = append(ann, fmt.Sprint(n.st(a)))
		}

		os = append(os, fmt.Sprintf("(%s, %s, %d)", coqRes(obs[i].Res), hx.CoqList(ann), n.st(obs[i].Post)))
	}

	return "Hist " + coqProto[c.Proto] + " " + hx.CoqList(ops) + " " + hx.CoqList(os)
}

// tapeOf derives the follow-up tape of a step from what was observed (introduce: the model reads follow-ups
// from the tape because they depend on stored participants/metadata).
func tapeOf(proto string, op Op, o Obs) []string {
	if proto != "intro" || len(o.Ann) == 0 {
		return nil
	}

	sp := specs[proto]

	// split the announced list into the handle chain and the abandon chain (if any)
	chains := [][]string{o.Ann}
	failedFirst := false

	if op.Kind != "msg" && o.FiredAt >= 0 && o.FiredAt+1 < len(o.Ann) && o.Ann[o.FiredAt+1] == sp.Abandon {
		// a send failed after the complete chain o.Ann[:FiredAt+1]; the listener abandoned afterwards
		chains = [][]string{o.Ann[:o.FiredAt+1], o.Ann[o.FiredAt+1:]}
	} else if op.Kind != "msg" {
		for i, a := range o.Ann {
			if a == sp.Abandon && i > 0 {
				chains = [][]string{o.Ann[:i], o.Ann[i:]}
				failedFirst = true

				break
			}
		}
	} else if o.Res == "err" {
		failedFirst = true
	}

	// actions run after the whole chain: a failed send means the chain itself was complete
	if o.FiredAt >= 0 && o.FiredAt == len(chains[0])-1 {
		failedFirst = false
	}

	var tape []string

	for ci, ch := range chains {
		for i := range ch {
			if sp.terminal(ch[i]) && !(op.Kind == "msg" && op.Out) {
				continue // a terminal state executed inbound does not consume the tape
			}

			switch {
			case i+1 < len(ch):
				tape = append(tape, ch[i+1])
			case ci == 0 && failedFirst:
				tape = append(tape, "!")
			default:
				tape = append(tape, "noop")
			}
		}
	}

	return tape
}

// shutdown ends the world of a finished case: the service's listener goroutine (the services offer no way to stop it:
// verif hook) and the data of its stores; otherwise every finished case stays in memory.
func (w *world) shutdown() {
	w.barrier()
	w.stop()
	_ = w.sp.Close() //nolint:errcheck
	w.pending, w.rawAll = nil, nil
}

// ---------- running a case ----------

func runCase(tr *hx.Trace, kind string, c *Case, withCoq bool) (key string, lastRes string) {
	if os.Getenv("C09_LOGCASE") != "" {
		// development aid: the case being run (a panic in a service goroutine kills the process)
		b, _ := json.Marshal(c) //nolint:errcheck
		_ = os.WriteFile(os.Getenv("C09_LOGCASE"), b, 0o600) //nolint:errcheck
	}

	w := newWorld(c.Proto, c.V3)
	defer w.shutdown()

	if c.Subs > 1 && w.regEv != nil {
		w.enableSubs(c.Subs-1, c.Script)
		defer w.closeSubs()
	}

	var (
		obs     []Obs
		v       verdict
		classes []string
		dist    []string
		nontriv bool
	)

	for _, op := range c.Ops {
		o, stale, bad := w.apply(op)
		o.Tape = tapeOf(c.Proto, op, o)
		obs = append(obs, o)

		if x := judge(c.Proto, op, o, stale, bad); x.fail && !v.fail {
			v = x
		}

		classes = append(classes, op.Kind+":"+op.Msg+op.Opt+":"+o.Res+":"+o.Pre+">"+join(o.Ann)+">"+o.Post)
		dist = append(dist, c.Proto+":"+op.Kind+":"+o.Res)

		if len(o.Ann) > 0 {
			nontriv = true
		}

		lastRes = o.Res
	}

	r := &hx.Record{Kind: kind, Case: c, Observed: obs, Class: c.Proto + "|" + strings.Join(classes, "|"), Trivial: !nontriv, Dist: dist}
	if withCoq {
		r.Coq = coqCase(c, obs)
	}

	if w.disp != nil {
		// every channel registered throughout must have received exactly what the observer received
		w.disp.mu.Lock()
		streams := []string{coqSEvents(numberings[c.Proto], w.rawAll)}

		for i, sb := range w.disp.subs {
			id := i + 1
			streams = append(streams, coqSEvents(numberings[c.Proto], sb.stream))

			touched := id >= c.Subs
			for _, x := range c.Script {
				touched = touched || (x.Kind == "unreg" && x.J == id)
			}

			if !touched && !v.fail && fmt.Sprint(sb.stream) != fmt.Sprint(w.rawAll) {
				v = verdict{fail: true, sig: c.Proto + ":subscriber-stream",
					detail: fmt.Sprintf("channel %d was registered throughout but received %v, the thread announced %v", id, sb.stream, w.rawAll)}
			}
		}
		w.disp.mu.Unlock()

		if withCoq {
			r.Coq = "Sub" + r.Coq + fmt.Sprintf(" %d%%nat %s %s", c.Subs, coqScript(c.Script), hx.CoqList(streams))
		}

		r.Class += fmt.Sprintf("|subs%d:%v", c.Subs, c.Script)
	}

	if v.fail {
		r.Oracle, r.Sig, r.Detail = "fail", v.sig, v.detail
	}

	tr.Put(r)

	// abstract state key: persisted state per thread + open events
	ths := map[int]bool{}
	for _, op := range c.Ops {
		if op.Kind == "msg" {
			ths[op.T] = true
		}
	}

	var ks []string
	for t := range ths {
		ks = append(ks, fmt.Sprintf("%d=%s", t, w.persisted(t)))

		if w.proto == "intro" {
			// the instance id stored with the thread's metadata is part of the state
			ks = append(ks, fmt.Sprintf("%dmeta=%s", t, w.storedPIID("", thName(t))))
		}
	}

	sort.Strings(ks)

	for i := range w.pending {
		if w.live[i] {
			ks = append(ks, fmt.Sprintf("e%s:%s:%v", w.evThread[i], w.evMsg[i], w.clos[i]))
		}
	}

	return strings.Join(ks, ";"), lastRes
}

// liveEvents replays nothing: it derives the open events of a history from its ops and results.
type evInfo struct {
	idx int
	msg string
	t   int
}

// introRequestSeen: histories keep to at most one inbound request per introduce thread.  A second inbound request on a
// thread whose first request was continued with recipients used to crash the process (panic "recipient type is wrong"
// in the listener goroutine; fixed in /repo ea9b4b7 by builder-C03).  The restriction stays because with repeated
// requests the recipients reloaded from the metadata store decide whether Continue without options is an error, and
// the machine does not model that store (tried: 1 disagreeing case in a quick run, model-side only).
func introRequestSeen(hist []Op, t int) bool {
	for _, o := range hist {
		if o.Kind == "msg" && !o.Out && o.Msg == "request" && o.T == t {
			return true
		}
	}

	return false
}

// candidates lists the ops to try after a history whose open events are evs.
func candidates(proto string, hist []Op, threads int, evs []evInfo, flags bool) []Op {
	var ops []Op

	for t := 1; t <= threads; t++ {
		for _, m := range c09tab.Msgs[proto] {
			for _, out := range []bool{false, true} {
				if proto == "intro" && m == "request" && !out && introRequestSeen(hist, t) {
					continue
				}

				ops = append(ops, Op{Kind: "msg", Out: out, Msg: m, T: t})

				if flags && (proto == "pp" && m == "request" || proto == "intro" && m == "response") {
					ops = append(ops, Op{Kind: "msg", Out: out, Msg: m, T: t, Flag: true})
				}
			}
		}
	}

	restarted := false
	for _, o := range hist {
		restarted = restarted || o.Kind == "restart"
	}

	seenT := map[int]bool{}

	for _, e := range evs {
		for _, o := range c09tab.Opts[proto] {
			ops = append(ops, Op{Kind: "continue", Ev: e.idx, Opt: o})
		}

		ops = append(ops, Op{Kind: "stop", Ev: e.idx})

		// the same decisions through the API by protocol instance id (from the stored transitional payload)
		if !seenT[e.t] {
			seenT[e.t] = true

			for _, o := range c09tab.Opts[proto] {
				ops = append(ops, Op{Kind: "continuep", T: e.t, Opt: o})
			}

			ops = append(ops, Op{Kind: "stopp", T: e.t})
		}
	}

	// the service is restarted (once per history) while decisions are open
	if len(evs) > 0 && !restarted {
		ops = append(ops, Op{Kind: "restart"})
	}

	return ops
}

type node struct {
	ops []Op
	evs []evInfo
	nEv int
}

// explore: breadth-first over the abstract states reachable by histories; every (state, op) pair becomes a case.
// faultsFor lists the faults worth injecting into an op that did something.
func faultsFor(proto string, op Op, res string) []string {
	if proto == "intro" {
		// introduce uses the store for participants and metadata as well; only send failures are injected
		if op.Kind == "msg" && res == "action" {
			return nil
		}

		return []string{"send0", "send1"}
	}

	switch {
	case op.Kind == "msg" && res == "action":
		return []string{"get", "tp"}
	case op.Kind == "msg":
		return []string{"get", "put0", "put1", "send0", "send1"}
	case op.Kind == "continuep" || op.Kind == "stopp":
		return []string{"put0", "send0", "send1"}
	default:
		return []string{"put0", "put1", "put2", "send0", "send1", "send2"}
	}
}

// wireVariants lists the other shapes of identifiers the message of op could carry.
func wireVariants(op Op) []Op {
	other := 3 - op.T
	if other < 1 {
		other = 1
	}

	mk := func(f func(o *Op)) Op {
		o := op
		f(&o)

		return o
	}

	return []Op{
		mk(func(o *Op) { o.NoTh = true }),                        // a new instance named by the message's own id
		mk(func(o *Op) { o.IDT = -1 }),                           // thid without id (invalid message)
		mk(func(o *Op) { o.IDT, o.NoTh = -1, true }),             // no identifier at all
		mk(func(o *Op) { o.IDT = o.T }),                          // id equal to thid
		mk(func(o *Op) { o.Pth = o.T }),                          // pthid naming the same instance
		mk(func(o *Op) { o.Pth = other }),                        // pthid naming another existing instance
		mk(func(o *Op) { o.Pth, o.NoTh = other, true }),          // pthid of another instance, no thid
		mk(func(o *Op) { o.Pth, o.T = o.T, 3 }),                  // never-seen thid, pthid naming an existing instance
		mk(func(o *Op) { o.Pth, o.T, o.IDT = o.T, 3, -1 }),       // the same without id
		mk(func(o *Op) { o.IDT, o.NoTh, o.Pth = -1, true, o.T }), // only a pthid
	}
}

// introMetaShapes: a pthid together with a thid, or with an id that is a thread's name.
func introMetaShapes(op Op) []Op {
	other := 3 - op.T
	if other < 1 {
		other = 1
	}

	mk := func(f func(o *Op)) Op {
		o := op
		f(&o)

		return o
	}

	return []Op{
		mk(func(o *Op) { o.Pth = other }),
		mk(func(o *Op) { o.Pth = o.T }),
		mk(func(o *Op) { o.Pth = 3 }),
		mk(func(o *Op) { o.IDT, o.NoTh, o.Pth = o.T, true, other }),
	}
}

func explore(tr *hx.Trace, proto string, v3 bool, depth, threads, twoUntil, faultDepth, coqBudget int) {
	coqFault2, coqWire, wireDepth, coqSubs, subDepth, coqAlt := 0, 0, 2, 0, 2, 0
	seen := map[string]bool{"": true}
	frontier := []node{{}}
	coqUsed := 0

	for d := 0; d < depth; d++ {
		var next []node

		for _, nd := range frontier {
			th := threads
			if d >= twoUntil {
				th = 1 // second thread only in the first steps (independence), then one thread deep
			}

			for _, op := range candidates(proto, nd.ops, th, nd.evs, true) {
				c := &Case{Proto: proto, V3: v3, Ops: append(append([]Op{}, nd.ops...), op)}
				key, res := runCase(tr, "exhaustive", c, coqUsed < coqBudget)
				coqUsed++

				// every shape of wire identifiers for this message (from this reached state): id present / absent / equal to
				// a thread name, thid present / absent / naming a never-seen thread, pthid absent / naming the same / another
				// existing instance; these histories are not expanded
				if d < wireDepth && op.Kind == "msg" {
					for _, wo := range wireVariants(op) {
						if proto == "intro" && wo.Out && wo.IDT == -1 {
							// introduce: an outbound message without id gets its fresh id on a copy only; what then happens
							// depends on the message type (a response is refused by saveResponse): not modelled
							continue
						}

						if proto == "intro" && wo.Pth > 0 && (!wo.NoTh || wo.IDT > 0) {
							// introduce: the instance id stored with the THREAD's metadata takes precedence over a pthid
							// (state-dependent, not modelled): a pthid is not combined with a thid or an id that names a thread
							continue
						}

						wc := &Case{Proto: proto, V3: v3, Ops: append(append([]Op{}, nd.ops...), wo)}
						runCase(tr, "exhaustive-wire", wc, coqWire < coqBudget)
						coqWire++
					}
				}

				// introduce: the shapes that combine a pthid with a thid / with an id naming a thread, from every state reached
				// within 3 ops (the instance id stored with the thread's metadata takes precedence over the pthid)
				if proto == "intro" && d < 3 && op.Kind == "msg" {
					for _, wo := range introMetaShapes(op) {
						wc := &Case{Proto: proto, V3: v3, Ops: append(append([]Op{}, nd.ops...), wo)}
						runCase(tr, "exhaustive-wire", wc, true)
					}
				}

				// the same message in the OTHER protocol version (v2 <-> v3 on one thread id), from every state reached within 3 ops;
				// these histories are not expanded here (the random histories mix versions at any position)
				if proto != "intro" && op.Kind == "msg" && op.T == 1 && d < 3 {
					ao := op
					ao.Alt = true
					runCase(tr, "exhaustive-version", &Case{Proto: proto, V3: v3, Ops: append(append([]Op{}, nd.ops...), ao)}, coqAlt < coqBudget)
					coqAlt++
				}

				// every fault kind on this op (from this reached state); faulted histories are not expanded
				if d < faultDepth && (d < 2 || op.Kind != "msg") && res != "reject" && res != "noevent" {
					for _, fl := range faultsFor(proto, op, res) {
						fo := op
						fo.Fault = fl
						fc := &Case{Proto: proto, V3: v3, Ops: append(append([]Op{}, nd.ops...), fo)}
						runCase(tr, "exhaustive-fault", fc, coqFault2 < coqBudget)
						coqFault2++
					}
				}

				if seen[key] {
					continue
				}

				seen[key] = true
				n2 := node{ops: c.Ops, nEv: nd.nEv}

				// the same history observed by four channels, with every single scripted reaction
				if d < subDepth && proto != "intro" && op.Kind != "restart" {
					for _, sc := range subScripts(4) {
						sc2 := &Case{Proto: proto, V3: v3, Ops: c.Ops, Subs: 4, Script: sc}
						runCase(tr, "exhaustive-subs", sc2, coqSubs < coqBudget)
						coqSubs++
					}
				}

				lastOfT := -1
				for _, e := range nd.evs {
					if e.t == op.T {
						lastOfT = e.idx
					}
				}

				for _, e := range nd.evs {
					byClosure := (op.Kind == "continue" || op.Kind == "stop") && op.Ev == e.idx
					byAPI := (op.Kind == "continuep" || op.Kind == "stopp") && res == "ok" && e.idx == lastOfT

					if !byClosure && !byAPI {
						n2.evs = append(n2.evs, e)
					}
				}

				if res == "action" {
					n2.evs = append(n2.evs, evInfo{idx: nd.nEv, msg: op.Msg, t: op.T})
					n2.nEv++
				}

				next = append(next, n2)
			}
		}

		frontier = next
	}
}

func randomCase(rng *hx.Rng, proto string, v3 bool, maxLen int) *Case {
	c := &Case{Proto: proto, V3: v3}
	n := 3 + rng.Intn(maxLen-2)
	threads := 1 + rng.Intn(3)
	nEv := 0 // upper bound of events raised so far (inbound action messages sent); unknown indices are no-ops
	msgs := c09tab.Msgs[proto]
	opts := c09tab.Opts[proto]

	for i := 0; i < n; i++ {
		switch x := rng.Intn(10); {
		case x < 5 || nEv == 0:
			op := Op{Kind: "msg", Msg: msgs[rng.Intn(len(msgs))], Out: rng.Intn(3) == 0, T: 1 + rng.Intn(threads), Flag: rng.Intn(3) == 0}
			if rng.Intn(4) == 0 && len(c.Ops) > 0 {
				// duplicate an earlier message
				for j := 0; j < 4; j++ {
					if p := c.Ops[rng.Intn(len(c.Ops))]; p.Kind == "msg" {
						op = p
						break
					}
				}
			}

			if proto == "intro" && op.Msg == "request" && !op.Out && introRequestSeen(c.Ops, op.T) {
				op.Msg = "response"
			}

			if rng.Intn(4) == 0 {
				vs := wireVariants(op)
				if wo := vs[rng.Intn(len(vs))]; !(proto == "intro" && (wo.Pth > 0 && (!wo.NoTh || wo.IDT > 0) || wo.Out && wo.IDT == -1)) {
					op = wo
				}
			}

			if proto != "intro" && rng.Intn(6) == 0 {
				op.Alt = !op.Alt
			}

			c.Ops = append(c.Ops, op)

			if !op.Out {
				nEv++
			}
		case x < 9:
			c.Ops = append(c.Ops, Op{Kind: "continue", Ev: rng.Intn(nEv), Opt: opts[rng.Intn(len(opts))]})
		default:
			c.Ops = append(c.Ops, Op{Kind: "stop", Ev: rng.Intn(nEv)})
		}

		switch y := rng.Intn(14); {
		case y == 0:
			c.Ops = append(c.Ops, Op{Kind: "restart"})
		case y == 1:
			c.Ops = append(c.Ops, Op{Kind: "continuep", T: 1 + rng.Intn(threads), Opt: opts[rng.Intn(len(opts))]})
		case y == 2:
			c.Ops = append(c.Ops, Op{Kind: "stopp", T: 1 + rng.Intn(threads)})
		}

		if rng.Intn(6) == 0 {
			last := &c.Ops[len(c.Ops)-1]
			fl := []string{"send0", "send1", "send2"}

			if proto != "intro" {
				fl = append(fl, "put0", "put1", "put2")
				if last.Kind == "msg" {
					fl = append(fl, "get", "tp")
				}
			}

			last.Fault = fl[rng.Intn(len(fl))]
		}
	}

	return c
}

func main() {
	// the logger provider must be in place before anything is logged (conn.go: completion signal)
	arieslog.Initialize(logProvider{})
	arieslog.SetLevel("", spilog.CRITICAL)
	arieslog.SetLevel(modDidex, spilog.DEBUG)
	arieslog.SetLevel(modLegacy, spilog.DEBUG)

	a := hx.ParseArgs()
	initNumberings()
	initConnTabs()
	initConnTypes()

	tr := hx.NewTrace(a.Out)
	defer tr.Close()

	if a.Replay != "" {
		b, err := os.ReadFile(a.Replay)
		must(err)

		var rp struct {
			Case *Case `json:"case"`
		}

		must(json.Unmarshal(b, &rp))

		if rp.Case == nil {
			// a bare case (corpus file)
			var c Case
			if json.Unmarshal(b, &c) == nil && c.Proto != "" {
				rp.Case = &c
			}
		}

		if rp.Case != nil {
			if rp.Case.Proto == "didex" || rp.Case.Proto == "legacy" {
				runConnCase(tr, "replay", rp.Case, true)
			} else {
				runCase(tr, "replay", rp.Case, true)
			}
		}

		return
	}

	protos := []string{"ic", "pp", "intro"}

	// the harness' copy of the published graphs against Spec.v
	for _, p := range []string{"ic", "pp", "intro", "didex", "legacy"} {
		tr.Put(&hx.Record{Kind: "spec", Coq: coqSpecCase(p), Case: map[string]string{"spec": p}, Class: "spec:" + p, Trivial: true})
	}

	// corpus first
	if a.Extra != "" {
		files, _ := filepath.Glob(filepath.Join(a.Extra, "*.json"))
		sort.Strings(files)

		for _, f := range files {
			b, err := os.ReadFile(f)
			must(err)

			var c Case
			must(json.Unmarshal(b, &c))

			if c.Proto == "didex" || c.Proto == "legacy" {
				runConnCase(tr, "corpus", &c, true)
			} else {
				runCase(tr, "corpus", &c, true)
			}
		}
	}

	depth, nRandom, maxLen, budget, twoUntil, faultDepth := 4, 400, 16, 600, 2, 3
	if a.Tier == "thorough" {
		depth, nRandom, maxLen, budget, twoUntil, faultDepth = 4, 4000, 24, 8000, 3, 4
	}

	rng := hx.NewRng(a.Seed)

	for pi, p := range protos {
		for _, v3 := range []bool{false, true} {
			if p == "intro" && v3 {
				continue
			}

			explore(tr, p, v3, depth, 2, twoUntil, faultDepth, budget)

			r := rng.Fork(uint64(pi*2 + map[bool]int{false: 0, true: 1}[v3]))
			for i := 0; i < nRandom; i++ {
				runCase(tr, "random", randomCase(r.Fork(uint64(i)), p, v3, maxLen), true)
			}
		}
	}

	memReport("after issue-credential / present-proof / introduce")

	// DID Exchange and legacy Connection: two real frameworks per case, the harness schedules messages and decisions
	connDepth, connMax, connRandom, connFault := 9, 320, 120, 260
	if a.Tier == "thorough" {
		connDepth, connMax, connRandom, connFault = 12, 800, 400, 800
	}

	for pi, p := range []string{"didex", "legacy"} {
		exploreConn(tr, p, connDepth, connMax, connFault)

		r := rng.Fork(uint64(100 + pi))
		for i := 0; i < connRandom; i++ {
			randomConnCase(tr, r.Fork(uint64(i)), p, 12)
		}
	}

	memReport("after the connection protocols")
	fmt.Fprintf(os.Stderr, "c09: %d records\n", tr.N())
}

// memReport prints the heap in use (development aid: C09_MEM=1).
func memReport(what string) {
	if os.Getenv("C09_MEM") == "" {
		return
	}

	var m runtime.MemStats

	runtime.GC()
	runtime.ReadMemStats(&m)
	fmt.Fprintf(os.Stderr, "c09 mem %s: heap %d MB, sys %d MB, goroutines %d\n", what, m.HeapAlloc>>20, m.Sys>>20, runtime.NumGoroutine())

	if os.Getenv("C09_MEM") == "2" {
		_ = pprof.Lookup("goroutine").WriteTo(os.Stderr, 1) //nolint:errcheck
	}
}
