module verifharness

go 1.20

require (
	github.com/IBM/mathlib v0.0.3-0.20230605104224-932ab92f2ce0
	github.com/PaesslerAG/jsonpath v0.1.1
	github.com/btcsuite/btcd v0.22.3
	github.com/btcsuite/btcutil v1.0.3-0.20201208143702-a53e38424cce
	github.com/go-jose/go-jose/v3 v3.0.1-0.20221117193127-916db76e8214
	github.com/golang/protobuf v1.5.2
	github.com/google/tink/go v1.7.0
	github.com/google/uuid v1.3.0
	github.com/hyperledger/aries-framework-go v0.3.2
	github.com/hyperledger/aries-framework-go/component/didconfig v0.0.0
	github.com/hyperledger/aries-framework-go/component/kmscrypto v0.0.0
	github.com/hyperledger/aries-framework-go/component/log v0.0.0
	github.com/hyperledger/aries-framework-go/component/models v0.0.0
	github.com/hyperledger/aries-framework-go/component/storage/edv v0.0.0
	github.com/hyperledger/aries-framework-go/component/storage/leveldb v0.0.0
	github.com/hyperledger/aries-framework-go/component/storageutil v0.0.0
	github.com/hyperledger/aries-framework-go/component/vdr v0.0.0
	github.com/hyperledger/aries-framework-go/spi v0.0.0
	github.com/multiformats/go-multibase v0.1.1
	github.com/piprate/json-gold v0.5.1-0.20230111113000-6ddbe6e6f19f
	github.com/tidwall/gjson v1.14.3
	github.com/tidwall/sjson v1.1.4
	golang.org/x/crypto v0.1.0
	google.golang.org/protobuf v1.28.1
	nhooyr.io/websocket v1.8.3
)

require (
	github.com/PaesslerAG/gval v1.1.0 // indirect
	github.com/VictoriaMetrics/fastcache v1.5.7 // indirect
	github.com/bluele/gcache v0.0.0-20190518031135-bc40bd653833 // indirect
	github.com/cenkalti/backoff/v4 v4.0.2 // indirect
	github.com/cespare/xxhash/v2 v2.1.1 // indirect
	github.com/consensys/bavard v0.1.13 // indirect
	github.com/consensys/gnark-crypto v0.9.1 // indirect
	github.com/davecgh/go-spew v1.1.1 // indirect
	github.com/golang/snappy v0.0.4 // indirect
	github.com/hyperledger/fabric-amcl v0.0.0-20230602173724-9e02669dceb2 // indirect
	github.com/jinzhu/copier v0.0.0-20190924061706-b57f9002281a // indirect
	github.com/kawamuray/jsonpath v0.0.0-20201211160320-7483bafabd7e // indirect
	github.com/kilic/bls12-381 v0.1.1-0.20210503002446-7b7597926c69 // indirect
	github.com/klauspost/compress v1.10.0 // indirect
	github.com/minio/blake2b-simd v0.0.0-20160723061019-3f5f724cb5b1 // indirect
	github.com/minio/sha256-simd v0.1.1 // indirect
	github.com/mitchellh/mapstructure v1.5.0 // indirect
	github.com/mmcloughlin/addchain v0.4.0 // indirect
	github.com/mr-tron/base58 v1.2.0 // indirect
	github.com/multiformats/go-base32 v0.1.0 // indirect
	github.com/multiformats/go-base36 v0.1.0 // indirect
	github.com/multiformats/go-multihash v0.0.13 // indirect
	github.com/multiformats/go-varint v0.0.5 // indirect
	github.com/pkg/errors v0.9.1 // indirect
	github.com/pmezard/go-difflib v1.0.0 // indirect
	github.com/pquerna/cachecontrol v0.1.0 // indirect
	github.com/rs/cors v1.7.0 // indirect
	github.com/spaolacci/murmur3 v1.1.0 // indirect
	github.com/stretchr/testify v1.8.1 // indirect
	github.com/syndtr/goleveldb v1.0.0 // indirect
	github.com/teserakt-io/golang-ed25519 v0.0.0-20210104091850-3888c087a4c8 // indirect
	github.com/tidwall/match v1.1.1 // indirect
	github.com/tidwall/pretty v1.2.0 // indirect
	github.com/xeipuuv/gojsonpointer v0.0.0-20190905194746-02993c407bfb // indirect
	github.com/xeipuuv/gojsonreference v0.0.0-20180127040603-bd5ef7bd5415 // indirect
	github.com/xeipuuv/gojsonschema v1.2.0 // indirect
	golang.org/x/exp v0.0.0-20230728194245-b0cb94b80691 // indirect
	golang.org/x/sys v0.2.0 // indirect
	gopkg.in/yaml.v3 v3.0.1 // indirect
	rsc.io/tmplfunc v0.0.3 // indirect
)

replace (
	github.com/hyperledger/aries-framework-go => /repo
	github.com/hyperledger/aries-framework-go/component/didconfig => /repo/component/didconfig
	github.com/hyperledger/aries-framework-go/component/kmscrypto => /repo/component/kmscrypto
	github.com/hyperledger/aries-framework-go/component/log => /repo/component/log
	github.com/hyperledger/aries-framework-go/component/models => /repo/component/models
	github.com/hyperledger/aries-framework-go/component/storage/edv => /repo/component/storage/edv
	github.com/hyperledger/aries-framework-go/component/storage/leveldb => /repo/component/storage/leveldb
	github.com/hyperledger/aries-framework-go/component/storageutil => /repo/component/storageutil
	github.com/hyperledger/aries-framework-go/component/vdr => /repo/component/vdr
	github.com/hyperledger/aries-framework-go/spi => /repo/spi
)
