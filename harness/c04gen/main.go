// c04gen: translator for coq/gen/Gen_C04.v. Enumerates the key type constants of spi/kms/kms.go (go/ast) and, for
// each of them, EXECUTES the real localkms / tinkcrypto code of the repository the harness module is built
// against: Create, the created keyset's output prefix and key parameters, the AEAD primitive and its nonce size,
// ExportPubKeyBytes, PubKeyBytesToHandle in a second KMS and the re-imported handle's prefix and parameters.
package main

import (
	"flag"
	"fmt"
	"go/ast"
	"go/parser"
	"go/token"
	"os"
	"path/filepath"
	"strconv"
	"strings"

	"github.com/golang/protobuf/proto"
	tinkaead "github.com/google/tink/go/aead"
	aeadsubtle "github.com/google/tink/go/aead/subtle"
	"github.com/google/tink/go/keyset"
	"github.com/google/tink/go/mac"
	commonpb "github.com/google/tink/go/proto/common_go_proto"
	ecdsapb "github.com/google/tink/go/proto/ecdsa_go_proto"
	tinkpb "github.com/google/tink/go/proto/tink_go_proto"
	"github.com/google/tink/go/signature"
	"golang.org/x/crypto/chacha20poly1305"

	cbcsubtle "github.com/hyperledger/aries-framework-go/component/kmscrypto/crypto/tinkcrypto/primitive/aead/subtle"
	"github.com/hyperledger/aries-framework-go/component/kmscrypto/crypto/tinkcrypto/primitive/bbs"
	secp256k1pb "github.com/hyperledger/aries-framework-go/component/kmscrypto/crypto/tinkcrypto/primitive/proto/secp256k1_go_proto"
	"github.com/hyperledger/aries-framework-go/component/kmscrypto/kms/localkms"
	"github.com/hyperledger/aries-framework-go/component/storageutil/mem"
	mockkms "github.com/hyperledger/aries-framework-go/pkg/mock/kms"
	"github.com/hyperledger/aries-framework-go/pkg/secretlock/noop"
	"github.com/hyperledger/aries-framework-go/spi/kms"
)

func newKMS() *localkms.LocalKMS {
	p, err := mockkms.NewProviderForKMS(mem.NewProvider(), &noop.NoLock{})
	if err != nil {
		panic(err)
	}

	k, err := localkms.New("local-lock://x", p)
	if err != nil {
		panic(err)
	}

	return k
}

// keyTypeNames returns the untyped string constants of spi/kms/kms.go that are wrapped into KeyType(...) constants.
func keyTypeNames(repo string) ([]string, error) {
	fs := token.NewFileSet()

	f, err := parser.ParseFile(fs, filepath.Join(repo, "spi/kms/kms.go"), nil, 0)
	if err != nil {
		return nil, err
	}

	strs := map[string]string{}

	var order []string

	for _, d := range f.Decls {
		g, ok := d.(*ast.GenDecl)
		if !ok || g.Tok != token.CONST {
			continue
		}

		for _, s := range g.Specs {
			vs := s.(*ast.ValueSpec) //nolint:forcetypeassert
			for i, n := range vs.Names {
				if i >= len(vs.Values) {
					continue
				}

				switch v := vs.Values[i].(type) {
				case *ast.BasicLit:
					if v.Kind == token.STRING {
						u, _ := strconv.Unquote(v.Value)
						strs[n.Name] = u
					}
				case *ast.CallExpr:
					if id, ok := v.Fun.(*ast.Ident); ok && id.Name == "KeyType" && len(v.Args) == 1 {
						if a, ok := v.Args[0].(*ast.Ident); ok {
							if val, ok := strs[a.Name]; ok {
								order = append(order, val)
							}
						}
					}
				}
			}
		}
	}

	return order, nil
}

type row struct {
	name                   string
	kind                   string
	creatable              bool
	createPT, importPT     string
	enc, importEnc         string
	exportable, importable bool
	prim                   string
	nonce                  int
}

func ptName(t tinkpb.OutputPrefixType) string {
	if t == tinkpb.OutputPrefixType_RAW {
		return "PRaw"
	}

	return "PTink"
}

func curveSize(name string) int {
	switch name {
	case "NIST_P256", "SECP256K1":
		return 32
	case "NIST_P384":
		return 48
	case "NIST_P521":
		return 66
	}

	return 0
}

// encOf reads the signature encoding out of the public keyset of a handle.
func encOf(kh *keyset.Handle) string {
	pub := kh
	if p, err := kh.Public(); err == nil {
		pub = p
	}

	w := &keyset.MemReaderWriter{}
	if err := pub.WriteWithNoSecrets(w); err != nil || w.Keyset == nil {
		return "EncOpaque"
	}

	for _, k := range w.Keyset.Key {
		if k.KeyId != w.Keyset.PrimaryKeyId {
			continue
		}

		switch k.KeyData.TypeUrl {
		case "type.googleapis.com/google.crypto.tink.EcdsaPublicKey":
			pk := new(ecdsapb.EcdsaPublicKey)
			if proto.Unmarshal(k.KeyData.Value, pk) != nil {
				return "EncOpaque"
			}

			n := curveSize(commonpb.EllipticCurveType_name[int32(pk.Params.Curve)])
			if pk.Params.Encoding == ecdsapb.EcdsaSignatureEncoding_DER {
				return "EncDer"
			}

			return fmt.Sprintf("(EncP1363 %d)", n)
		case "type.googleapis.com/google.crypto.tink.secp256k1PublicKey":
			pk := new(secp256k1pb.Secp256K1PublicKey)
			if proto.Unmarshal(k.KeyData.Value, pk) != nil {
				return "EncOpaque"
			}

			n := curveSize(secp256k1pb.BitcoinCurveType_name[int32(pk.Params.Curve)])
			if pk.Params.Encoding == secp256k1pb.Secp256K1SignatureEncoding_Bitcoin_DER {
				return "EncDer"
			}

			return fmt.Sprintf("(EncP1363 %d)", n)
		}
	}

	return "EncOpaque"
}

func primaryPT(kh *keyset.Handle) string {
	info := kh.KeysetInfo()
	for _, ki := range info.KeyInfo {
		if ki.KeyId == info.PrimaryKeyId {
			return ptName(ki.OutputPrefixType)
		}
	}

	return "PRaw"
}

func walk(name string) row {
	r := row{name: name, kind: "KOther", createPT: "PRaw", importPT: "PRaw", enc: "EncOpaque", importEnc: "EncOpaque", prim: "PGcm"}
	a, b := newKMS(), newKMS()
	kt := kms.KeyType(name)

	kid, h, err := a.Create(kt)
	if err != nil {
		return r
	}

	kh, ok := h.(*keyset.Handle)
	if !ok {
		return r
	}

	r.creatable = true
	r.createPT = primaryPT(kh)

	switch {
	case func() bool { _, e := signature.NewSigner(kh); return e == nil }():
		r.kind = "KSig"
		r.enc = encOf(kh)
	case func() bool { _, e := bbs.NewSigner(kh); return e == nil }():
		r.kind = "KSig"
	case func() bool { _, e := tinkaead.New(kh); return e == nil }():
		r.kind = "KAead"

		ps, e := kh.Primitives()
		if e == nil {
			switch ps.Primary.Primitive.(type) {
			case *aeadsubtle.AESGCM:
				r.prim, r.nonce = "PGcm", aeadsubtle.AESGCMIVSize
			case *aeadsubtle.ChaCha20Poly1305:
				r.prim, r.nonce = "PChacha", chacha20poly1305.NonceSize
			case *aeadsubtle.XChaCha20Poly1305:
				r.prim, r.nonce = "PXChacha", chacha20poly1305.NonceSizeX
			case *aeadsubtle.EncryptThenAuthenticate:
				r.prim, r.nonce = "PCbcHmac", cbcsubtle.AES128Size
			}
		}
	case func() bool { _, e := mac.New(kh); return e == nil }():
		r.kind = "KMac"
	}

	pb, ekt, err := a.ExportPubKeyBytes(kid)
	if err == nil && ekt == kt {
		r.exportable = true

		ih, e := b.PubKeyBytesToHandle(pb, ekt)
		if e == nil {
			if ikh, ok := ih.(*keyset.Handle); ok {
				r.importable = true
				r.importPT = primaryPT(ikh)
				r.importEnc = encOf(ikh)
			}
		}
	}

	return r
}

func b2s(b bool) string {
	if b {
		return "true"
	}

	return "false"
}

func main() {
	repo := flag.String("repo", "/repo", "repository")
	out := flag.String("out", "", "output .v")
	flag.Parse()

	names, err := keyTypeNames(*repo)
	if err != nil || len(names) == 0 {
		fmt.Fprintln(os.Stderr, "cannot read key types:", err)
		os.Exit(1)
	}

	var sb strings.Builder

	sb.WriteString("(* GENERATED by harness/c04gen on every run of bin/check C04 — do not edit.\n")
	sb.WriteString("   One row per key type constant of spi/kms/kms.go, obtained by executing localkms.Create / ExportPubKeyBytes /\n")
	sb.WriteString("   PubKeyBytesToHandle and reading the keysets' output prefix, key parameters and AEAD primitive. *)\n")
	sb.WriteString("From Coq Require Import List NArith Bool String.\nImport ListNotations.\nFrom VF Require Import C04.Model.\n\n")
	sb.WriteString("Definition table : list ktrow := [\n")

	var nm []string

	for i, n := range names {
		r := walk(n)
		sep := ";"

		if i == len(names)-1 {
			sep = ""
		}

		sb.WriteString(fmt.Sprintf("  (* %2d %s *)\n  {| kt_name := %d%%N; kt_kind := %s; kt_creatable := %s; kt_create_pt := %s; kt_enc := %s;\n"+
			"     kt_exportable := %s; kt_importable := %s; kt_import_pt := %s; kt_import_enc := %s; kt_prim := %s; kt_nonce := %d%%nat |}%s\n",
			i, n, i, r.kind, b2s(r.creatable), r.createPT, r.enc, b2s(r.exportable), b2s(r.importable), r.importPT, r.importEnc,
			r.prim, r.nonce, sep))
		nm = append(nm, "\""+n+"\"%string")
	}

	sb.WriteString("].\n\nDefinition names : list string := [" + strings.Join(nm, "; ") + "].\n")

	if err := os.WriteFile(*out, []byte(sb.String()), 0o644); err != nil {
		fmt.Fprintln(os.Stderr, err)
		os.Exit(1)
	}
}
