// Package c09tab holds the numbering conventions shared by the C09 translator (c09gen) and harness (c09):
// message types and Continue options are numbered by position in these lists; states by position in the
// States list of the protocol package's verif export (0 = noop, i+1 = i-th state).
package c09tab

// Msgs lists the short message names per protocol.
var Msgs = map[string][]string{
	"ic":     {"propose", "offer", "request", "issue", "ack", "problem-report"},
	"pp":     {"propose", "request", "presentation", "ack", "problem-report"},
	"intro":  {"proposal", "request", "response", "ack", "problem-report"},
	"didex":  {"invitation", "oob-invitation", "request", "response", "ack", "complete"},
	"legacy": {"invitation", "request", "response", "ack"},
}

// Opts lists the Continue option kinds per protocol.
var Opts = map[string][]string{
	"ic":    {"none", "propose", "offer", "request", "issue"},
	"pp":    {"none", "propose", "request", "presentation"},
	"intro": {"none", "recipients"},
}

// Index returns the position of s in l (-1 if absent).
func Index(l []string, s string) int {
	for i, x := range l {
		if x == s {
			return i
		}
	}

	return -1
}
