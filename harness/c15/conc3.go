// Forced overlaps of THREE operations (wave 5): A is parked inside its k-th inbox store call (or inside its
// outbound send), B and then C are started while A sits there, then A is released. Whatever the service does —
// B and C queue behind A's lock, or run inside A's read-modify-write if the exclusion is broken — the outputs and
// the documents read back at the end must be those of one of the 3! sequential orders of the document-level
// model (Corr.check_concn), and must conserve the messages (direct oracle).
package main

import (
	"encoding/base64"
	"fmt"
	"strconv"
	"time"

	"github.com/hyperledger/aries-framework-go/pkg/didcomm/protocol/messagepickup"

	"verifharness/hx"
)

// Conc3Case is the replayable description of one forced overlap of three operations.
type Conc3Case struct {
	Pre  []FOp  `json:"pre"`
	Par  []FOp  `json:"par"`  // A, B, C
	Park string `json:"park"` // "0","1","2" = A's k-th store call on the inbox namespace; "send" = A's outbound send
}

func numOfPlain(b64 string) int {
	raw, err := base64.StdEncoding.DecodeString(b64)
	if err != nil {
		return -1
	}

	return msgNum(raw)
}

// runF executes one document-level op on the parking world (send faults only) and projects what the service did.
func (w *cworld) runF(op FOp) (obs FObs) {
	defer func() {
		if r := recover(); r != nil {
			obs = FObs{Out: "panic"}
		}

		if obs.Msgs == nil {
			obs.Msgs = []int{}
		}
	}()

	id := fmt.Sprintf("req-%d", op.Rid)

	w.mu.Lock()
	w.failSend[id] = op.FSend
	delete(w.sent, id)
	w.mu.Unlock()

	if op.Kind == "add" {
		if err := w.svc.AddMessage(payloadOf(op.Msg), didName(op.DID)); err != nil {
			return FObs{Out: "err"}
		}

		return FObs{Out: "added"}
	}

	m := map[string]interface{}{"@id": id}
	if op.Thid != 0 {
		m["~thread"] = map[string]interface{}{"thid": fmt.Sprintf("th-%d", op.Thid)}
	}

	if op.Kind == "status" {
		m["@type"] = messagepickup.StatusRequestMsgType
	} else {
		m["@type"] = messagepickup.BatchPickupMsgType
		m["batch_size"] = op.N
	}

	err := w.svc.VerifHandleAllSync(mustMsg(m), meName(op.Me), didName(op.DID))

	w.mu.Lock()
	sent := w.sent[id]
	w.mu.Unlock()

	if len(sent) == 0 {
		if err != nil {
			return FObs{Out: "err"}
		}

		return FObs{Out: "none"}
	}

	return decodeSentF(sent[0], !op.FSend, numOfPlain)
}

func (w *cworld) snapF(d int) (SDoc, string) {
	st, err := w.raw.OpenStore(messagepickup.Namespace)
	if err != nil {
		panic(err)
	}

	b, err := st.Get(didName(d))
	if err != nil {
		return SDoc{Kind: "none"}, "SNo"
	}

	doc := classifyDoc(b, numOfPlain)

	return doc, coqSDoc(doc)
}

func runConc3(kind string, c Conc3Case, tr *hx.Trace) {
	w := newCWorld()
	w.parkID = fmt.Sprintf("req-%d", c.Par[0].Rid)
	rec := &hx.Record{Kind: kind, Case: map[string]interface{}{"conc3": c}, Oracle: "ok"}

	fail := func(sig, detail string) {
		if rec.Oracle == "ok" {
			rec.Oracle, rec.Sig, rec.Detail = "fail", sig, detail
		}
	}

	accepted, delivered := map[int][]int{}, map[int][]int{}

	note := func(op FOp, o FObs) {
		if o.Out == "added" {
			accepted[op.DID] = append(accepted[op.DID], op.Msg)
		}

		if o.Out == "batch" && o.OK {
			delivered[o.To] = append(delivered[o.To], o.Msgs...)
		}

		if (o.Out == "batch" || o.Out == "status") && (o.To != op.DID || o.From != op.Me || o.ID != op.Rid) {
			fail("attribution", fmt.Sprintf("%+v: answer to=%d from=%d id=%d", op, o.To, o.From, o.ID))
		}

		if o.Out == "panic" {
			fail("panic:conc", fmt.Sprintf("%+v panicked under overlap", op))
		}
	}

	preObs := []string{}
	preAll := []FObs{}

	for _, op := range c.Pre {
		o := w.runF(op)

		var sn string
		o.Snap, sn = w.snapF(op.DID)
		preObs = append(preObs, "("+coqFOut(o)+", "+sn+")")
		preAll = append(preAll, o)
		note(op, o)
	}

	w.mu.Lock()
	w.armed, w.calls = true, 0
	if c.Park == "send" {
		w.parkAt = -2
	} else {
		w.parkAt, _ = strconv.Atoi(c.Park)
	}
	w.mu.Unlock()

	done := []chan FObs{make(chan FObs, 1), make(chan FObs, 1), make(chan FObs, 1)}
	outs := make([]FObs, 3)

	go func() { done[0] <- w.runF(c.Par[0]) }()

	overlapped := false

	wait := func(i int, d time.Duration) bool {
		select {
		case outs[i] = <-done[i]:
			return true
		case <-time.After(d):
			return false
		}
	}

	select {
	case <-w.parked:
		overlapped = true

		go func() { done[1] <- w.runF(c.Par[1]) }()

		got1 := wait(1, grace/2)

		go func() { done[2] <- w.runF(c.Par[2]) }()

		got2 := wait(2, grace/2)
		if !got1 {
			got1 = wait(1, time.Millisecond)
		}

		w.mu.Lock()
		w.released = true
		w.mu.Unlock()
		close(w.release)

		if !wait(0, 20*time.Second) || (!got1 && !wait(1, 20*time.Second)) || (!got2 && !wait(2, 20*time.Second)) {
			fail("deadlock", "an overlapped operation did not finish within 20 s after the release")
		}
	case outs[0] = <-done[0]:
		w.mu.Lock()
		w.armed = false
		w.mu.Unlock()

		outs[1] = w.runF(c.Par[1])
		outs[2] = w.runF(c.Par[2])
	case <-time.After(20 * time.Second):
		fail("deadlock", "operation A neither finished nor reached its park point within 20 s")
	}

	if rec.Oracle == "fail" {
		rec.Class, rec.Dist = "conc3/deadlock", []string{"conc3=deadlock"}
		tr.Put(rec)

		return
	}

	par := []string{}

	for i, op := range c.Par {
		note(op, outs[i])
	}

	for i, op := range c.Par {
		var sn string
		outs[i].Snap, sn = w.snapF(op.DID)
		par = append(par, fmt.Sprintf("(%s, %s, %s)", coqFOp(op), coqFOut(outs[i]), sn))

		held := []int{}
		if outs[i].Snap.Kind == "doc" {
			held = outs[i].Snap.Msgs
		}

		all := sortedCopy(append(append([]int{}, delivered[op.DID]...), held...))
		if !eqInts(all, sortedCopy(accepted[op.DID])) {
			fail("conservation:overlap", fmt.Sprintf("recipient %d after overlapping %s/%s/%s (A parked at %s): delivered %v + held %v != accepted %v",
				op.DID, c.Par[0].Kind, c.Par[1].Kind, c.Par[2].Kind, c.Park, delivered[op.DID], held, accepted[op.DID]))
		}

		if outs[i].Snap.Kind == "doc" && outs[i].Snap.Count != len(outs[i].Snap.Msgs) {
			fail("stored-count", fmt.Sprintf("recipient %d: stored message_count %d, messages %d", op.DID, outs[i].Snap.Count, len(outs[i].Snap.Msgs)))
		}
	}

	pre := make([]string, len(c.Pre))
	for i, o := range c.Pre {
		pre[i] = coqFOp(o)
	}

	rec.Coq = fmt.Sprintf("ConcN {| kn_pre := %s; kn_pre_obs := %s; kn_par := %s |}", hx.CoqList(pre), hx.CoqList(preObs), hx.CoqList(par))
	rec.Observed = map[string]interface{}{"pre": preAll, "par": outs, "overlapped": overlapped, "store_calls_inside_a": w.intruded}
	rec.Class = fmt.Sprintf("conc3/%s/%s/%s/%s/%s%s%s/%d/%d", c.Par[0].Kind, c.Par[1].Kind, c.Par[2].Kind, c.Park, outs[0].Out, outs[1].Out, outs[2].Out,
		len(c.Pre), len(outs[0].Msgs)+len(outs[1].Msgs)+len(outs[2].Msgs))
	rec.Trivial = !overlapped
	rec.Dist = []string{"conc3", "park3=" + c.Park, "a3=" + c.Par[0].Kind, "b3=" + c.Par[1].Kind, "c3=" + c.Par[2].Kind,
		fmt.Sprintf("overlapped3=%v", overlapped), fmt.Sprintf("inside_a3=%v", w.intruded > 0)}
	tr.Put(rec)
}

// conc3Cases enumerates prefix x A x B x C x park point; the first n in a seeded order are run.
func conc3Cases(r *hx.Rng, n int) []Conc3Case {
	var all []Conc3Case

	pres := [][]FOp{
		{},
		{{Kind: "add", DID: 1}, {Kind: "add", DID: 1}},
		{{Kind: "add", DID: 1}, {Kind: "add", DID: 1}, {Kind: "add", DID: 1}, {Kind: "add", DID: 2}, {Kind: "pickup", DID: 1, Me: 50, N: 1}},
	}
	as := []FOp{{Kind: "add", DID: 1}, {Kind: "pickup", DID: 1, Me: 50, N: 1}, {Kind: "pickup", DID: 1, Me: 50, N: 100},
		{Kind: "pickup", DID: 1, Me: 50, N: 2, FSend: true}, {Kind: "status", DID: 1, Me: 50, Thid: 5}}
	bs := []FOp{{Kind: "add", DID: 1}, {Kind: "add", DID: 2}, {Kind: "pickup", DID: 1, Me: 51, N: 1}, {Kind: "pickup", DID: 1, Me: 50, N: 100},
		{Kind: "status", DID: 1, Me: 51, Thid: 6}, {Kind: "pickup", DID: 2, Me: 50, N: 1}}

	for _, p := range pres {
		for _, a := range as {
			for _, b := range bs {
				for _, cc := range bs {
					for _, park := range []string{"0", "1", "2", "send"} {
						if park == "send" && a.Kind == "add" {
							continue
						}

						if park == "2" && a.Kind != "add" && !a.FSend {
							continue
						}

						ops := numberF(append(append(append(append([]FOp{}, p...), a), b), cc))
						all = append(all, Conc3Case{Pre: ops[:len(p)], Par: ops[len(p):], Park: park})
					}
				}
			}
		}
	}

	for i := len(all) - 1; i > 0; i-- {
		j := r.Intn(i + 1)
		all[i], all[j] = all[j], all[i]
	}

	if n < len(all) {
		all = all[:n]
	}

	return all
}
