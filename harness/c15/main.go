// c15: drives the real message pickup service (mediator inbox) through operation histories with
// injected single faults and records what it did, for comparison with the Coq model (coq/C15).
package main

import (
	"encoding/json"
	"errors"
	"fmt"
	"os"
	"path/filepath"
	"sort"
	"strconv"
	"strings"
	"time"

	"github.com/hyperledger/aries-framework-go/component/storageutil/mem"
	"github.com/hyperledger/aries-framework-go/pkg/didcomm/common/service"
	"github.com/hyperledger/aries-framework-go/pkg/didcomm/protocol/mediator"
	"github.com/hyperledger/aries-framework-go/pkg/didcomm/protocol/messagepickup"
	mockdispatcher "github.com/hyperledger/aries-framework-go/pkg/mock/didcomm/dispatcher"
	mockprovider "github.com/hyperledger/aries-framework-go/pkg/mock/provider"

	"verifharness/hx"
)

// Op is one operation of a history.
type Op struct {
	Kind    string `json:"op"`                // add | status | pickup
	DID     int    `json:"did"`               // recipient 1..
	Msg     int    `json:"msg,omitempty"`     // add: message number (unique in the history)
	Thread  bool   `json:"thread"`            // status: request carries ~thread
	N       int    `json:"n"`                 // pickup: batch_size
	Fault   string `json:"fault,omitempty"`   // "", get, put0, put1, send
	Async   bool   `json:"async,omitempty"`   // go through HandleInbound (goroutine) instead of the sync hook
	Alias   bool   `json:"alias,omitempty"`   // fwd: the recipient's DID resolves to a document with a different id
	V2      bool   `json:"v2,omitempty"`      // fwd: DIDComm V2 forward type
	KeyForm int    `json:"keyform,omitempty"` // notation of the registered route keys of this history (largest value counts)
	Pad     int    `json:"pad,omitempty"`     // payloads of this history are padded to that many bytes (largest value of the history counts)
}

// Obs is what the implementation did for one op.
type Obs struct {
	Out   string `json:"out"` // added | err | status | statusfail | batch | batchfail | panic
	Count int    `json:"count"`
	Msgs  []int  `json:"msgs"`
	// Snap is the inbox document of the op's recipient read back from the raw store afterwards (nil = no document).
	Snap      []int `json:"snap"`
	SnapNil   bool  `json:"snap_nil"`
	SnapCount int   `json:"snap_count"` // message_count member of the stored document
}

func didName(d int) string { return fmt.Sprintf("did:example:r%d", d) }

type world struct {
	svc       *messagepickup.Service
	rec       *hx.RecProvider
	raw       *mem.Provider
	failGet   int // fail the k-th Get of the current op (-1 none)
	failPut   int
	nGet      int
	nPut      int
	failSend  bool
	sent      []map[string]interface{}
	sendTried chan struct{}
	med       *mediator.Service // attached by attachMediator (histories with "fwd" ops)
	relayOK   bool
	relayed   []int
}

func mustMsg(v interface{}) service.DIDCommMsgMap {
	b, _ := json.Marshal(v)

	m, err := service.ParseDIDCommMsgMap(b)
	if err != nil {
		panic(err)
	}

	return m
}

func newWorld() *world {
	w := &world{failGet: -1, failPut: -1, sendTried: make(chan struct{}, 16)}
	w.raw = mem.NewProvider()
	w.rec = hx.NewRecProvider(w.raw)
	w.rec.Record = false
	w.rec.Before = func(c *hx.Call) error {
		if c.Store != messagepickup.Namespace {
			return nil
		}

		switch c.Op {
		case "Get":
			w.nGet++
			if w.nGet-1 == w.failGet {
				return hx.ErrInjected
			}
		case "Put":
			w.nPut++
			if w.nPut-1 == w.failPut {
				return hx.ErrInjected
			}
		}

		return nil
	}

	out := &mockdispatcher.MockOutbound{ValidateSendToDID: func(msg interface{}, myDID, theirDID string) error {
		b, _ := json.Marshal(msg)
		m := map[string]interface{}{}
		_ = json.Unmarshal(b, &m)
		m["_to"] = theirDID
		w.sent = append(w.sent, m)

		select {
		case w.sendTried <- struct{}{}:
		default:
		}

		if w.failSend {
			return errors.New("verif: injected send failure")
		}

		return nil
	}}

	svc, err := messagepickup.New(&mockprovider.Provider{
		StorageProviderValue:              w.rec,
		ProtocolStateStorageProviderValue: mem.NewProvider(),
		OutboundDispatcherValue:           out,
	})
	if err != nil {
		panic(err)
	}

	w.svc = svc

	return w
}

// padTo > 0: payloads are padded with blanks to that many bytes (large-message histories)
var padTo int

func payloadOf(m int) []byte {
	b := []byte(fmt.Sprintf("m%d", m))
	for len(b) < padTo {
		b = append(b, ' ')
	}

	return b
}

func msgNum(b []byte) int {
	n, err := strconv.Atoi(strings.TrimPrefix(strings.TrimRight(string(b), " "), "m"))
	if err != nil {
		return -1
	}

	return n
}

type storedInbox struct {
	MessageCount int `json:"message_count"`
	Messages     []struct {
		Msg []byte `json:"msg"`
	} `json:"messages"`
}

func (w *world) snapshot(d int, o *Obs) {
	st, err := w.raw.OpenStore(messagepickup.Namespace)
	if err != nil {
		panic(err)
	}

	b, err := st.Get(didName(d))
	if err != nil {
		o.SnapNil = true
		return
	}

	var in storedInbox
	if e := json.Unmarshal(b, &in); e != nil {
		o.SnapNil = true
		return
	}

	o.Snap = []int{}
	for _, m := range in.Messages {
		o.Snap = append(o.Snap, msgNum(m.Msg))
	}

	o.SnapCount = in.MessageCount
}

func (w *world) apply(op Op) (obs Obs) {
	w.failGet, w.failPut, w.failSend, w.nGet, w.nPut = -1, -1, false, 0, 0
	w.sent = nil

	switch op.Fault {
	case "get":
		w.failGet = 0
	case "put0":
		w.failPut = 0
	case "put1":
		w.failPut = 1
	case "send":
		w.failSend = true
	}

	for len(w.sendTried) > 0 {
		<-w.sendTried
	}

	defer func() {
		if r := recover(); r != nil {
			obs = Obs{Out: "panic"}
		}

		if obs.Msgs == nil {
			obs.Msgs = []int{}
		}

		w.snapshot(op.DID, &obs)
	}()

	var err error

	switch op.Kind {
	case "add":
		err = w.svc.AddMessage(payloadOf(op.Msg), didName(op.DID))
		if err != nil {
			return Obs{Out: "err"}
		}

		return Obs{Out: "added"}
	case "fwd":
		// a forward through the real mediator whose relay to the recipient fails: held in the recipient's inbox
		if err = w.forward(op.DID, op.Msg, op.V2); err != nil {
			return Obs{Out: "err"}
		}

		return Obs{Out: "added"}
	case "status", "pickup":
		m := map[string]interface{}{"@id": "req-1"}
		if op.Kind == "status" {
			m["@type"] = messagepickup.StatusRequestMsgType
			if op.Thread {
				m["~thread"] = map[string]interface{}{"thid": "t-1"}
			}
		} else {
			m["@type"] = messagepickup.BatchPickupMsgType
			m["batch_size"] = op.N
			m["~thread"] = map[string]interface{}{"thid": "t-1"}
		}

		b, _ := json.Marshal(m)

		msg, e := service.ParseDIDCommMsgMap(b)
		if e != nil {
			panic(e)
		}

		if op.Async {
			// the way the dispatcher calls the service: the handler runs in a goroutine of the service
			_, err = w.svc.HandleInbound(msg, service.NewDIDCommContext("did:example:mediator", didName(op.DID), nil))
			if err != nil {
				return Obs{Out: "err"}
			}

			select {
			case <-w.sendTried:
				// the handler returns right after the send; give the restore path time to finish
				time.Sleep(2 * time.Millisecond)
			case <-time.After(3 * time.Second):
				return Obs{Out: "err"}
			}
		} else {
			err = w.svc.VerifHandleSync(msg, "did:example:mediator", didName(op.DID))
		}
	}

	if len(w.sent) == 0 {
		// nothing handed to the dispatcher
		return Obs{Out: "err"}
	}

	s := w.sent[0]
	typ, _ := s["@type"].(string)
	failed := w.failSend

	switch typ {
	case messagepickup.StatusMsgType:
		c, _ := s["message_count"].(float64)
		if failed {
			return Obs{Out: "statusfail", Count: int(c)}
		}

		return Obs{Out: "status", Count: int(c)}
	case messagepickup.BatchMsgType:
		var ms []int

		att, _ := s["messages~attach"].([]interface{})
		for _, a := range att {
			am, _ := a.(map[string]interface{})
			b64, _ := am["msg"].(string)

			var raw []byte
			_ = json.Unmarshal([]byte(strconv.Quote(b64)), &raw)
			ms = append(ms, msgNum(raw))
		}

		if ms == nil {
			ms = []int{}
		}

		if failed {
			return Obs{Out: "batchfail", Msgs: ms}
		}

		return Obs{Out: "batch", Msgs: ms}
	}

	return Obs{Out: "err"}
}

// --- Coq printing ---

func coqFault(f string) string {
	switch f {
	case "get":
		return "FGet"
	case "put0":
		return "(FPut 0%nat)"
	case "put1":
		return "(FPut 1%nat)"
	case "send":
		return "FSend"
	}

	return "NoFault"
}

func coqOp(o Op) string {
	switch o.Kind {
	case "add", "fwd":
		return fmt.Sprintf("Add %d %d %s", o.DID, o.Msg, coqFault(o.Fault))
	case "status":
		return fmt.Sprintf("Status %d %s %s", o.DID, hx.CoqBool(o.Thread), coqFault(o.Fault))
	default:
		return fmt.Sprintf("Pickup %d %s %s", o.DID, hx.CoqZ(int64(o.N)), coqFault(o.Fault))
	}
}

func coqObs(o Obs) string {
	var out string

	switch o.Out {
	case "added":
		out = "OAdded"
	case "err":
		out = "OErr"
	case "panic":
		out = "OPanic"
	case "status":
		out = fmt.Sprintf("OStatus %d%%nat", o.Count)
	case "statusfail":
		out = fmt.Sprintf("OStatusFail %d%%nat", o.Count)
	case "batch":
		out = "OBatch " + hx.CoqNList(o.Msgs)
	case "batchfail":
		out = "OBatchFail " + hx.CoqNList(o.Msgs)
	}

	snap := "None"
	if !o.SnapNil {
		snap = "(Some " + hx.CoqNList(o.Snap) + ")"
	}

	return "(" + out + ", " + snap + ")"
}

func coqCase(ops []Op, obs []Obs) string {
	a := make([]string, len(ops))
	for i, o := range ops {
		a[i] = coqOp(o)
	}

	b := make([]string, len(obs))
	for i, o := range obs {
		b[i] = coqObs(o)
	}

	return "{| c_ops := " + hx.CoqList(a) + "; c_obs := " + hx.CoqList(b) + " |}"
}

// --- running one history, with the direct oracle ---

func eqInts(a, b []int) bool {
	if len(a) != len(b) {
		return false
	}

	for i := range a {
		if a[i] != b[i] {
			return false
		}
	}

	return true
}

func runHistory(kind string, ops []Op, tr *hx.Trace) {
	padTo = 0
	for _, o := range ops {
		if o.Pad > padTo {
			padTo = o.Pad
		}
	}

	defer func() { padTo = 0 }()

	routeKeyForm = 0
	for _, o := range ops {
		if o.KeyForm > routeKeyForm {
			routeKeyForm = o.KeyForm
		}
	}

	w := newWorld()

	for _, o := range ops {
		if o.Kind == "fwd" {
			alias := false
			for _, x := range ops {
				alias = alias || x.Alias
			}

			w.attachMediator(alias)

			break
		}
	}
	obs := make([]Obs, 0, len(ops))
	accepted := map[int][]int{}
	delivered := map[int][]int{}
	held := map[int][]int{}
	rec := &hx.Record{Kind: kind, Case: ops, Oracle: "ok"}

	fail := func(sig, detail string) {
		if rec.Oracle == "ok" {
			rec.Oracle, rec.Sig, rec.Detail = "fail", sig, detail
		}
	}

	classParts := []string{}
	nontrivial := false

	for i, op := range ops {
		o := w.apply(op)
		obs = append(obs, o)
		classParts = append(classParts, fmt.Sprintf("%s/%s/%s/%d", op.Kind, op.Fault, o.Out, len(o.Msgs)))

		if o.Out == "panic" {
			fail("panic:"+op.Kind, fmt.Sprintf("op %d (%+v) panicked", i, op))
			break
		}

		d := op.DID
		if o.Out == "added" {
			accepted[d] = append(accepted[d], op.Msg)
		}

		if o.Out == "batch" {
			delivered[d] = append(delivered[d], o.Msgs...)
			if len(o.Msgs) > 0 {
				nontrivial = true
			}
		}

		if (o.Out == "status" || o.Out == "statusfail") && o.Count != len(held[d]) {
			fail("status-count", fmt.Sprintf("op %d: status reports %d, held %d", i, o.Count, len(held[d])))
		}

		if !o.SnapNil {
			held[d] = o.Snap
			if o.SnapCount != len(o.Snap) {
				fail("stored-count", fmt.Sprintf("op %d: stored message_count %d, messages %d", i, o.SnapCount, len(o.Snap)))
			}
		}

		if !eqInts(append(append([]int{}, delivered[d]...), held[d]...), accepted[d]) {
			sig := "conservation"
			if op.Kind == "pickup" && op.Fault == "send" {
				sig = "conservation:failed-send-loses-batch"
			}

			fail(sig, fmt.Sprintf("op %d (%+v): delivered %v ++ held %v != accepted %v", i, op, delivered[d], held[d], accepted[d]))
		}

		if op.Fault != "" {
			nontrivial = true
		}
	}

	rec.Coq = "Seq (" + coqCase(ops[:len(obs)], obs) + ")"
	rec.Observed = obs
	rec.Class = strings.Join(classParts, ",")
	rec.Trivial = !nontrivial
	rec.Dist = []string{fmt.Sprintf("len=%d", len(ops))}

	for _, op := range ops {
		rec.Dist = append(rec.Dist, "op="+op.Kind, "fault="+op.Fault)
	}

	for _, o := range obs {
		rec.Dist = append(rec.Dist, "out="+o.Out)
	}

	tr.Put(rec)
}

// --- generators ---

func alphabet(dids []int, full bool) []Op {
	var a []Op

	addFaults := []string{"", "get", "put0", "put1"}
	stFaults := []string{"", "get", "send"}
	pkFaults := []string{"", "get", "put0", "send"}
	sizes := []int{-1, 0, 1, 2, 100}

	if !full {
		addFaults = []string{"", "put1"}
		stFaults = []string{""}
		pkFaults = []string{"", "send"}
		sizes = []int{-1, 1, 2}
	}

	for _, d := range dids {
		for _, f := range addFaults {
			a = append(a, Op{Kind: "add", DID: d, Fault: f})
		}

		for _, f := range stFaults {
			a = append(a, Op{Kind: "status", DID: d, Thread: true, Fault: f})
			if f == "" || full {
				a = append(a, Op{Kind: "status", DID: d, Thread: false, Fault: f})
			}
		}

		for _, n := range sizes {
			for _, f := range pkFaults {
				a = append(a, Op{Kind: "pickup", DID: d, N: n, Fault: f})
			}
		}
	}

	return a
}

func number(ops []Op) []Op {
	out := make([]Op, len(ops))
	n := 0

	for i, o := range ops {
		out[i] = o
		if o.Kind == "add" || o.Kind == "fwd" {
			n++
			out[i].Msg = n + 6
		}
	}

	return out
}

func enumerate(alpha []Op, maxLen int, f func([]Op)) {
	var rec func(prefix []Op)

	rec = func(prefix []Op) {
		if len(prefix) > 0 {
			f(number(prefix))
		}

		if len(prefix) == maxLen {
			return
		}

		for _, o := range alpha {
			rec(append(append([]Op{}, prefix...), o))
		}
	}

	rec(nil)
}

func randomHistory(r *hx.Rng, alpha []Op, n int, async bool) []Op {
	ops := make([]Op, 0, n)
	has := map[int]bool{}

	for len(ops) < n {
		var o Op
		// bias towards adds so that inboxes fill up
		if r.Intn(100) < 45 {
			o = Op{Kind: "add", DID: 1 + r.Intn(2)}
			if r.Intn(6) == 0 {
				o.Fault = []string{"get", "put0", "put1"}[r.Intn(3)]
			}
		} else {
			o = alpha[r.Intn(len(alpha))]
		}

		if async {
			o.Fault = ""
			if o.Kind != "add" {
				if !has[o.DID] {
					continue
				}

				o.Async = true
			}
		}

		if o.Kind == "add" {
			has[o.DID] = true
		}

		ops = append(ops, o)
	}

	return number(ops)
}

func corpus(dir string, tr *hx.Trace) {
	files, _ := filepath.Glob(filepath.Join(dir, "*.json"))
	sort.Strings(files)

	for _, f := range files {
		b, err := os.ReadFile(f)
		if err != nil {
			continue
		}

		var fc FCase
		if json.Unmarshal(b, &fc) == nil && len(fc.Ops) > 0 {
			runFull("corpus:"+filepath.Base(f), fc, tr)
			continue
		}

		var c struct {
			Ops []Op `json:"ops"`
		}

		if json.Unmarshal(b, &c) != nil || len(c.Ops) == 0 {
			fmt.Fprintln(os.Stderr, "bad corpus file", f)
			os.Exit(2)
		}

		runHistory("corpus:"+filepath.Base(f), c.Ops, tr)
	}
}

func main() {
	args := hx.ParseArgs()
	tr := hx.NewTrace(args.Out)

	defer tr.Close()

	if args.Replay != "" {
		b, err := os.ReadFile(args.Replay)
		if err != nil {
			fmt.Fprintln(os.Stderr, err)
			os.Exit(2)
		}

		var cc struct {
			Case struct {
				Conc *ConcCase `json:"conc"`
			} `json:"case"`
		}

		if json.Unmarshal(b, &cc) == nil && cc.Case.Conc != nil {
			runConc("replay", *cc.Case.Conc, tr)
			return
		}

		var fr struct {
			Case struct {
				FCase
				Conc3 *Conc3Case `json:"conc3"`
			} `json:"case"`
			FCase
		}

		if json.Unmarshal(b, &fr) == nil {
			switch {
			case fr.Case.Conc3 != nil:
				runConc3("replay", *fr.Case.Conc3, tr)
				return
			case len(fr.Case.Ops) > 0:
				runFull("replay", fr.Case.FCase, tr)
				return
			case len(fr.Ops) > 0:
				runFull("replay", fr.FCase, tr)
				return
			}
		}

		var c struct {
			Case []Op `json:"case"`
			Ops  []Op `json:"ops"`
		}

		_ = json.Unmarshal(b, &c)
		if c.Case == nil {
			c.Case = c.Ops
		}

		runHistory("replay", c.Case, tr)

		return
	}

	corpus(args.Extra, tr)

	rng := hx.NewRng(args.Seed)
	full := alphabet([]int{1, 2}, true)
	small := alphabet([]int{1}, false)

	// exhaustive: all histories up to length 2 over the full alphabet (2 recipients, every fault position),
	// and up to length 4 (quick) / 5 (thorough) over the reduced single-recipient alphabet
	enumerate(full, 2, func(ops []Op) { runHistory("exhaustive-full", ops, tr) })

	deep := 3
	nRandom, nAsync, nConc := 1200, 60, 160

	if args.Tier == "thorough" {
		deep = 4
		nRandom, nAsync, nConc = 30000, 600, 100000
	}

	// forced overlaps of two operations (A parked inside a store call / the send while B is started)
	for _, c := range concCases(rng.Fork(7_000_000), nConc) {
		runConc("overlap", c, tr)
	}

	enumerate(small, deep, func(ops []Op) { runHistory("exhaustive-small", ops, tr) })

	// the mediator's fall-back into the inbox: forwards whose relay fails are held (real mediator + real pickup service),
	// with the recipient's DID resolving to a document of the same / of another id
	for _, alias := range []bool{false, true} {
		// the two runs differ in the resolved document id AND in the notation of the route keys; both forward versions in each
		kf := 0
		if alias {
			kf = 1
		}

		medAlpha := []Op{{Kind: "fwd", DID: 1, Alias: alias, KeyForm: kf}, {Kind: "fwd", DID: 2, Alias: alias, V2: true}, {Kind: "fwd", DID: 1, Fault: "put1", Alias: alias, V2: true},
			{Kind: "fwd", DID: 1, Fault: "get", Alias: alias}, {Kind: "add", DID: 1}, {Kind: "status", DID: 1, Thread: true},
			{Kind: "pickup", DID: 1, N: 1}, {Kind: "pickup", DID: 1, N: 100}, {Kind: "pickup", DID: 2, N: 100}, {Kind: "pickup", DID: 1, N: 1, Fault: "send"}}
		enumerate(medAlpha, 3, func(ops []Op) {
			for _, o := range ops {
				if o.Kind == "fwd" {
					runHistory("mediator-fallback", ops, tr)
					return
				}
			}
		})
	}

	// large messages: the inbox holds several hundred KiB per message and several MiB in all; nothing in the property
	// depends on sizes, so the model is the same
	for i, sz := range []int{70_000, 400_000, 1_100_000} {
		r := rng.Fork(uint64(5_000_000 + i))
		n := 3 + r.Intn(3)
		h := []Op{}

		for j := 0; j < n; j++ {
			h = append(h, Op{Kind: "add", DID: 1})
		}

		h = append(h, Op{Kind: "pickup", DID: 1, N: 2 + r.Intn(2)}, Op{Kind: "status", DID: 1, Thread: true},
			Op{Kind: "pickup", DID: 1, N: 100, Fault: "send"}, Op{Kind: "pickup", DID: 1, N: 100}, Op{Kind: "status", DID: 1, Thread: true})
		h[0].Pad = sz
		runHistory(fmt.Sprintf("large-messages:%d", sz), number(h), tr)
	}

	for i := 0; i < nRandom/6; i++ {
		r := rng.Fork(uint64(3_000_000 + i))
		h := randomHistory(r, full, 3+r.Intn(10), false)

		for j := range h {
			if h[j].Kind == "add" && r.Intn(3) > 0 {
				h[j].Kind, h[j].Alias, h[j].V2, h[j].KeyForm = "fwd", i%2 == 1, r.Intn(2) == 0, (i/2)%3
			}
		}

		runHistory("mediator-fallback-random", h, tr)
	}

	for i := 0; i < nRandom; i++ {
		r := rng.Fork(uint64(i))
		runHistory("random", randomHistory(r, full, 3+r.Intn(14), false), tr)
	}

	for i := 0; i < nAsync; i++ {
		r := rng.Fork(uint64(1_000_000 + i))
		runHistory("async", randomHistory(r, full, 3+r.Intn(8), true), tr)
	}

	// wave 5: the document-level model
	fullGenerators(rng, args.Tier, tr)
}
