// The mediator's fall-back into the inbox (pkg/didcomm/protocol/mediator/service.go handleForward): a forward for a
// registered route key whose relay fails must be HELD for the registrant — i.e. it is an `Add` of the inbox model —
// and must later be counted and handed out to that same recipient by status / batch pickup. The real mediator
// service is wired to the real message pickup service of the world; the recipient's DID resolves (harness VDR)
// either to a document with the same id or to one with a different ("canonical") id.
package main

import (
	"encoding/base64"
	"errors"
	"fmt"

	"github.com/hyperledger/aries-framework-go/component/models/did"
	vdrspi "github.com/hyperledger/aries-framework-go/component/vdr/api"
	commonmodel "github.com/hyperledger/aries-framework-go/pkg/common/model"
	"github.com/hyperledger/aries-framework-go/pkg/didcomm/common/service"
	"github.com/hyperledger/aries-framework-go/pkg/didcomm/protocol/mediator"
	"github.com/hyperledger/aries-framework-go/pkg/didcomm/protocol/messagepickup"
	"github.com/hyperledger/aries-framework-go/pkg/didcomm/transport"
	mockdispatcher "github.com/hyperledger/aries-framework-go/pkg/mock/didcomm/dispatcher"
	mockkms "github.com/hyperledger/aries-framework-go/pkg/mock/kms"
	mockprovider "github.com/hyperledger/aries-framework-go/pkg/mock/provider"
	mockvdr "github.com/hyperledger/aries-framework-go/pkg/mock/vdr"
)

// routeKeyForm is the notation in which the recipients of the current history registered their route keys (and in
// which forwards address them): 0 = a bare did:key, 1 = a key id of that did:key (DID URL with fragment), 2 = a key
// id of another DID of the recipient (not the DID of its connection with the mediator).
var routeKeyForm int

func routeKey(d int) string {
	switch routeKeyForm {
	case 1:
		return fmt.Sprintf("did:key:z6MkRouteKeyOfRecipient%d#z6MkRouteKeyOfRecipient%d", d, d)
	case 2:
		return fmt.Sprintf("did:peer:otherDidOfRecipient%d#key-1", d)
	}

	return fmt.Sprintf("did:key:z6MkRouteKeyOfRecipient%d", d)
}

// forwardType: both protocol versions of the forward message are served by the same handler.
func forwardType(v2 bool) string {
	if v2 {
		return service.ForwardMsgTypeV2
	}

	return service.ForwardMsgType
}

// attachMediator builds a real mediator service over the world's store provider and message pickup service and
// registers one route key per recipient (through the real keylist-update handler).
func (w *world) attachMediator(alias bool) {
	w.buildMediator(alias)
	w.registerRoutes()
}

// buildMediator creates a mediator service instance over the world's store provider and message pickup service.
func (w *world) buildMediator(alias bool) {
	vdr := &mockvdr.MockVDRegistry{ResolveFunc: func(id string, _ ...vdrspi.DIDMethodOption) (*did.DocResolution, error) {
		docID := id
		if alias {
			docID = id + ":canonical"
		}

		return &did.DocResolution{DIDDocument: &did.Doc{ID: docID, Service: []did.Service{{
			ID: docID + "#svc", Type: "did-communication", ServiceEndpoint: commonmodel.NewDIDCommV1Endpoint("http://offline.example"),
			RecipientKeys: []string{"did:key:z6MkRecipientOf" + id},
		}}}}, nil
	}}

	out := &mockdispatcher.MockOutbound{
		ValidateSendToDID: func(interface{}, string, string) error { return nil }, // keylist-update responses
		ValidateForward: func(msg interface{}, des *service.Destination) error {
			if w.relayOK {
				b, _ := msg.([]byte)
				w.relayed = append(w.relayed, msgNum(b))

				return nil
			}

			return errors.New("verif: recipient offline")
		},
	}

	svc, err := mediator.New(&mockprovider.Provider{
		StorageProviderValue: w.rec, ProtocolStateStorageProviderValue: w.raw,
		OutboundDispatcherValue: out, VDRegistryValue: vdr, KMSValue: &mockkms.KeyManager{},
		ServiceMap:             map[string]interface{}{messagepickup.MessagePickup: w.svc},
		MediaTypeProfilesValue: []string{transport.MediaTypeRFC0019EncryptedEnvelope},
	})
	if err != nil {
		panic(err)
	}

	w.med = svc
}

// registerRoutes registers one route key per recipient through the real keylist-update handler (persisted in the store).
func (w *world) registerRoutes() {
	for d := 1; d <= 4; d++ {
		m := map[string]interface{}{"@id": fmt.Sprintf("ku-%d", d), "@type": mediator.KeylistUpdateMsgType,
			"updates": []map[string]string{{"recipient_key": routeKey(d), "action": "add"}}}
		if e := w.med.VerifHandleKeylistUpdate(mustMsg(m), "did:example:mediator", didName(d)); e != nil {
			panic(e)
		}
	}
}

// forward delivers a forward message for recipient d's route key to the mediator (relay fails unless w.relayOK).
func (w *world) forward(d, m int, v2 bool) error {
	return w.med.VerifHandleForward(mustMsg(map[string]interface{}{"@id": fmt.Sprintf("fwd-%d", m), "@type": forwardType(v2),
		"to": routeKey(d), "msg": base64.StdEncoding.EncodeToString(payloadOf(m))}))
}
