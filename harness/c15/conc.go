// Forced overlaps: the property quantifies over interleavings of stores and pickups. After a sequential
// prefix, operation A is parked inside its k-th store call on the inbox (or inside its outbound send) and
// operation B is started while A sits there. On a service whose handlers exclude one another B blocks until
// A is released; if they do not, B runs in the middle of A's read-modify-write. Either way the outcome must
// be that of one of the two sequential orders (checked by the Coq model, Corr.check_conc) and must conserve
// the messages (direct oracle). Nothing in /repo is touched: the park sits in the harness-owned store
// wrapper and in the harness-owned outbound dispatcher.
package main

import (
	"encoding/json"
	"errors"
	"fmt"
	"sort"
	"strconv"
	"sync"
	"time"

	"github.com/hyperledger/aries-framework-go/component/storageutil/mem"
	"github.com/hyperledger/aries-framework-go/pkg/didcomm/common/service"
	"github.com/hyperledger/aries-framework-go/pkg/didcomm/protocol/messagepickup"
	mockdispatcher "github.com/hyperledger/aries-framework-go/pkg/mock/didcomm/dispatcher"
	mockprovider "github.com/hyperledger/aries-framework-go/pkg/mock/provider"

	"verifharness/hx"
)

// ConcCase is the replayable description of one forced overlap.
type ConcCase struct {
	Pre  []Op   `json:"pre"`
	A    Op     `json:"a"`
	B    Op     `json:"b"`
	Park string `json:"park"` // "0","1","2" = A's k-th store call on the inbox namespace; "send" = A's outbound send
}

type cworld struct {
	svc *messagepickup.Service
	raw *mem.Provider

	mu       sync.Mutex
	armed    bool
	parkAt   int // store-call index, -2 = send
	calls    int
	isParked bool
	released bool
	intruded int // inbox store calls made by B while A was parked inside its operation
	parked   chan struct{}
	release  chan struct{}
	sent     map[string][]map[string]interface{} // by request id
	failSend map[string]bool
	parkID   string
}

const grace = 40 * time.Millisecond

func newCWorld() *cworld {
	w := &cworld{parkID: "req-A", parked: make(chan struct{}, 1), release: make(chan struct{}), sent: map[string][]map[string]interface{}{}, failSend: map[string]bool{}}
	w.raw = mem.NewProvider()
	rec := hx.NewRecProvider(w.raw)
	rec.Record = false
	rec.Before = func(c *hx.Call) error {
		if c.Store != messagepickup.Namespace || (c.Op != "Get" && c.Op != "Put") {
			return nil
		}

		w.mu.Lock()
		if w.armed && !w.isParked && w.parkAt >= 0 && w.calls == w.parkAt {
			w.isParked = true
			w.calls++
			w.mu.Unlock()
			w.parked <- struct{}{}
			<-w.release

			return nil
		}

		if w.isParked && !w.released {
			w.intruded++
		}

		w.calls++
		w.mu.Unlock()

		return nil
	}

	out := &mockdispatcher.MockOutbound{ValidateSendToDID: func(msg interface{}, myDID, theirDID string) error {
		b, _ := json.Marshal(msg)
		m := map[string]interface{}{}
		_ = json.Unmarshal(b, &m)
		id, _ := m["@id"].(string)
		m["_to"], m["_from"] = theirDID, myDID

		w.mu.Lock()
		w.sent[id] = append(w.sent[id], m)
		fail := w.failSend[id]
		park := w.armed && !w.isParked && w.parkAt == -2 && id == w.parkID

		if park {
			w.isParked = true
		}
		w.mu.Unlock()

		if park {
			w.parked <- struct{}{}
			<-w.release
		}

		if fail {
			return errors.New("verif: injected send failure")
		}

		return nil
	}}

	svc, err := messagepickup.New(&mockprovider.Provider{
		StorageProviderValue:              rec,
		ProtocolStateStorageProviderValue: mem.NewProvider(),
		OutboundDispatcherValue:           out,
	})
	if err != nil {
		panic(err)
	}

	w.svc = svc

	return w
}

func (w *cworld) snapshot(d int, o *Obs) {
	sw := &world{raw: w.raw}
	sw.snapshot(d, o)
}

// run executes one op (request id = id) and projects what the service did.
func (w *cworld) run(op Op, id string) (obs Obs) {
	defer func() {
		if r := recover(); r != nil {
			obs = Obs{Out: "panic"}
		}

		if obs.Msgs == nil {
			obs.Msgs = []int{}
		}
	}()

	w.mu.Lock()
	w.failSend[id] = op.Fault == "send"
	delete(w.sent, id)
	w.mu.Unlock()

	if op.Kind == "add" {
		if err := w.svc.AddMessage(payloadOf(op.Msg), didName(op.DID)); err != nil {
			return Obs{Out: "err"}
		}

		return Obs{Out: "added"}
	}

	m := map[string]interface{}{"@id": id, "~thread": map[string]interface{}{"thid": "t-" + id}}
	if op.Kind == "status" {
		m["@type"] = messagepickup.StatusRequestMsgType
	} else {
		m["@type"] = messagepickup.BatchPickupMsgType
		m["batch_size"] = op.N
	}

	b, _ := json.Marshal(m)

	msg, e := service.ParseDIDCommMsgMap(b)
	if e != nil {
		panic(e)
	}

	_ = w.svc.VerifHandleSync(msg, "did:example:mediator", didName(op.DID))

	w.mu.Lock()
	sent := w.sent[id]
	w.mu.Unlock()

	if len(sent) == 0 {
		return Obs{Out: "err"}
	}

	return decodeSent(sent[0], op.Fault == "send")
}

func decodeSent(s map[string]interface{}, failed bool) Obs {
	typ, _ := s["@type"].(string)

	switch typ {
	case messagepickup.StatusMsgType:
		c, _ := s["message_count"].(float64)
		if failed {
			return Obs{Out: "statusfail", Count: int(c)}
		}

		return Obs{Out: "status", Count: int(c)}
	case messagepickup.BatchMsgType:
		ms := []int{}

		att, _ := s["messages~attach"].([]interface{})
		for _, a := range att {
			am, _ := a.(map[string]interface{})
			b64, _ := am["msg"].(string)

			var raw []byte
			_ = json.Unmarshal([]byte(strconv.Quote(b64)), &raw)
			ms = append(ms, msgNum(raw))
		}

		if failed {
			return Obs{Out: "batchfail", Msgs: ms}
		}

		return Obs{Out: "batch", Msgs: ms}
	}

	return Obs{Out: "err"}
}

func sortedCopy(a []int) []int {
	b := append([]int{}, a...)
	sort.Ints(b)

	return b
}

func coqOut(o Obs) string {
	s := coqObs(o) // "(out, snap)"
	// strip the snapshot part: coqObs always ends with ", None)" or ", (Some [...]))"
	depth := 0

	for i := 1; i < len(s); i++ {
		switch s[i] {
		case '(', '[':
			depth++
		case ')', ']':
			depth--
		case ',':
			if depth == 0 {
				return "(" + s[1:i] + ")"
			}
		}
	}

	return s
}

func coqSnap(o Obs) string {
	if o.SnapNil {
		return "None"
	}

	return "(Some " + hx.CoqNList(o.Snap) + ")"
}

func runConc(kind string, c ConcCase, tr *hx.Trace) {
	w := newCWorld()
	rec := &hx.Record{Kind: kind, Case: map[string]interface{}{"conc": c}, Oracle: "ok"}

	fail := func(sig, detail string) {
		if rec.Oracle == "ok" {
			rec.Oracle, rec.Sig, rec.Detail = "fail", sig, detail
		}
	}

	accepted, delivered := map[int][]int{}, map[int][]int{}
	preObs := make([]Obs, 0, len(c.Pre))

	note := func(op Op, o Obs) {
		if o.Out == "added" {
			accepted[op.DID] = append(accepted[op.DID], op.Msg)
		}

		if o.Out == "batch" {
			delivered[op.DID] = append(delivered[op.DID], o.Msgs...)
		}
	}

	for i, op := range c.Pre {
		o := w.run(op, fmt.Sprintf("req-P%d", i))
		w.snapshot(op.DID, &o)
		preObs = append(preObs, o)
		note(op, o)
	}

	w.mu.Lock()
	w.armed, w.calls = true, 0
	if c.Park == "send" {
		w.parkAt = -2
	} else {
		w.parkAt, _ = strconv.Atoi(c.Park)
	}
	w.mu.Unlock()

	doneA, doneB := make(chan Obs, 1), make(chan Obs, 1)

	go func() { doneA <- w.run(c.A, "req-A") }()

	var oa, ob Obs

	overlapped := false

	select {
	case <-w.parked:
		overlapped = true

		go func() { doneB <- w.run(c.B, "req-B") }()

		gotB := false

		select {
		case ob = <-doneB:
			gotB = true
		case <-time.After(grace):
		}

		w.mu.Lock()
		w.released = true
		w.mu.Unlock()
		close(w.release)

		select {
		case oa = <-doneA:
		case <-time.After(20 * time.Second):
			fail("deadlock", "operation A did not finish within 20 s after being released")
		}

		if !gotB {
			select {
			case ob = <-doneB:
			case <-time.After(20 * time.Second):
				fail("deadlock", "operation B did not finish within 20 s")
			}
		}
	case oa = <-doneA:
		// A finished without reaching the park point: plain sequential pair
		w.mu.Lock()
		w.armed = false
		w.mu.Unlock()

		ob = w.run(c.B, "req-B")
	case <-time.After(20 * time.Second):
		fail("deadlock", "operation A neither finished nor reached a store call within 20 s")
	}

	if rec.Oracle == "fail" {
		rec.Class, rec.Dist = "conc/deadlock", []string{"conc=deadlock"}
		tr.Put(rec)

		return
	}

	w.snapshot(c.A.DID, &oa)
	w.snapshot(c.B.DID, &ob)
	note(c.A, oa)
	note(c.B, ob)

	if oa.Out == "panic" || ob.Out == "panic" {
		fail("panic:conc", fmt.Sprintf("a handler panicked under overlap: A=%s B=%s", oa.Out, ob.Out))
	}

	for _, x := range []struct {
		d int
		o Obs
	}{{c.A.DID, oa}, {c.B.DID, ob}} {
		held := x.o.Snap
		all := sortedCopy(append(append([]int{}, delivered[x.d]...), held...))

		if !eqInts(all, sortedCopy(accepted[x.d])) {
			fail("conservation:overlap", fmt.Sprintf("recipient %d after overlapping %s/%s (A parked at %s): delivered %v + held %v != accepted %v",
				x.d, c.A.Kind, c.B.Kind, c.Park, delivered[x.d], held, accepted[x.d]))
		}

		if !x.o.SnapNil && x.o.SnapCount != len(x.o.Snap) {
			fail("stored-count", fmt.Sprintf("recipient %d: stored message_count %d, messages %d", x.d, x.o.SnapCount, len(x.o.Snap)))
		}
	}

	pre := make([]string, len(c.Pre))
	for i, o := range c.Pre {
		pre[i] = coqOp(o)
	}

	pobs := make([]string, len(preObs))
	for i, o := range preObs {
		pobs[i] = coqObs(o)
	}

	rec.Coq = fmt.Sprintf("Conc {| k_pre := %s; k_pre_obs := %s; k_a := %s; k_b := %s; k_xa := %s; k_xb := %s; k_snap_a := %s; k_snap_b := %s |}",
		hx.CoqList(pre), hx.CoqList(pobs), coqOp(c.A), coqOp(c.B), coqOut(oa), coqOut(ob), coqSnap(oa), coqSnap(ob))
	rec.Observed = map[string]interface{}{"pre": preObs, "a": oa, "b": ob, "overlapped": overlapped, "b_store_calls_inside_a": w.intruded}
	rec.Class = fmt.Sprintf("conc/%s/%s/%s/%s/%s/%v/%d/%d", c.A.Kind, c.A.Fault, c.B.Kind, c.Park, oa.Out+ob.Out, c.A.DID == c.B.DID, len(c.Pre), len(oa.Msgs)+len(ob.Msgs))
	rec.Trivial = !overlapped
	rec.Dist = []string{"conc", "park=" + c.Park, "a=" + c.A.Kind, "b=" + c.B.Kind, fmt.Sprintf("overlapped=%v", overlapped), fmt.Sprintf("b_inside_a=%v", w.intruded > 0)}
	tr.Put(rec)
}

// concCases enumerates prefix x A x B x park point.
func concCases(r *hx.Rng, n int) []ConcCase {
	var all []ConcCase

	pres := [][]Op{
		{},
		{{Kind: "add", DID: 1}, {Kind: "add", DID: 1}},
		{{Kind: "add", DID: 1}, {Kind: "add", DID: 1}, {Kind: "add", DID: 1}, {Kind: "pickup", DID: 1, N: 1}},
	}
	as := []Op{{Kind: "add", DID: 1}, {Kind: "pickup", DID: 1, N: 1}, {Kind: "pickup", DID: 1, N: 100}, {Kind: "pickup", DID: 1, N: 1, Fault: "send"}, {Kind: "status", DID: 1, Thread: true}}
	bs := []Op{{Kind: "add", DID: 1}, {Kind: "add", DID: 2}, {Kind: "pickup", DID: 1, N: 1}, {Kind: "pickup", DID: 1, N: 100}, {Kind: "status", DID: 1, Thread: true}}

	for _, p := range pres {
		for _, a := range as {
			for _, b := range bs {
				for _, park := range []string{"0", "1", "2", "send"} {
					if park == "send" && a.Kind == "add" {
						continue
					}

					if park == "2" && a.Kind != "add" && a.Fault != "send" {
						continue // only createInbox+put (add to a fresh inbox) and the restore path make a third store call
					}

					ops := number(append(append(append([]Op{}, p...), a), b))
					all = append(all, ConcCase{Pre: ops[:len(p)], A: ops[len(p)], B: ops[len(p)+1], Park: park})
				}
			}
		}
	}

	// seeded order; the first n are run
	for i := len(all) - 1; i > 0; i-- {
		j := r.Intn(i + 1)
		all[i], all[j] = all[j], all[i]
	}

	if n < len(all) {
		all = all[:n]
	}

	return all
}
