// Wave 5: histories against the document-level model (coq/C15/Full.v) — every inbound handler of the service,
// any set of failing store calls plus a failing send per operation, restarts (a new service instance, and a new
// mediator, over the same store), documents planted in the store (undecodable, null, count off, pre-existing),
// answers attributed (destination DID, own DID, @id, ~thread.pthid), up to four recipients, inboxes of hundreds
// of messages — and the codec tie: in "codec" histories the stored bytes go to Coq as a JSON tree built by a
// generic reader; which members exist and what the document means is decided there (coq/C15/Codec.v).
package main

import (
	"bytes"
	"encoding/base64"
	"encoding/json"
	"errors"
	"fmt"
	"sort"
	"strconv"
	"strings"
	"time"

	"github.com/hyperledger/aries-framework-go/component/storageutil/mem"
	"github.com/hyperledger/aries-framework-go/pkg/didcomm/protocol/mediator"
	"github.com/hyperledger/aries-framework-go/pkg/didcomm/protocol/messagepickup"
	mockdispatcher "github.com/hyperledger/aries-framework-go/pkg/mock/didcomm/dispatcher"
	mockprovider "github.com/hyperledger/aries-framework-go/pkg/mock/provider"

	"verifharness/hx"
)

// FOp is one operation of a document-level history.
type FOp struct {
	Kind  string `json:"op"` // add | fwd | status | pickup | noop | statusin | batchin | restart
	DID   int    `json:"did,omitempty"`
	Me    int    `json:"me,omitempty"`   // the mediator's DID of that connection
	Msg   int    `json:"msg,omitempty"`  // add/fwd: message number
	Rid   int    `json:"rid,omitempty"`  // request @id
	Thid  int    `json:"thid,omitempty"` // request ~thread.thid (0 = no ~thread)
	N     int    `json:"n,omitempty"`
	FGet  []int  `json:"fget,omitempty"` // indexes of the operation's inbox Gets that fail
	FPut  []int  `json:"fput,omitempty"`
	FSend bool   `json:"fsend,omitempty"`
	V2    bool   `json:"v2,omitempty"` // fwd: DIDComm V2 forward type
}

// Plant is a document written into the raw store before the history starts.
type Plant struct {
	DID  int    `json:"did"`
	Kind string `json:"kind"`
	// Times is the profile of the added_time members of the planted messages (an inbox written by an earlier process whose
	// clock the property does not depend on): "" = all equal, in the past; inc / dec = increasing / decreasing in stored
	// order; future = increasing but later than anything this process will add; futuredec
	Times string `json:"times,omitempty"`
}

// FCase is the replayable description of one document-level history.
type FCase struct {
	Init    []Plant `json:"init,omitempty"`
	Ops     []FOp   `json:"fops"`
	Codec   bool    `json:"codec,omitempty"`   // snapshots go to Coq as JSON trees
	Empty   int     `json:"empty,omitempty"`   // message number whose payload is empty (0 = none)
	KeyForm int     `json:"keyform,omitempty"` // notation of the registered route keys (see routeKeyForm)
}

// SDoc is the harness's own classification of a stored value (bulk cases); it mirrors the service's decoding
// with mirror structs, independently of coq/C15/Codec.v.
type SDoc struct {
	Kind  string `json:"kind"` // none | garbage | null | doc
	Count int    `json:"count"`
	Field string `json:"field"` // null | list | bad
	Msgs  []int  `json:"msgs"`
}

// FObs is what the implementation did for one op.
type FObs struct {
	Out   string `json:"out"` // added | err | none | panic | status | batch
	OK    bool   `json:"ok"`
	To    int    `json:"to"`
	From  int    `json:"from"`
	ID    int    `json:"id"`
	Pthid int    `json:"pthid"`
	Count int    `json:"count"`
	Msgs  []int  `json:"msgs"`
	Snap  SDoc   `json:"snap"`
	tree  string
}

func meName(k int) string {
	if k == 0 {
		return "did:example:mediator"
	}

	return fmt.Sprintf("did:example:mediator%d", k)
}

func parseSuffix(s, prefix string) int {
	if !strings.HasPrefix(s, prefix) {
		return -1
	}

	rest := strings.TrimPrefix(s, prefix)
	if rest == "" {
		return 0
	}

	n, err := strconv.Atoi(rest)
	if err != nil {
		return -1
	}

	return n
}

type fworld struct {
	raw      *mem.Provider
	rec      *hx.RecProvider
	svc      *messagepickup.Service
	med      *mediator.Service
	useMed   bool
	out      *mockdispatcher.MockOutbound
	failGet  map[int]bool
	failPut  map[int]bool
	nGet     int
	nPut     int
	failSend bool
	sent     []map[string]interface{}
	payload  map[int][]byte
	byB64    map[string]int
	empty    int
}

func newFWorld(empty int) *fworld {
	w := &fworld{payload: map[int][]byte{}, byB64: map[string]int{}, empty: empty}
	w.raw = mem.NewProvider()
	w.rec = hx.NewRecProvider(w.raw)
	w.rec.Record = false
	w.rec.Before = func(c *hx.Call) error {
		if c.Store != messagepickup.Namespace {
			return nil
		}

		switch c.Op {
		case "Get":
			w.nGet++
			if w.failGet[w.nGet-1] {
				return hx.ErrInjected
			}
		case "Put":
			w.nPut++
			if w.failPut[w.nPut-1] {
				return hx.ErrInjected
			}
		}

		return nil
	}

	w.out = &mockdispatcher.MockOutbound{ValidateSendToDID: func(msg interface{}, myDID, theirDID string) error {
		b, _ := json.Marshal(msg)
		m := map[string]interface{}{}
		_ = json.Unmarshal(b, &m)
		m["_to"], m["_from"] = theirDID, myDID
		w.sent = append(w.sent, m)

		if w.failSend {
			return errors.New("verif: injected send failure")
		}

		return nil
	}}

	w.boot(true)

	return w
}

// boot creates a NEW service instance (and, when the history forwards, a new mediator) over the same store.
func (w *fworld) boot(first bool) {
	svc, err := messagepickup.New(&mockprovider.Provider{
		StorageProviderValue:              w.rec,
		ProtocolStateStorageProviderValue: w.raw,
		OutboundDispatcherValue:           w.out,
	})
	if err != nil {
		panic(err)
	}

	w.svc = svc

	if w.useMed {
		sw := &world{rec: w.rec, raw: w.raw, svc: w.svc}
		sw.buildMediator(false)

		if first {
			sw.registerRoutes()
		}

		w.med = sw.med
	}
}

func (w *fworld) payloadOf(m int) []byte {
	if b, ok := w.payload[m]; ok {
		return b
	}

	b := []byte(fmt.Sprintf("m%d", m))
	if m == w.empty {
		b = []byte{}
	}

	w.payload[m] = b
	w.byB64[base64.StdEncoding.EncodeToString(b)] = m

	return b
}

func (w *fworld) numOf(b64 string) int {
	if n, ok := w.byB64[b64]; ok {
		return n
	}

	return -1
}

// --- reading the raw store ---

type mirrorInbox struct {
	DID               string          `json:"DID"`
	MessageCount      int             `json:"message_count"`
	LastAddedTime     time.Time       `json:"last_added_time,omitempty"`
	LastDeliveredTime time.Time       `json:"last_delivered_time,omitempty"`
	LastRemovedTime   time.Time       `json:"last_removed_time,omitempty"`
	TotalSize         int             `json:"total_size,omitempty"`
	Messages          json.RawMessage `json:"messages"`
}

type mirrorMessage struct {
	ID        string    `json:"id"`
	AddedTime time.Time `json:"added_time"`
	Message   []byte    `json:"msg,omitempty"`
}

func (w *fworld) rawDoc(d int) ([]byte, bool) {
	st, err := w.raw.OpenStore(messagepickup.Namespace)
	if err != nil {
		panic(err)
	}

	b, err := st.Get(didName(d))
	if err != nil {
		return nil, false
	}

	return b, true
}

func (w *fworld) classify(b []byte) SDoc { return classifyDoc(b, w.numOf) }

func classifyDoc(b []byte, numOf func(string) int) SDoc {
	var in mirrorInbox
	if err := json.Unmarshal(b, &in); err != nil {
		return SDoc{Kind: "garbage"}
	}

	if strings.TrimSpace(string(b)) == "null" {
		return SDoc{Kind: "null"}
	}

	doc := SDoc{Kind: "doc", Count: in.MessageCount, Msgs: []int{}}

	var out []*mirrorMessage

	if in.Messages != nil {
		if err := json.Unmarshal(in.Messages, &out); err != nil {
			doc.Field = "bad"
			return doc
		}
	}

	if out == nil {
		doc.Field = "null"
		return doc
	}

	doc.Field = "list"

	for _, m := range out {
		if m == nil {
			doc.Field, doc.Msgs = "bad", []int{}
			return doc
		}

		n := numOf(base64.StdEncoding.EncodeToString(m.Message))
		if n < 0 {
			doc.Field, doc.Msgs = "bad", []int{}
			return doc
		}

		doc.Msgs = append(doc.Msgs, n)
	}

	return doc
}

// intern replaces a long string VALUE (uuids, time stamps: opaque to the model) by a short token, the same token for
// the same string within one history, so that equalities between strings are preserved; member names are never
// interned. It only keeps the Coq terms small (coqc needs ~1 KB of memory per character of a string literal).
var internTab = map[string]int{}

func intern(v string) string {
	if len(v) <= 16 {
		return v
	}

	n, ok := internTab[v]
	if !ok {
		n = len(internTab) + 1
		internTab[v] = n
	}

	return fmt.Sprintf("~%d", n)
}

// coqTree reads JSON text generically (member order kept, nothing inbox-specific) and prints it as a Json.v term.
func coqTree(b []byte) (string, bool) {
	dec := json.NewDecoder(bytes.NewReader(b))
	dec.UseNumber()

	s, err := coqValue(dec)
	if err != nil {
		return "", false
	}

	if _, err := dec.Token(); err == nil {
		return "", false // trailing data: json.Unmarshal rejects it
	}

	return s, true
}

func coqValue(dec *json.Decoder) (string, error) {
	t, err := dec.Token()
	if err != nil {
		return "", err
	}

	switch v := t.(type) {
	case json.Delim:
		switch v {
		case '[':
			items := []string{}

			for dec.More() {
				x, e := coqValue(dec)
				if e != nil {
					return "", e
				}

				items = append(items, x)
			}

			if _, e := dec.Token(); e != nil {
				return "", e
			}

			return "(JArr " + hx.CoqList(items) + ")", nil
		case '{':
			items := []string{}

			for dec.More() {
				k, e := dec.Token()
				if e != nil {
					return "", e
				}

				ks, _ := k.(string)

				x, e := coqValue(dec)
				if e != nil {
					return "", e
				}

				items = append(items, "("+hx.CoqString(ks)+", "+x+")")
			}

			if _, e := dec.Token(); e != nil {
				return "", e
			}

			return "(JObj " + hx.CoqList(items) + ")", nil
		}

		return "", errors.New("unexpected delimiter")
	case nil:
		return "JNull", nil
	case bool:
		return "(JBool " + hx.CoqBool(v) + ")", nil
	case json.Number:
		n, e := strconv.ParseInt(v.String(), 10, 64)
		if e != nil {
			return "(JStr " + hx.CoqString("~number~"+v.String()) + ")", nil
		}

		return "(JNum " + hx.CoqZ(n) + ")", nil
	case string:
		return "(JStr " + hx.CoqString(intern(v)) + ")", nil
	}

	return "", errors.New("unexpected token")
}

func (w *fworld) snapshot(d int, codec bool) (SDoc, string) {
	b, ok := w.rawDoc(d)
	if !ok {
		return SDoc{Kind: "none"}, "SNo"
	}

	doc := w.classify(b)

	if codec {
		t, ok := coqTree(b)
		if !ok {
			return doc, "(STree None)"
		}

		return doc, "(STree (Some " + t + "))"
	}

	return doc, coqSDoc(doc)
}

func coqSDoc(d SDoc) string {
	switch d.Kind {
	case "none":
		return "SNo"
	case "garbage":
		return "(SDoc DGarbage)"
	case "null":
		return "(SDoc DNull)"
	}

	f := "MNull"

	switch d.Field {
	case "list":
		f = "(MList " + hx.CoqNList(d.Msgs) + ")"
	case "bad":
		f = "MBad"
	}

	return fmt.Sprintf("(SDoc (DDoc %s %s))", hx.CoqZ(int64(d.Count)), f)
}

// --- planted documents ---

func (w *fworld) plant(p Plant) {
	const ts = "2020-01-02T03:04:05Z"

	timeOf := func(i int) string {
		switch p.Times {
		case "inc":
			return fmt.Sprintf("2020-01-02T03:04:%02dZ", 10+i)
		case "dec":
			return fmt.Sprintf("2020-01-02T03:04:%02dZ", 50-i)
		case "future":
			return fmt.Sprintf("2099-01-02T03:04:%02dZ", 10+i)
		case "futuredec":
			return fmt.Sprintf("2099-01-02T03:04:%02dZ", 50-i)
		}

		return ts
	}

	valid := func(ms ...int) string {
		parts := []string{}
		for i, m := range ms {
			parts = append(parts, fmt.Sprintf(`{"id":"planted-%d","added_time":%q,"msg":%q}`, m, timeOf(i), base64.StdEncoding.EncodeToString(w.payloadOf(m))))
		}

		return "[" + strings.Join(parts, ",") + "]"
	}

	head := fmt.Sprintf(`"DID":%q,"last_added_time":%q,"last_delivered_time":%q,"last_removed_time":%q`, didName(p.DID), ts, ts, ts)
	a, b, c3 := 900+10*p.DID, 901+10*p.DID, 902+10*p.DID

	var doc string

	switch p.Kind {
	case "garbage":
		doc = `{"DID":"did:example:r1","message_count":1,"messa`
	case "toparray":
		doc = `[]`
	case "topstring":
		doc = `"inbox"`
	case "null":
		doc = `null`
	case "wrongtype":
		doc = `{"DID":5,"message_count":0,"messages":null}`
	case "countstring":
		doc = `{` + head + `,"message_count":"2","messages":` + valid(a, b) + `}`
	case "badmsgs":
		doc = `{` + head + `,"message_count":2,"messages":5}`
	case "msgsobject":
		doc = `{` + head + `,"message_count":1,"messages":{"id":"x"}}`
	case "badelem":
		// a decodable element FOLLOWED by one that is not: must be rejected as a whole, not cut after the first
		doc = `{` + head + `,"message_count":2,"messages":[` + strings.Trim(valid(a), "[]") + `,7]}`
	case "badelemfirst":
		doc = `{` + head + `,"message_count":2,"messages":["x",` + strings.Trim(valid(a), "[]") + `]}`
	case "badb64":
		doc = `{` + head + `,"message_count":1,"messages":[{"id":"a","added_time":"` + ts + `","msg":"!!!"}]}`
	case "countoff":
		doc = `{` + head + `,"message_count":5,"messages":` + valid(a, b, c3) + `}`
	case "nomsgs":
		doc = `{` + head + `,"message_count":0}`
	case "emptylist":
		doc = `{` + head + `,"message_count":0,"messages":[]}`
	case "extra":
		doc = `{` + head + `,"message_count":3,"future_member":{"a":[1,2]},"messages":` + valid(a, b, c3) + `}`
	default: // "valid": an inbox left by an earlier process
		doc = `{` + head + `,"message_count":3,"total_size":123,"messages":` + valid(a, b, c3) + `}`
	}

	st, err := w.raw.OpenStore(messagepickup.Namespace)
	if err != nil {
		panic(err)
	}

	if err := st.Put(didName(p.DID), []byte(doc)); err != nil {
		panic(err)
	}
}

var plantTimes = []string{"", "inc", "dec", "future", "futuredec"}

var plantKinds = []string{"garbage", "toparray", "topstring", "null", "wrongtype", "countstring", "badmsgs", "msgsobject", "badelem",
	"badelemfirst", "badb64", "countoff", "nomsgs", "emptylist", "extra", "valid"}

// --- one operation ---

func set(a []int) map[int]bool {
	m := map[int]bool{}
	for _, x := range a {
		m[x] = true
	}

	return m
}

func (w *fworld) apply(op FOp) (obs FObs) {
	w.failGet, w.failPut, w.failSend, w.nGet, w.nPut = set(op.FGet), set(op.FPut), op.FSend, 0, 0
	w.sent = nil

	defer func() {
		if r := recover(); r != nil {
			obs = FObs{Out: "panic"}
		}

		if obs.Msgs == nil {
			obs.Msgs = []int{}
		}
	}()

	var m map[string]interface{}

	switch op.Kind {
	case "restart":
		w.boot(false)
		return FObs{Out: "none"}
	case "add":
		if err := w.svc.AddMessage(w.payloadOf(op.Msg), didName(op.DID)); err != nil {
			return FObs{Out: "err"}
		}

		return FObs{Out: "added"}
	case "fwd":
		err := w.med.VerifHandleForward(mustMsg(map[string]interface{}{"@id": fmt.Sprintf("fwd-%d", op.Msg), "@type": forwardType(op.V2),
			"to": routeKey(op.DID), "msg": base64.StdEncoding.EncodeToString(w.payloadOf(op.Msg))}))
		if err != nil {
			return FObs{Out: "err"}
		}

		return FObs{Out: "added"}
	case "status":
		m = map[string]interface{}{"@id": fmt.Sprintf("req-%d", op.Rid), "@type": messagepickup.StatusRequestMsgType}
	case "pickup":
		m = map[string]interface{}{"@id": fmt.Sprintf("req-%d", op.Rid), "@type": messagepickup.BatchPickupMsgType, "batch_size": op.N}
	case "noop":
		m = map[string]interface{}{"@id": "noop-1", "@type": messagepickup.NoopMsgType}
	case "statusin":
		m = map[string]interface{}{"@id": fmt.Sprintf("req-%d", op.Rid), "@type": messagepickup.StatusMsgType, "message_count": 3}
	case "batchin":
		m = map[string]interface{}{"@id": fmt.Sprintf("req-%d", op.Rid), "@type": messagepickup.BatchMsgType,
			"messages~attach": []map[string]interface{}{{"id": "x", "added_time": "2020-01-02T03:04:05Z", "msg": "bTk5"}}}
	}

	if op.Thid != 0 {
		m["~thread"] = map[string]interface{}{"thid": fmt.Sprintf("th-%d", op.Thid)}
	}

	err := w.svc.VerifHandleAllSync(mustMsg(m), meName(op.Me), didName(op.DID))

	if len(w.sent) == 0 {
		if err != nil {
			return FObs{Out: "err"}
		}

		return FObs{Out: "none"}
	}

	return w.decodeSent(w.sent[0], !w.failSend)
}

func (w *fworld) decodeSent(s map[string]interface{}, ok bool) FObs {
	return decodeSentF(s, ok, w.numOf)
}

func decodeSentF(s map[string]interface{}, ok bool, numOf func(string) int) FObs {
	typ, _ := s["@type"].(string)
	to, _ := s["_to"].(string)
	from, _ := s["_from"].(string)
	id, _ := s["@id"].(string)
	o := FObs{OK: ok, To: parseSuffix(to, "did:example:r"), From: parseSuffix(from, "did:example:mediator"), ID: parseSuffix(id, "req-"), Msgs: []int{}}

	switch typ {
	case messagepickup.StatusMsgType:
		c, _ := s["message_count"].(float64)
		o.Out, o.Count = "status", int(c)

		if th, has := s["~thread"].(map[string]interface{}); has {
			if p, has := th["pthid"].(string); has {
				o.Pthid = parseSuffix(p, "th-")
			}
		}

		return o
	case messagepickup.BatchMsgType:
		o.Out = "batch"

		att, _ := s["messages~attach"].([]interface{})
		for _, a := range att {
			am, _ := a.(map[string]interface{})
			b64, _ := am["msg"].(string)
			o.Msgs = append(o.Msgs, numOf(b64))
		}

		return o
	}

	return FObs{Out: "err"}
}

// --- Coq printing ---

func coqNatList(a []int) string {
	items := make([]string, len(a))
	for i, x := range a {
		items[i] = hx.CoqNat(x)
	}

	return hx.CoqList(items)
}

func coqFaults(o FOp) string {
	if len(o.FGet) == 0 && len(o.FPut) == 0 && !o.FSend {
		return "nofault"
	}

	return fmt.Sprintf("{| f_get := %s; f_put := %s; f_send := %s |}", coqNatList(o.FGet), coqNatList(o.FPut), hx.CoqBool(o.FSend))
}

func coqOptN(n int) string {
	if n == 0 {
		return "None"
	}

	return fmt.Sprintf("(Some %d)", n)
}

func coqFOp(o FOp) string {
	switch o.Kind {
	case "add", "fwd":
		return fmt.Sprintf("FAdd %d %d %s", o.DID, o.Msg, coqFaults(o))
	case "status":
		return fmt.Sprintf("FStatus %d %d %d %s %s", o.Me, o.DID, o.Rid, coqOptN(o.Thid), coqFaults(o))
	case "pickup":
		return fmt.Sprintf("FPickup %d %d %d %s %s", o.Me, o.DID, o.Rid, hx.CoqZ(int64(o.N)), coqFaults(o))
	case "noop":
		return fmt.Sprintf("FInert 0 %d", o.DID)
	case "statusin":
		return fmt.Sprintf("FInert 1 %d", o.DID)
	case "batchin":
		return fmt.Sprintf("FInert 2 %d", o.DID)
	}

	return "FRestart"
}

func nn(n int) int {
	if n < 0 {
		return 999999 // not a DID / id of any history: the comparison in Coq fails
	}

	return n
}

func coqFOut(o FObs) string {
	switch o.Out {
	case "added":
		return "XAdded"
	case "err":
		return "XErr"
	case "none":
		return "XNone"
	case "panic":
		return "XPanic"
	case "status":
		return fmt.Sprintf("XStatus %s %d %d %d %s %s", hx.CoqBool(o.OK), nn(o.To), nn(o.From), nn(o.ID), coqOptN(nn(o.Pthid)), hx.CoqZ(int64(o.Count)))
	}

	ms := make([]int, len(o.Msgs))
	for i, m := range o.Msgs {
		ms[i] = nn(m)
	}

	return fmt.Sprintf("XBatch %s %d %d %d %s", hx.CoqBool(o.OK), nn(o.To), nn(o.From), nn(o.ID), hx.CoqNList(ms))
}

// --- running one history, with the direct oracle ---

func hasInt(a []int, x int) bool {
	for _, y := range a {
		if y == x {
			return true
		}
	}

	return false
}

func runFull(kind string, c FCase, tr *hx.Trace) {
	routeKeyForm = c.KeyForm
	w := newFWorld(c.Empty)
	internTab = map[string]int{}

	for _, o := range c.Ops {
		if o.Kind == "fwd" && !w.useMed {
			w.useMed = true
			w.boot(true)
		}
	}

	rec := &hx.Record{Kind: kind, Case: c, Oracle: "ok"}
	fail := func(sig, detail string) {
		if rec.Oracle == "ok" {
			rec.Oracle, rec.Sig, rec.Detail = "fail", sig, detail
		}
	}

	planted := map[int]bool{}
	ref := map[int][]int{} // what must be held for each recipient (reference list of the oracle)
	initParts := []string{}

	for _, p := range c.Init {
		w.plant(p)
		planted[p.DID] = true

		doc, sn := w.snapshot(p.DID, c.Codec)
		if doc.Kind == "doc" && doc.Field == "list" {
			ref[p.DID] = append([]int{}, doc.Msgs...)
		}

		initParts = append(initParts, fmt.Sprintf("(%d, %s)", p.DID, sn))
	}

	obsParts := []string{}
	all := []FObs{}
	classParts := []string{}
	nontrivial := false

	for i, op := range c.Ops {
		o := w.apply(op)
		d := op.DID

		var sn string
		if op.Kind == "restart" {
			sn = "SNo"
			o.Snap = SDoc{Kind: "none"}
		} else {
			o.Snap, sn = w.snapshot(d, c.Codec)
		}

		all = append(all, o)
		obsParts = append(obsParts, "("+coqFOut(o)+", "+sn+")")
		nf := len(op.FGet) + len(op.FPut)
		if op.FSend {
			nf++
		}

		classParts = append(classParts, fmt.Sprintf("%s/%d/%s/%v/%d", op.Kind, nf, o.Out, o.OK, len(o.Msgs)))

		if nf > 0 || (o.Out == "batch" && len(o.Msgs) > 0) {
			nontrivial = true
		}

		if o.Out == "panic" {
			fail("panic:"+op.Kind, fmt.Sprintf("op %d (%+v) panicked", i, op))
			break
		}

		// the property, directly
		switch o.Out {
		case "added":
			ref[d] = append(ref[d], op.Msg)
		case "status", "batch":
			if o.To != d || o.From != op.Me || o.ID != op.Rid || (o.Out == "status" && o.Pthid != op.Thid) {
				fail("attribution", fmt.Sprintf("op %d (%+v): answer to=%d from=%d id=%d pthid=%d", i, op, o.To, o.From, o.ID, o.Pthid))
			}

			if o.Out == "status" && !planted[d] && o.Count != len(ref[d]) {
				fail("status-count", fmt.Sprintf("op %d: status reports %d, held %d", i, o.Count, len(ref[d])))
			}

			if o.Out == "batch" {
				want := op.N
				if want > len(ref[d]) {
					want = len(ref[d])
				}

				if want < 0 {
					want = 0
				}

				if !eqInts(o.Msgs, ref[d][:want]) {
					fail("batch-not-prefix", fmt.Sprintf("op %d (%+v): batch %v, held %v", i, op, o.Msgs, ref[d]))
				}

				// two faults in one operation (failing send AND failing restoring Put) are outside "every single failure"
				double := op.FSend && hasInt(op.FPut, 1)
				if o.OK || double {
					ref[d] = append([]int{}, ref[d][want:]...)
				}
			}
		}

		if o.Snap.Kind == "doc" && o.Snap.Field != "bad" {
			if !eqInts(o.Snap.Msgs, ref[d]) {
				sig := "conservation"
				if op.Kind == "pickup" && op.FSend {
					sig = "conservation:failed-send-loses-batch"
				}

				fail(sig, fmt.Sprintf("op %d (%+v): stored %v, must hold %v", i, op, o.Snap.Msgs, ref[d]))
			}

			if !planted[d] && o.Snap.Count != len(o.Snap.Msgs) {
				fail("stored-count", fmt.Sprintf("op %d: stored message_count %d, messages %d", i, o.Snap.Count, len(o.Snap.Msgs)))
			}
		} else if op.Kind != "restart" && len(ref[d]) > 0 {
			fail("conservation", fmt.Sprintf("op %d (%+v): the document holding %v is gone or undecodable (%s/%s)", i, op, ref[d], o.Snap.Kind, o.Snap.Field))
		}
	}

	// the input-side table: base64 text of every payload handed over -> its number
	tab := []string{}

	if c.Codec {
		keys := make([]string, 0, len(w.byB64))
		for k := range w.byB64 {
			keys = append(keys, k)
		}

		sort.Strings(keys)

		for _, k := range keys {
			tab = append(tab, fmt.Sprintf("(%s, %d)", hx.CoqString(k), w.byB64[k]))
		}
	}

	ops := make([]string, len(all))
	for i := range all {
		ops[i] = coqFOp(c.Ops[i])
	}

	rec.Coq = fmt.Sprintf("FSeq {| fc_tab := %s; fc_init := %s; fc_ops := %s; fc_obs := %s |}", hx.CoqList(tab), hx.CoqList(initParts), hx.CoqList(ops), hx.CoqList(obsParts))
	rec.Observed = all
	rec.Class = kind[:1] + strings.Join(classParts, ",")
	rec.Trivial = !nontrivial
	rec.Dist = []string{fmt.Sprintf("flen=%d", len(c.Ops)/5*5), fmt.Sprintf("codec=%v", c.Codec)}

	for _, p := range c.Init {
		rec.Dist = append(rec.Dist, "plant="+p.Kind, "planttimes="+p.Times)
		rec.Class += "/" + p.Kind + p.Times
	}

	for _, op := range c.Ops {
		if op.Kind == "fwd" {
			rec.Dist = append(rec.Dist, fmt.Sprintf("fwd:v2=%v,keyform=%d", op.V2, c.KeyForm))
		}
	}

	for _, op := range c.Ops {
		nf := len(op.FGet) + len(op.FPut)
		if op.FSend {
			nf++
		}

		rec.Dist = append(rec.Dist, "fop="+op.Kind, fmt.Sprintf("nfaults=%d", nf))
	}

	for _, o := range all {
		rec.Dist = append(rec.Dist, "fout="+o.Out)
	}

	tr.Put(rec)
}

// --- generators ---

func randFaults(r *hx.Rng, o *FOp) {
	switch r.Intn(10) {
	case 0, 1, 2, 3, 4, 5:
		return
	case 6, 7: // one fault
		switch r.Intn(4) {
		case 0:
			o.FGet = []int{0}
		case 1:
			o.FPut = []int{0}
		case 2:
			o.FPut = []int{1}
		default:
			o.FSend = true
		}
	default: // several
		for _, k := range []int{0, 1} {
			if r.Intn(5) == 0 {
				o.FGet = append(o.FGet, k)
			}
		}

		for _, k := range []int{0, 1, 2} {
			if r.Intn(3) == 0 {
				o.FPut = append(o.FPut, k)
			}
		}

		o.FSend = r.Intn(2) == 0
	}
}

func numberF(ops []FOp) []FOp {
	n, rid := 6, 100
	out := make([]FOp, len(ops))

	for i, o := range ops {
		out[i] = o

		switch o.Kind {
		case "add", "fwd":
			n++
			out[i].Msg = n
		case "status", "pickup", "statusin", "batchin":
			if o.Rid == 0 {
				rid++
				out[i].Rid = rid
			}
		}
	}

	return out
}

func randFOp(r *hx.Rng, nd int, fwd bool) FOp {
	d := 1 + r.Intn(nd)
	me := 50 + r.Intn(2)
	x := r.Intn(100)

	var o FOp

	switch {
	case x < 40:
		o = FOp{Kind: "add", DID: d}
		if fwd && r.Intn(2) == 0 {
			o.Kind, o.V2 = "fwd", r.Intn(2) == 0
		}
	case x < 52:
		o = FOp{Kind: "status", DID: d, Me: me}
		if r.Intn(3) > 0 {
			o.Thid = 1 + r.Intn(9)
		}
	case x < 84:
		o = FOp{Kind: "pickup", DID: d, Me: me, N: []int{-3, -1, 0, 1, 1, 2, 2, 3, 5, 100, 1 << 40}[r.Intn(11)]}
		if r.Intn(4) == 0 {
			o.Thid = 1 + r.Intn(9)
		}
	case x < 90:
		o = FOp{Kind: []string{"noop", "statusin", "batchin"}[r.Intn(3)], DID: d, Me: me}
	default:
		return FOp{Kind: "restart"}
	}

	randFaults(r, &o)

	return o
}

func randFCase(r *hx.Rng, n, nd int, fwd bool) FCase {
	ops := make([]FOp, n)
	for i := range ops {
		ops[i] = randFOp(r, nd, fwd)
	}

	return FCase{Ops: numberF(ops)}
}

func fullAlphabet() []FOp {
	var a []FOp

	fs := func(g, p []int, s bool) FOp { return FOp{FGet: g, FPut: p, FSend: s} }
	addF := []FOp{fs(nil, nil, false), fs([]int{0}, nil, false), fs(nil, []int{0}, false), fs(nil, []int{1}, false), fs(nil, []int{0, 1}, false), fs([]int{1}, []int{2}, false)}
	pkF := []FOp{fs(nil, nil, false), fs([]int{0}, nil, true), fs(nil, []int{0}, true), fs(nil, nil, true), fs(nil, []int{1}, true), fs(nil, []int{1}, false), fs(nil, []int{2}, true)}

	for _, f := range addF {
		o := f
		o.Kind, o.DID = "add", 1
		a = append(a, o)
	}

	a = append(a, FOp{Kind: "add", DID: 2})

	for _, n := range []int{-1, 0, 1, 100} {
		for _, f := range pkF {
			o := f
			o.Kind, o.DID, o.Me, o.N = "pickup", 1, 50, n
			a = append(a, o)
		}
	}

	a = append(a, FOp{Kind: "pickup", DID: 2, Me: 51, N: 1}, FOp{Kind: "status", DID: 1, Me: 50, Thid: 3}, FOp{Kind: "status", DID: 1, Me: 51, FSend: true},
		FOp{Kind: "status", DID: 2, Me: 50, FGet: []int{0}}, FOp{Kind: "noop", DID: 1, Me: 50}, FOp{Kind: "statusin", DID: 1, Me: 50},
		FOp{Kind: "batchin", DID: 1, Me: 50}, FOp{Kind: "restart"})

	return a
}

func enumerateF(alpha []FOp, maxLen int, f func([]FOp)) {
	var rec func(prefix []FOp)

	rec = func(prefix []FOp) {
		if len(prefix) > 0 {
			f(numberF(prefix))
		}

		if len(prefix) == maxLen {
			return
		}

		for _, o := range alpha {
			rec(append(append([]FOp{}, prefix...), o))
		}
	}

	rec(nil)
}

func fullGenerators(rng *hx.Rng, tier string, tr *hx.Trace) {
	nRand, nCodec, nBig, nMed, nConc3 := 900, 150, 3, 150, 120
	if tier == "thorough" {
		nRand, nCodec, nBig, nMed, nConc3 = 40000, 2500, 10, 4000, 100000
	}

	// all histories of length <= 2 over an alphabet with several faults per operation, all handlers, restart
	enumerateF(fullAlphabet(), 2, func(ops []FOp) { runFull("full-exhaustive", FCase{Ops: ops}, tr) })

	// every kind of planted document x short histories on it (and on a clean neighbour), bulk and codec form
	scripts := [][]FOp{
		{{Kind: "status", DID: 1, Me: 50, Thid: 2}, {Kind: "add", DID: 1}, {Kind: "pickup", DID: 1, Me: 50, N: 1}, {Kind: "status", DID: 1, Me: 50}, {Kind: "pickup", DID: 1, Me: 50, N: 100}},
		{{Kind: "pickup", DID: 1, Me: 50, N: 1, FSend: true}, {Kind: "restart"}, {Kind: "add", DID: 1, FPut: []int{0}}, {Kind: "add", DID: 2}, {Kind: "pickup", DID: 1, Me: 51, N: 5}, {Kind: "pickup", DID: 2, Me: 51, N: 5}},
		{{Kind: "add", DID: 1}, {Kind: "add", DID: 1}, {Kind: "pickup", DID: 1, Me: 50, N: 3, FSend: true, FPut: []int{1}}, {Kind: "status", DID: 1, Me: 50}, {Kind: "pickup", DID: 1, Me: 50, N: -1}},
	}

	for _, k := range plantKinds {
		profiles := []string{""}
		if k == "valid" || k == "countoff" || k == "extra" {
			profiles = plantTimes // documents that hold messages: every time-stamp profile
		}

		for _, tp := range profiles {
			for _, sc := range scripts {
				for _, codec := range []bool{false, true} {
					runFull("planted", FCase{Init: []Plant{{DID: 1, Kind: k, Times: tp}}, Ops: numberF(sc), Codec: codec}, tr)
				}
			}
		}
	}

	// seeded random histories: 1..4 recipients, two mediator DIDs, fault sets, restarts, inert handlers
	for i := 0; i < nRand; i++ {
		r := rng.Fork(uint64(11_000_000 + i))
		c := randFCase(r, 3+r.Intn(18), 1+r.Intn(4), false)

		if r.Intn(5) == 0 {
			c.Init = []Plant{{DID: 1 + r.Intn(2), Kind: plantKinds[r.Intn(len(plantKinds))], Times: plantTimes[r.Intn(len(plantTimes))]}}
		}

		runFull("full-random", c, tr)
	}

	// the forward path of the real mediator (relay fails -> held) mixed with pickups, faults and restarts
	for i := 0; i < nMed; i++ {
		r := rng.Fork(uint64(12_000_000 + i))
		mc := randFCase(r, 3+r.Intn(12), 1+r.Intn(3), true)
		mc.KeyForm = i % 3

		if r.Intn(4) == 0 {
			mc.Init = []Plant{{DID: 1, Kind: "valid", Times: plantTimes[r.Intn(len(plantTimes))]}}
		}

		runFull("full-mediator", mc, tr)
	}

	// codec histories: stored bytes go to Coq as trees
	for i := 0; i < nCodec; i++ {
		r := rng.Fork(uint64(13_000_000 + i))
		c := randFCase(r, 2+r.Intn(7), 1+r.Intn(2), false)
		c.Codec = true

		if r.Intn(4) == 0 {
			c.Init = []Plant{{DID: 1, Kind: plantKinds[r.Intn(len(plantKinds))], Times: plantTimes[r.Intn(len(plantTimes))]}}
		}

		if r.Intn(4) == 0 {
			c.Empty = 7 + r.Intn(3)
		}

		runFull("codec", c, tr)
	}

	// large inboxes and large batches
	for i := 0; i < nBig; i++ {
		r := rng.Fork(uint64(14_000_000 + i))
		ops := []FOp{}
		held := 100 + r.Intn(100) // the record carries the stored list after every op: quadratic in this number

		for j := 0; j < held; j++ {
			o := FOp{Kind: "add", DID: 1 + j%2}
			if r.Intn(40) == 0 {
				randFaults(r, &o)
			}

			ops = append(ops, o)
		}

		for j := 0; j < 12; j++ {
			o := FOp{Kind: "pickup", DID: 1 + r.Intn(2), Me: 50, N: []int{1, 17, 64, 100, 150, 1000}[r.Intn(6)]}
			randFaults(r, &o)
			ops = append(ops, o)

			if j%4 == 3 {
				ops = append(ops, FOp{Kind: "status", DID: 1 + r.Intn(2), Me: 50, Thid: 4}, FOp{Kind: "restart"})
			}
		}

		runFull("full-large", FCase{Ops: numberF(ops)}, tr)
	}

	for _, c := range conc3Cases(rng.Fork(15_000_000), nConc3) {
		runConc3("overlap3", c, tr)
	}
}
