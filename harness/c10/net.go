// In-process network joining real aries.Framework instances: an OutboundTransport that hands every packed
// message to a scheduler, and an InboundTransport that unpacks with the receiving agent's own packager and
// calls its inbound message handler (what the HTTP inbound transport does after reading the body).
package main

import (
	"encoding/json"
	"errors"
	"fmt"
	"strings"
	"sync"
	"time"

	"github.com/hyperledger/aries-framework-go/pkg/didcomm/common/service"
	"github.com/hyperledger/aries-framework-go/pkg/didcomm/transport"
	"github.com/hyperledger/aries-framework-go/pkg/doc/did"
)

const scheme = "http://c10-"

// Packet is one packed message in flight.
type Packet struct {
	Seq      int
	From     string // sending agent
	To       string // endpoint URL
	Data     []byte
	DestKeys []string               // destination recipient keys as the dispatcher was given them
	Plain    map[string]interface{} // peeked plaintext (the scheduler's view; agents never see it)
	Thread   string                 // thid (or @id)
	PThid    string
	Type     string
	// delivery result
	UnpackErr  error
	HandlerErr error
	FromKey    []byte
	ToKey      []byte
}

// Net is the network.
type Net struct {
	mu      sync.Mutex
	cond    *sync.Cond
	agents  map[string]*Agent // by endpoint
	queue   []*Packet
	seq     int
	hold    bool // true: packets wait for the scheduler; false: delivered at once in a goroutine
	Log     []*Packet
	pending sync.WaitGroup
	pub     *pubVDR
	// syncFn, when set, receives every packet inside the sender's Send call (synchronous delivery mode)
	syncFn func(*Packet)
	// router, when set, is the endpoint of a mediator: what is posted to it, and the mediation protocol's own
	// messages, are delivered at once (agents block on the mediator's answers); routerBusy counts such deliveries
	router     string
	routerBusy int
	routerFwd  func(*Packet) bool // synchronous forward handling at the router (true if the packet was a forward)
}

// NewNet makes an empty network.
func NewNet() *Net {
	n := &Net{agents: map[string]*Agent{}, pub: &pubVDR{docs: map[string]*did.Doc{}}}
	n.cond = sync.NewCond(&n.mu)

	return n
}

// memInbound is the receiving side of one agent.
type memInbound struct {
	endpoint string
	prov     transport.Provider
	mu       sync.Mutex
}

func (i *memInbound) Start(prov transport.Provider) error {
	i.mu.Lock()
	defer i.mu.Unlock()
	i.prov = prov

	return nil
}

func (i *memInbound) Stop() error      { return nil }
func (i *memInbound) Endpoint() string { return i.endpoint }

// memOutbound is the sending side of one agent.
type memOutbound struct {
	net  *Net
	from string
}

func (o *memOutbound) Start(transport.Provider) error     { return nil }
func (o *memOutbound) AcceptRecipient(keys []string) bool { return false }
func (o *memOutbound) Accept(url string) bool {
	return len(url) >= len(scheme) && url[:len(scheme)] == scheme
}

func (o *memOutbound) Send(data []byte, dest *service.Destination) (string, error) {
	uri, err := dest.ServiceEndpoint.URI()
	if err != nil {
		return "", fmt.Errorf("c10 net: destination without URI: %w", err)
	}

	o.net.Submit(o.from, uri, data, dest.RecipientKeys)

	return "", nil
}

// Submit puts a packed message on the wire.
func (n *Net) Submit(from, to string, data []byte, keys []string) *Packet {
	n.mu.Lock()
	n.seq++
	p := &Packet{Seq: n.seq, From: from, To: to, Data: append([]byte{}, data...), DestKeys: append([]string{}, keys...)}
	n.Log = append(n.Log, p)
	hold := n.hold
	syncFn := n.syncFn

	if syncFn != nil {
		n.mu.Unlock()
		syncFn(p)

		return p
	}

	if hold && n.router != "" {
		n.mu.Unlock()
		n.Peek(p)
		n.mu.Lock()

		if p.To == n.router || strings.Contains(p.Type, "/coordinate-mediation/") || strings.Contains(p.Type, "/coordinatemediation/") {
			n.routerBusy++
			n.mu.Unlock()

			go func() {
				if n.routerFwd == nil || !n.routerFwd(p) {
					n.Deliver(p)
				}

				n.mu.Lock()
				n.routerBusy--
				n.cond.Broadcast()
				n.mu.Unlock()
			}()

			return p
		}
	}

	if hold {
		n.queue = append(n.queue, p)
		n.cond.Broadcast()
	} else {
		n.pending.Add(1)
	}
	n.mu.Unlock()

	if !hold {
		go func() {
			defer n.pending.Done()
			n.Deliver(p)
		}()
	}

	return p
}

// Peek decrypts a copy of the packet with the destination agent's packager (no state is changed by unpacking).
func (n *Net) Peek(p *Packet) {
	if p.Plain != nil {
		return
	}

	n.mu.Lock()
	var try []*Agent
	if a := n.agents[p.To]; a != nil {
		try = append(try, a)
	}

	for _, a := range n.agents {
		if a.Endpoint != p.To {
			try = append(try, a)
		}
	}
	n.mu.Unlock()

	var env *transport.Envelope

	for i, a := range try {
		e, err := a.inbound.prov.Packager().UnpackMessage(p.Data)
		if err == nil {
			env = e

			break
		}

		if i == 0 {
			p.UnpackErr = err
		}
	}

	if env == nil {
		return
	}

	m := map[string]interface{}{}
	if json.Unmarshal(env.Message, &m) != nil {
		return
	}

	p.Plain = m
	p.FromKey, p.ToKey = env.FromKey, env.ToKey
	p.Type, _ = m["@type"].(string)

	if p.Type == "" {
		p.Type, _ = m["type"].(string)
	}

	if th, ok := m["~thread"].(map[string]interface{}); ok {
		p.Thread, _ = th["thid"].(string)
		p.PThid, _ = th["pthid"].(string)
	}

	if p.Thread == "" {
		p.Thread, _ = m["thid"].(string)
	}

	if p.Thread == "" {
		p.Thread, _ = m["@id"].(string)
	}

	if p.Thread == "" {
		p.Thread, _ = m["id"].(string)
	}
}

var errNoAgent = errors.New("c10 net: nobody listens at this endpoint")

// Deliver hands the packet to the agent listening at its endpoint, synchronously (the agent's services go on in
// goroutines of their own).
func (n *Net) Deliver(p *Packet) {
	n.Peek(p)

	n.mu.Lock()
	a := n.agents[p.To]
	n.mu.Unlock()

	if a == nil {
		p.HandlerErr = errNoAgent

		return
	}

	env, err := a.inbound.prov.Packager().UnpackMessage(p.Data)
	if err != nil {
		p.UnpackErr = err

		return
	}

	a.noteInbound(p)
	p.HandlerErr = a.inbound.prov.InboundMessageHandler()(env)
}

// Take waits until a queued packet satisfies pick (or the deadline passes) and removes it from the queue.
func (n *Net) Take(pick func(*Packet) bool, d time.Duration) *Packet {
	deadline := time.Now().Add(d)

	n.mu.Lock()
	defer n.mu.Unlock()

	for {
		for i, p := range n.queue {
			n.mu.Unlock()
			n.Peek(p)
			ok := pick(p)
			n.mu.Lock()

			if ok {
				// the queue may have grown meanwhile, but entries are only removed here (single scheduler)
				n.queue = append(n.queue[:i:i], n.queue[i+1:]...)

				return p
			}
		}

		if time.Now().After(deadline) {
			return nil
		}

		waitCond(n.cond, 20*time.Millisecond)
	}
}

// WaitRouter waits until the mediator has nothing in hand.
func (n *Net) WaitRouter(d time.Duration) bool {
	deadline := time.Now().Add(d)

	n.mu.Lock()
	defer n.mu.Unlock()

	for n.routerBusy > 0 {
		if time.Now().After(deadline) {
			return false
		}

		waitCond(n.cond, 20*time.Millisecond)
	}

	return true
}

// QueueLen is the number of held packets.
func (n *Net) QueueLen() int {
	n.mu.Lock()
	defer n.mu.Unlock()

	return len(n.queue)
}

// SetHold switches between held and immediate delivery.
func (n *Net) SetHold(h bool) {
	n.mu.Lock()
	n.hold = h
	n.mu.Unlock()
}

// waitCond waits on c (whose lock is held) for at most d.
func waitCond(c *sync.Cond, d time.Duration) {
	t := time.AfterFunc(d, c.Broadcast)
	c.Wait()
	t.Stop()
}
