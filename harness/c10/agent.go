package main

import (
	"encoding/json"
	"errors"
	"fmt"
	"sort"
	"strings"
	"sync"
	"time"

	"github.com/hyperledger/aries-framework-go/component/storageutil/mem"
	dxclient "github.com/hyperledger/aries-framework-go/pkg/client/didexchange"
	lcclient "github.com/hyperledger/aries-framework-go/pkg/client/legacyconnection"
	oobclient "github.com/hyperledger/aries-framework-go/pkg/client/outofband"
	oob2client "github.com/hyperledger/aries-framework-go/pkg/client/outofbandv2"
	commonmodel "github.com/hyperledger/aries-framework-go/pkg/common/model"
	cryptoapi "github.com/hyperledger/aries-framework-go/pkg/crypto"
	"github.com/hyperledger/aries-framework-go/pkg/didcomm/common/service"
	"github.com/hyperledger/aries-framework-go/pkg/didcomm/dispatcher"
	"github.com/hyperledger/aries-framework-go/pkg/didcomm/messaging/msghandler"
	"github.com/hyperledger/aries-framework-go/pkg/didcomm/transport"
	"github.com/hyperledger/aries-framework-go/pkg/doc/did"
	"github.com/hyperledger/aries-framework-go/pkg/framework/aries"
	ariesapi "github.com/hyperledger/aries-framework-go/pkg/framework/aries/api"
	vdrapi "github.com/hyperledger/aries-framework-go/pkg/framework/aries/api/vdr"
	"github.com/hyperledger/aries-framework-go/pkg/framework/context"
	"github.com/hyperledger/aries-framework-go/pkg/kms"
	"github.com/hyperledger/aries-framework-go/pkg/store/connection"
	"github.com/hyperledger/aries-framework-go/pkg/vdr/fingerprint"
	"github.com/hyperledger/aries-framework-go/spi/storage"
	spivdr "github.com/hyperledger/aries-framework-go/spi/vdr"

	"verifharness/hx"
)

// Config is one point of the configuration matrix.
type Config struct {
	KeyType string `json:"kt"`
	KAType  string `json:"ka"`
	Profile string `json:"mtp"` // media type profile
}

// StateEv is one announced state of a connection protocol.
type StateEv struct {
	Proto  string
	ConnID string
	Thid   string
	State  string
	Post   bool
	Err    string
}

// Handled is one callback of the generic message handler.
type Handled struct {
	MsgID, MyDID, TheirDID string
}

// Agent is one real framework instance.
type Agent struct {
	Name     string
	Endpoint string
	net      *Net
	fw       *aries.Aries
	ctx      *context.Provider
	inbound  *memInbound
	dx       *dxclient.Client
	lc       *lcclient.Client
	oob      *oobclient.Client
	oob2     *oob2client.Client
	lookup   *connection.Lookup

	mu      sync.Mutex
	cond    *sync.Cond
	states  []StateEv
	handled []Handled
	// continued: action events of a thread the harness has continued (handed back to the service's listener);
	// lcEvents: the channel the legacy service posts its state events to; sentinels: markers seen on it
	continued map[string]int
	lcEvents  chan service.StateMsg
	sentinels int
	inLog   []*Packet
	putDIDs map[string]bool // keys put into the peer DID store
	putKeys map[string]bool // keys put into the DID connection store

	routerConns []string // connections with mediators the agent's new DIDs are routed through

	cfg                   Config
	mainStore, stateStore storage.Provider
	reg                   *msghandler.Registrar
}

const basicType = "https://didcomm.org/c10verif/1.0/ping"

// pingV2Type is the same as a DIDComm v2 message: v2 messages are dispatched to protocol services only.
const pingV2Type = "https://didcomm.org/c10verif/2.0/ping"

type ping2Svc struct{ a *Agent }

func (p *ping2Svc) Name() string                 { return "c10ping2" }
func (p *ping2Svc) Accept(t string) bool         { return t == pingV2Type }
func (p *ping2Svc) Initialize(interface{}) error { return nil }
func (p *ping2Svc) HandleOutbound(service.DIDCommMsg, string, string) (string, error) {
	return "", errors.New("not implemented")
}

func (p *ping2Svc) HandleInbound(msg service.DIDCommMsg, ctx service.DIDCommContext) (string, error) {
	p.a.mu.Lock()
	p.a.handled = append(p.a.handled, Handled{MsgID: msg.ID(), MyDID: ctx.MyDID(), TheirDID: ctx.TheirDID()})
	p.a.cond.Broadcast()
	p.a.mu.Unlock()

	return "", nil
}

// PublishDIDv2 makes a public DID with a DIDComm v2 service and a key agreement key of the agent's KMS.
func (a *Agent) PublishDIDv2(id string) (*did.Doc, error) {
	_, pub, err := a.ctx.KMS().CreateAndExportPubKeyBytes(kms.ED25519Type)
	if err != nil {
		return nil, err
	}

	_, kab, err := a.ctx.KMS().CreateAndExportPubKeyBytes(kms.X25519ECDHKWType)
	if err != nil {
		return nil, err
	}

	ka := &cryptoapi.PublicKey{}
	if err := json.Unmarshal(kab, ka); err != nil {
		return nil, err
	}

	vm := did.NewVerificationMethodFromBytes(id+"#key-1", "Ed25519VerificationKey2018", id, pub)
	kavm := did.NewVerificationMethodFromBytes(id+"#key-2", "X25519KeyAgreementKey2019", id, ka.X)
	doc := &did.Doc{
		Context:            []string{"https://www.w3.org/ns/did/v1"},
		ID:                 id,
		VerificationMethod: []did.VerificationMethod{*vm, *kavm},
		Authentication:     []did.Verification{{VerificationMethod: *vm, Relationship: did.Authentication}},
		KeyAgreement:       []did.Verification{{VerificationMethod: *kavm, Relationship: did.KeyAgreement}},
		Service: []did.Service{{ID: id + "#didcomm", Type: "DIDCommMessaging", Priority: 0, RecipientKeys: []string{id + "#key-2"},
			ServiceEndpoint: commonmodel.NewDIDCommV2Endpoint([]commonmodel.DIDCommV2Endpoint{{URI: a.Endpoint, Accept: []string{"didcomm/v2"}}})}},
	}

	_, err = a.net.pub.Create(doc)

	return doc, err
}

type pingSvc struct{ a *Agent }

func (p *pingSvc) Name() string                           { return "c10ping" }
func (p *pingSvc) Accept(t string, purpose []string) bool { return t == basicType }
func (p *pingSvc) HandleInbound(msg service.DIDCommMsg, ctx service.DIDCommContext) (string, error) {
	p.a.mu.Lock()
	p.a.handled = append(p.a.handled, Handled{MsgID: msg.ID(), MyDID: ctx.MyDID(), TheirDID: ctx.TheirDID()})
	p.a.cond.Broadcast()
	p.a.mu.Unlock()

	return "", nil
}

// pubVDR is a stub registry for public DIDs (method c10pub) shared by the agents of one network.
type pubVDR struct {
	mu   sync.Mutex
	docs map[string]*did.Doc
}

func (v *pubVDR) Read(id string, _ ...spivdr.DIDMethodOption) (*did.DocResolution, error) {
	v.mu.Lock()
	defer v.mu.Unlock()

	if d, ok := v.docs[id]; ok {
		return &did.DocResolution{DIDDocument: d}, nil
	}

	return nil, vdrapi.ErrNotFound
}

func (v *pubVDR) Create(d *did.Doc, _ ...spivdr.DIDMethodOption) (*did.DocResolution, error) {
	v.mu.Lock()
	defer v.mu.Unlock()
	v.docs[d.ID] = d

	return &did.DocResolution{DIDDocument: d}, nil
}

func (v *pubVDR) Accept(method string, _ ...spivdr.DIDMethodOption) bool { return method == "c10pub" }
func (v *pubVDR) Update(*did.Doc, ...spivdr.DIDMethodOption) error {
	return errors.New("not supported")
}
func (v *pubVDR) Deactivate(string, ...spivdr.DIDMethodOption) error {
	return errors.New("not supported")
}
func (v *pubVDR) Close() error { return nil }

// PublishDID makes a public DID for the agent: a key of its own KMS, its endpoint.
func (a *Agent) PublishDID(id string) (*did.Doc, error) {
	_, pub, err := a.ctx.KMS().CreateAndExportPubKeyBytes(kms.ED25519Type)
	if err != nil {
		return nil, err
	}

	dk, _ := fingerprint.CreateDIDKey(pub)
	vm := did.NewVerificationMethodFromBytes(id+"#key-1", "Ed25519VerificationKey2018", id, pub)
	doc := &did.Doc{
		Context:            []string{"https://www.w3.org/ns/did/v1"},
		ID:                 id,
		VerificationMethod: []did.VerificationMethod{*vm},
		Authentication:     []did.Verification{{VerificationMethod: *vm, Relationship: did.Authentication}},
		Service: []did.Service{{ID: id + "#didcomm", Type: "did-communication", Priority: 0, RecipientKeys: []string{dk},
			ServiceEndpoint: commonmodel.NewDIDCommV1Endpoint(a.Endpoint)}},
	}

	_, err = a.net.pub.Create(doc)

	return doc, err
}

// NewAgent starts a framework on the network.
func NewAgent(n *Net, name string, cfg Config) (*Agent, error) {
	a := &Agent{Name: name, Endpoint: scheme + name, net: n, cfg: cfg}
	a.cond = sync.NewCond(&a.mu)

	a.putDIDs, a.putKeys = map[string]bool{}, map[string]bool{}
	rec := hx.NewRecProvider(mem.NewProvider())
	rec.Record = false
	rec.Before = func(c *hx.Call) error {
		if c.Op == "Put" && (c.Store == "peer" || c.Store == "didconnection") {
			a.mu.Lock()
			if c.Store == "peer" {
				a.putDIDs[c.Key] = true
			} else {
				a.putKeys[c.Key] = true
			}
			a.mu.Unlock()
		}

		return nil
	}

	// the two persisted stores of the agent: they outlive the framework instance (Close is a no-op)
	a.mainStore, a.stateStore = &keepProvider{rec}, &keepProvider{mem.NewProvider()}

	a.reg = msghandler.NewRegistrar()
	if err := a.reg.Register(&pingSvc{a}); err != nil {
		return nil, err
	}

	if err := a.build(); err != nil {
		return nil, err
	}

	n.mu.Lock()
	n.agents[a.Endpoint] = a
	n.mu.Unlock()

	return a, nil
}

// keepProvider keeps the data when the framework closes its providers (mem drops a store on Close).
type keepProvider struct{ storage.Provider }

func (k *keepProvider) Close() error { return nil }
func (k *keepProvider) OpenStore(name string) (storage.Store, error) {
	st, err := k.Provider.OpenStore(name)
	if err != nil {
		return nil, err
	}

	return &keepStore{st}, nil
}

type keepStore struct{ storage.Store }

func (k *keepStore) Close() error { return nil }

// Restart stops the framework instance and starts a new one (new VDR, KMS handle, services, dispatchers) over the
// same persisted stores.
func (a *Agent) Restart() error {
	_ = a.fw.Close()

	return a.build()
}

// build starts a framework instance over the agent's stores.
func (a *Agent) build() error {
	n, cfg := a.net, a.cfg
	inbound := &memInbound{endpoint: a.Endpoint}

	opts := []aries.Option{
		aries.WithStoreProvider(a.mainStore),
		aries.WithProtocolStateStoreProvider(a.stateStore),
		aries.WithInboundTransport(inbound),
		aries.WithOutboundTransports(&memOutbound{net: n, from: a.Name}),
		aries.WithMessageServiceProvider(a.reg),
		aries.WithVDR(n.pub),
		aries.WithProtocols(ariesapi.ProtocolSvcCreator{Create: func(ariesapi.Provider) (dispatcher.ProtocolService, error) {
			return &ping2Svc{a}, nil
		}}),
	}

	if cfg.KeyType != "" {
		opts = append(opts, aries.WithKeyType(kms.KeyType(cfg.KeyType)))
	}

	if cfg.KAType != "" {
		opts = append(opts, aries.WithKeyAgreementType(kms.KeyType(cfg.KAType)))
	}

	if cfg.Profile != "" {
		opts = append(opts, aries.WithMediaTypeProfiles([]string{cfg.Profile}))
	}

	fw, err := aries.New(opts...)
	if err != nil {
		return fmt.Errorf("aries.New: %w", err)
	}

	ctx, err := fw.Context()
	if err != nil {
		return err
	}

	dx, err := dxclient.New(ctx)
	if err != nil {
		return err
	}

	lc, err := lcclient.New(ctx)
	if err != nil {
		return err
	}

	oob, err := oobclient.New(ctx)
	if err != nil {
		return err
	}

	oob2, err := oob2client.New(ctx)
	if err != nil {
		return err
	}

	lookup, err := connection.NewLookup(ctx)
	if err != nil {
		return err
	}

	// auto-accept, and record the announced states
	for _, c := range []interface {
		RegisterActionEvent(chan<- service.DIDCommAction) error
		RegisterMsgEvent(chan<- service.StateMsg) error
	}{dx, lc} {
		act := make(chan service.DIDCommAction, 64)
		if err = c.RegisterActionEvent(act); err != nil {
			return err
		}

		go func() {
			for e := range act {
				e.Continue(&contOpts{a})

				thid := ""
				if e.Message != nil {
					thid, _ = e.Message.ThreadID()
				}

				a.mu.Lock()
				if a.continued == nil {
					a.continued = map[string]int{}
				}

				a.continued[thid]++
				a.cond.Broadcast()
				a.mu.Unlock()
			}
		}()

		st := make(chan service.StateMsg, 256)
		if err = c.RegisterMsgEvent(st); err != nil {
			return err
		}

		if _, isLC := c.(*lcclient.Client); isLC {
			a.mu.Lock()
			a.lcEvents = st
			a.mu.Unlock()
		}

		go a.listen(st)
	}

	n.mu.Lock()
	a.fw, a.ctx, a.dx, a.lc, a.oob, a.oob2, a.lookup, a.inbound = fw, ctx, dx, lc, oob, oob2, lookup, inbound
	n.mu.Unlock()

	return nil
}

type connEvent interface {
	ConnectionID() string
}

func (a *Agent) listen(ch chan service.StateMsg) {
	for e := range ch {
		if e.ProtocolName == sentinelProto {
			a.mu.Lock()
			a.sentinels++
			a.cond.Broadcast()
			a.mu.Unlock()

			continue
		}

		ev := StateEv{Proto: e.ProtocolName, State: e.StateID, Post: e.Type == service.PostState}
		if p, ok := e.Properties.(connEvent); ok {
			ev.ConnID = p.ConnectionID()
		}

		if e.Msg != nil {
			ev.Thid, _ = e.Msg.ThreadID()
		}

		if p, ok := e.Properties.(error); ok {
			ev.Err = p.Error()

			if verbose {
				fmt.Printf("[event %s %s %s] %s\n", a.Name, e.StateID, ev.Thid, ev.Err)
			}
		}

		a.mu.Lock()
		a.states = append(a.states, ev)
		a.cond.Broadcast()
		a.mu.Unlock()
	}
}

const sentinelProto = "c10-sentinel"

// lcSettled returns once the legacy service has finished the callback of a request the harness continued and every
// state event it posted on the way has reached the agent's event log.  The legacy service has no abandoned state: an
// error while answering a request is dropped by its listener without any event, so the events alone cannot tell.
// (VerifBarrier: the add-only hook of the state machine check, pushes no-op messages through the listener's channel.)
func (a *Agent) lcSettled() {
	for _, s := range a.ctx.AllServices() {
		if s.Name() == "legacyconnection" {
			if b, ok := s.(interface{ VerifBarrier() }); ok {
				b.VerifBarrier()
			}
		}
	}

	a.mu.Lock()
	ch, n0 := a.lcEvents, a.sentinels
	a.mu.Unlock()

	if ch == nil {
		return
	}

	ch <- service.StateMsg{ProtocolName: sentinelProto}

	a.waitFor(settle, func() bool { return a.sentinels > n0 })
}

func (a *Agent) contCount(thid string) int {
	a.mu.Lock()
	defer a.mu.Unlock()

	return a.continued[thid]
}

func (a *Agent) noteInbound(p *Packet) {
	a.mu.Lock()
	a.inLog = append(a.inLog, p)
	a.mu.Unlock()
}

// Close stops the framework.
func (a *Agent) Close() {
	a.net.mu.Lock()
	delete(a.net.agents, a.Endpoint)
	a.net.mu.Unlock()
	_ = a.fw.Close()
}

// WaitState waits until connection id announced post-state st (true) or the deadline passed (false).
func (a *Agent) WaitState(connID, st string, d time.Duration) bool {
	return a.waitFor(d, func() bool {
		for _, e := range a.states {
			if e.Post && e.ConnID == connID && e.State == st {
				return true
			}
		}

		return false
	})
}

// waitFor waits until pred (evaluated under the agent lock) holds.
func (a *Agent) waitFor(d time.Duration, pred func() bool) bool {
	deadline := time.Now().Add(d)

	a.mu.Lock()
	defer a.mu.Unlock()

	for !pred() {
		if time.Now().After(deadline) {
			return false
		}

		waitCond(a.cond, 20*time.Millisecond)
	}

	return true
}

// StatesOf is the announced post-state sequence of a connection.
func (a *Agent) StatesOf(connID string) []string {
	a.mu.Lock()
	defer a.mu.Unlock()

	var out []string

	for _, e := range a.states {
		if e.Post && e.ConnID == connID {
			out = append(out, e.State)
		}
	}

	return out
}

// Rec is the projection of a connection record.
type Rec struct {
	ConnID   string `json:"id"`
	State    string `json:"state"`
	MyDID    string `json:"my"`
	TheirDID string `json:"their"`
	ThreadID string `json:"thid"`
	NS       string `json:"ns"`
}

// Record reads a connection record (nil if absent).
func (a *Agent) Record(connID string) *Rec {
	r, err := a.lookup.GetConnectionRecord(connID)
	if err != nil {
		return nil
	}

	return &Rec{ConnID: r.ConnectionID, State: r.State, MyDID: r.MyDID, TheirDID: r.TheirDID, ThreadID: r.ThreadID, NS: r.Namespace}
}

// AllRecords lists the records of the agent sorted by id.
func (a *Agent) AllRecords() []*Rec {
	rs, err := a.lookup.QueryConnectionRecords()
	if err != nil {
		return nil
	}

	var out []*Rec

	for _, r := range rs {
		out = append(out, &Rec{ConnID: r.ConnectionID, State: r.State, MyDID: r.MyDID, TheirDID: r.TheirDID, ThreadID: r.ThreadID, NS: r.Namespace})
	}

	sort.Slice(out, func(i, j int) bool { return out[i].ConnID < out[j].ConnID })

	return out
}

// Res is what a DID resolves to at an agent: the didcomm destination (recipient keys, endpoint) plus the
// verification and key agreement material.
type Res struct {
	OK       bool     `json:"ok"`
	Endpoint string   `json:"ep"`
	RecKeys  []string `json:"rk"`
	Keys     []string `json:"keys"`
	Routing  []string `json:"routing"`
	Digest   string   `json:"digest"` // of everything else the document says (service type, priority, accept, relationships)
}

func (r Res) String() string {
	if !r.OK {
		return "unresolved"
	}

	return r.Endpoint + "|" + strings.Join(r.RecKeys, ",") + "|" + strings.Join(r.Keys, ",") + "|" + strings.Join(r.Routing, ",") + "|" + r.Digest
}

// Resolve resolves a DID through the agent's VDR registry.
func (a *Agent) Resolve(id string) Res {
	dr, err := a.ctx.VDRegistry().Resolve(id)
	if err != nil || dr == nil || dr.DIDDocument == nil {
		return Res{}
	}

	return fullRes(dr.DIDDocument)
}

func docRes(doc *did.Doc) Res {
	out := Res{OK: true}

	if dest, err := service.CreateDestination(doc); err == nil {
		out.Endpoint, _ = dest.ServiceEndpoint.URI()
		out.RecKeys = append(out.RecKeys, dest.RecipientKeys...)
		out.Routing = append(out.Routing, dest.RoutingKeys...)

		if rk, e := dest.ServiceEndpoint.RoutingKeys(); e == nil {
			out.Routing = append(out.Routing, rk...)
		}
	}

	for i := range doc.VerificationMethod {
		out.Keys = append(out.Keys, fmt.Sprintf("%x", doc.VerificationMethod[i].Value))
	}

	for i := range doc.KeyAgreement {
		out.Keys = append(out.Keys, fmt.Sprintf("ka:%x", doc.KeyAgreement[i].VerificationMethod.Value))
	}

	return out
}

// isV2 tells whether the profile is a DIDComm v2 profile.
func isV2(p string) bool {
	return p == transport.MediaTypeDIDCommV2Profile || p == transport.MediaTypeAIP2RFC0587Profile
}

// countEventsLocked counts the post-state events responded/abandoned announced for a thread (agent lock held).
func (a *Agent) countEventsLocked(thid string) int {
	n := 0

	for _, e := range a.states {
		if e.Post && e.Thid == thid && (e.State == "responded" || e.State == "abandoned") {
			n++
		}
	}

	return n
}

func (a *Agent) countEvents(thid string) int {
	a.mu.Lock()
	defer a.mu.Unlock()

	return a.countEventsLocked(thid)
}

// coqPaths prints, per connection, the announced post-states ordered by protocol rank (the order in which the
// events of one step reach a listener is not fixed), abandoned last.
func (a *Agent) coqPaths() []string {
	a.mu.Lock()
	defer a.mu.Unlock()

	rank := map[string]int{"invited": 1, "requested": 2, "responded": 3, "completed": 4, "abandoned": 5}
	by := map[string][]string{}

	var order []string

	for _, e := range a.states {
		if !e.Post || e.ConnID == "" {
			continue
		}

		if _, ok := by[e.ConnID]; !ok {
			order = append(order, e.ConnID)
		}

		by[e.ConnID] = append(by[e.ConnID], e.State)
	}

	var out []string

	for _, c := range order {
		l := by[c]
		sort.SliceStable(l, func(i, j int) bool { return rank[l[i]] < rank[l[j]] })

		terms := make([]string, len(l))
		for i, s := range l {
			terms[i] = stOf(s)
		}

		out = append(out, "["+strings.Join(terms, "; ")+"]")
	}

	return out
}

// contOpts are the arguments the agent's application continues connection protocol actions with.
type contOpts struct{ a *Agent }

func (c *contOpts) PublicDID() string { return "" }
func (c *contOpts) Label() string     { return c.a.Name }
func (c *contOpts) RouterConnections() []string {
	c.a.mu.Lock()
	defer c.a.mu.Unlock()

	return append([]string{}, c.a.routerConns...)
}
